package jsondb
import ("fmt";"testing";"github.com/BlackVectorOps/semantic_firewall/v3/pkg/detection")
func TestProbeBatchGet(t *testing.T) {
	s := NewScanner()
	err := s.AddSignatures([]detection.Signature{{ID:"A",TopologyHash:"h"},{ID:"B",TopologyHash:"h2"}})
	g, gerr := s.GetSignature("A")
	fmt.Println("JSONDB batch add then get:", err, g, gerr)
}
