package pebbledb
import ("fmt";"os";"path/filepath";"testing")
func TestProbePaths(t *testing.T) {
	opts := DefaultPebbleScannerOptions(); opts.ReadOnly = true
	try := func(label, p string) {
		_, err := NewPebbleScanner(p, opts)
		fmt.Printf("C20 %-28s %-40s -> %v\n", label, p, err)
	}
	try("abs inside", "/etc/sfwprobe.db")
	try("abs existing inside", "/etc/passwd")
	cwd, _ := os.Getwd()
	rel, _ := filepath.Rel(cwd, "/etc/passwd")
	try("relative existing inside", rel)
	rel2, _ := filepath.Rel(cwd, "/etc/nonexist.db")
	try("relative missing inside", rel2)
	d := t.TempDir()
	os.Symlink("/etc", filepath.Join(d, "lnk"))
	try("symlink leaf to dir", filepath.Join(d, "lnk"))
	try("symlinked parent, missing leaf", filepath.Join(d, "lnk", "new.db"))
	try("symlinked parent, existing leaf", filepath.Join(d, "lnk", "passwd"))
	os.MkdirAll("/tmp/zzz_etcetera", 0755)
	try("outside lookalike /etcetera", "/etcetera/x.db")
	try("outside lookalike /rootfs", "/rootfs/x.db")
	try("outside lookalike /usrlocal", "/usrlocal/x.db")
	try("outside normal", filepath.Join(d, "x.db"))
}
