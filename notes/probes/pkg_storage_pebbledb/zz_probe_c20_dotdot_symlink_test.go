package pebbledb

import (
	"os"
	"path/filepath"
	"strings"
	"testing"
)

// link -> /etc/ssl ; the spelling link/../nonexistent-sfw-db denotes /etc/nonexistent-sfw-db for the kernel.
func TestProbeC20DotDotThroughSymlink(t *testing.T) {
	if _, err := os.Stat("/etc/ssl"); err != nil {
		t.Skip("no /etc/ssl")
	}
	dir := t.TempDir()
	if err := os.Symlink("/etc/ssl", filepath.Join(dir, "link")); err != nil {
		t.Fatal(err)
	}
	spelled := filepath.Join(dir, "link") + "/../nonexistent-sfw-db"
	// what the kernel makes of the spelling's parent
	real, _ := filepath.EvalSymlinks(filepath.Join(dir, "link") + "/..")
	t.Logf("kernel resolves the parent to %s", real)
	opts := DefaultPebbleScannerOptions()
	opts.ReadOnly = true
	_, err := NewPebbleScanner(spelled, opts)
	if err == nil || !strings.Contains(err.Error(), "security violation") {
		t.Errorf("a database spelled %q (which the kernel places in %s) is not refused: %v", spelled, real, err)
	}
}
