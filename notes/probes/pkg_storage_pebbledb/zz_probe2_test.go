package pebbledb
import ("fmt";"testing";"github.com/BlackVectorOps/semantic_firewall/v3/pkg/detection")
func TestProbe2KeyAmbiguity(t *testing.T) {
	s, err := NewPebbleScanner(t.TempDir()+"/db", DefaultPebbleScannerOptions())
	if err != nil { t.Fatal(err) }
	defer s.Close()
	s.AddSignature(&detection.Signature{ID:"b:c", TopologyHash:"a", Name:"first"})
	s.AddSignature(&detection.Signature{ID:"c", TopologyHash:"a:b", Name:"second"})
	g, e := s.GetSignatureByTopology("a")
	fmt.Printf("KEYAMB lookup a -> %+v %v\n", g, e)
	st, _ := s.Stats()
	fmt.Printf("KEYAMB stats %+v\n", st)
}
