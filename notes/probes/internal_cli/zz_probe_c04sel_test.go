package cli

import (
	"os"
	"path/filepath"
	"testing"
)

func wr(t *testing.T, src string) string {
	dir := t.TempDir()
	os.WriteFile(filepath.Join(dir, "go.mod"), []byte("module testmod\n\ngo 1.23\n"), 0644)
	p := filepath.Join(dir, "f.go")
	os.WriteFile(p, []byte(src), 0644)
	return p
}

func TestProbeC04Select(t *testing.T) {
	out, err := ComputeDiff(RealFileSystem{}, wr(t, "package main\nfunc F(a, b chan int) int { select { case <-a: return 1; case <-b: return 2 } }\n"),
		wr(t, "package main\nfunc F(a, b chan int) int { select { case <-b: return 1; case <-a: return 2 } }\n"))
	if err != nil {
		t.Fatal(err)
	}
	for _, f := range out.Functions {
		t.Logf("%s status=%s", f.Function, f.Status)
		if f.Status == "preserved" {
			t.Errorf("behaviour change reported preserved: %s", f.Function)
		}
	}
}
