package cli

import (
	"fmt"
	"os"
	"path/filepath"
	"testing"
)

func TestProbe3Broken(t *testing.T) {
	dir := t.TempDir()
	os.WriteFile(filepath.Join(dir, "go.mod"), []byte("module probe\n\ngo 1.24\n"), 0644)
	f := filepath.Join(dir, "a.go")
	os.WriteFile(f, []byte("package a\nfunc F() int { return \"x\" }\nfunc G() int { return 1 }\n"), 0644)
	g := filepath.Join(dir, "b.go")
	os.WriteFile(g, []byte("package a\nfunc H( { \n"), 0644)
	res, hasErr, err := ProcessFilesParallel(RealFileSystem{}, []string{f, g}, true, nil)
	fmt.Printf("BROKEN res=%+v hasErr=%v err=%v\n", res, hasErr, err)
}
