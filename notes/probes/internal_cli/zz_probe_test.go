package cli

import (
	"fmt"
	"os"
	"path/filepath"
	"strings"
	"testing"
	"encoding/json"
)

func TestProbeDiffOrder(t *testing.T) {
	dir := t.TempDir()
	os.WriteFile(filepath.Join(dir, "go.mod"), []byte("module probe\n\ngo 1.24\n"), 0644)
	od := filepath.Join(dir, "o"); nd := filepath.Join(dir, "n")
	os.MkdirAll(od, 0755); os.MkdirAll(nd, 0755)
	var sb, sb2 strings.Builder
	sb.WriteString("package o\n"); sb2.WriteString("package n\n")
	for i := 0; i < 8; i++ {
		fmt.Fprintf(&sb, "func F%d(x int) int { return x + %d }\n", i, i)
		fmt.Fprintf(&sb2, "func F%d(x int) int { return x + %d }\n", i, i)
	}
	// renamed candidates with identical shape
	for i := 0; i < 4; i++ {
		fmt.Fprintf(&sb, "func Old%d(x int) int { if x > 0 { return x * 3 }; return 0 }\n", i)
		fmt.Fprintf(&sb2, "func New%d(x int) int { if x > 0 { return x * 3 }; return 0 }\n", i)
	}
	os.WriteFile(filepath.Join(od, "a.go"), []byte(sb.String()), 0644)
	os.WriteFile(filepath.Join(nd, "a.go"), []byte(sb2.String()), 0644)
	seen := map[string]int{}
	for r := 0; r < 12; r++ {
		out, err := ComputeDiff(RealFileSystem{}, filepath.Join(od, "a.go"), filepath.Join(nd, "a.go"))
		if err != nil { t.Fatal(err) }
		var names []string
		for _, f := range out.Functions { names = append(names, f.Function) }
		b, _ := json.Marshal(names)
		seen[string(b)]++
	}
	fmt.Println("DIFF distinct orderings over 12 runs:", len(seen))
	for k := range seen { fmt.Println(k); }
}

type panicFS struct{ RealFileSystem }
func (p panicFS) ReadFile(name string) ([]byte, error) { panic("boom") }

func TestProbeRecover(t *testing.T) {
	dir := t.TempDir()
	f := filepath.Join(dir, "a.go")
	os.WriteFile(f, []byte("package a\n"), 0644)
	res, hasErr, err := ProcessFilesParallel(panicFS{}, []string{f}, true, nil)
	fmt.Printf("RECOVER res=%+v hasErr=%v err=%v\n", res, hasErr, err)
}
