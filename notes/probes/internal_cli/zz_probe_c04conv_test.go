package cli

import (
	"os"
	"path/filepath"
	"testing"
)

const c04src = `package main

func helper(x int) int { return x * 2 }

func F(a int) int { return helper(a) + 1 }
`

func TestProbeC04ConverseSameModule(t *testing.T) {
	root := t.TempDir()
	os.WriteFile(filepath.Join(root, "go.mod"), []byte("module testmod\n\ngo 1.23\n"), 0644)
	os.MkdirAll(filepath.Join(root, "a"), 0755)
	os.MkdirAll(filepath.Join(root, "b"), 0755)
	pa, pb := filepath.Join(root, "a", "f.go"), filepath.Join(root, "b", "f.go")
	os.WriteFile(pa, []byte(c04src), 0644)
	os.WriteFile(pb, []byte(c04src), 0644)
	out, err := ComputeDiff(RealFileSystem{}, pa, pb)
	if err != nil {
		t.Fatal(err)
	}
	for _, f := range out.Functions {
		t.Logf("%s status=%s added=%v removed=%v", f.Function, f.Status, f.AddedOps, f.RemovedOps)
		if f.Status != "preserved" {
			t.Errorf("identical copy reported %s: %s", f.Status, f.Function)
		}
	}
}
