package diff

import (
	"fmt"
	"testing"

	"github.com/BlackVectorOps/semantic_firewall/v3/pkg/analysis/ir"
)

func TestProbe7FreeVar(t *testing.T) {
	a := fp(t, `package probe
func F(x int8) func() int { return func() int { return int(x + x) } }
`, ir.DefaultLiteralPolicy)
	b := fp(t, `package probe
func F(x int16) func() int { return func() int { return int(x + x) } }
`, ir.DefaultLiteralPolicy)
	fmt.Println("FREEVAR anon same:", a["F$1"].Fingerprint == b["F$1"].Fingerprint, "parent same:", a["F"].Fingerprint == b["F"].Fingerprint)
	fmt.Println(a["F$1"].CanonicalIR)
}
