package diff

import (
	"fmt"
	"testing"

	"github.com/BlackVectorOps/semantic_firewall/v3/pkg/analysis/ir"
)

func TestProbe6DeferInvoke(t *testing.T) {
	a := fp(t, `package probe
func F(w interface{ Close(); Flush() }) { defer w.Close() }
func G(w interface{ Close(); Flush() }) { go w.Close() }
`, ir.DefaultLiteralPolicy)
	b := fp(t, `package probe
func F(w interface{ Close(); Flush() }) { defer w.Flush() }
func G(w interface{ Close(); Flush() }) { go w.Flush() }
`, ir.DefaultLiteralPolicy)
	for _, n := range []string{"F", "G"} {
		z, _ := NewZipper(a[n].GetSSAFunction(), b[n].GetSSAFunction(), ir.DefaultLiteralPolicy)
		art, err := z.ComputeDiff()
		if err != nil { fmt.Println("DEFERINVOKE", n, "err", err); continue }
		fmt.Println("DEFERINVOKE", n, "fp equal:", a[n].Fingerprint == b[n].Fingerprint, "zipper preserved:", art.Preserved, art.Added, art.Removed)
	}
}
