package diff

import (
	"fmt"
	"testing"

	"github.com/BlackVectorOps/semantic_firewall/v3/pkg/analysis/ir"
)

func TestProbe2RangeFunc(t *testing.T) {
	a := fp(t, `package probe
import "iter"
func F(seq iter.Seq[int]) int { s := 0; for x := range seq { s += x }; return s }
`, ir.KeepAllLiteralsPolicy)
	b := fp(t, `package probe
import "iter"
func F(seq iter.Seq[int]) int { s := 0; for x := range seq { s -= x * 7 }; return s }
`, ir.KeepAllLiteralsPolicy)
	fmt.Println("RANGEFUNC results:", len(a), len(b))
	for k, v := range a { fmt.Println("a:", k, v.Fingerprint == b[k].Fingerprint) }
	fmt.Println(a["F"].CanonicalIR)
}

func TestProbe2ConstType(t *testing.T) {
	a := fp(t, `package probe
func F(c bool) int { var x uint8 = 10; if c { x = 5 }; return int(x - 11) }
func G() any { return int64(1) }
func R(n int) int { if n <= 1 { return 1 }; return n * R(n-1) }
`, ir.DefaultLiteralPolicy)
	b := fp(t, `package probe
func F(c bool) int { var x int8 = 10; if c { x = 5 }; return int(x - 11) }
func G() any { return int32(1) }
func R2(n int) int { if n <= 1 { return 1 }; return n * R2(n-1) }
`, ir.DefaultLiteralPolicy)
	fmt.Println("CONSTTYPE F same:", a["F"].Fingerprint == b["F"].Fingerprint)
	fmt.Println("CONSTTYPE G same:", a["G"].Fingerprint == b["G"].Fingerprint)
	fmt.Println("RECURSION rename same:", a["R"].Fingerprint == b["R2"].Fingerprint)
	fmt.Println(a["F"].CanonicalIR); fmt.Println(a["G"].CanonicalIR)
}
