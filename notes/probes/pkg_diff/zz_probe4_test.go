package diff

import (
	"fmt"
	"strings"
	"testing"

	"github.com/BlackVectorOps/semantic_firewall/v3/pkg/analysis/ir"
)

func TestProbe4Select(t *testing.T) {
	a := fp(t, `package probe
func F(a, b chan int) int { select { case <-a: return 1; case <-b: return 2 } }
`, ir.KeepAllLiteralsPolicy)
	b := fp(t, `package probe
func F(a, b chan int) int { select { case <-b: return 1; case <-a: return 2 } }
`, ir.KeepAllLiteralsPolicy)
	fmt.Println("SELECT collide:", a["F"].Fingerprint == b["F"].Fingerprint)
	fmt.Println(a["F"].CanonicalIR)
	fmt.Println(b["F"].CanonicalIR)
}

func TestProbe4Oversized(t *testing.T) {
	var sb strings.Builder
	mk := func(k int) string {
		sb.Reset()
		sb.WriteString("package probe\nfunc F(x int) int {\n s := 0\n")
		for i := 0; i < 2600; i++ { fmt.Fprintf(&sb, " if x > %d { s += %d }\n", i, k) }
		sb.WriteString(" return s\n}\n")
		return sb.String()
	}
	a := fp(t, mk(1), ir.DefaultLiteralPolicy)
	b := fp(t, mk(2), ir.DefaultLiteralPolicy)
	fmt.Println("OVERSIZED:", a["F"].Fingerprint, b["F"].Fingerprint, len(a["F"].GetSSAFunction().Blocks))
}
