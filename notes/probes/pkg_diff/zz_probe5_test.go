package diff

import (
	"fmt"
	"strings"
	"testing"
	"time"

	"github.com/BlackVectorOps/semantic_firewall/v3/pkg/analysis/ir"
)

func TestProbe5DAG(t *testing.T) {
	for _, d := range []int{8, 16, 22, 40, 90} {
		var sb strings.Builder
		sb.WriteString("package probe\nfunc F(n, m int) int {\n s0 := n + n\n")
		for i := 1; i <= d; i++ { fmt.Fprintf(&sb, " s%d := s%d + s%d\n", i, i-1, i-1) }
		fmt.Fprintf(&sb, " t := 0\n for i := s%d; i < m; i++ { t += i }\n return t\n}\n", d)
		t0 := time.Now()
		a := fp(t, sb.String(), ir.KeepAllLiteralsPolicy)
		fmt.Printf("DAG depth=%d IRlen=%d time=%v\n", d, len(a["F"].CanonicalIR), time.Since(t0))
	}
}
