package diff

import (
	"fmt"
	"os"
	"path/filepath"
	"testing"

	"github.com/BlackVectorOps/semantic_firewall/v3/pkg/analysis/ir"
)

func fp(t *testing.T, src string, pol ir.LiteralPolicy) map[string]FingerprintResult {
	dir := t.TempDir()
	os.WriteFile(filepath.Join(dir, "go.mod"), []byte("module probe\n\ngo 1.24\n"), 0644)
	f := filepath.Join(dir, "a.go")
	os.WriteFile(f, []byte(src), 0644)
	rs, err := FingerprintSource(f, src, pol)
	if err != nil {
		t.Fatal(err)
	}
	m := map[string]FingerprintResult{}
	for _, r := range rs {
		m[ShortFuncName(r.FunctionName)] = r
	}
	return m
}

func TestProbeFuncRef(t *testing.T) {
	a := fp(t, `package probe
import "crypto/rand"
func F(b []byte) (int, error) { return rand.Read(b) }
`, ir.KeepAllLiteralsPolicy)
	b := fp(t, `package probe
import "math/rand"
func F(b []byte) (int, error) { return rand.Read(b) }
`, ir.KeepAllLiteralsPolicy)
	fmt.Println("FUNCREF same fingerprint:", a["F"].Fingerprint == b["F"].Fingerprint)
	fmt.Println(a["F"].CanonicalIR)
	fmt.Println(b["F"].CanonicalIR)
}

func TestProbeTrip(t *testing.T) {
	a := fp(t, `package probe
func F(n int) int { s := 0; i := 0; for { if i >= 10 { break }; s += i; i++ }; return s }
func G(n int) int { s := 0; for i := 0; i < 10; i++ { s += i }; return s }
func H(n int) int { s := 0; i := 0; for { if i >= n { break }; s += i; i++ }; return s }
func K(n int) int { s := 0; for i := 0; i < n; i++ { s += i }; return s }
`, ir.KeepAllLiteralsPolicy)
	for _, k := range []string{"F", "G", "H", "K"} {
		fmt.Println("----", k)
		fmt.Println(a[k].CanonicalIR)
	}
}

func TestProbeZipperSwap(t *testing.T) {
	a := fp(t, `package probe
func F(c bool, x int) int { if c { return x + 1 }; return x * 2 }
`, ir.DefaultLiteralPolicy)
	b := fp(t, `package probe
func F(c bool, x int) int { if c { return x * 2 }; return x + 1 }
`, ir.DefaultLiteralPolicy)
	fmt.Println("fp equal:", a["F"].Fingerprint == b["F"].Fingerprint)
	z, _ := NewZipper(a["F"].GetSSAFunction(), b["F"].GetSSAFunction(), ir.DefaultLiteralPolicy)
	art, err := z.ComputeDiff()
	fmt.Println("ZIPPER swapped branches preserved:", art.Preserved, err, art.Added, art.Removed)
}
