package diff

import (
	"strings"
	"testing"

	"github.com/BlackVectorOps/semantic_firewall/v3/pkg/analysis/ir"
)

func fpOf(t *testing.T, src string) string {
	res, err := FingerprintSource(t.TempDir()+"/p.go", src, ir.DefaultLiteralPolicy)
	if err != nil {
		t.Fatal(err)
	}
	for _, r := range res {
		if strings.HasSuffix(r.FunctionName, "F") {
			return r.Fingerprint + "\n" + r.CanonicalIR
		}
	}
	return ""
}

func TestProbeBoundLiteral(t *testing.T) {
	a := fpOf(t, "package p\nfunc F(xs []int) int { s := 0; for i := 0; i < 1000; i++ { s += i }; return s }")
	b := fpOf(t, "package p\nfunc F(xs []int) int { s := 0; for i := 0; i < 2000; i++ { s += i }; return s }")
	if a != b {
		t.Errorf("large literal in loop bound changes fingerprint:\n%s\n---\n%s", a, b)
	}
	c := fpOf(t, "package p\nfunc F(xs []int) int { s := 0; for i := 100; i < len(xs); i++ { s += i }; return s }")
	d := fpOf(t, "package p\nfunc F(xs []int) int { s := 0; for i := 200; i < len(xs); i++ { s += i }; return s }")
	if c != d {
		t.Errorf("large literal as loop start changes fingerprint:\n%s\n---\n%s", c, d)
	}
}
