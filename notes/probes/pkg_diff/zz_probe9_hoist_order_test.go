package diff

import (
	"strings"
	"testing"

	"github.com/BlackVectorOps/semantic_firewall/v3/pkg/analysis/ir"
)

func fp9(t *testing.T, src string) (string, string) {
	res, err := FingerprintSource(t.TempDir()+"/p.go", src, ir.KeepAllLiteralsPolicy)
	if err != nil {
		t.Fatal(err)
	}
	for _, r := range res {
		if strings.HasSuffix(r.FunctionName, "F") {
			return r.Fingerprint, r.CanonicalIR
		}
	}
	return "", ""
}

func TestProbe9HoistOrderUnderSwap(t *testing.T) {
	a, ia := fp9(t, `package p
func F(s, u []int, a, b, n int) int {
	x := 0
	for i := 0; i < n; i++ {
		if a >= b {
			x += len(s)
		} else {
			x -= cap(u)
		}
	}
	return x
}`)
	b, ib := fp9(t, `package p
func F(s, u []int, a, b, n int) int {
	x := 0
	for i := 0; i < n; i++ {
		if a < b {
			x -= cap(u)
		} else {
			x += len(s)
		}
	}
	return x
}`)
	if a != b {
		t.Errorf("exchanged branches change the fingerprint:\n%s\n---\n%s", ia, ib)
	}
}
