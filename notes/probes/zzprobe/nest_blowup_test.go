package zzprobe

import (
	"fmt"
	"strings"
	"testing"
	"time"

	"github.com/BlackVectorOps/semantic_firewall/v3/pkg/analysis/ir"
	"github.com/BlackVectorOps/semantic_firewall/v3/pkg/diff"
)

func gen(depth, fan int) string {
	var sb strings.Builder
	sb.WriteString("package p\nfunc F(n int) int {\n s := 0\n")
	prev := "n"
	for d := 0; d < depth; d++ {
		v := fmt.Sprintf("v%d", d)
		start := prev
		for k := 1; k < fan; k++ {
			start += "+" + prev
		}
		sb.WriteString(fmt.Sprintf("for %s := %s; %s < 1000000; %s++ {\n", v, start, v, v))
		prev = v
	}
	sb.WriteString("s += " + prev + "\n")
	for d := 0; d < depth; d++ {
		sb.WriteString("}\n")
	}
	sb.WriteString("return s\n}\n")
	return sb.String()
}

func TestProbeNest(t *testing.T) {
	for _, d := range []int{4, 8, 12, 16, 20, 40} {
		src := gen(d, 3)
		t0 := time.Now()
		res, err := diff.FingerprintSource(t.TempDir()+"/p.go", src, ir.DefaultLiteralPolicy)
		if err != nil {
			t.Fatal(err)
		}
		n := 0
		for _, r := range res {
			n += len(r.CanonicalIR)
		}
		t.Logf("depth=%d srcLen=%d IRlen=%d time=%v", d, len(src), n, time.Since(t0))
		if time.Since(t0) > 20*time.Second {
			break
		}
	}
}
