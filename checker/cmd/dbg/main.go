package main

import (
	"fmt"
	"os"
	"strings"

	"golang.org/x/tools/go/ssa"

	"sfwverif/internal/core"
)

func main() {
	p, err := core.Load(os.Args[1], false)
	if err != nil {
		panic(err)
	}
	for _, fn := range p.Funcs {
		core.InstrsOf(fn, func(in ssa.Instruction) {
			ta, ok := in.(*ssa.TypeAssert)
			if !ok || ta.X.Type().String() != "go/types.Type" {
				return
			}
			und := true
			var os_ []string
			for _, o := range core.Origins(ta.X) {
				n := ""
				if c, ok := o.(*ssa.Call); ok {
					n = core.CalleeName(&c.Call)
				}
				if !strings.HasSuffix(n, "Underlying") {
					und = false
				}
				os_ = append(os_, core.Canon(o))
			}
			fmt.Printf("%-5v %-55s %-28s %s  <- %s\n", und, core.FuncName(fn), ta.AssertedType.String(), p.Pos(ta.Pos()), strings.Join(os_, " | "))
		})
	}
}
