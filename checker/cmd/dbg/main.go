package main

import (
	"fmt"
	"go/types"
	"os"

	"golang.org/x/tools/go/ssa"

	"sfwverif/internal/core"
)

func main() {
	p, err := core.Load(os.Args[1], false)
	if err != nil {
		panic(err)
	}
	for _, fn := range p.Funcs {
		core.InstrsOf(fn, func(in ssa.Instruction) {
			switch x := in.(type) {
			case *ssa.Range:
				if _, ok := x.X.Type().Underlying().(*types.Map); ok {
					fmt.Printf("MAPRANGE %-60s %s  over %s\n", core.FuncName(fn), p.Pos(x.Pos()), core.Canon(x.X))
				}
			case *ssa.Go:
				fmt.Printf("GO       %-60s %s\n", core.FuncName(fn), p.Pos(x.Pos()))
			case *ssa.Select:
				fmt.Printf("SELECT   %-60s %s states=%d blocking=%v\n", core.FuncName(fn), p.Pos(x.Pos()), len(x.States), x.Blocking)
			}
			if c := core.CallOf(in); c != nil {
				n := core.CalleeName(c)
				if n == "(*golang.org/x/sync/errgroup.Group).Go" {
					fmt.Printf("ERRGROUP %-60s %s\n", core.FuncName(fn), p.Pos(in.Pos()))
				}
			}
		})
	}
}
