package main

import (
	"fmt"
	"os"
	"sort"

	"golang.org/x/tools/go/ssa"

	"sfwverif/internal/core"
)

func main() {
	p, err := core.Load(os.Args[1], false)
	if err != nil {
		panic(err)
	}
	g, _ := p.CallGraph()
	// adjacency among module funcs
	adj := map[*ssa.Function][]*ssa.Function{}
	for _, fn := range p.Funcs {
		n := g.Nodes[fn]
		seen := map[*ssa.Function]bool{}
		if n != nil {
			for _, e := range n.Out {
				if p.IsProdFunc(e.Callee.Func) && !seen[e.Callee.Func] {
					seen[e.Callee.Func] = true
					adj[fn] = append(adj[fn], e.Callee.Func)
				}
			}
		}
	}
	// tarjan
	index := 0
	idx := map[*ssa.Function]int{}
	low := map[*ssa.Function]int{}
	on := map[*ssa.Function]bool{}
	var stack []*ssa.Function
	var sccs [][]*ssa.Function
	var sc func(v *ssa.Function)
	sc = func(v *ssa.Function) {
		idx[v] = index
		low[v] = index
		index++
		stack = append(stack, v)
		on[v] = true
		for _, w := range adj[v] {
			if _, ok := idx[w]; !ok {
				sc(w)
				if low[w] < low[v] {
					low[v] = low[w]
				}
			} else if on[w] && idx[w] < low[v] {
				low[v] = idx[w]
			}
		}
		if low[v] == idx[v] {
			var c []*ssa.Function
			for {
				w := stack[len(stack)-1]
				stack = stack[:len(stack)-1]
				on[w] = false
				c = append(c, w)
				if w == v {
					break
				}
			}
			self := false
			for _, w := range adj[v] {
				if w == v {
					self = true
				}
			}
			if len(c) > 1 || self {
				sccs = append(sccs, c)
			}
		}
	}
	for _, fn := range p.Funcs {
		if _, ok := idx[fn]; !ok {
			sc(fn)
		}
	}
	for _, c := range sccs {
		var names []string
		for _, f := range c {
			names = append(names, core.FuncName(f))
		}
		sort.Strings(names)
		fmt.Println(len(c), names)
	}
}
