// sfwverif is the static verifier for BlackVectorOps/semantic_firewall: it type-checks the target
// tree, builds SSA and applies the repository-specific rules of one property.
package main

import (
	"flag"
	"fmt"
	"go/token"
	"os"
	"path/filepath"
	"runtime/debug"
	"strings"

	"sfwverif/internal/core"
	"sfwverif/internal/rules"
)

func main() {
	repo := flag.String("repo", "/repo", "target repository")
	tier := flag.String("tier", "quick", "quick|thorough")
	verif := flag.String("verif", "", "verification directory (default: parent of the binary's dir)")
	flag.Parse()
	if flag.NArg() < 1 {
		fmt.Fprintf(os.Stderr, "usage: sfwverif [-repo dir] [-tier quick|thorough] <property>\nproperties: %s\n", strings.Join(rules.IDs(), " "))
		os.Exit(2)
	}
	prop := flag.Arg(0)
	if *verif == "" {
		exe, _ := os.Executable()
		*verif = filepath.Dir(filepath.Dir(exe))
	}
	if t := os.Getenv("VERIF_TIER"); t == "quick" || t == "thorough" {
		if !isFlagSet("tier") {
			*tier = t
		}
	}
	if prop == "ALL" {
		os.Exit(runAll(*tier, *repo, *verif))
	}
	os.Exit(run(prop, *tier, *repo, *verif))
}

// runAll loads the target once and applies the rules of every property (tooling only: regression over many
// variants; the registered commands always run one property per process).
func runAll(tier, repo, verif string) int {
	p, err := core.Load(repo, tier == "thorough")
	if err != nil {
		fmt.Println("LOAD-ERROR", err)
		return 2
	}
	var fired []string
	for _, id := range rules.IDs() {
		func() {
			r := core.NewRun(id, tier, verif, p)
			defer func() {
				if e := recover(); e != nil {
					r.Fail("INTERNAL", "checker-panic", token.NoPos, fmt.Sprintf("checker panicked: %v", e))
					r.Finish()
					fired = append(fired, id)
				}
			}()
			rules.Get(id)(r)
			if r.Finish() != 0 {
				fired = append(fired, id)
			}
		}()
	}
	fmt.Printf("FIRED=[%s]\n", strings.Join(fired, " "))
	if len(fired) > 0 {
		return 1
	}
	return 0
}

func isFlagSet(name string) bool {
	set := false
	flag.Visit(func(f *flag.Flag) {
		if f.Name == name {
			set = true
		}
	})
	return set
}

func run(prop, tier, repo, verif string) (code int) {
	rule := rules.Get(prop)
	var p *core.Program
	r := core.NewRun(prop, tier, verif, nil)
	defer func() {
		if e := recover(); e != nil {
			r.Fail("INTERNAL", "checker-panic", token.NoPos, fmt.Sprintf("checker panicked: %v\n%s", e, debug.Stack()))
			code = r.Finish()
			if code == 0 {
				code = 1
			}
		}
	}()
	if rule == nil {
		r.Fail("INTERNAL", "unknown-property", token.NoPos, "no rules registered for "+prop)
		return r.Finish()
	}
	p, err := core.Load(repo, tier == "thorough")
	if err != nil {
		r.Explain = "the target tree could not be loaded; nothing was analysed"
		r.Fail("LOAD", "target-tree", token.NoPos, err.Error())
		return r.Finish()
	}
	r.P = p
	if len(p.Prod) < 10 {
		r.Fail("LOAD", "production-scope", token.NoPos, fmt.Sprintf("only %d module packages in production scope (expected >= 10)", len(p.Prod)))
	}
	rule(r)
	return r.Finish()
}
