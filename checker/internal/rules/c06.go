package rules

import (
	"fmt"
	"go/token"
	"go/types"
	"sort"
	"strings"

	"golang.org/x/tools/go/ssa"

	"sfwverif/internal/core"
)

func init() { register("C06", c06) }

const storeRel = "pkg/storage/pebbledb"

// keyBuilder describes a call that builds a storage key through a module function.
type keyCall struct {
	builder *ssa.Function
	args    []ssa.Value
	call    *ssa.Call
}

// builderOf resolves a key argument to the module key-builder call that produced it.
func builderOf(p *core.Program, v ssa.Value) *keyCall {
	for _, o := range core.Origins(v) {
		c, ok := o.(*ssa.Call)
		if !ok {
			continue
		}
		callee := core.StaticCallee(&c.Call)
		if callee == nil || !p.IsProdFunc(callee) {
			continue
		}
		return &keyCall{builder: callee, args: c.Call.Args, call: c}
	}
	return nil
}

// sigField decomposes a read of a Signature field: base value (pointer or struct) and field name.
func sigField(v ssa.Value) (ssa.Value, string, bool) {
	v = core.Unwrap(v)
	if cv, ok := v.(*ssa.Convert); ok { // []byte(sig.ID)
		v = cv.X
	}
	switch x := v.(type) {
	case *ssa.UnOp:
		if x.Op == token.MUL {
			if fa, ok := x.X.(*ssa.FieldAddr); ok {
				return fa.X, core.FieldName(fa.X.Type(), fa.Field), true
			}
		}
	case *ssa.Field:
		return x.X, core.FieldName(x.X.Type(), x.Field), true
	}
	return nil, "", false
}

type batchOp struct {
	instr ssa.CallInstruction
	kind  string // Set | Delete | DeleteRange
	key   *keyCall
	val   ssa.Value
	top   ssa.Instruction // for an operation inside a batch helper: the call in the mutating function that stands for it
	recv  ssa.Value       // the batch (or Writer) the operation is performed on
}

// at: the instruction of the mutating function at which the operation takes place.
func (o batchOp) at() ssa.Instruction {
	if o.top != nil {
		return o.top
	}
	return o.instr
}

// batchOpsDeep: the operations of fn and of the batch helpers it calls.
func batchOpsDeep(p *core.Program, fn *ssa.Function) []batchOp {
	out := batchOpsOf(p, fn)
	for _, hb := range batchHelperCalls(p, fn) {
		for _, op := range batchOpsOf(p, hb.g) {
			op.top = hb.top
			out = append(out, op)
		}
	}
	return out
}

func batchOpsOf(p *core.Program, fn *ssa.Function) []batchOp {
	var out []batchOp
	for _, f := range core.Nest(fn) {
		core.InstrsOf(f, func(in ssa.Instruction) {
			c := core.CallOf(in)
			if c == nil {
				return
			}
			name := core.CalleeName(c)
			// through the pebble.Writer interface (a helper that can be handed a batch): receiver is c.Value and the
			// arguments are shifted by one
			if c.IsInvoke() && strings.HasSuffix(c.Value.Type().String(), "pebble.Writer") {
				for _, k := range []string{"Set", "Delete", "DeleteRange"} {
					if c.Method.Name() == k && len(c.Args) >= 1 {
						op := batchOp{instr: in.(ssa.CallInstruction), kind: k, key: builderOf(p, c.Args[0]), recv: c.Value}
						if k == "Set" && len(c.Args) >= 2 {
							op.val = c.Args[1]
						}
						out = append(out, op)
					}
				}
				return
			}
			for _, k := range []string{"Set", "Delete", "DeleteRange"} {
				if name == "(*"+pebblePath+".Batch)."+k || name == "(*"+pebblePath+".DB)."+k {
					op := batchOp{instr: in.(ssa.CallInstruction), kind: k, key: builderOf(p, c.Args[1]), recv: c.Args[0]}
					if k == "Set" {
						op.val = c.Args[2]
					}
					out = append(out, op)
				}
			}
		})
	}
	return out
}

func c06(r *core.Run) {
	p := r.P
	r.Explain = "C06 decided structurally on the embedded store: (IDX) every function that batch-writes a signature record also writes, into the same batch and on every path to the commit, the index entries of all index builders with arguments taken from that same signature (packed value from its ID/EntropyScore/EntropyTolerance), and deletes the stale entries computed from the previously stored record (fetched by the same key), each delete guarded only by 'old field differs'; deleting a record deletes every index entry of the decoded record; (DEDUP) a batch add processes element i only if a full pre-pass recorded i as the last index of its ID; (BOUND) every IterOptions sets both bounds, the upper bound being a nil-checked increment of a key with the same prefix; (REBUILD) the rebuild range-deletes exactly the index prefixes and re-derives through the same builders; (KEYS) composite keys are unambiguous. Not decided: equality with a brute-force oracle over all histories. (REBUILD, sharpened) each re-derived entry is built from the same fields as on the add path and under no condition on the record's fields that the add path lacks; operations performed by helpers that are handed the batch count as the caller's."
	r.Undecided = []string{"equality of every lookup with a brute-force pass over the surviving records for all histories (runtime quantifier)", "monotonicity of the %08.4f entropy key formatting"}

	recBuilders := map[*ssa.Function]bool{}
	for name := range recordPrefixGlobals(p) {
		if strings.HasPrefix(name, "builder:") {
			if b := p.Func(storeRel, strings.TrimPrefix(name, "builder:")); b != nil {
				recBuilders[b] = true
			}
		}
	}
	if !r.Floor("C06.IDX", "record key builder", len(recBuilders), 1) {
		return
	}
	// index builders: builders used as Set keys next to a record write
	idxBuilders := map[*ssa.Function]bool{}
	type mut struct {
		fn  *ssa.Function
		ops []batchOp
	}
	var adders, deleters []mut
	for _, fn := range p.FuncsIn(storeRel) {
		if fn.Parent() != nil {
			continue
		}
		ops := batchOpsOf(p, fn)
		hasRecSet, hasRecDel := false, false
		for _, op := range ops {
			if op.key != nil && recBuilders[op.key.builder] {
				if op.kind == "Set" && strings.Contains(core.CalleeName(op.instr.Common()), "Batch") {
					hasRecSet = true
				}
				if op.kind == "Delete" {
					hasRecDel = true
				}
			}
		}
		if hasRecSet {
			adders = append(adders, mut{fn, ops})
			for _, op := range ops {
				if op.kind == "Set" && op.key != nil && !recBuilders[op.key.builder] {
					idxBuilders[op.key.builder] = true
				}
			}
		}
		if hasRecDel {
			deleters = append(deleters, mut{fn, ops})
		}
	}
	r.Floor("C06.IDX", "functions that batch-write a signature record", len(adders), 2)
	r.Floor("C06.IDX", "functions that delete a signature record", len(deleters), 1)
	r.Floor("C06.IDX", "index key builders", len(idxBuilders), 3)
	idxList := core.SortedFuncs(idxBuilders)

	for _, m := range adders {
		c06Adder(r, m.fn, m.ops, recBuilders, idxList)
	}
	for _, m := range deleters {
		c06Deleter(r, m.fn, m.ops, recBuilders, idxList)
	}
	c06Direct(r, recBuilders)
	c06Bound(r)
	c06Rebuild(r, recBuilders, idxList)
	c06Keys(r, recBuilders, idxBuilders)
	// the value stored under an index key is (id, score, tolerance) of the signature the key belongs to, at every
	// writer — add, batch add and rebuild (shared with C05)
	r.Under("C05.PACKARGS", "C06.PACKARGS", func() { c05PackArgs(r) })
	// what an index-backed scan returns equals what the records say: the pre-filter on the packed values keeps exactly
	// what the matcher keeps (shared with C08)
	if r.Prop == "C06" {
		ex := r.Explain
		r.Under("C08.PREFILTER", "C06.PREFILTER", func() { c08Prefilter(r) })
		// index lookups probe exactly the entries of the asked-for hash (reader/writer key agreement of C05)
		un, as := r.Undecided, r.Assume
		r.Filter = func(o *core.Obligation) bool { return o.Rule == "C05.KEYAGREE" }
		r.Under("C05.KEYAGREE", "C06.KEYAGREE", func() { c05(r) })
		r.Filter = nil
		r.Explain, r.Undecided, r.Assume = ex, un, as
	}
	// records decoded in a loop (rebuild, batch add, scans) must not inherit fields of the previous record
	c18FreshTarget(r, "C06.FRESH")
}

// what the add paths do per index builder (filled by c06Adder, read by c06Rebuild)
var (
	c06AdderFields = map[*ssa.Function]string{}
	c06AdderExtras = map[*ssa.Function]map[string]bool{}
)

func commitOf(fn *ssa.Function) ssa.CallInstruction {
	var out ssa.CallInstruction
	core.InstrsOf(fn, func(in ssa.Instruction) {
		if c := core.CallOf(in); c != nil && strings.HasSuffix(core.CalleeName(c), ".Batch).Commit") {
			out = in.(ssa.CallInstruction)
		}
	})
	return out
}

func c06Adder(r *core.Run, fn *ssa.Function, ops []batchOp, rec map[*ssa.Function]bool, idx []*ssa.Function) {
	p := r.P
	fnm := core.FuncName(fn)
	var recSet *batchOp
	for i := range ops {
		if ops[i].kind == "Set" && ops[i].key != nil && rec[ops[i].key.builder] {
			recSet = &ops[i]
		}
	}
	B, f, ok := sigField(recSet.key.args[0])
	if !ok || f != "ID" {
		r.Fail("C06.IDX", fnm+"#record-key", recSet.instr.Pos(), "record key is not built from the signature's ID: "+core.Canon(recSet.key.args[0]))
		return
	}
	commit := commitOf(fn)
	if commit == nil {
		r.Fail("C06.IDX", fnm+"#commit", fn.Pos(), "no batch commit")
		return
	}
	sameBatch := func(op batchOp) bool { return core.Unwrap(op.recv) == core.Unwrap(recSet.recv) }

	// the old record: a Signature decoded from a Get of the same key — either filled through a pointer argument
	// (decode(data, &old)) or returned by value (old, err := decode(data))
	var O ssa.Value
	core.InstrsOf(fn, func(in ssa.Instruction) {
		c, ok := in.(*ssa.Call)
		if !ok {
			return
		}
		callee := core.StaticCallee(&c.Call)
		if callee == nil || !p.IsProdFunc(callee) || len(c.Call.Args) < 1 || len(c.Call.Args) > 2 {
			return
		}
		var cand ssa.Value
		if len(c.Call.Args) == 2 && core.IsNamed(c.Call.Args[1].Type(), detPath(p), "Signature") {
			cand = c.Call.Args[1]
		} else if rt := resultTypes(callee); len(c.Call.Args) == 1 && len(rt) == 2 && core.IsNamed(rt[0], detPath(p), "Signature") && isErrorType(rt[1]) {
			// the returned record: the local it is assigned to, or the value itself
			if refs := c.Referrers(); refs != nil {
				for _, ref := range *refs {
					if ex, ok := ref.(*ssa.Extract); ok && ex.Index == 0 {
						cand = ex
						if er := ex.Referrers(); er != nil {
							for _, r2 := range *er {
								if st, ok := r2.(*ssa.Store); ok && st.Val == ssa.Value(ex) {
									if al, ok := st.Addr.(*ssa.Alloc); ok {
										cand = al
									}
								}
							}
						}
					}
				}
			}
		}
		if cand == nil {
			return
		}
		// data argument from Get(key) with the record key
		for _, o := range core.Origins(c.Call.Args[0]) {
			ex, ok := o.(*ssa.Extract)
			if !ok {
				continue
			}
			g, ok := ex.Tuple.(*ssa.Call)
			if !ok || !strings.HasSuffix(core.CalleeName(&g.Call), ".Get") {
				continue
			}
			if core.Canon(g.Call.Args[1]) == core.Canon(recSet.instr.Common().Args[1]) {
				O = cand
			}
		}
	})
	r.Check(O != nil && O != B, "C06.IDX", fnm+"#old-record", recSet.instr.Pos(), "the previously stored record is fetched by the same key and decoded", "the previously stored record is not consulted: stale index entries of an updated signature survive")

	for _, X := range idx {
		xn := X.Name()
		var set, del *batchOp
		for i := range ops {
			if ops[i].key != nil && ops[i].key.builder == X {
				switch ops[i].kind {
				case "Set":
					set = &ops[i]
				case "Delete":
					del = &ops[i]
				}
			}
		}
		if set == nil {
			r.Fail("C06.IDX", fnm+"#index-write("+xn+")", recSet.instr.Pos(), "the record is written without its "+xn+" index entry")
			continue
		}
		// provenance: all field arguments come from B
		okArgs := true
		var fields []string
		for _, a := range set.key.args {
			base, f, ok := sigField(a)
			if !ok || base != B {
				okArgs = false
			}
			fields = append(fields, f)
		}
		last := fields[len(fields)-1]
		r.Check(okArgs && last == "ID" && sameBatch(*set), "C06.IDX", fnm+"#index-write("+xn+")", set.instr.Pos(), "index entry built from "+strings.Join(fields, ",")+" of the written signature, in the same batch", "index entry "+xn+" is built from "+core.Canon(set.key.args[0])+" …: not from the very signature being written (or goes to another batch)")
		// value: packed (ID, EntropyScore, EntropyTolerance) or the ID
		if vc := builderOf(p, set.val); vc != nil {
			var vf []string
			good := true
			for _, a := range vc.args {
				base, f, ok := sigField(a)
				if !ok || base != B {
					good = false
				}
				vf = append(vf, f)
			}
			r.Check(good && strings.Join(vf, ",") == "ID,EntropyScore,EntropyTolerance", "C06.IDX", fnm+"#index-value("+xn+")", set.instr.Pos(), "packed value = (ID, EntropyScore, EntropyTolerance) of the written signature", "packed index value is built from ("+strings.Join(vf, ",")+")")
		} else {
			base, f, ok := sigField(set.val)
			r.Check(ok && base == B && f == "ID", "C06.IDX", fnm+"#index-value("+xn+")", set.instr.Pos(), "index value is the signature ID", "index value is "+core.Canon(set.val))
		}
		if c06AdderFields[X] == "" {
			c06AdderFields[X] = strings.Join(fields, ",")
		}
		if c06AdderExtras[X] == nil {
			c06AdderExtras[X] = map[string]bool{}
		}
		{
			up := map[string]bool{}
			for _, g := range rejectingGuards(fn, recSet.instr.Block()) {
				up[g] = true
			}
			for _, g := range rejectingGuards(fn, set.instr.Block()) {
				if !up[g] {
					c06AdderExtras[X][g] = true
				}
			}
		}
		// coupled: every path record-write → commit passes the index write, except through the
		// false edge of `<first field> != ""` (optional index)
		cut := map[core.Edge]bool{}
		for _, pr := range set.instr.Block().Preds {
			for i, s := range pr.Succs {
				if s == set.instr.Block() {
					cut[core.Edge{From: pr, Idx: i}] = true
				}
			}
		}
		if set.instr.Block() != recSet.instr.Block() {
			firstField := fields[0]
			for _, b := range fn.Blocks {
				if len(b.Instrs) == 0 {
					continue
				}
				if ifi, ok := b.Instrs[len(b.Instrs)-1].(*ssa.If); ok {
					op, x, y, neg, ok := core.Compare(ifi.Cond)
					if ok && !neg && op == token.NEQ {
						if s, isC := core.ConstString(y); isC && s == "" {
							if base, f, ok := sigField(x); ok && base == B && f == firstField {
								cut[core.Edge{From: b, Idx: 1}] = true
							}
						}
					}
				}
			}
			path := core.PathAvoiding(recSet.instr.Block(), commit.Block(), cut)
			r.Check(path == nil, "C06.IDX", fnm+"#index-coupled("+xn+")", set.instr.Pos(), "every path from the record write to the commit writes this index (unless its hash is empty)", "the record can be committed without its "+xn+" entry ("+core.FmtPath(path)+")")
		}
		// stale delete: performed here, or in a helper that is handed the batch, the old and the new record
		df, dO, dB := fn, O, B // function in which the delete lives, and the old/new record there
		var dsite ssa.Instruction
		delSameBatch := func(op batchOp) bool { return sameBatch(op) }
		if del == nil && O != nil {
			core.InstrsOf(fn, func(in ssa.Instruction) {
				hc := core.CallOf(in)
				if hc == nil || del != nil {
					return
				}
				g := core.StaticCallee(hc)
				if g == nil || !p.IsProdFunc(g) || g.Blocks == nil || g == fn {
					return
				}
				oi, bi, ki := -1, -1, -1
				for i, a := range hc.Args {
					switch {
					case slotOf(a) == slotOf(O):
						oi = i
					case slotOf(a) == slotOf(B) || core.Resolve(a) == core.Resolve(B):
						bi = i
					case core.Unwrap(a) == core.Unwrap(recSet.recv):
						ki = i
					}
				}
				if oi < 0 || bi < 0 || ki < 0 || oi >= len(g.Params) || bi >= len(g.Params) || ki >= len(g.Params) {
					return
				}
				gops := batchOpsOf(p, g)
				for i := range gops {
					if gops[i].kind == "Delete" && gops[i].key != nil && gops[i].key.builder == X {
						del = &gops[i]
						df, dO, dB, dsite = g, g.Params[oi], g.Params[bi], in
						batchParam := ssa.Value(g.Params[ki])
						delSameBatch = func(op batchOp) bool { return core.Unwrap(op.recv) == batchParam }
					}
				}
			})
		}
		if del == nil {
			r.Fail("C06.IDX", fnm+"#stale-delete("+xn+")", recSet.instr.Pos(), "no stale-entry delete for index "+xn+": after an update the old entry still points at the signature")
			continue
		}
		okDel := dO != nil
		var dfields []string
		for _, a := range del.key.args {
			base, f, ok := sigField(a)
			if !ok || slotOf(base) != slotOf(dO) {
				okDel = false
			}
			dfields = append(dfields, f)
		}
		r.Check(okDel && delSameBatch(*del) && strings.Join(dfields, ",") == strings.Join(fields, ","), "C06.IDX", fnm+"#stale-delete("+xn+")", del.instr.Pos(), "stale entry is computed from the previously stored record with the same fields", "stale-entry delete of "+xn+" is not computed from the previously stored record ("+strings.Join(dfields, ",")+")")
		// guard: only old.f != new.f (and old.f != "", decode ok)
		if dO != nil {
			ff := fields[0]
			guard := func(cond ssa.Value) (bool, bool) {
				op, x, y, neg, ok := core.Compare(cond)
				if !ok || neg || op != token.NEQ {
					return false, false
				}
				bx, fx, okx := sigField(x)
				by, fy, oky := sigField(y)
				if okx && oky && fx == ff && fy == ff && ((slotOf(bx) == slotOf(dO) && slotOf(by) == slotOf(dB)) || (slotOf(bx) == slotOf(dB) && slotOf(by) == slotOf(dO))) {
					return true, true
				}
				return false, false
			}
			ok1, n1, _ := core.MustPass(df, del.instr.Block(), guard)
			r.Check(ok1 && n1 > 0, "C06.IDX", fnm+"#stale-delete-guard("+xn+")", del.instr.Pos(), "delete happens when old."+ff+" != new."+ff, "the stale delete is not tied to old."+ff+" != new."+ff+": a live entry can be deleted")
			// an emptiness test among the delete's conditions is about the OLD record's field (is there an entry to
			// remove?) — tested on the new record it leaves the old entry behind whenever the field is being cleared
			writeGuards := map[*ssa.If]bool{}
			for _, ifi := range mandatoryIfs(fn, recSet.instr.Block()) {
				writeGuards[ifi] = true // conditions under which nothing is written at all (validation of the new record)
			}
			for _, ifi := range mandatoryIfs(df, del.instr.Block()) {
				if writeGuards[ifi] {
					continue
				}
				op, x, y, _, okC := core.Compare(ifi.Cond)
				if !okC || (op != token.NEQ && op != token.EQL) {
					continue
				}
				for _, pair := range [][2]ssa.Value{{x, y}, {y, x}} {
					if sv, isC := core.ConstString(pair[1]); !isC || sv != "" {
						continue
					}
					if bx, fx, okx := sigField(pair[0]); okx && fx == ff {
						r.Check(slotOf(bx) == slotOf(dO), "C06.IDX", fnm+"#stale-delete-emptiness-of-old("+xn+")", ifi.Pos(), "the emptiness test guarding the stale delete is on the previously stored record", "the stale delete of "+xn+" is skipped when the NEW record's "+ff+" is empty: an update that clears the field leaves the old index entry behind, and scans reach the signature through a hash no live signature carries")
					}
				}
			}
			upstream := map[string]bool{}
			for _, g := range rejectingGuards(fn, recSet.instr.Block()) {
				upstream[g] = true // conditions under which nothing is written at all
			}
			gs := rejectingGuards(df, del.instr.Block())
			if dsite != nil {
				gs = append(gs, rejectingGuards(fn, dsite.Block())...) // the helper call's own conditions
			}
			for _, g := range gs {
				if upstream[g] {
					continue
				}
				okG := false
				switch {
				case strings.Contains(g, "."+ff) && strings.Contains(g, "!="):
					okG = true
				case strings.Contains(g, "== nil") || strings.Contains(g, "!= nil") || strings.Contains(g, "ErrNotFound"):
					okG = true
				case strings.Contains(g, "lastIdx") || strings.Contains(g, "map[string]int"):
					okG = true
				case strings.HasPrefix(g, "T:phi(") || strings.HasPrefix(g, "F:phi(") || strings.Contains(g, "<bool>"):
					okG = true // hasOld flag
				case strings.Contains(g, "rangeindex") || strings.Contains(g, "len("):
					okG = true
				}
				if !okG {
					r.Fail("C06.IDX", fnm+"#stale-delete-only-guard("+xn+")", del.instr.Pos(), "the stale delete is additionally conditioned on "+g+": a changed entry may be left behind")
				}
			}
		}
	}
	c06Dedup(r, fn, recSet, B)
}

// rejectingGuards: see mandatoryGuards in c08.go (shape + polarity of Ifs that can reject).
func rejectingGuards(fn *ssa.Function, sink *ssa.BasicBlock) []string {
	return mandatoryGuards(fn, sink)
}

func c06Dedup(r *core.Run, fn *ssa.Function, recSet *batchOp, B ssa.Value) {
	fnm := core.FuncName(fn)
	h := core.LoopHeaderOf(recSet.instr.Block())
	if h == nil {
		return // single add
	}
	// guard: lookup(M, B.ID) == index
	var M ssa.Value
	atom := func(cond ssa.Value) (bool, bool) {
		op, x, y, neg, ok := core.Compare(cond)
		if !ok || neg || (op != token.NEQ && op != token.EQL) {
			return false, false
		}
		lk, ok := x.(*ssa.Lookup)
		other := y
		if !ok {
			lk, ok = y.(*ssa.Lookup)
			other = x
		}
		if !ok {
			return false, false
		}
		base, f, okf := sigField(lk.Index)
		if !okf || base != B || f != "ID" {
			return false, false
		}
		// other must be the loop index (a header phi + 1)
		if !derivesFromLoopIndex(other, h) {
			return false, false
		}
		M = lk.X
		return true, op == token.EQL
	}
	ok1, n1, path := core.MustPass(fn, recSet.instr.Block(), atom)
	if !r.Check(ok1 && n1 > 0, "C06.DEDUP", fnm+"#last-writer-guard", recSet.instr.Pos(), "element i is processed only if lastIdx[ID] == i", "a repeated ID inside one batch is processed more than once: an earlier version's index entries survive ("+core.FmtPath(path)+")") {
		return
	}
	// M filled by a full pass: MapUpdate(M, elem.ID, idx) in another loop that dominates this one
	filled := false
	core.InstrsOf(fn, func(in ssa.Instruction) {
		mu, ok := in.(*ssa.MapUpdate)
		if !ok || mu.Map != M {
			return
		}
		_, f, okf := sigField(mu.Key)
		h2 := core.LoopHeaderOf(mu.Block())
		if okf && f == "ID" && h2 != nil && h2 != h && derivesFromLoopIndex(mu.Value, h2) && h2.Dominates(h) {
			filled = true
		}
	})
	r.Check(filled, "C06.DEDUP", fnm+"#last-index-prepass", recSet.instr.Pos(), "lastIdx is filled by a complete earlier pass over the same batch", "the last-index table is not filled by a complete pass before the batch is processed")
	// the IDs are final when the table is filled: no assignment of a signature's ID can follow a table update
	// (an ID generated afterwards is looked up under a key that was never entered, and the element is skipped)
	core.InstrsOf(fn, func(in ssa.Instruction) {
		mu, ok := in.(*ssa.MapUpdate)
		if !ok || mu.Map != M {
			return
		}
		if _, f, okf := sigField(mu.Key); !okf || f != "ID" {
			return
		}
		reach := core.ReachAvoiding(mu.Block(), nil)
		late := ""
		core.InstrsOf(fn, func(in2 ssa.Instruction) {
			st, ok := in2.(*ssa.Store)
			if !ok {
				return
			}
			fa, ok := st.Addr.(*ssa.FieldAddr)
			if !ok || core.FieldName(fa.X.Type(), fa.Field) != "ID" || !core.IsNamed(fa.X.Type(), detPath(r.P), "Signature") {
				return
			}
			if (st.Block() == mu.Block() && core.Precedes(mu, st)) || (st.Block() != mu.Block() && reach[st.Block()]) {
				late = r.P.Pos(st.Pos())
			}
		})
		r.Check(late == "", "C06.DEDUP", fnm+"#ids-final-before-table", mu.Pos(), "no signature ID is assigned after the last-index table was updated", "a signature's ID is assigned ("+late+") after its entry in the last-index table was made: the element is later looked up under its new ID, not found as 'last', and silently skipped")
	})
}

func derivesFromLoopIndex(v ssa.Value, header *ssa.BasicBlock) bool {
	for i := 0; i < 4; i++ {
		switch x := v.(type) {
		case *ssa.Phi:
			return x.Block() == header
		case *ssa.BinOp:
			if _, ok := core.ConstInt(x.Y); ok {
				v = x.X
				continue
			}
			return false
		default:
			return false
		}
	}
	return false
}

func c06Deleter(r *core.Run, fn *ssa.Function, ops []batchOp, rec map[*ssa.Function]bool, idx []*ssa.Function) {
	fnm := core.FuncName(fn)
	// the decoded record S: bases of the index deletes must agree and be decoded from Get(record key)
	var S ssa.Value
	for _, X := range idx {
		var del *batchOp
		for i := range ops {
			if ops[i].kind == "Delete" && ops[i].key != nil && ops[i].key.builder == X {
				del = &ops[i]
			}
		}
		if del == nil {
			r.Fail("C06.IDX", fnm+"#delete-index("+X.Name()+")", fn.Pos(), "deleting a record leaves its "+X.Name()+" entry behind: a deleted signature stays reachable")
			continue
		}
		good := true
		for _, a := range del.key.args {
			base, _, ok := sigField(a)
			if !ok {
				good = false
				continue
			}
			if S == nil {
				S = base
			}
			if base != S {
				good = false
			}
		}
		r.Check(good, "C06.IDX", fnm+"#delete-index("+X.Name()+")", del.instr.Pos(), "index entry of the decoded record is deleted", "index delete is not computed from the decoded record")
	}
}

// c06Direct: a direct (non-batch) write of a record is allowed only if no index-relevant field
// changes between decode and encode.
func c06Direct(r *core.Run, rec map[*ssa.Function]bool) {
	p := r.P
	indexRelevant := map[string]bool{"TopologyHash": true, "FuzzyHash": true, "EntropyScore": true, "EntropyTolerance": true, "ID": true}
	for _, fn := range p.FuncsIn(storeRel) {
		core.InstrsOf(fn, func(in ssa.Instruction) {
			c := core.CallOf(in)
			if c == nil || core.CalleeName(c) != "(*"+pebblePath+".DB).Set" {
				return
			}
			k := builderOf(p, c.Args[1])
			if k == nil || !rec[k.builder] {
				return
			}
			fnm := core.FuncName(fn)
			bad := ""
			core.InstrsOf(fn, func(in2 ssa.Instruction) {
				st, ok := in2.(*ssa.Store)
				if !ok {
					return
				}
				fa, ok := st.Addr.(*ssa.FieldAddr)
				if ok && core.IsNamed(fa.X.Type(), detPath(p), "Signature") && indexRelevant[core.FieldName(fa.X.Type(), fa.Field)] {
					bad = core.FieldName(fa.X.Type(), fa.Field)
				}
			})
			r.Check(bad == "", "C06.IDX", fnm+"#in-place-update", in.Pos(), "record rewritten in place without touching index-relevant fields", "record is rewritten in place after changing "+bad+" without updating the indexes")
		})
	}
}

func c06Bound(r *core.Run) {
	p := r.P
	n := 0
	for _, fn := range p.FuncsIn(storeRel) {
		core.InstrsOf(fn, func(in ssa.Instruction) {
			al, ok := in.(*ssa.Alloc)
			if !ok || !core.IsNamed(al.Type(), pebblePath, "IterOptions") {
				return
			}
			n++
			fnm := core.FuncName(fn)
			lo, okL := core.StructLitField(al, "LowerBound")
			up, okU := core.StructLitField(al, "UpperBound")
			if !okL || !okU {
				r.Fail("C06.BOUND", fnm+"#IterOptions", al.Pos(), "an iterator is created without both bounds: it can walk into a neighbouring key space")
				return
			}
			up = core.Resolve(up)
			lo = core.Resolve(lo)
			uc, isCall := up.(*ssa.Call)
			var callee *ssa.Function
			if isCall {
				callee = core.StaticCallee(&uc.Call)
			}
			if callee == nil || !p.IsProdFunc(callee) {
				r.Fail("C06.BOUND", fnm+"#upper-bound", al.Pos(), "upper bound is "+core.Canon(up)+", not an incremented prefix")
				return
			}
			// same prefix: upper's argument is the lower bound itself, or both share a prefix variable
			same := core.Canon(core.Resolve(uc.Call.Args[0])) == core.Canon(lo)
			if !same {
				pl, pu := keyProvenance(p, lo), keyProvenance(p, uc.Call.Args[0])
				for _, a := range pl {
					for _, b := range pu {
						if a == b && strings.HasPrefix(a, "global:") {
							same = true
						}
					}
				}
			}
			r.Check(same, "C06.BOUND", fnm+"#bounds-share-prefix", al.Pos(), "upper bound is the increment of a key with the lower bound's prefix", "lower and upper bound are built from different prefixes")
			// nil-checked before use
			var useBlk *ssa.BasicBlock
			if refs := al.Referrers(); refs != nil {
				for _, ref := range *refs {
					if c := core.CallOf(ref); c != nil {
						useBlk = ref.Block()
					}
				}
			}
			if useBlk == nil {
				useBlk = al.Block()
			}
			atom := func(cond ssa.Value) (bool, bool) {
				x, nonNilOnTrue, ok := core.NilCompare(cond)
				if !ok || core.Resolve(x) != ssa.Value(uc) {
					return false, false
				}
				return true, nonNilOnTrue
			}
			ok1, n1, path := core.MustPass(fn, useBlk, atom)
			r.Check(ok1 && n1 > 0, "C06.BOUND", fnm+"#upper-bound-nil-checked", al.Pos(), "the iterator is created only when the upper bound is non-nil", "the iterator can be created with a nil (unbounded) upper bound ("+core.FmtPath(path)+")")
		})
	}
	r.Floor("C06.BOUND", "pebble.IterOptions literals", n, 10)

	// a range scan whose iterator bounds are built from two numeric parameters walks the closed interval
	// [lo, hi] (the upper bound is the increment of hi's key); a re-check of the fetched record against the same
	// parameters must reject exactly what lies outside that interval — strictly below lo or strictly above hi
	nRe := 0
	for _, fn := range p.FuncsIn(storeRel) {
		var floatParams []*ssa.Parameter
		for _, pa := range fn.Params {
			if isFloat64(pa.Type()) {
				floatParams = append(floatParams, pa)
			}
		}
		if len(floatParams) != 2 || fn.Parent() != nil {
			continue
		}
		var opts *ssa.Alloc
		core.InstrsOf(fn, func(in ssa.Instruction) {
			if al, ok := in.(*ssa.Alloc); ok && core.IsNamed(al.Type(), pebblePath, "IterOptions") {
				opts = al
			}
		})
		if opts == nil {
			continue
		}
		derives := func(v ssa.Value, prm *ssa.Parameter) bool {
			seen := map[ssa.Value]bool{}
			var walk func(v ssa.Value, d int) bool
			walk = func(v ssa.Value, d int) bool {
				if v == nil || seen[v] || d > 12 {
					return false
				}
				seen[v] = true
				if v == ssa.Value(prm) {
					return true
				}
				if c, ok := v.(*ssa.Call); ok {
					for _, a := range c.Call.Args {
						if elems, isVar := varargElems(a); isVar {
							for _, e := range elems {
								if walk(core.Unwrap(e), d+1) {
									return true
								}
							}
						}
					}
				}
				if in, ok := v.(ssa.Instruction); ok {
					for _, op := range in.Operands(nil) {
						if op != nil && *op != nil && walk(*op, d+1) {
							return true
						}
					}
				}
				return false
			}
			return walk(core.Resolve(v), 0)
		}
		loV, okL := core.StructLitField(opts, "LowerBound")
		upV, okU := core.StructLitField(opts, "UpperBound")
		if !okL || !okU {
			continue
		}
		var lo, hi *ssa.Parameter
		for _, pa := range floatParams {
			if derives(loV, pa) {
				lo = pa
			}
			if derives(upV, pa) {
				hi = pa
			}
		}
		if lo == nil || hi == nil || lo == hi {
			continue
		}
		for _, b := range fn.Blocks {
			if len(b.Instrs) == 0 {
				continue
			}
			ifi, ok := b.Instrs[len(b.Instrs)-1].(*ssa.If)
			if !ok {
				continue
			}
			op, x, y, neg, ok := core.Compare(ifi.Cond)
			if !ok {
				continue
			}
			var prm *ssa.Parameter
			recOnLeft := true
			switch {
			case core.Unwrap(y) == ssa.Value(lo) || core.Unwrap(y) == ssa.Value(hi):
				prm = core.Unwrap(y).(*ssa.Parameter)
			case core.Unwrap(x) == ssa.Value(lo) || core.Unwrap(x) == ssa.Value(hi):
				prm = core.Unwrap(x).(*ssa.Parameter)
				recOnLeft = false
			default:
				continue
			}
			other := y
			if recOnLeft {
				other = x
			}
			if _, _, isField := fieldLoadBy(core.Unwrap(other), isFloat64); !isField {
				continue // not a re-check of a fetched record
			}
			nRe++
			// normalise to  record OP param
			mirror := map[token.Token]token.Token{token.LSS: token.GTR, token.GTR: token.LSS, token.LEQ: token.GEQ, token.GEQ: token.LEQ, token.EQL: token.EQL, token.NEQ: token.NEQ}
			if !recOnLeft {
				op = mirror[op]
			}
			// which outcome rejects? the successor from which no append to the result is reachable
			reaches := func(start *ssa.BasicBlock) bool {
				for rb := range core.ReachAvoiding(start, backEdges(fn)) {
					for _, in := range rb.Instrs {
						if v, isV := in.(ssa.Value); isV {
							if _, isApp := isBuiltinCall(v, "append"); isApp {
								return true
							}
						}
					}
				}
				return false
			}
			t, f := reaches(b.Succs[0]), reaches(b.Succs[1])
			if t == f {
				continue
			}
			rejectOnTrue := !t
			if neg {
				rejectOnTrue = !rejectOnTrue
			}
			// the comparison that holds on the reject edge
			complement := map[token.Token]token.Token{token.LSS: token.GEQ, token.GEQ: token.LSS, token.GTR: token.LEQ, token.LEQ: token.GTR, token.EQL: token.NEQ, token.NEQ: token.EQL}
			rej := op
			if !rejectOnTrue {
				rej = complement[op]
			}
			want := token.LSS
			which := "lower"
			if prm == hi {
				want, which = token.GTR, "upper"
			}
			r.Check(rej == want, "C06.BOUND", core.FuncName(fn)+"#recheck-agrees-with-index-walk("+which+")", ifi.Pos(),
				"the record re-check rejects only values strictly outside the walked interval",
				"the record re-check rejects a value when it is "+rej.String()+" the "+which+" bound, but the index walk covers the closed interval: a live signature whose value equals the bound is in the index range and is dropped from the result")
		}
	}
	r.Floor("C06.BOUND", "re-checks of fetched records against the range parameters", nRe, 2)
}

func globalsReadBy(fn *ssa.Function) []string {
	var out []string
	core.InstrsOf(fn, func(in ssa.Instruction) {
		if u, ok := in.(*ssa.UnOp); ok {
			if g, ok := u.X.(*ssa.Global); ok {
				out = append(out, g.Name())
			}
		}
	})
	sort.Strings(out)
	return out
}

func c06Rebuild(r *core.Run, rec map[*ssa.Function]bool, idx []*ssa.Function) {
	p := r.P
	want := map[string]bool{}
	for _, X := range idx {
		for _, g := range globalsReadBy(X) {
			want[g] = true
		}
	}
	n := 0
	for _, fn := range p.FuncsIn(storeRel) {
		if fn.Parent() != nil {
			continue
		}
		takesBatch := false
		for _, pa := range fn.Params {
			if isBatchPtr(pa.Type()) {
				takesBatch = true
			}
		}
		if takesBatch {
			continue // a batch helper: judged as part of the functions that call it
		}
		ops := batchOpsDeep(p, fn)
		got := map[string]bool{}
		var dr *batchOp
		for i := range ops {
			if ops[i].kind == "DeleteRange" {
				dr = &ops[i]
				for _, pr := range keyProvenance(p, ops[i].instr.Common().Args[1]) {
					if strings.HasPrefix(pr, "global:") {
						got[strings.TrimPrefix(pr, "global:")] = true
					}
				}
			}
		}
		if dr == nil {
			continue
		}
		n++
		fnm := core.FuncName(fn)
		var ws, gs []string
		for g := range want {
			ws = append(ws, g)
		}
		for g := range got {
			gs = append(gs, g)
		}
		sort.Strings(ws)
		sort.Strings(gs)
		r.Check(strings.Join(ws, ",") == strings.Join(gs, ","), "C06.REBUILD", fnm+"#range-deleted-prefixes", dr.instr.Pos(), "range deletes cover exactly the index prefixes "+strings.Join(gs, ","), "range deletes cover {"+strings.Join(gs, ",")+"} but the index prefixes are {"+strings.Join(ws, ",")+"}")
		for _, X := range idx {
			found := false
			for _, op := range ops {
				if op.kind == "Set" && op.key != nil && op.key.builder == X {
					found = true
				}
			}
			for _, op := range ops {
				if op.kind != "Set" || op.key == nil || op.key.builder != X {
					continue
				}
				// sibling agreement with the add path: same fields of one decoded record, and no condition on
				// the record's fields that the add path does not have as well
				var fields []string
				var base ssa.Value
				oneBase := true
				for _, a := range op.key.args {
					b, f, ok := sigField(a)
					if !ok || (base != nil && b != base) {
						oneBase = false
					}
					base = b
					fields = append(fields, f)
				}
				want := c06AdderFields[X]
				r.Check(oneBase && strings.Join(fields, ",") == want, "C06.REBUILD", fnm+"#rederive-fields("+X.Name()+")", op.instr.Pos(), "re-derived entry is built from ("+want+") of the record just read", "re-derived "+X.Name()+" entry is built from ("+strings.Join(fields, ",")+"), the add path uses ("+want+")")
				for _, g := range rejectingGuards(fn, op.instr.Block()) {
					if !strings.Contains(g, "<detection.Signature>.") {
						continue
					}
					r.Check(c06AdderExtras[X][g], "C06.REBUILD", fnm+"#rederive-condition("+X.Name()+":"+g+")", op.instr.Pos(), "the add path writes this index under the same condition", "rebuild re-creates the "+X.Name()+" entry only if "+g+", a condition the add path does not have: after a rebuild live signatures are missing from this index")
				}
			}
			r.Check(found, "C06.REBUILD", fnm+"#rederive("+X.Name()+")", dr.instr.Pos(), "rebuild re-derives this index through the same builder as the add path", "rebuild does not re-create the "+X.Name()+" index")
		}
		// the range delete is committed before the iterator over the records is opened
		var firstCommit, iter ssa.Instruction
		core.InstrsOf(fn, func(in ssa.Instruction) {
			c := core.CallOf(in)
			if c == nil {
				return
			}
			callee := core.StaticCallee(c)
			if callee != nil && p.IsProdFunc(callee) && (callee.Parent() == fn || callee.Pkg == fn.Pkg) && firstCommit == nil {
				// a closure or helper of the store that commits the batch
				if commitOf(callee) != nil {
					firstCommit = in
				}
			}
			if isLiveIterHelper(p, c) && iter == nil {
				iter = in
			}
			if strings.HasSuffix(core.CalleeName(c), ".NewIter") && iter == nil {
				iter = in
			}
		})
		drBeforeCommit := firstCommit != nil && core.ReachAvoiding(dr.at().Block(), nil)[firstCommit.Block()] && !core.ReachAvoiding(firstCommit.Block(), nil)[dr.at().Block()]
		r.Check(firstCommit != nil && iter != nil && core.Precedes(firstCommit, iter) && drBeforeCommit, "C06.REBUILD", fnm+"#clear-committed-first", dr.instr.Pos(), "index clear is committed before records are re-read", "the index clear is not committed before the re-derivation starts")
	}
	r.Floor("C06.REBUILD", "index rebuild (function with DeleteRange)", n, 1)
}

func c06Keys(r *core.Run, rec, idx map[*ssa.Function]bool) {
	builders := map[*ssa.Function]bool{}
	for b := range rec {
		builders[b] = true
	}
	for b := range idx {
		builders[b] = true
	}
	for _, b := range core.SortedFuncs(builders) {
		bn := core.FuncName(b)
		// the key's template, however it is assembled: two or more free string parameters in one key are ambiguous
		free := 0
		var delims []string
		rendered := ""
		pos := b.Pos()
		for _, ret := range core.Returns(b) {
			t := keyTemplate(ret.Results[0], 0)
			rendered = renderTemplate(t)
			pos = ret.Pos()
			free, delims = 0, nil
			lastLit := ""
			for _, part := range t {
				switch part.kind {
				case "lit":
					lastLit = part.text
				case "arg":
					if pa, isParam := core.Unwrap(part.val).(*ssa.Parameter); isParam && part.text == "" {
						if bt, ok := pa.Type().Underlying().(*types.Basic); ok && bt.Kind() == types.String {
							free++
							if free > 1 {
								delims = append(delims, lastLit)
							}
						}
					}
					lastLit = ""
				}
			}
		}
		if free >= 2 {
			r.Fail("C06.KEYS", bn+"#composite-key", pos, fmt.Sprintf("key template %q joins %d free string components with the literal delimiter %q: (hash,id) pairs containing the delimiter collide, one key serves two signatures", rendered, free, strings.Join(delims, "|")))
		} else {
			r.OK("C06.KEYS", bn+"#composite-key", pos, "key "+rendered+" has at most one free string component (no delimiter ambiguity)")
		}
	}
}

// mandatoryIfs: the Ifs that can reject on the way to sink (one successor cannot reach sink within the iteration).
func mandatoryIfs(fn *ssa.Function, sink *ssa.BasicBlock) []*ssa.If {
	back := backEdges(fn)
	var out []*ssa.If
	for _, b := range fn.Blocks {
		if len(b.Instrs) == 0 || b == sink {
			continue
		}
		ifi, ok := b.Instrs[len(b.Instrs)-1].(*ssa.If)
		if !ok {
			continue
		}
		r0 := !back[core.Edge{From: b, Idx: 0}] && core.ReachAvoiding(b.Succs[0], back)[sink]
		r1 := !back[core.Edge{From: b, Idx: 1}] && core.ReachAvoiding(b.Succs[1], back)[sink]
		if r0 != r1 {
			out = append(out, ifi)
		}
	}
	return out
}
