package rules

import (
	"fmt"
	"go/token"
	"go/types"
	"math"
	"strings"

	"golang.org/x/tools/go/ssa"

	"sfwverif/internal/core"
)

// Interval evaluation of a loop-free numeric function over its SSA value graph: every value gets a closed
// interval that certainly contains it, derived from constants, interval arithmetic, hulls at phis, the ranges of
// callees (evaluated recursively when they are loop-free, taken from a table of stated assumptions otherwise) and
// one relational shape (|x-y| / max(x,y) for non-negative x, y). Used to decide that the structural similarity
// is a weighted mean: every term lies between 0 and its weight and the weights on both sides agree.

type ival struct{ lo, hi float64 }

func (i ival) String() string { return fmt.Sprintf("[%g, %g]", i.lo, i.hi) }

var ivalAll = ival{math.Inf(-1), math.Inf(1)}

func hull(a, b ival) ival { return ival{math.Min(a.lo, b.lo), math.Max(a.hi, b.hi)} }

type rangeEval struct {
	p       *core.Program
	memo    map[ssa.Value]ival
	onStack map[ssa.Value]bool
	unit    map[*ssa.Function]string // callees assumed to return a value in [0,1], with the reason
	used    map[string]bool
	nonNeg  func(v ssa.Value) bool // data assumption: this load is a non-negative count
	depth   int
}

func mulI(a, b ival) ival {
	c := []float64{a.lo * b.lo, a.lo * b.hi, a.hi * b.lo, a.hi * b.hi}
	out := ival{math.Inf(1), math.Inf(-1)}
	for _, x := range c {
		if math.IsNaN(x) { // 0 * inf
			x = 0
		}
		out.lo = math.Min(out.lo, x)
		out.hi = math.Max(out.hi, x)
	}
	return out
}

func (e *rangeEval) eval(v ssa.Value) ival {
	if r, ok := e.memo[v]; ok {
		return r
	}
	if e.onStack[v] {
		return ivalAll // a cycle (loop-carried value): no bound without widening rules
	}
	e.onStack[v] = true
	r := e.eval1(v)
	delete(e.onStack, v)
	e.memo[v] = r
	return r
}

func (e *rangeEval) eval1(v ssa.Value) ival {
	switch x := v.(type) {
	case *ssa.Const:
		if f, ok := core.ConstFloat(x); ok {
			return ival{f, f}
		}
		return ivalAll
	case *ssa.Convert:
		return e.eval(x.X)
	case *ssa.ChangeType:
		return e.eval(x.X)
	case *ssa.Phi:
		out := ival{math.Inf(1), math.Inf(-1)}
		for _, ed := range x.Edges {
			out = hull(out, e.eval(ed))
		}
		return out
	case *ssa.UnOp:
		switch x.Op {
		case token.SUB:
			r := e.eval(x.X)
			return ival{-r.hi, -r.lo}
		case token.MUL:
			if e.nonNeg != nil && e.nonNeg(x) {
				e.used["ASSUMED: counts of a topology are non-negative"] = true
				return ival{0, math.Inf(1)}
			}
		}
		return ivalAll
	case *ssa.BinOp:
		a, b := e.eval(x.X), e.eval(x.Y)
		switch x.Op {
		case token.ADD:
			return ival{a.lo + b.lo, a.hi + b.hi}
		case token.SUB:
			return ival{a.lo - b.hi, a.hi - b.lo}
		case token.MUL:
			return mulI(a, b)
		case token.QUO:
			if k, ok := e.absOverMax(x); ok {
				e.used["|x-y| / (k*max(x,y)) lies in [0, 1/k] for non-negative x, y"] = true
				return ival{0, 1 / k}
			}
			if b.lo > 0 || b.hi < 0 {
				return mulI(a, ival{1 / b.hi, 1 / b.lo})
			}
			return ivalAll
		}
		return ivalAll
	case *ssa.Call:
		if bi, ok := x.Call.Value.(*ssa.Builtin); ok {
			switch bi.Name() {
			case "len", "cap":
				return ival{0, math.Inf(1)}
			case "min", "max":
				out := e.eval(x.Call.Args[0])
				for _, a := range x.Call.Args[1:] {
					r := e.eval(a)
					if bi.Name() == "min" {
						out = ival{math.Min(out.lo, r.lo), math.Min(out.hi, r.hi)}
					} else {
						out = ival{math.Max(out.lo, r.lo), math.Max(out.hi, r.hi)}
					}
				}
				return out
			}
			return ivalAll
		}
		g := core.StaticCallee(&x.Call)
		if g == nil {
			return ivalAll
		}
		if why, ok := e.unit[g]; ok {
			e.used["ASSUMED: "+g.Name()+" ∈ [0,1] — "+why] = true
			return ival{0, 1}
		}
		if isEvenFn(g) && len(x.Call.Args) == 1 {
			r := e.eval(x.Call.Args[0])
			m := math.Max(math.Abs(r.lo), math.Abs(r.hi))
			lo := 0.0
			if r.lo > 0 {
				lo = r.lo
			} else if r.hi < 0 {
				lo = -r.hi
			}
			return ival{lo, m}
		}
		if k := minMaxKind(g); k != "" && len(x.Call.Args) == 2 {
			a, b := e.eval(x.Call.Args[0]), e.eval(x.Call.Args[1])
			if k == "min" {
				return ival{math.Min(a.lo, b.lo), math.Min(a.hi, b.hi)}
			}
			return ival{math.Max(a.lo, b.lo), math.Max(a.hi, b.hi)}
		}
		// a loop-free repository function: the hull of its return values (parameters unknown)
		if e.p.IsProdFunc(g) && g.Blocks != nil && e.depth < 3 && !hasLoop(g) {
			sub := &rangeEval{p: e.p, memo: map[ssa.Value]ival{}, onStack: map[ssa.Value]bool{}, unit: e.unit, used: e.used, nonNeg: e.nonNeg, depth: e.depth + 1}
			out := ival{math.Inf(1), math.Inf(-1)}
			for _, ret := range core.Returns(g) {
				out = hull(out, sub.eval(ret.Results[0]))
			}
			return out
		}
	}
	return ivalAll
}

func hasLoop(g *ssa.Function) bool {
	for _, b := range g.Blocks {
		for _, s := range b.Succs {
			if s.Dominates(b) {
				return true
			}
		}
	}
	return false
}

// absOverMax recognises float(abs(x-y)) / float(k*max(x,y)) (k a positive constant, possibly absent) with x, y
// non-negative counts, and returns k.
func (e *rangeEval) absOverMax(q *ssa.BinOp) (float64, bool) {
	strip := func(v ssa.Value) ssa.Value {
		for {
			c, ok := v.(*ssa.Convert)
			if !ok {
				return v
			}
			v = c.X
		}
	}
	num, den := strip(q.X), strip(q.Y)
	k := 1.0
	if m, ok := den.(*ssa.BinOp); ok && m.Op == token.MUL {
		if c, isC := core.ConstFloat(m.Y); isC && c > 0 {
			k, den = c, strip(m.X)
		} else if c, isC := core.ConstFloat(m.X); isC && c > 0 {
			k, den = c, strip(m.Y)
		}
	}
	nc, ok1 := num.(*ssa.Call)
	dc, ok2 := den.(*ssa.Call)
	if !ok1 || !ok2 || len(nc.Call.Args) != 1 || len(dc.Call.Args) != 2 {
		return 0, false
	}
	ng, dg := core.StaticCallee(&nc.Call), core.StaticCallee(&dc.Call)
	isMax := false
	if bi, ok := dc.Call.Value.(*ssa.Builtin); ok && bi.Name() == "max" {
		isMax = true
	} else if dg != nil && minMaxKind(dg) == "max" {
		isMax = true
	}
	if ng == nil || !isEvenFn(ng) || !isMax {
		return 0, false
	}
	sub, ok := nc.Call.Args[0].(*ssa.BinOp)
	if !ok || sub.Op != token.SUB {
		return 0, false
	}
	same := func(a, b ssa.Value) bool { return a == b || core.Canon(a) == core.Canon(b) }
	x, y := sub.X, sub.Y
	mx, my := dc.Call.Args[0], dc.Call.Args[1]
	if !((same(x, mx) && same(y, my)) || (same(x, my) && same(y, mx))) {
		return 0, false
	}
	if e.nonNeg == nil || !e.nonNeg(x) || !e.nonNeg(y) {
		return 0, false
	}
	e.used["ASSUMED: counts of a topology are non-negative"] = true
	return k, true
}

// c19Range: the structural similarity lies in [0,1].
func c19Range(r *core.Run) {
	p := r.P
	sim := p.Func("pkg/analysis/topology", "TopologySimilarity")
	if sim == nil {
		r.Floor("C19.RANGE", "structural similarity function", 0, 1)
		return
	}
	unit := map[*ssa.Function]string{}
	if f := p.Func("pkg/analysis/topology", "MapSimilarity"); f != nil {
		unit[f] = "Σ min(cA,cB) / Σ max(cA,cB) over the union of keys (numerator bounded by the denominator term by term); loops: not evaluated"
	}
	if f := p.Func("pkg/analysis/topology", "typeListSimilarity"); f != nil {
		unit[f] = "2·matches / (len a + len b) with matches ≤ min(len a, len b); loop: not evaluated"
	}
	nonNeg := func(v ssa.Value) bool {
		u, isLoad := v.(*ssa.UnOp)
		if !isLoad {
			return false
		}
		fa, isFA := u.X.(*ssa.FieldAddr)
		if !isFA || !strings.HasSuffix(core.Deref(fa.X.Type()).String(), "topology.FunctionTopology") {
			return false
		}
		bt, isB := u.Type().Underlying().(*types.Basic)
		return isB && bt.Info()&types.IsInteger != 0 && strings.HasSuffix(core.FieldName(fa.X.Type(), fa.Field), "Count")
	}
	n := 0
	for _, ret := range core.Returns(sim) {
		q, ok := ret.Results[0].(*ssa.BinOp)
		if !ok || q.Op != token.QUO {
			if c, isC := core.ConstFloat(ret.Results[0]); isC {
				r.Check(c >= 0 && c <= 1, "C19.RANGE", core.FuncName(sim)+"#constant-result", ret.Pos(), fmt.Sprintf("constant result %g", c), fmt.Sprintf("constant result %g outside [0,1]", c))
				continue
			}
			r.Fail("C19.RANGE", core.FuncName(sim)+"#weighted-mean", ret.Pos(), "the result is not of the form score / weights: "+core.Canon(ret.Results[0]))
			continue
		}
		n++
		e := &rangeEval{p: p, memo: map[ssa.Value]ival{}, onStack: map[ssa.Value]bool{}, unit: unit, used: map[string]bool{}, nonNeg: nonNeg}
		score, weights := e.eval(q.X), e.eval(q.Y)
		var lemmas []string
		for l := range e.used {
			lemmas = append(lemmas, l)
		}
		sortStrings(lemmas)
		ok2 := weights.lo == weights.hi && weights.lo > 0 && score.lo >= 0 && score.hi <= weights.hi+1e-9
		r.Check(ok2, "C19.RANGE", core.FuncName(sim)+"#weighted-mean", ret.Pos(),
			fmt.Sprintf("score ∈ %v, weights = %g: the similarity is a weighted mean in [0,1]; used: %s", score, weights.lo, strings.Join(lemmas, "; ")),
			fmt.Sprintf("score ∈ %v but the weights sum to %v: the similarity can leave [0,1] (a term's factor and its weight disagree, or a term is unbounded) — a pair can pass or fail the rename threshold for no structural reason", score, weights))
		for _, l := range lemmas {
			if strings.HasPrefix(l, "ASSUMED:") {
				r.Note("C19.RANGE relies on — %s", l)
			}
		}
	}
	r.Floor("C19.RANGE", "score/weights results of the similarity", n, 1)
}
