package rules

import (
	"fmt"
	"go/token"
	"go/types"
	"os"
	"sort"
	"strings"

	"golang.org/x/tools/go/ssa"

	"sfwverif/internal/core"
)

func init() { register("C17", c17) }

// recursiveSCCs computes the strongly connected components with a cycle of the module call graph.
func recursiveSCCs(p *core.Program) [][]*ssa.Function {
	g, _ := p.CallGraph()
	adj := map[*ssa.Function][]*ssa.Function{}
	for _, fn := range p.Funcs {
		seen := map[*ssa.Function]bool{}
		if n := g.Nodes[fn]; n != nil {
			for _, e := range n.Out {
				if p.IsProdFunc(e.Callee.Func) && !seen[e.Callee.Func] {
					seen[e.Callee.Func] = true
					adj[fn] = append(adj[fn], e.Callee.Func)
				}
			}
		}
	}
	index := 0
	idx, low, on := map[*ssa.Function]int{}, map[*ssa.Function]int{}, map[*ssa.Function]bool{}
	var stack []*ssa.Function
	var out [][]*ssa.Function
	var sc func(v *ssa.Function)
	sc = func(v *ssa.Function) {
		idx[v], low[v] = index, index
		index++
		stack = append(stack, v)
		on[v] = true
		for _, w := range adj[v] {
			if _, ok := idx[w]; !ok {
				sc(w)
				if low[w] < low[v] {
					low[v] = low[w]
				}
			} else if on[w] && idx[w] < low[v] {
				low[v] = idx[w]
			}
		}
		if low[v] == idx[v] {
			var c []*ssa.Function
			for {
				w := stack[len(stack)-1]
				stack = stack[:len(stack)-1]
				on[w] = false
				c = append(c, w)
				if w == v {
					break
				}
			}
			self := false
			for _, w := range adj[v] {
				if w == v {
					self = true
				}
			}
			if len(c) > 1 || self {
				sort.Slice(c, func(i, j int) bool { return c[i].String() < c[j].String() })
				out = append(out, c)
			}
		}
	}
	for _, fn := range p.Funcs {
		if _, ok := idx[fn]; !ok {
			sc(fn)
		}
	}
	sort.Slice(out, func(i, j int) bool { return out[i][0].String() < out[j][0].String() })
	return out
}

func sccKey(c []*ssa.Function) string {
	var ns []string
	for _, f := range c {
		ns = append(ns, core.FuncName(f))
	}
	return strings.Join(ns, "+")
}

// recursive call sites of fn into its own SCC (static calls, closures called through a variable,
// and interface/dynamic calls are approximated by callee signature through the call graph)
func recCalls(p *core.Program, fn *ssa.Function, in map[*ssa.Function]bool) []ssa.CallInstruction {
	g, _ := p.CallGraph()
	var out []ssa.CallInstruction
	if n := g.Nodes[fn]; n != nil {
		seen := map[ssa.CallInstruction]bool{}
		for _, e := range n.Out {
			if in[e.Callee.Func] && e.Site != nil && !seen[e.Site] {
				seen[e.Site] = true
				out = append(out, e.Site)
			}
		}
	}
	sort.Slice(out, func(i, j int) bool { return out[i].Pos() < out[j].Pos() })
	return out
}

// ---- detectors

// detDepth: an int parameter of the same name in every member; some member returns early when it
// exceeds a constant; every call back into the SCC passes it on, and every cycle adds 1.
func detDepth(p *core.Program, c []*ssa.Function) (bool, string) {
	in := map[*ssa.Function]bool{}
	for _, f := range c {
		in[f] = true
	}
	// the depth parameter, by use: an int parameter that a recursive call passes on as itself or itself+const, or
	// that is compared (> / >=) with a constant; its name does not matter
	depthOf := func(f *ssa.Function) *ssa.Parameter {
		var byCmp *ssa.Parameter
		for _, pa := range f.Params {
			b, ok := pa.Type().Underlying().(*types.Basic)
			if !ok || b.Kind() != types.Int || pa.Referrers() == nil {
				continue
			}
			for _, ref := range *pa.Referrers() {
				if bo, ok := ref.(*ssa.BinOp); ok && bo.X == ssa.Value(pa) {
					if _, isC := core.ConstInt(bo.Y); !isC {
						continue
					}
					switch bo.Op {
					case token.ADD:
						if bo.Referrers() != nil {
							for _, r2 := range *bo.Referrers() {
								if cc := core.CallOf(r2); cc != nil && in[core.StaticCallee(cc)] {
									return pa
								}
							}
						}
					case token.GTR, token.GEQ:
						byCmp = pa
					}
				}
			}
		}
		return byCmp
	}
	guard := false
	incr := map[*ssa.Function]bool{}
	for _, f := range c {
		d := depthOf(f)
		if d == nil {
			return false, core.FuncName(f) + " has no depth parameter"
		}
		calls := recCalls(p, f, in)
		allInc := true
		for _, ci := range calls {
			callee := core.StaticCallee(ci.Common())
			if callee == nil {
				return false, "dynamic recursive call"
			}
			cd := depthOf(callee)
			pos := -1
			for i, pa := range callee.Params {
				if pa == cd {
					pos = i
				}
			}
			args := ci.Common().Args
			if pos < 0 || pos >= len(args) {
				return false, "cannot bind depth argument"
			}
			a := args[pos]
			if a == ssa.Value(d) {
				allInc = false
				continue
			}
			b, ok := a.(*ssa.BinOp)
			one, isC := int64(0), false
			if ok {
				one, isC = core.ConstInt(b.Y)
			}
			if !ok || b.Op != token.ADD || b.X != ssa.Value(d) || !isC || one < 1 {
				return false, "recursive call in " + core.FuncName(f) + " passes " + core.Canon(a) + " as depth"
			}
		}
		incr[f] = allInc && len(calls) > 0
		// the guard
		for _, b := range f.Blocks {
			if len(b.Instrs) == 0 {
				continue
			}
			ifi, ok := b.Instrs[len(b.Instrs)-1].(*ssa.If)
			if !ok {
				continue
			}
			op, x, y, neg, ok := core.Compare(ifi.Cond)
			if !ok || neg || x != ssa.Value(d) || (op != token.GTR && op != token.GEQ) {
				continue
			}
			if _, isC := core.ConstInt(y); !isC {
				continue
			}
			reach := core.ReachAvoiding(b.Succs[0], nil)
			stops := true
			for _, ci := range calls {
				if reach[ci.Block()] {
					stops = false
				}
			}
			if stops {
				guard = true
			}
		}
	}
	if !guard {
		return false, "no member returns early when the depth exceeds a constant"
	}
	// every cycle increments: at least one member on every cycle has all-incrementing calls; with
	// SCCs of size <= 2 this is: some member increments on all its recursive calls
	any := false
	for _, f := range c {
		if incr[f] {
			any = true
		}
	}
	if !any {
		return false, "no member increments the depth on all its recursive calls"
	}
	return true, "depth parameter compared with a constant, incremented on every cycle"
}

// detVisited: recursion is cut by a set keyed by the recursion argument.
func detVisited(p *core.Program, c []*ssa.Function) (bool, string) {
	if len(c) != 1 {
		return false, "not a single-function SCC"
	}
	f := c[0]
	in := map[*ssa.Function]bool{f: true}
	calls := recCalls(p, f, in)
	// maps that are updated with a parameter as key before any recursive call
	var sets []ssa.Value
	core.InstrsOf(f, func(ins ssa.Instruction) {
		mu, ok := ins.(*ssa.MapUpdate)
		if !ok {
			return
		}
		keyIsParam := false
		for _, o := range core.Origins(mu.Key) {
			if _, ok := o.(*ssa.Parameter); ok {
				keyIsParam = true
			}
			if fl, ok := o.(*ssa.UnOp); ok { // field of a parameter (pkg.PkgPath)
				if fa, ok := fl.X.(*ssa.FieldAddr); ok {
					if _, ok := fa.X.(*ssa.Parameter); ok {
						keyIsParam = true
					}
				}
			}
		}
		if !keyIsParam {
			return
		}
		for _, ci := range calls {
			if !(mu.Block() == ci.Block() && core.Precedes(mu, ci)) && !mu.Block().Dominates(ci.Block()) {
				return
			}
		}
		sets = append(sets, mu.Map)
	})
	if len(sets) == 0 {
		return false, "no visited set is updated with the recursion argument before recursing"
	}
	sameMap := func(a, b ssa.Value) bool {
		return a == b || core.Canon(a) == core.Canon(b)
	}
	// entry form: lookup(set, param) → return dominates every recursive call
	for _, set := range sets {
		okAll := true
		for _, ci := range calls {
			entry, n1, _ := core.MustPass(f, ci.Block(), func(cond ssa.Value) (bool, bool) {
				base, neg := core.StripNot(cond)
				switch x := base.(type) {
				case *ssa.Lookup:
					if sameMap(x.X, set) {
						return true, neg
					}
				case *ssa.Extract:
					if lk, ok := x.Tuple.(*ssa.Lookup); ok && x.Index == 1 && sameMap(lk.X, set) {
						return true, neg
					}
				}
				return false, false
			})
			if !(entry && n1 > 0) {
				okAll = false
			}
		}
		if okAll && len(calls) > 0 {
			return true, "visited set " + core.Canon(set) + " checked before and updated with the recursion argument"
		}
	}
	return false, "recursive calls are not dominated by a negative lookup in the visited set"
}

// detShrink: every recursive call passes a strictly shorter slice of the string parameter.
func detShrink(p *core.Program, c []*ssa.Function) (bool, string) {
	if len(c) != 1 {
		return false, "not a single-function SCC"
	}
	f := c[0]
	var sp *ssa.Parameter
	pos := -1
	for i, pa := range f.Params {
		if b, ok := pa.Type().Underlying().(*types.Basic); ok && b.Kind() == types.String {
			sp, pos = pa, i
		}
	}
	if sp == nil {
		return false, "no string parameter"
	}
	calls := recCalls(p, f, map[*ssa.Function]bool{f: true})
	var shorter func(v ssa.Value, d int) bool
	shorter = func(v ssa.Value, d int) bool {
		if d > 6 {
			return false
		}
		switch x := v.(type) {
		case *ssa.Slice:
			rooted := x.X == ssa.Value(sp) || shorterOrSame(x.X, sp, d+1)
			if !rooted {
				return false
			}
			if lo, ok := core.ConstInt(x.Low); ok && lo >= 1 {
				return true
			}
			if b, ok := x.Low.(*ssa.BinOp); ok && b.Op == token.ADD {
				if k, ok := core.ConstInt(b.Y); ok && k >= 1 {
					return true
				}
			}
			return shorter(x.X, d+1)
		case *ssa.Phi:
			for _, e := range x.Edges {
				if !shorter(e, d+1) {
					return false
				}
			}
			return len(x.Edges) > 0
		default:
			// a library function that returns its argument with something cut off is never longer than it
			if in, isTrim := trimmedOperand(v); isTrim {
				return shorter(in, d+1)
			}
		}
		return false
	}
	for _, ci := range calls {
		a := ci.Common().Args[pos]
		if !shorter(a, 0) {
			return false, "recursive call passes " + core.Canon(a) + ", not a strictly shorter slice of the parameter"
		}
	}
	return len(calls) > 0, "every recursive call passes a strictly shorter slice of the string parameter"
}

func shorterOrSame(v ssa.Value, sp *ssa.Parameter, d int) bool {
	if d > 6 {
		return false
	}
	switch x := v.(type) {
	case *ssa.Parameter:
		return x == sp
	case *ssa.Slice:
		return shorterOrSame(x.X, sp, d+1)
	case *ssa.Phi:
		for _, e := range x.Edges {
			if !shorterOrSame(e, sp, d+1) {
				return false
			}
		}
		return true
	default:
		if in, isTrim := trimmedOperand(v); isTrim {
			return shorterOrSame(in, sp, d+1)
		}
	}
	return false
}

// trimmedOperand: v is the result of strings.TrimPrefix/TrimSuffix/TrimSpace/Trim*/CutPrefix/CutSuffix (a substring
// of the first argument); returns that argument.
func trimmedOperand(v ssa.Value) (ssa.Value, bool) {
	if ex, ok := v.(*ssa.Extract); ok && ex.Index == 0 {
		if c, ok := callTo(ex.Tuple, "strings.CutPrefix", "strings.CutSuffix"); ok {
			return c.Call.Args[0], true
		}
		return nil, false
	}
	if c, ok := callTo(v, "strings.TrimPrefix", "strings.TrimSuffix", "strings.TrimSpace", "strings.Trim", "strings.TrimLeft", "strings.TrimRight", "strings.TrimFunc"); ok {
		return c.Call.Args[0], true
	}
	return nil, false
}

// detStructural: every recursive argument is obtained from the parameter through accessor calls of
// one library package (finite descent over an acyclic value such as an unnamed type literal).
func detStructural(p *core.Program, c []*ssa.Function, pkgPrefix string) (bool, string) {
	if len(c) != 1 {
		return false, "not a single-function SCC"
	}
	f := c[0]
	calls := recCalls(p, f, map[*ssa.Function]bool{f: true})
	var derived func(v ssa.Value, d int) bool
	derived = func(v ssa.Value, d int) bool {
		if d > 8 {
			return false
		}
		switch x := v.(type) {
		case *ssa.Parameter:
			return false // the parameter itself is not smaller
		case *ssa.Call:
			name := core.CalleeName(&x.Call)
			if !strings.Contains(name, pkgPrefix) {
				return false
			}
			for _, a := range core.CallArgs(&x.Call) {
				if rootedAt(a, f, pkgPrefix, d+1) {
					return true
				}
			}
			return false
		case *ssa.Extract:
			return derived(x.Tuple, d+1)
		case *ssa.TypeAssert:
			return derived(x.X, d+1)
		}
		return false
	}
	for _, ci := range calls {
		ok := false
		for _, a := range ci.Common().Args {
			if derived(a, 0) {
				ok = true
			}
		}
		if !ok {
			return false, "a recursive call does not descend through " + pkgPrefix + " accessors"
		}
	}
	return len(calls) > 0, "recursive arguments are strict components of the parameter (" + pkgPrefix + " accessors)"
}

func rootedAt(v ssa.Value, f *ssa.Function, pkgPrefix string, d int) bool {
	if d > 8 {
		return false
	}
	switch x := v.(type) {
	case *ssa.Parameter:
		return x.Parent() == f
	case *ssa.Call:
		if !strings.Contains(core.CalleeName(&x.Call), pkgPrefix) {
			return false
		}
		for _, a := range core.CallArgs(&x.Call) {
			if rootedAt(a, f, pkgPrefix, d+1) {
				return true
			}
		}
	case *ssa.Extract:
		return rootedAt(x.Tuple, f, pkgPrefix, d+1)
	case *ssa.TypeAssert:
		return rootedAt(x.X, f, pkgPrefix, d+1)
	case *ssa.FieldAddr:
		return rootedAt(x.X, f, pkgPrefix, d+1)
	case *ssa.UnOp:
		return rootedAt(x.X, f, pkgPrefix, d+1)
	case *ssa.Phi:
		for _, e := range x.Edges {
			if rootedAt(e, f, pkgPrefix, d+1) {
				return true
			}
		}
	}
	return false
}

// detSizeCap: the symbolic expression nodes these methods traverse are built under a size cap:
// every call that allocates a composite node from recursively computed operands is dominated by
// the 'tree size <= constant' test.
func detSizeCap(p *core.Program) (bool, string) {
	n := 0
	builders := scevBuilders(p)
	for _, fn := range p.FuncsIn("pkg/analysis/loop") {
		// members of the constructing recursion
		if !builders[fn] {
			continue
		}
		bad := ""
		core.InstrsOf(fn, func(in ssa.Instruction) {
			c, ok := in.(*ssa.Call)
			if !ok {
				return
			}
			callee := core.StaticCallee(&c.Call)
			if callee == nil || !p.IsProdFunc(callee) || builders[callee] {
				return
			}
			// does the callee allocate a composite node from its arguments?
			alloc := false
			core.InstrsOf(callee, func(in2 ssa.Instruction) {
				if al, ok := in2.(*ssa.Alloc); ok && strings.Contains(al.Type().String(), "SCEVGenericExpr") {
					alloc = true
				}
			})
			fromRec := false
			for _, a := range c.Call.Args {
				if rc, ok := a.(*ssa.Call); ok {
					if rcallee := core.StaticCallee(&rc.Call); rcallee != nil && builders[rcallee] {
						fromRec = true
					}
				}
			}
			if !alloc || !fromRec {
				return
			}
			n++
			ok1, n1, _ := core.MustPass(fn, c.Block(), func(cond ssa.Value) (bool, bool) {
				op, x, y, neg, ok := core.Compare(cond)
				if !ok || neg || op != token.GTR {
					return false, false
				}
				if _, isC := core.ConstInt(y); !isC {
					return false, false
				}
				return sumsTreeSizes(p, x, 0), false
			})
			if !(ok1 && n1 > 0) {
				bad = "composite expression node built from recursive results without the size test in " + core.FuncName(fn)
			}
		})
		// ... or the node is built right here from the recursive results
		core.InstrsOf(fn, func(in ssa.Instruction) {
			al, ok := in.(*ssa.Alloc)
			if !ok || !strings.Contains(al.Type().String(), "SCEVGenericExpr") {
				return
			}
			fromRec := false
			for _, fld := range []string{"X", "Y"} {
				if v, has := core.StructLitField(al, fld); has && v != nil {
					for _, o := range core.Origins(v) {
						if rc, isCall := o.(*ssa.Call); isCall {
							if rcallee := core.StaticCallee(&rc.Call); rcallee != nil && builders[rcallee] {
								fromRec = true
							}
						}
					}
				}
			}
			if !fromRec {
				return
			}
			n++
			ok1, n1, _ := core.MustPass(fn, al.Block(), func(cond ssa.Value) (bool, bool) {
				op, x, y, neg, ok := core.Compare(cond)
				if !ok || neg || op != token.GTR {
					return false, false
				}
				if _, isC := core.ConstInt(y); !isC {
					return false, false
				}
				return sumsTreeSizes(p, x, 0), false
			})
			if !(ok1 && n1 > 0) {
				bad = "composite expression node built from recursive results without the size test in " + core.FuncName(fn)
			}
		})
		if bad != "" {
			return false, bad
		}
	}
	if n == 0 {
		return false, "no size-capped construction of composite expression nodes found"
	}
	return true, "composite expression nodes are built from recursive results only under the tree-size cap, so every traversal is bounded by a constant"
}

// sumsTreeSizes: x is a sum containing calls of a repository function func(loop.SCEV) int (the node counter).
func sumsTreeSizes(p *core.Program, x ssa.Value, d int) bool {
	if d > 6 {
		return false
	}
	switch v := x.(type) {
	case *ssa.BinOp:
		return v.Op == token.ADD && (sumsTreeSizes(p, v.X, d+1) || sumsTreeSizes(p, v.Y, d+1))
	case *ssa.Call:
		g := core.StaticCallee(&v.Call)
		if g == nil || !p.IsProdFunc(g) || len(g.Params) != 1 {
			return false
		}
		rt := resultTypes(g)
		return len(rt) == 1 && rt[0].String() == "int" && strings.HasSuffix(g.Params[0].Type().String(), "loop.SCEV")
	case *ssa.Phi:
		for _, e := range v.Edges {
			if sumsTreeSizes(p, e, d+1) {
				return true
			}
		}
	}
	return false
}

// scevBuilders: the mutually recursive functions of pkg/analysis/loop that build a symbolic expression from an
// SSA value (result loop.SCEV, a parameter of type ssa.Value, in a recursive component).
func scevBuilders(p *core.Program) map[*ssa.Function]bool {
	out := map[*ssa.Function]bool{}
	for _, c := range recursiveSCCs(p) {
		for _, f := range c {
			if f.Pkg == nil || !strings.HasSuffix(f.Pkg.Pkg.Path(), "/pkg/analysis/loop") {
				continue
			}
			rt := resultTypes(f)
			if len(rt) != 1 || !strings.HasSuffix(rt[0].String(), "loop.SCEV") {
				continue
			}
			for _, pa := range f.Params {
				if strings.HasSuffix(pa.Type().String(), "ssa.Value") {
					out[f] = true
				}
			}
		}
	}
	return out
}

// detMemo: the function returns a memoised result before doing anything else and stores results.
func detMemo(f *ssa.Function, comp []*ssa.Function) (bool, string) {
	inComp := map[*ssa.Function]bool{}
	for _, g := range comp {
		inComp[g] = true
	}
	if len(f.Params) == 0 {
		return false, "no parameter"
	}
	key := f.Params[len(f.Params)-1]
	if len(f.Params) == 1 {
		key = f.Params[0]
	}
	var memo ssa.Value
	core.InstrsOf(f, func(in ssa.Instruction) {
		if lk, ok := in.(*ssa.Lookup); ok && lk.CommaOk && lk.Index == ssa.Value(key) {
			// consulted before any expansion: the lookup's block dominates every call made by f that can recurse
			// (calls before it, such as a type test on the argument, do no expanding work)
			before := true
			core.InstrsOf(f, func(in2 ssa.Instruction) {
				c := core.CallOf(in2)
				if c == nil {
					return
				}
				if _, isB := c.Value.(*ssa.Builtin); isB {
					return
				}
				// a static call to a function outside the recursive component cannot come back here
				if g := core.StaticCallee(c); g != nil && !c.IsInvoke() && !inComp[g] {
					return
				}
				if !(lk.Block() == in2.Block() && core.Precedes(lk, in2)) && !(lk.Block() != in2.Block() && lk.Block().Dominates(in2.Block())) {
					before = false
				}
			})
			if before {
				memo = lk.X
			}
		}
	})
	if memo == nil {
		return false, "no memo lookup keyed by the argument before the expanding calls"
	}
	stored := false
	core.InstrsOf(f, func(in ssa.Instruction) {
		if mu, ok := in.(*ssa.MapUpdate); ok && core.Canon(mu.Map) == core.Canon(memo) && mu.Key == ssa.Value(key) {
			stored = true
		}
	})
	if !stored {
		return false, "memo is consulted but never filled"
	}
	// filled whenever the value was computed: no condition on the store beyond those of the computation itself
	cond := ""
	core.InstrsOf(f, func(in ssa.Instruction) {
		mu, ok := in.(*ssa.MapUpdate)
		if !ok || core.Canon(mu.Map) != core.Canon(memo) || mu.Key != ssa.Value(key) {
			return
		}
		base := map[string]bool{}
		var walk func(v ssa.Value, d int)
		walk = func(v ssa.Value, d int) {
			if d > 4 {
				return
			}
			for _, o := range core.Origins(v) {
				if c, ok := o.(*ssa.Call); ok && c.Parent() == f {
					if _, isB := c.Call.Value.(*ssa.Builtin); isB {
						continue
					}
					for _, g := range mandatoryGuards(f, c.Block()) {
						base[g] = true
					}
					if core.StaticCallee(&c.Call) != nil && !c.Call.IsInvoke() {
						// a pure wrapper around the computed text (concatenation, hex encoding): look at its inputs too
						for _, a := range c.Call.Args {
							walk(a, d+1)
						}
					}
				}
				if b, ok := o.(*ssa.BinOp); ok {
					walk(b.X, d+1)
					walk(b.Y, d+1)
				}
			}
		}
		walk(mu.Value, 0)
		for _, g := range mandatoryGuards(f, mu.Block()) {
			if !base[g] {
				cond = g
			}
		}
	})
	if cond != "" {
		return false, "the memo is filled only if " + cond + ": other renderings are recomputed for every operand that mentions the value"
	}
	return true, "result memoised per argument (consulted at entry, filled on the expanding path)"
}

func c17(r *core.Run) {
	p := r.P
	r.Explain = "C17 decided structurally: (REC) every recursive strongly connected component of the module call graph that is reachable from the analysis entry points is classified by a detector whose premise is re-checked on every run — depth parameter compared with a constant and incremented on every cycle; visited-set keyed by the recursion argument; strictly shrinking string argument; descent through go/types accessors; traversal of symbolic expression trees whose construction is size-capped; memoised expansion in the renamer — an unclassified or failing component is reported; (CAPS) the work caps dominate their sinks: candidate buckets (len < MaxCandidates), the LCS window, the block-count guard before canonicalisation, per-string and per-function byte caps for string literals, LimitReader on provider responses, the rendered-expression digest cap. Not decided: the polynomial bound itself and comparison counts (needs a dynamic counter: another technique family). (REC, sharpened) a memo counts only if it is filled whenever the value was computed (no condition beyond the computation's own, except the cache-nil test); (CAPS) the structural matcher is constructed only when neither side carries the size guard's marker."
	r.Undecided = []string{"the polynomial work bound as a number", "instruction-matching comparison counts", "fuzzer-mutated inputs (crash freedom beyond recursion/size bounds)"}

	var entries []*ssa.Function
	for _, e := range [][2]string{{"pkg/diff", "FingerprintSource"}, {"pkg/diff", "FingerprintSourceAdvanced"}, {"pkg/diff", "FingerprintPackages"}, {"pkg/diff", "(*Zipper).ComputeDiff"}, {"pkg/diff", "MatchFunctionsByTopology"},
		{"pkg/analysis/topology", "ExtractTopology"}, {"pkg/analysis/topology", "TopologySimilarity"}, {"internal/cli", "ShortFunctionName"}, {"pkg/diff", "ShortFuncName"},
		{"internal/cli", "RunScanDeps"}, {"internal/cli", "ComputeDiff"}, {"internal/cli", "ProcessFile"}} {
		if fn := p.Func(e[0], e[1]); fn != nil {
			entries = append(entries, fn)
		}
	}
	r.Floor("C17.REC", "analysis entry points", len(entries), 9)
	reach := reachPrecise(p, entries...) // static calls, closures and resolved interface calls inside the module (whole-program graphs connect everything through the standard library)

	sizeOK, sizeWhy := detSizeCap(p)
	n := 0
	for _, c := range recursiveSCCs(p) {
		inScope := false
		for _, f := range c {
			if reach[f] {
				inScope = true
			}
		}
		key := sccKey(c)
		if !inScope {
			r.Note("recursive component outside the analysis scope (not classified): %s", key)
			continue
		}
		n++
		isSCEVMethod := true
		hasRenamer := false
		for _, f := range c {
			if f.Signature.Recv() == nil || !strings.Contains(f.Signature.Recv().Type().String(), "loop.SCEV") {
				if f.Parent() != nil && strings.Contains(f.Signature.String(), "ssa.Value") {
					hasRenamer = true
					continue
				}
				isSCEVMethod = false
			}
		}
		ok, why := false, ""
		switch {
		case isSCEVMethod && !hasRenamer && len(c) == 2 && strings.Contains(key, ".Name") && strings.Contains(key, ".String"):
			// call-graph artefact: Name() → String() → Value.Name(); a cycle needs an SCEVUnknown wrapped in another
			ok, why = unknownNeverWrapsSCEV(p)
		case isSCEVMethod && !hasRenamer:
			ok, why = sizeOK, sizeWhy
		case isSCEVMethod && hasRenamer:
			ok, why = sizeOK, sizeWhy
			if ok {
				for _, f := range c {
					if f.Parent() != nil {
						mok, mwhy := detMemo(f, c)
						dok, dwhy := closureDepthGuard(f)
						ok = mok && dok
						why = sizeWhy + "; " + mwhy + "; " + dwhy
					}
				}
			}
		default:
			for _, det := range []func() (bool, string){
				func() (bool, string) { return detDepthMemo(p, c) },
				func() (bool, string) {
					if fanOut(p, c) > 1 {
						return false, "a depth bound alone does not bound fan-out > 1"
					}
					return detDepth(p, c)
				},
				func() (bool, string) { return detVisited(p, c) },
				func() (bool, string) { return detShrink(p, c) },
				func() (bool, string) { return detStructural(p, c, "go/types") },
			} {
				if o, w := det(); o {
					ok, why = true, w
					break
				} else if why == "" {
					why = w
				} else {
					why += " | " + w
				}
			}
		}
		r.Check(ok, "C17.REC", key, c[0].Pos(), "bounded recursion: "+why, "recursive component without a recognised bound: "+why)
	}
	r.Floor("C17.REC", "recursive components in the analysis scope", n, 8)
	c17Caps(r)
}

// fanOut is the largest number of recursive call sites of a member (a call site inside a loop counts as 2).
func fanOut(p *core.Program, c []*ssa.Function) int {
	in := map[*ssa.Function]bool{}
	for _, f := range c {
		in[f] = true
	}
	fan := 0
	for _, f := range c {
		k := 0
		for _, ci := range recCalls(p, f, in) {
			k++
			if core.LoopHeaderOf(ci.Block()) != nil {
				k++
			}
		}
		if k > fan {
			fan = k
		}
	}
	return fan
}

// detDepthMemo: fan-out > 1 with a depth guard additionally needs a memo consulted before recursing.
func detDepthMemo(p *core.Program, c []*ssa.Function) (bool, string) {
	fan := fanOut(p, c)
	in := map[*ssa.Function]bool{}
	for _, f := range c {
		in[f] = true
	}
	if fan < 2 {
		return false, "fan-out 1"
	}
	dok, dwhy := detDepth(p, c)
	if !dok {
		return false, dwhy
	}
	memoWhy := ""
	for _, f := range c {
		mok, mwhy := detMemo2(f)
		if mok {
			return true, dwhy + "; fan-out " + string(rune('0'+fan)) + " made linear by " + mwhy
		}
		if mwhy != "no memo" {
			memoWhy = " (" + mwhy + ")"
		}
	}
	// fan-out through a loop over children (tree recursion) is linear in the tree
	for _, f := range c {
		for _, ci := range recCalls(p, f, in) {
			for _, a := range ci.Common().Args {
				if _, isChildren := core.FieldLoad(a, "Children"); isChildren {
					return true, dwhy + "; descends into the Children of a loop tree"
				}
			}
		}
	}
	return false, "fan-out " + string(rune('0'+fan)) + " with only a depth bound is exponential in the depth" + memoWhy
}

// detMemo2: memo keyed by the first parameter, consulted at entry (possibly under `cache != nil`).
func detMemo2(f *ssa.Function) (bool, string) {
	var memo ssa.Value
	core.InstrsOf(f, func(in ssa.Instruction) {
		lk, ok := in.(*ssa.Lookup)
		if !ok || !lk.CommaOk || len(f.Params) == 0 || lk.Index != ssa.Value(f.Params[0]) {
			return
		}
		// all recursive work must come after it: lookup block dominates every call
		memo = lk.X
	})
	if memo == nil {
		return false, "no memo"
	}
	stored := false
	core.InstrsOf(f, func(in ssa.Instruction) {
		if mu, ok := in.(*ssa.MapUpdate); ok && core.Canon(mu.Map) == core.Canon(memo) && mu.Key == ssa.Value(f.Params[0]) {
			stored = true
		}
	})
	if !stored {
		return false, "memo never filled"
	}
	// the memo is filled whenever the value was computed: the store has no condition beyond those of the
	// computation itself, except the 'is there a cache' test (a store only at some depths leaves shared
	// sub-expressions to be re-expanded once per path)
	cond := ""
	core.InstrsOf(f, func(in ssa.Instruction) {
		mu, ok := in.(*ssa.MapUpdate)
		if !ok || core.Canon(mu.Map) != core.Canon(memo) || mu.Key != ssa.Value(f.Params[0]) {
			return
		}
		base := map[string]bool{}
		for _, o := range core.Origins(mu.Value) {
			if c, ok := o.(*ssa.Call); ok && c.Parent() == f {
				for _, g := range mandatoryGuards(f, c.Block()) {
					base[g] = true
				}
			}
		}
		for _, g := range mandatoryGuards(f, mu.Block()) {
			if base[g] || (strings.Contains(g, "nil") && strings.HasPrefix(g, "T:")) {
				continue
			}
			cond = g
		}
	})
	if cond != "" {
		return false, "the memo is filled only if " + cond + ": other results are recomputed on every path that reaches them"
	}
	return true, "a per-value memo (" + core.Canon(memo) + ")"
}

func closureDepthGuard(f *ssa.Function) (bool, string) {
	for _, b := range f.Blocks {
		if len(b.Instrs) == 0 {
			continue
		}
		ifi, ok := b.Instrs[len(b.Instrs)-1].(*ssa.If)
		if !ok {
			continue
		}
		op, x, y, neg, ok := core.Compare(ifi.Cond)
		if !ok || neg || (op != token.GEQ && op != token.GTR) {
			continue
		}
		u, isLoad := x.(*ssa.UnOp)
		if !isLoad {
			continue
		}
		if _, isFV := u.X.(*ssa.FreeVar); !isFV {
			continue
		}
		if _, isC := core.ConstInt(y); !isC {
			continue
		}
		// counter incremented
		inc := false
		core.InstrsOf(f, func(in ssa.Instruction) {
			if st, ok := in.(*ssa.Store); ok && st.Addr == u.X {
				if bo, ok := st.Val.(*ssa.BinOp); ok && bo.Op == token.ADD {
					inc = true
				}
			}
		})
		if inc {
			return true, "captured depth counter compared with a constant"
		}
	}
	return false, "no captured depth counter guard"
}

// unknownNeverWrapsSCEV: the Value field of SCEVUnknown literals never receives a value whose
// static type is one of the symbolic node types.
func unknownNeverWrapsSCEV(p *core.Program) (bool, string) {
	bad := ""
	n := 0
	for _, fn := range p.Funcs {
		core.InstrsOf(fn, func(in ssa.Instruction) {
			st, ok := in.(*ssa.Store)
			if !ok {
				return
			}
			fa, ok := st.Addr.(*ssa.FieldAddr)
			if !ok || !strings.HasSuffix(core.TypeName(fa.X.Type()), "SCEVUnknown") || core.FieldName(fa.X.Type(), fa.Field) != "Value" {
				return
			}
			n++
			if strings.Contains(core.Unwrap(st.Val).Type().String(), "loop.SCEV") {
				bad = core.FuncName(fn)
			}
		})
	}
	if bad != "" {
		return false, "an SCEVUnknown wraps another symbolic node in " + bad
	}
	return n > 0, "call-graph artefact: SCEVUnknown.Value is only ever assigned SSA values, so Name()→String()→Value.Name() cannot come back"
}

// c17NodeSize: the tree-size cap of symbolic expressions works on a size recorded in every composite node; the
// recorded size counts BOTH operands the node is built from (and the cap test sums both recursion results) — a
// size that counts one operand twice lets chains that share the other operand grow as 2^depth under the cap.
func c17NodeSize(r *core.Run) {
	p := r.P
	n := 0
	counterArgs := func(v ssa.Value) []ssa.Value {
		var out []ssa.Value
		var walk func(v ssa.Value, d int)
		walk = func(v ssa.Value, d int) {
			if d > 6 {
				return
			}
			switch x := v.(type) {
			case *ssa.BinOp:
				if x.Op == token.ADD {
					walk(x.X, d+1)
					walk(x.Y, d+1)
				}
			case *ssa.Call:
				g := core.StaticCallee(&x.Call)
				if g != nil && p.IsProdFunc(g) && len(g.Params) == 1 && strings.HasSuffix(g.Params[0].Type().String(), "loop.SCEV") {
					out = append(out, x.Call.Args[0])
				}
			}
		}
		walk(v, 0)
		return out
	}
	for _, fn := range p.FuncsIn("pkg/analysis/loop") {
		core.InstrsOf(fn, func(in ssa.Instruction) {
			al, ok := in.(*ssa.Alloc)
			if !ok || !strings.HasSuffix(core.Deref(al.Type()).String(), "loop.SCEVGenericExpr") {
				return
			}
			st, _ := core.Deref(al.Type()).Underlying().(*types.Struct)
			if st == nil {
				return
			}
			sizeField := ""
			for i := 0; i < st.NumFields(); i++ {
				if isIntegerType(st.Field(i).Type()) && !strings.Contains(st.Field(i).Type().String(), "token") {
					sizeField = st.Field(i).Name()
				}
			}
			sz, has := core.StructLitField(al, sizeField)
			if sizeField == "" || !has || sz == nil {
				return
			}
			xv, okX := core.StructLitField(al, "X")
			yv, okY := core.StructLitField(al, "Y")
			if !okX || !okY {
				return
			}
			n++
			args := counterArgs(sz)
			hasX, hasY := false, false
			for _, a := range args {
				if core.Unwrap(a) == core.Unwrap(xv) {
					hasX = true
				}
				if core.Unwrap(a) == core.Unwrap(yv) {
					hasY = true
				}
			}
			r.Check(hasX && hasY, "C17.REC", core.FuncName(fn)+"#node-size-counts-both-operands", al.Pos(), "the recorded size of a composite node adds the sizes of both operands", "the recorded size of a composite expression node does not add the sizes of both of its operands ("+core.Canon(sz)+"): the tree-size cap undercounts, and chains that reuse the uncounted operand grow exponentially below the cap")
		})
	}
	r.Floor("C17.REC", "composite expression nodes with a recorded size", n, 1)
}

// c17SizeRead: the helper that answers with a node's recorded size does so when a size IS recorded (size > 0) and
// counts 1 otherwise. With the test turned round it answers 1 for every node, the tree-size cap never trips, and
// shared sub-expressions are expanded exponentially.
func c17SizeRead(r *core.Run) {
	p := r.P
	n := 0
	for _, fn := range p.FuncsIn("pkg/analysis/loop") {
		rt := resultTypes(fn)
		if len(rt) != 1 || rt[0].String() != "int" {
			continue
		}
		for _, ret := range core.Returns(fn) {
			base, name, isF := fieldLoadBy(core.Unwrap(ret.Results[0]), isIntegerType)
			if !isF || !strings.HasSuffix(core.Deref(base.Type()).String(), "loop.SCEVGenericExpr") {
				continue
			}
			n++
			ok1, n1, _ := core.MustPass(fn, ret.Block(), func(cond ssa.Value) (bool, bool) {
				op, x, y, neg, okC := core.Compare(cond)
				if !okC || neg {
					return false, false
				}
				_, n2, isF2 := fieldLoadBy(core.Unwrap(x), isIntegerType)
				k, isK := core.ConstInt(y)
				if !isF2 || n2 != name || !isK {
					return false, false
				}
				switch {
				case op == token.GTR && k == 0, op == token.GEQ && k == 1, op == token.NEQ && k == 0:
					return true, true
				case op == token.LEQ && k == 0, op == token.LSS && k == 1, op == token.EQL && k == 0:
					return true, false
				}
				return false, false
			})
			r.Check(ok1 && n1 > 0, "C17.REC", core.FuncName(fn)+"#recorded-size-read-when-positive", ret.Pos(), "the recorded size is returned when one is recorded (> 0)", "the recorded size of a composite node is returned under another test than 'it is positive': every composite node counts as 1, the tree-size cap never trips and chains of shared sub-expressions are expanded as 2^depth")
		}
	}
	r.Floor("C17.REC", "reads of a node's recorded size", n, 1)
}

func c17Caps(r *core.Run) {
	p := r.P
	c17NodeSize(r)
	c17SizeRead(r)
	// candidate buckets
	n := 0
	for _, fn := range p.FuncsIn("pkg/diff") {
		core.InstrsOf(fn, func(in ssa.Instruction) {
			mu, ok := in.(*ssa.MapUpdate)
			if !ok {
				return
			}
			m, ok := mu.Map.Type().Underlying().(*types.Map)
			if !ok {
				return
			}
			if sl, ok := m.Elem().Underlying().(*types.Slice); !ok || !strings.HasSuffix(sl.Elem().String(), "ssa.Instruction") {
				return
			}
			n++
			ok1, n1, path := core.MustPass(fn, mu.Block(), func(cond ssa.Value) (bool, bool) {
				op, x, y, neg, ok := core.Compare(cond)
				if !ok || neg || op != token.LSS {
					return false, false
				}
				ln, isLen := isBuiltinCall(x, "len")
				if !isLen {
					return false, false
				}
				// the length that is capped is the bucket's (a lookup in this map under this key), not the map's
				lk, isLk := core.Unwrap(ln.Call.Args[0]).(*ssa.Lookup)
				if !isLk || core.Canon(lk.X) != core.Canon(mu.Map) || core.Canon(lk.Index) != core.Canon(mu.Key) {
					return false, false
				}
				_, isC := core.ConstInt(y)
				return isC, true
			})
			r.Check(ok1 && n1 > 0, "C17.CAPS", core.FuncName(fn)+"#candidate-bucket-cap", mu.Pos(), "candidate bucket grows only while len < constant cap", "candidate buckets are unbounded: matching cost is quadratic in identical operations ("+core.FmtPath(path)+")")
		})
	}
	r.Floor("C17.CAPS", "candidate bucket appends", n, 1)

	// LCS window: 2-D table dimensions clamped by a constant
	nL := 0
	for _, fn := range p.FuncsIn("pkg/diff") {
		core.InstrsOf(fn, func(in ssa.Instruction) {
			ms, ok := in.(*ssa.MakeSlice)
			if !ok {
				return
			}
			if _, isInts := ms.Type().Underlying().(*types.Slice); !isInts || !strings.Contains(ms.Type().String(), "int") {
				return
			}
			var clamped func(v ssa.Value, d int) bool
			clamped = func(v ssa.Value, d int) bool {
				if d > 4 {
					return false
				}
				if b, ok := v.(*ssa.BinOp); ok && b.Op == token.ADD {
					v = b.X
				}
				switch x := v.(type) {
				case *ssa.Const:
					return true
				case *ssa.Call:
					// min(n, K)
					if bi, ok := x.Call.Value.(*ssa.Builtin); ok && bi.Name() == "min" {
						for _, a := range x.Call.Args {
							if _, isC := core.ConstInt(a); isC {
								return true
							}
						}
					}
					return false
				case *ssa.Parameter:
					// a helper that is handed the dimension: every caller passes a clamped value
					callers := 0
					for _, cf := range p.FuncsIn("pkg/diff") {
						for _, ci := range core.Calls(cf, func(_ string, c *ssa.CallCommon) bool { return core.StaticCallee(c) == x.Parent() }) {
							for i, pa := range x.Parent().Params {
								if pa == x && i < len(ci.Common().Args) {
									callers++
									if !clamped(ci.Common().Args[i], d+1) {
										return false
									}
								}
							}
						}
					}
					return callers > 0
				case *ssa.Phi:
					hasConst := false
					for _, e := range x.Edges {
						if _, isC := core.ConstInt(e); isC {
							hasConst = true
						}
					}
					return hasConst
				}
				return false
			}
			nL++
			r.Check(clamped(ms.Len, 0), "C17.CAPS", core.FuncName(fn)+"#lcs-window", ms.Pos(), "dynamic-programming table dimension is clamped to a constant window", "dynamic-programming table dimension "+core.Canon(ms.Len)+" is not clamped: quadratic memory in the entry block size")
		})
	}
	r.Floor("C17.CAPS", "dynamic-programming tables in the zipper", nL, 2)

	// block-count guard before canonicalisation
	nB := 0
	for _, fn := range p.FuncsIn("pkg/diff") {
		for _, ci := range core.Calls(fn, func(nm string, _ *ssa.CallCommon) bool {
			return strings.HasSuffix(nm, "Canonicalizer).CanonicalizeFunction")
		}) {
			nB++
			ok1, n1, path := core.MustPass(fn, ci.Block(), func(cond ssa.Value) (bool, bool) {
				op, x, y, neg, ok := core.Compare(cond)
				if !ok || neg || op != token.GTR {
					return false, false
				}
				ln, isLen := isBuiltinCall(x, "len")
				if !isLen {
					return false, false
				}
				if _, isBlocks := core.FieldLoad(ln.Call.Args[0], "Blocks"); !isBlocks {
					return false, false
				}
				_, isC := core.ConstInt(y)
				return isC, false
			})
			r.Check(ok1 && n1 > 0, "C17.CAPS", core.FuncName(fn)+"#block-count-guard", ci.Pos(), "canonicalisation only for functions within the block-count cap", "functions of any size are canonicalised ("+core.FmtPath(path)+")")
		}
	}
	r.Floor("C17.CAPS", "canonicalisation call sites in pkg/diff", nB, 1)
	// the structural matcher runs the same loop/SCEV/canonicalisation machinery: it is constructed only when
	// neither side carries the size guard's marker
	marker := ""
	for _, fn := range p.FuncsIn("pkg/diff") {
		core.InstrsOf(fn, func(in ssa.Instruction) {
			if st, ok := in.(*ssa.Store); ok {
				if fa, ok := st.Addr.(*ssa.FieldAddr); ok && core.FieldName(fa.X.Type(), fa.Field) == "Fingerprint" {
					if sv, isC := core.ConstString(st.Val); isC && sv != "" {
						marker = sv
					}
				}
			}
		})
	}
	nZ := 0
	for _, fn := range p.Funcs {
		if !p.IsProdFunc(fn) || strings.HasSuffix(fn.Pkg.Pkg.Path(), "/pkg/diff") {
			continue
		}
		for _, ci := range core.Calls(fn, func(name string, _ *ssa.CallCommon) bool { return strings.HasSuffix(name, "/pkg/diff.NewZipper") }) {
			nZ++
			for side := 0; side < 2; side++ {
				var res ssa.Value // the FingerprintResult this side's function was taken from
				for _, o := range core.Origins(ci.Common().Args[side]) {
					if c, ok := o.(*ssa.Call); ok && len(c.Call.Args) > 0 {
						res = slotOf(c.Call.Args[0])
					}
				}
				construct := fmt.Sprintf("%s#matcher-not-on-oversized(arg%d)", core.FuncName(fn), side)
				if res == nil || marker == "" {
					r.Fail("C17.CAPS", construct, ci.Pos(), "cannot relate the matcher's argument to a fingerprint result / no size marker found")
					continue
				}
				atom := func(cond ssa.Value) (bool, bool) {
					op, x, y, neg, ok := core.Compare(cond)
					if !ok || neg || (op != token.EQL && op != token.NEQ) {
						return false, false
					}
					for _, pair := range [][2]ssa.Value{{x, y}, {y, x}} {
						base, isF := core.FieldLoad(pair[0], "Fingerprint")
						sv, isC := core.ConstString(pair[1])
						if isF && isC && sv == marker && slotOf(base) == res {
							return true, op == token.NEQ
						}
					}
					return false, false
				}
				ok1, n1, path := core.MustPass(fn, ci.Block(), atom)
				r.Check(ok1 && n1 > 0, "C17.CAPS", construct, ci.Pos(), "the structural matcher is built only when this side is not marked "+marker, "the structural matcher (loop analysis, SCEV, instruction matching) can run on a function the size guard rejected ("+core.FmtPath(path)+"): oversized input is processed instead of refused")
			}
		}
	}
	r.Floor("C17.CAPS", "constructions of the structural matcher outside pkg/diff", nZ, 1)
	// no crash on a compilable input: arbitrary-precision division in the symbolic evaluator only by a divisor that
	// was tested to be non-zero (the operands come from the analysed program's constants)
	nDiv := 0
	for _, rel := range []string{"pkg/analysis/loop", "pkg/analysis/ir", "pkg/analysis/topology", "pkg/diff"} {
		for _, fn := range p.FuncsIn(rel) {
			core.InstrsOf(fn, func(in ssa.Instruction) {
				c := core.CallOf(in)
				if c == nil {
					return
				}
				switch core.CalleeName(c) {
				case "(*math/big.Int).Quo", "(*math/big.Int).Rem", "(*math/big.Int).Div", "(*math/big.Int).Mod", "(*math/big.Int).QuoRem", "(*math/big.Int).DivMod":
				default:
					return
				}
				nDiv++
				div := c.Args[2]
				if os.Getenv("SFW_DUMP") == "div" {
					fn.WriteTo(os.Stderr)
				}
				ok1, n1, path := core.MustPass(fn, in.Block(), func(cond ssa.Value) (bool, bool) {
					op, x, y, neg, ok := core.Compare(cond)
					if !ok || neg || (op != token.EQL && op != token.NEQ) {
						return false, false
					}
					sc, isCall := callTo(x, "(*math/big.Int).Sign")
					z, isZ := core.ConstInt(y)
					// the same value, or a second load of the same field (x.Value read once for the test and once for the division)
					if !isCall || !isZ || z != 0 || (sc.Call.Args[0] != div && core.Canon(sc.Call.Args[0]) != core.Canon(div)) {
						return false, false
					}
					return true, op == token.NEQ
				})
				r.Check(ok1 && n1 > 0, "C17.CAPS", core.FuncName(fn)+"#division-by-tested-divisor("+strings.TrimPrefix(core.CalleeName(c), "(*math/big.Int).")+")", in.Pos(), "big-integer division only after the divisor's Sign() was tested against 0", "big-integer division without a zero test of the divisor ("+core.FmtPath(path)+"): a loop bound such as x % (a-a) panics inside the analysis of a compilable file")
			})
		}
	}
	r.Floor("C17.CAPS", "big-integer divisions in the symbolic evaluator", nDiv, 1)

	// string-literal byte caps in the topology extractor
	nS := 0
	for _, fn := range p.FuncsIn("pkg/analysis/topology") {
		core.InstrsOf(fn, func(in ssa.Instruction) {
			st, ok := in.(*ssa.Store)
			if !ok {
				return
			}
			fa, ok := st.Addr.(*ssa.FieldAddr)
			if !ok || core.FieldName(fa.X.Type(), fa.Field) != "StringLiterals" {
				return
			}
			if _, isAppend := isBuiltinCall(st.Val, "append"); !isAppend {
				return
			}
			nS++
			ok1, n1, path := core.MustPass(fn, st.Block(), func(cond ssa.Value) (bool, bool) {
				op, x, _, neg, ok := core.Compare(cond)
				if !ok || neg || op != token.LEQ {
					return false, false
				}
				b, isAdd := x.(*ssa.BinOp)
				return isAdd && b.Op == token.ADD, true
			})
			r.Check(ok1 && n1 > 0, "C17.CAPS", core.FuncName(fn)+"#total-string-bytes-cap", st.Pos(), "a literal is kept only while the per-function byte budget holds", "string literals are collected without the per-function byte cap ("+core.FmtPath(path)+")")
			// ... and the budget is spent: the running total that the test reads grows by the literal's length on the
			// path that keeps the literal (a total that never grows makes the cap a per-literal test)
			if ok1 && n1 > 0 {
				spent := false
				var acc ssa.Value
				for _, b := range fn.Blocks {
					if len(b.Instrs) == 0 {
						continue
					}
					if ifi, isIf := b.Instrs[len(b.Instrs)-1].(*ssa.If); isIf {
						if _, x, y, _, okC := core.Compare(ifi.Cond); okC && (b == st.Block() || b.Dominates(st.Block())) {
							for _, side := range []ssa.Value{x, y} {
								if add, isAdd := side.(*ssa.BinOp); isAdd && add.Op == token.ADD {
									if _, isLen := isBuiltinCall(add.Y, "len"); isLen {
										acc = add.X
									}
								}
							}
						}
					}
				}
				if accPhi, isPhi := acc.(*ssa.Phi); isPhi {
					// an increment acc + len(...) in the keeping block that flows back into the accumulator
					var inc *ssa.BinOp
					for _, in2 := range st.Block().Instrs {
						if b2, isB := in2.(*ssa.BinOp); isB && b2.Op == token.ADD && b2.X == acc {
							if _, isLen := isBuiltinCall(b2.Y, "len"); isLen {
								inc = b2
							}
						}
					}
					if inc != nil {
						seenP := map[ssa.Value]bool{}
						var flows func(v ssa.Value, d int) bool
						flows = func(v ssa.Value, d int) bool {
							if v == ssa.Value(inc) {
								return true
							}
							ph, ok := v.(*ssa.Phi)
							if !ok || seenP[v] || d > 8 {
								return false
							}
							seenP[v] = true
							for _, e := range ph.Edges {
								if flows(e, d+1) {
									return true
								}
							}
							return false
						}
						spent = flows(accPhi, 0)
					}
				}
				r.Check(spent, "C17.CAPS", core.FuncName(fn)+"#total-string-bytes-spent", st.Pos(), "the running byte total grows by the length of every literal that is kept", "the running byte total that the per-function cap reads is not increased when a literal is kept: the cap never engages and every large literal of a function is kept and processed")
			}
			// per-string truncation: a slice val[:max] under len(val) > max exists
			trunc := false
			core.InstrsOf(fn, func(in2 ssa.Instruction) {
				if sl, ok := in2.(*ssa.Slice); ok && sl.Low == nil && sl.High != nil {
					if b, ok := sl.X.Type().Underlying().(*types.Basic); ok && b.Kind() == types.String {
						ok2, n2, _ := core.MustPass(fn, sl.Block(), func(cond ssa.Value) (bool, bool) {
							op, x, y, neg, ok := core.Compare(cond)
							if !ok || neg || op != token.GTR {
								return false, false
							}
							_, isLen := isBuiltinCall(x, "len")
							return isLen && core.Resolve(y) == core.Resolve(sl.High) || isLen && y == sl.High, true
						})
						if ok2 && n2 > 0 {
							trunc = true
						}
					}
				}
			})
			r.Check(trunc, "C17.CAPS", core.FuncName(fn)+"#per-string-cap", st.Pos(), "every literal is truncated to the per-string cap", "string literals are not truncated to the per-string cap")
		})
	}
	r.Floor("C17.CAPS", "string-literal collection sites", nS, 1)

	// provider responses are read through LimitReader
	nR := 0
	for _, fn := range p.FuncsIn("internal/llm") {
		core.InstrsOf(fn, func(in ssa.Instruction) {
			if c, ok := in.(*ssa.Call); ok && core.CalleeName(&c.Call) == "io.ReadAll" {
				nR++
				_, lim := callTo(core.Unwrap(c.Call.Args[0]), "io.LimitReader")
				r.Check(lim, "C17.CAPS", core.FuncName(fn)+"#response-limit", in.Pos(), "provider response is read through io.LimitReader", "provider response is read without a size bound")
			}
		})
	}
	r.Floor("C17.CAPS", "provider response reads", nR, 1)
	// ... and so is every other whole-content read in production code: source files are read through a size-bounded
	// reader (a Stat size understates what a FIFO, a device or a growing file delivers), and nothing reads a whole
	// file by name
	nF := 0
	for _, fn := range p.Funcs {
		if !p.IsProdFunc(fn) || (fn.Pkg != nil && strings.HasSuffix(fn.Pkg.Pkg.Path(), "/internal/llm")) {
			continue
		}
		core.InstrsOf(fn, func(in ssa.Instruction) {
			c, ok := in.(*ssa.Call)
			if !ok {
				return
			}
			switch core.CalleeName(&c.Call) {
			case "io.ReadAll":
				nF++
				_, lim := callTo(core.Unwrap(core.Resolve(c.Call.Args[0])), "io.LimitReader")
				r.Check(lim, "C17.CAPS", core.FuncName(fn)+"#bounded-read", in.Pos(), "content is read through io.LimitReader", "content is read to the end without a size bound: an input whose Stat size understates what a read delivers (FIFO, device, /proc file, a file that grows) is read and analysed whole, or exhausts memory")
			case "os.ReadFile", "io/ioutil.ReadFile", "io/ioutil.ReadAll":
				nF++
				r.Fail("C17.CAPS", core.FuncName(fn)+"#bounded-read", in.Pos(), "a whole file is read by "+core.CalleeName(&c.Call)+" without a size bound")
			}
		})
	}
	r.Floor("C17.CAPS", "whole-content reads of input files", nF, 1)

	// rendered-expression digest cap in the renamer
	nD := 0
	for _, fn := range p.FuncsIn("pkg/analysis/ir") {
		if fn.Parent() == nil || !strings.Contains(fn.Signature.String(), "ssa.Value") {
			continue
		}
		core.InstrsOf(fn, func(in ssa.Instruction) {
			c, ok := in.(*ssa.Call)
			if !ok || !c.Call.IsInvoke() || c.Call.Method.Name() != "StringWithRenamer" {
				return
			}
			nD++
			// the rendered string reaches the memo / return only through the length test
			capped := false
			core.InstrsOf(fn, func(in2 ssa.Instruction) {
				if ifi, ok := in2.(*ssa.If); ok {
					op, x, y, neg, ok := core.Compare(ifi.Cond)
					if ok && !neg && op == token.GTR {
						if ln, isLen := isBuiltinCall(x, "len"); isLen && ln.Call.Args[0] == ssa.Value(c) {
							if _, isC := core.ConstInt(y); isC {
								capped = true
							}
						}
					}
				}
			})
			r.Check(capped, "C17.CAPS", core.FuncName(fn)+"#rendered-expression-cap", in.Pos(), "a substituted expression's text is length-tested (digest above the cap)", "substituted expressions are embedded at full length: nested substitutions multiply")
		})
	}
	r.Floor("C17.CAPS", "expression renderings inside the renamer", nD, 1)
}

// slotOf: the local variable a value was loaded from (the value itself otherwise).
func slotOf(v ssa.Value) ssa.Value {
	v = core.Unwrap(v)
	if u, ok := v.(*ssa.UnOp); ok && u.Op == token.MUL {
		if a, ok := u.X.(*ssa.Alloc); ok {
			return a
		}
	}
	return v
}
