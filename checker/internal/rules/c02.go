package rules

import (
	"fmt"
	"go/constant"
	"go/token"
	"go/types"
	"os"
	"strings"

	"golang.org/x/tools/go/ssa"

	"sfwverif/internal/core"
)

func init() { register("C02", c02) }

func c02(r *core.Run) {
	p := r.P
	r.Explain = "C02 decided structurally (necessary conditions of invariance under cosmetic edits): (NONAME) nothing reachable from the canonicaliser reads a cosmetic attribute — names of parameters, free variables, locals or phis, positions, comments, instruction String() — register and block names come only from counters; the one Value.Name() in the symbolic-expression printer is reachable only with a nil renamer, and every production caller passes a non-nil renamer; (SELF) a function operand's own name is read only after the test 'does it belong to the nest of the function being canonicalised' failed (references into the own nest are positional), so renaming the function itself does not change its IR; (ABST) on the abstraction branch the rendered literal does not depend on the literal's value; (COMM) operands of a commutative operation are written in the order of their rendered strings; (SWAP) operator rewrite and branch exchange are recorded together (shared with C03.GATE.swap); (DECLORDER) results are sorted by function name. Not decided: that the swapped and the original form are behaviourally equal and that sorted operand strings coincide for every commuted pair (semantic / runtime). Also: the commutativity predicate covers + * & | ^ and tests the operand type through Underlying() (defined integer types); the branch swap's operand-type predicate likewise; the same-nest test compares the nest roots of both sides (closure → enclosing function, sibling and deeper closures)."
	r.Undecided = []string{"behavioural equality of the normalised forms", "that two cosmetically different sources always produce the same go/ssa shape (trusted: go/ssa)"}

	entry := p.Func("pkg/analysis/ir", "(*Canonicalizer).CanonicalizeFunction")
	norm := p.Func("pkg/analysis/ir", "(*Canonicalizer).NormalizeOperand")
	var entries []*ssa.Function
	for _, e := range []*ssa.Function{entry, norm} {
		if e != nil {
			entries = append(entries, e)
		}
	}
	// role fallback: any method of the pool-managed type that returns string and walks fn.Blocks
	if len(entries) == 0 {
		for _, fn := range p.FuncsIn("pkg/analysis/ir") {
			rt := resultTypes(fn)
			if len(rt) == 1 && rt[0].String() == "string" && len(fn.Params) == 2 && strings.HasSuffix(fn.Params[1].Type().String(), "ssa.Function") {
				entries = append(entries, fn)
			}
		}
	}
	if !r.Floor("C02.NONAME", "canonicaliser entry points", len(entries), 1) {
		return
	}
	reach := p.Reach(entries...)
	irPkg, loopPkg := p.ModPath+"/pkg/analysis/ir", p.ModPath+"/pkg/analysis/loop"
	nExamined := 0
	for _, fn := range core.SortedFuncs(reach) {
		root := fn
		for root.Parent() != nil {
			root = root.Parent()
		}
		if root.Pkg == nil || (root.Pkg.Pkg.Path() != irPkg && root.Pkg.Pkg.Path() != loopPkg) {
			continue
		}
		fnm := core.FuncName(fn)
		// the ssa.Value interface methods of the symbolic nodes themselves (Name/Pos/...) are plumbing
		if fn.Signature.Recv() != nil && strings.Contains(fn.Signature.Recv().Type().String(), "loop.SCEV") && (fn.Name() == "Name" || fn.Name() == "Pos" || fn.Name() == "String") {
			continue
		}
		core.InstrsOf(fn, func(in ssa.Instruction) {
			nExamined++
			// Comment fields
			if fa, ok := in.(*ssa.FieldAddr); ok && strings.Contains(fa.X.Type().String(), ssaPkgPath) && core.FieldName(fa.X.Type(), fa.Field) == "Comment" {
				r.Fail("C02.NONAME", fnm+"#reads(Comment)", in.Pos(), "a Comment field (source variable name) is read on the canonicalisation path")
			}
			c := core.CallOf(in)
			if c == nil {
				return
			}
			name := core.CalleeName(c)
			short := name[strings.LastIndex(name, "/")+1:]
			switch {
			case name == "invoke:("+ssaPkgPath+".Value).Name":
				// allowed only under 'renamer == nil', with every caller passing a non-nil renamer
				guarded, n1, _ := core.MustPass(fn, in.Block(), func(cond ssa.Value) (bool, bool) {
					x, nonNilOnTrue, ok := core.NilCompare(cond)
					if !ok {
						return false, false
					}
					if _, isParam := x.(*ssa.Parameter); !isParam {
						return false, false
					}
					if !strings.Contains(x.Type().String(), "Renamer") {
						return false, false
					}
					return true, !nonNilOnTrue
				})
				if guarded && n1 > 0 {
					r.OK("C02.NONAME", fnm+"#Value.Name()-only-without-renamer", in.Pos(), "value names are read only when no renamer is supplied")
				} else {
					r.Fail("C02.NONAME", fnm+"#Value.Name()", in.Pos(), "the name of an SSA value (local variable / parameter name) is read on the canonicalisation path: renaming a local changes the IR")
				}
			case strings.HasSuffix(name, ".Parameter).Name") || strings.HasSuffix(name, ".FreeVar).Name") || strings.HasSuffix(name, ".Alloc).Name") || strings.HasSuffix(name, ".Phi).Name") ||
				strings.HasSuffix(name, ".register).Name"):
				if strings.Contains(name, ssaPkgPath) {
					r.Fail("C02.NONAME", fnm+"#"+short, in.Pos(), "the name of a parameter / free variable / register is read on the canonicalisation path")
				}
			case (strings.HasSuffix(name, ").Pos") || strings.HasSuffix(name, ".Pos")) && strings.Contains(name, ssaPkgPath):
				r.Fail("C02.NONAME", fnm+"#"+short, in.Pos(), "a source position is read on the canonicalisation path: reformatting changes the IR")
			case name == "invoke:("+ssaPkgPath+".Instruction).String" || name == "invoke:("+ssaPkgPath+".Value).String":
				r.Fail("C02.NONAME", fnm+"#"+short, in.Pos(), "an instruction's String() (which embeds register names) is read on the canonicalisation path")
			}
		})
	}
	r.Floor("C02.NONAME", "instructions examined on the canonicalisation path", nExamined, 500)
	// every production call of StringWithRenamer from outside the symbolic nodes passes a non-nil renamer
	nR := 0
	for _, fn := range p.FuncsIn("pkg/analysis/ir") {
		core.InstrsOf(fn, func(in ssa.Instruction) {
			c := core.CallOf(in)
			if c == nil || !(c.IsInvoke() && c.Method.Name() == "StringWithRenamer") {
				return
			}
			nR++
			arg := c.Args[0]
			ok := false
			for _, o := range core.Origins(core.Resolve(arg)) {
				switch x := o.(type) {
				case *ssa.MakeClosure:
					ok = true
				case *ssa.Call:
					if callee := core.StaticCallee(&x.Call); callee != nil && p.IsProdFunc(callee) {
						ok = true
						for _, ret := range core.Returns(callee) {
							for _, oo := range core.Origins(core.Resolve(ret.Results[0])) {
								if _, isMC := oo.(*ssa.MakeClosure); !isMC {
									ok = false
								}
							}
						}
					}
				case *ssa.FreeVar, *ssa.Parameter:
					ok = true // the renamer passing itself on
				}
			}
			r.Check(ok, "C02.NONAME", core.FuncName(fn)+"#non-nil-renamer", in.Pos(), "symbolic expressions are printed with a non-nil renamer", "a symbolic expression is printed with a renamer that may be nil: value names leak into the IR")
		})
	}
	r.Floor("C02.NONAME", "StringWithRenamer call sites in the canonicaliser", nR, 2)

	// register/block names come from counters and constant formats
	nNames := 0
	for _, fn := range p.FuncsIn("pkg/analysis/ir") {
		core.InstrsOf(fn, func(in ssa.Instruction) {
			mu, ok := in.(*ssa.MapUpdate)
			if !ok {
				return
			}
			// the two name tables of the canonicaliser, by type: map[ssa.Value]string and map[*ssa.BasicBlock]string
			f := ""
			if _, name, ok := fieldLoadBy(mu.Map, isValueStringMap); ok {
				f = name
			}
			if _, name, ok := fieldLoadBy(mu.Map, isBlockStringMap); ok {
				f = name
			}
			if f == "" {
				return
			}
			nNames++
			good := true
			why := ""
			var walk func(v ssa.Value, d int)
			walk = func(v ssa.Value, d int) {
				if d > 6 {
					return
				}
				for _, o := range core.Origins(v) {
					switch x := o.(type) {
					case *ssa.Const:
					case *ssa.Call:
						if core.CalleeName(&x.Call) == "fmt.Sprintf" {
							if _, isC := core.ConstString(x.Call.Args[0]); !isC {
								good, why = false, "non-constant format"
							}
							if elems, ok := varargElems(x.Call.Args[1]); ok {
								for _, e := range elems {
									e = core.Unwrap(e)
									if _, _, isCounter := fieldLoadBy(e, isIntegerType); isCounter {
										continue // an integer counter field of the canonicaliser
									}
									if isLoopCounter(e) {
										continue
									}
									if b, isBin := e.(*ssa.BinOp); isBin && isLoopCounter(b.X) {
										continue
									}
									good, why = false, "name built from "+core.Canon(e)
								}
							}
							continue
						}
						good, why = false, "name comes from "+core.Canon(o)
					case *ssa.UnOp:
						// preferredName[0] supplied by the caller: constant formats over parameter indices (checked at the caller's MapUpdate… accept loads of the variadic slice)
						if _, isIA := x.X.(*ssa.IndexAddr); isIA {
							continue
						}
						good, why = false, "name comes from "+core.Canon(o)
					case *ssa.Parameter:
						// wrapper parameter: check the callers' arguments
						for _, ci := range callersOf(p, x.Parent()) {
							args := core.CallArgs(ci.Common())
							for i, pa := range x.Parent().Params {
								if pa == x && i < len(args) {
									if elems, ok := varargElems(args[i]); ok {
										for _, e := range elems {
											walk(e, d+1)
										}
									} else if !core.IsNilConst(args[i]) {
										walk(args[i], d+1)
									}
								}
							}
						}
					default:
						good, why = false, "name comes from "+core.Canon(o)
					}
				}
			}
			walk(mu.Value, 0)
			r.Check(good, "C02.NONAME", core.FuncName(fn)+"#"+f+"-names-from-counters", mu.Pos(), "canonical names are built from counters / positions with constant formats", "a canonical register/block name is not derived from a counter: "+why)
		})
	}
	r.Floor("C02.NONAME", "assignments of canonical register/block names", nNames, 2)

	c02Self(r)
	c02Abst(r)
	c02Comm(r)
	c03GateSwap(r, "C02.SWAP")
	c02VirtualView(r)
	c02RenamerThreaded(r)
	// exchanging the operands of the variable's own update (i = i + 1 ↔ i = 1 + i) keeps it an induction variable:
	// the classifier takes the step from whichever operand is not the variable (rule shared with C12)
	r.Under("C12.IV", "C02.COMM", func() { c12StepOperand(r) })
	c02DeclOrder(r)
	c02PhiOrder(r)
	c02TripPolarity(r)
	c02Exact(r)
}

// c02Exact: whether a literal is abstracted or kept is decided from its exact value. go/constant's fixed-width
// accessors report inexactness in a second result; deciding on the truncated value lets some large literals
// (e.g. uint64 values that wrap into the small range) be kept verbatim while all other large literals are
// abstracted, so replacing one large literal by another changes the fingerprint.
func c02Exact(r *core.Run) {
	p := r.P
	n := 0
	for _, fn := range p.FuncsIn("pkg/analysis/ir") {
		core.InstrsOf(fn, func(in ssa.Instruction) {
			c, ok := in.(*ssa.Call)
			if !ok {
				return
			}
			switch core.CalleeName(&c.Call) {
			case "go/constant.Int64Val", "go/constant.Uint64Val", "go/constant.Float64Val", "go/constant.Float32Val":
			default:
				return
			}
			n++
			var val, exact *ssa.Extract
			if refs := c.Referrers(); refs != nil {
				for _, ref := range *refs {
					if ex, ok := ref.(*ssa.Extract); ok {
						if ex.Index == 0 {
							val = ex
						} else {
							exact = ex
						}
					}
				}
			}
			ok2 := true
			why := ""
			if val != nil && val.Referrers() != nil {
				if exact == nil {
					ok2, why = false, "the exactness flag is discarded"
				} else {
					for _, ref := range *val.Referrers() {
						if _, isDbg := ref.(*ssa.DebugRef); isDbg {
							continue
						}
						ev := ssa.Value(exact)
						ok1, n1, _ := core.MustPass(fn, ref.Block(), core.BoolGuard(func(x ssa.Value) bool { return x == ev }, true))
						if !(ok1 && n1 > 0) {
							ok2, why = false, "the value is used on a path where the exactness flag was not tested"
						}
					}
				}
			}
			r.Check(ok2, "C02.ABST", core.FuncName(fn)+"#exact-"+strings.TrimPrefix(core.CalleeName(&c.Call), "go/constant."), c.Pos(), "the fixed-width value of a literal is used only when go/constant reports it exact", "a literal's value is taken through "+core.CalleeName(&c.Call)+" and "+why+": literals outside the fixed-width range wrap around and are classified by the wrong value (kept instead of abstracted, or vice versa)")
		})
	}
	r.Floor("C02.ABST", "fixed-width reads of literal values in the literal policy", n, 1)
}

// c02PhiOrder: a value first mentioned by a phi gets its register name when the phi is written; the operands must
// therefore be rendered after the edges were put into canonical (sorted) order, otherwise exchanging the arms of
// an if — which the branch normalisation undoes for the block names — still exchanges the names of the two values.
func c02PhiOrder(r *core.Run) {
	p := r.P
	n := 0
	for _, fn := range p.FuncsIn("pkg/analysis/ir") {
		writesPhi := false
		core.InstrsOf(fn, func(in ssa.Instruction) {
			if c := core.CallOf(in); c != nil && strings.HasSuffix(core.CalleeName(c), "strings.Builder).WriteString") && len(c.Args) > 1 {
				if s, ok := core.ConstString(c.Args[1]); ok && s == "Phi" {
					writesPhi = true
				}
			}
		})
		if !writesPhi {
			continue
		}
		n++
		var sorts, renders []ssa.Instruction
		core.InstrsOf(fn, func(in ssa.Instruction) {
			c := core.CallOf(in)
			if c == nil {
				return
			}
			name := core.CalleeName(c)
			if strings.HasPrefix(name, "sort.") || strings.HasPrefix(name, "slices.Sort") {
				sorts = append(sorts, in)
			}
			if g := core.StaticCallee(c); g != nil && p.IsProdFunc(g) && g.Name() == "NormalizeOperand" {
				renders = append(renders, in)
			}
		})
		ok := len(sorts) > 0 && len(renders) > 0
		for _, rd := range renders {
			after := false
			for _, so := range sorts {
				if core.Precedes(so, rd) {
					after = true
				}
			}
			if !after {
				ok = false
			}
		}
		r.Check(ok, "C02.PHIORDER", core.FuncName(fn)+"#operands-rendered-after-sort", fn.Pos(), "phi operands are rendered (and forward references named) after the edges were sorted", "phi operands are rendered before the edges are sorted: a forward-referenced value is named in the order of the real predecessors, so exchanging the arms of an if inside a loop changes the fingerprint")
	}
	r.Floor("C02.PHIORDER", "phi writer of the canonicaliser", n, 1)
}

// c02TripPolarity: writing a loop test as the opposite test with the exit on the true edge ("for !(i >= n)") must
// yield the same trip-count annotation: the derivation handles both orientations by complementing the operator.
func c02TripPolarity(r *core.Run) {
	p := r.P
	n := 0
	for _, fn := range p.FuncsIn("pkg/analysis/loop") {
		stores := false
		core.InstrsOf(fn, func(in ssa.Instruction) {
			if st, ok := in.(*ssa.Store); ok {
				if fa, ok := st.Addr.(*ssa.FieldAddr); ok && core.FieldName(fa.X.Type(), fa.Field) == "TripCount" {
					stores = true
				}
			}
		})
		if !stores {
			continue
		}
		n++
		ph := tripOperatorPhi(fn)
		consts := 0
		if ph != nil {
			for _, e := range ph.Edges {
				if _, isC := core.ConstInt(e); isC {
					consts++
				}
			}
		}
		r.Check(ph != nil && consts >= 4, "C02.TRIPSWAP", core.FuncName(fn)+"#both-orientations", fn.Pos(), "the trip count is derived for both orientations of the header test (operator complemented when the true edge exits)", "the trip count is derived only when the true edge of the header test stays in the loop: the same loop written with the opposite test gets 'TripCount: ?' and a different fingerprint")
	}
	r.Floor("C02.TRIPSWAP", "trip-count derivation", n, 1)
	// ... and the complement it applies is the right one: the polarity clauses of C12's trip-count rule are necessary
	// here (a wrong complement gives the two spellings of one loop different TripCount lines)
	for _, fn := range p.FuncsIn("pkg/analysis/loop") {
		if tripOperatorPhi(fn) == nil {
			continue
		}
		r.Filter = func(o *core.Obligation) bool {
			return strings.HasSuffix(o.Construct, "/operator-follows-polarity") || strings.HasSuffix(o.Construct, "/exactly-one-successor-stays")
		}
		r.Under("C12.TRIP", "C02.TRIPSWAP", func() { c12Trip(r, fn) })
		r.Filter = nil
	}
}

// tripOperatorPhi: the token-typed phi that the trip-count derivation switches on (operator as written / complemented).
func tripOperatorPhi(fn *ssa.Function) *ssa.Phi {
	var out *ssa.Phi
	core.InstrsOf(fn, func(in ssa.Instruction) {
		b, ok := in.(*ssa.BinOp)
		if !ok || b.Op != token.EQL {
			return
		}
		if ph, isPhi := b.X.(*ssa.Phi); isPhi && strings.HasSuffix(ph.Type().String(), "token.Token") {
			if _, isC := core.ConstInt(b.Y); isC {
				out = ph
			}
		}
	})
	return out
}

func c02Self(r *core.Run) {
	p := r.P
	n := 0
	var scan func(fn *ssa.Function, depth int, subjectAware bool)
	seen := map[*ssa.Function]bool{}
	norm := p.Func("pkg/analysis/ir", "(*Canonicalizer).NormalizeOperand")
	if norm == nil {
		r.Floor("C02.SELF", "operand renderer", 0, 1)
		return
	}
	scan = func(fn *ssa.Function, depth int, _ bool) {
		if seen[fn] || depth > 2 {
			return
		}
		seen[fn] = true
		fnm := core.FuncName(fn)
		core.InstrsOf(fn, func(in ssa.Instruction) {
			c := core.CallOf(in)
			if c == nil {
				return
			}
			name := core.CalleeName(c)
			if name == "(*"+ssaPkgPath+".Function).Name" || name == "(*"+ssaPkgPath+".Function).String" || name == "(*"+ssaPkgPath+".Function).RelString" {
				// is the receiver the operand (not e.g. a parent walked for the nest path)?
				n++
				// must be dominated by the failing edge of a same-nest identity test; the only bypass allowed
				// is 'no subject known' (subject == nil)
				bypass := map[core.Edge]bool{}
				for _, b := range fn.Blocks {
					if len(b.Instrs) == 0 {
						continue
					}
					if ifi, ok := b.Instrs[len(b.Instrs)-1].(*ssa.If); ok {
						if x, nonNilOnTrue, ok := core.NilCompare(ifi.Cond); ok {
							subj := x
							if c, isCall := x.(*ssa.Call); isCall && isNestRoot(p, x) && len(c.Call.Args) == 1 {
								subj = c.Call.Args[0] // the root of a non-nil subject is never nil
							}
							if base, _, isSubj := fieldLoadBy(subj, isSSAFunctionPtr); isSubj && strings.HasSuffix(core.Deref(base.Type()).String(), "ir.Canonicalizer") {
								idx := 1
								if !nonNilOnTrue {
									idx = 0
								}
								bypass[core.Edge{From: b, Idx: idx}] = true
							}
						}
					}
				}
				atom := func(cond ssa.Value) (bool, bool) {
					op, x, y, neg, ok := core.Compare(cond)
					if !ok || neg || (op != token.EQL && op != token.NEQ) {
						return false, false
					}
					if !strings.HasSuffix(x.Type().String(), "ssa.Function") || !strings.HasSuffix(y.Type().String(), "ssa.Function") {
						return false, false
					}
					if core.IsNilConst(x) || core.IsNilConst(y) {
						return false, false
					}
					// both sides are nest roots: a reference from a closure to its enclosing function, to a
					// sibling closure or to a deeper closure belongs to the same nest as well
					if !isNestRoot(p, x) || !isNestRoot(p, y) {
						return false, false
					}
					return true, op == token.NEQ
				}
				ok1, n1, path := core.MustPassFrom(fn, fn.Blocks[0], in.Block(), atom, bypass)
				r.Check(ok1 && n1 > 0, "C02.SELF", fnm+"#function-name-read", in.Pos(), "a referenced function's name is read only when it does not belong to the subject's own nest", "the name of a referenced function is read without first excluding the function being canonicalised and its closures ("+core.FmtPath(path)+"): a recursive function's own name is in its IR, so renaming it changes the fingerprint")
				return
			}
			if callee := core.StaticCallee(c); callee != nil && p.IsProdFunc(callee) && callee.Pkg == fn.Pkg {
				for _, a := range c.Args {
					if strings.HasSuffix(a.Type().String(), "ssa.Function") {
						scan(callee, depth+1, false)
					}
				}
			}
		})
	}
	scan(norm, 0, false)
	r.Floor("C02.SELF", "reads of a referenced function's name in the operand renderer", n, 1)
	// the subject is recorded when canonicalisation starts
	set := false
	for _, fn := range p.FuncsIn("pkg/analysis/ir") {
		core.InstrsOf(fn, func(in ssa.Instruction) {
			if st, ok := in.(*ssa.Store); ok {
				if fa, ok := st.Addr.(*ssa.FieldAddr); ok && isSSAFunctionPtr(deref1(fa.Type())) && strings.HasSuffix(core.Deref(fa.X.Type()).String(), "ir.Canonicalizer") {
					if _, isParam := st.Val.(*ssa.Parameter); isParam {
						set = true
					}
				}
			}
		})
	}
	r.Check(set, "C02.SELF", "ir.Canonicalizer#subject-recorded", token.NoPos, "the function being canonicalised is recorded before rendering", "the canonicaliser never records which function it is rendering: own-nest references cannot be recognised")
}

// isNestRoot: v is, on every origin, the result of a helper func(*ssa.Function) *ssa.Function that walks
// Parent() in a loop (the outermost enclosing function).
func isNestRoot(p *core.Program, v ssa.Value) bool {
	os := core.Origins(v)
	if len(os) == 0 {
		return false
	}
	for _, o := range os {
		c, ok := o.(*ssa.Call)
		if !ok {
			return false
		}
		callee := core.StaticCallee(&c.Call)
		if callee == nil || !p.IsProdFunc(callee) || len(callee.Params) != 1 {
			return false
		}
		rt := resultTypes(callee)
		if len(rt) != 1 || !strings.HasSuffix(rt[0].String(), "ssa.Function") || !strings.HasSuffix(callee.Params[0].Type().String(), "ssa.Function") {
			return false
		}
		walks := false
		core.InstrsOf(callee, func(in ssa.Instruction) {
			if cc := core.CallOf(in); cc != nil && core.CalleeName(cc) == "(*"+ssaPkgPath+".Function).Parent" && core.LoopHeaderOf(in.Block()) != nil {
				walks = true
			}
		})
		if !walks {
			return false
		}
	}
	return true
}

func c02Abst(r *core.Run) {
	p := r.P
	norm := p.Func("pkg/analysis/ir", "(*Canonicalizer).NormalizeOperand")
	if norm == nil {
		return
	}
	n := 0
	for _, ret := range core.Returns(norm) {
		ok1, n1, _ := core.MustPass(norm, ret.Block(), core.BoolGuard(func(x ssa.Value) bool {
			c, ok := x.(*ssa.Call)
			return ok && strings.HasSuffix(core.CalleeName(&c.Call), ".ShouldAbstract")
		}, true))
		if !(ok1 && n1 > 0) {
			continue
		}
		n++
		dep := ""
		for _, o := range core.Origins(ret.Results[0]) {
			c, ok := o.(*ssa.Call)
			if !ok || core.CalleeName(&c.Call) != "fmt.Sprintf" {
				continue
			}
			elems, _ := varargElems(c.Call.Args[1])
			for _, e := range elems {
				s := core.Canon(core.Unwrap(e))
				if strings.Contains(s, ".Value") && !strings.Contains(s, "Type(") {
					dep = s
				}
				if strings.Contains(s, "StringVal(") || strings.Contains(s, "ExactString(") {
					dep = s
				}
			}
		}
		r.Check(dep == "", "C02.ABST", core.FuncName(norm)+"#abstracted-literal", ret.Pos(), "an abstracted literal is rendered from its type only", "an abstracted literal's rendering depends on its value ("+dep+"): replacing the literal changes the fingerprint")
	}
	r.Floor("C02.ABST", "abstraction branch of the constant renderer", n, 1)

	// literals inside symbolic expressions (trip counts, recurrences) follow the same policy: the node that prints
	// an integer constant asks the renamer first on every path, and the canonicaliser's renamer answers from
	// ShouldAbstract with a text that does not depend on the value
	nNode := 0
	for _, fn := range p.FuncsIn("pkg/analysis/loop") {
		if fn.Name() != "StringWithRenamer" || fn.Signature.Recv() == nil || len(fn.Params) < 2 {
			continue
		}
		printsBig := false
		core.InstrsOf(fn, func(in ssa.Instruction) {
			if c := core.CallOf(in); c != nil {
				switch core.CalleeName(c) {
				case "(*math/big.Int).String", "(*math/big.Int).Text", "(*math/big.Int).Int64", "(*math/big.Int).Uint64", "(*math/big.Int).Format":
					printsBig = true
				}
			}
		})
		if !printsBig {
			continue
		}
		nNode++
		ask, wit := renamerAskedOnEveryPath(fn, "loop.ConstRef", nil)
		r.Check(len(ask) > 0 && wit == nil, "C02.ABST", core.FuncName(fn)+"#symbolic-literal-asks-policy", fn.Pos(),
			"an integer constant of a symbolic expression is printed only after the renamer (the literal policy) was asked",
			"an integer constant of a symbolic expression is printed without asking the renamer (path "+core.FmtPath(wit)+"): a loop bound or start value that the policy abstracts everywhere else leaks through the TripCount line and {start, +, step}, so replacing the literal changes the fingerprint")
	}
	r.Floor("C02.ABST", "symbolic-expression nodes that print an integer constant", nNode, 1)
	nAns := 0
	for _, fn := range p.FuncsIn("pkg/analysis/ir") {
		var ta *ssa.TypeAssert
		core.InstrsOf(fn, func(in ssa.Instruction) {
			if t, ok := in.(*ssa.TypeAssert); ok && strings.HasSuffix(t.AssertedType.String(), "loop.ConstRef") {
				ta = t
			}
		})
		if ta == nil {
			continue
		}
		nAns++
		answered, dep := false, ""
		for _, ret := range core.Returns(fn) {
			ok1, n1, _ := core.MustPass(fn, ret.Block(), core.BoolGuard(func(x ssa.Value) bool {
				c, ok := x.(*ssa.Call)
				return ok && strings.HasSuffix(core.CalleeName(&c.Call), ".ShouldAbstract")
			}, true))
			if !(ok1 && n1 > 0) {
				continue
			}
			if k, isC := core.ConstString(ret.Results[0]); isC && k != "" {
				answered = true
			} else {
				dep = core.Canon(ret.Results[0])
			}
		}
		r.Check(answered && dep == "", "C02.ABST", core.FuncName(fn)+"#symbolic-literal-answer", ta.Pos(),
			"the renamer answers a literal request from ShouldAbstract with a fixed placeholder",
			"the renamer's answer for a literal inside a symbolic expression is not a fixed placeholder under ShouldAbstract ("+dep+")")
	}
	r.Floor("C02.ABST", "renamer clause answering literal requests", nAns, 1)

	// an integer literal is kept verbatim only if it is small: in the policy's decision function, no "keep" result
	// (constant false) is reachable after the test "the literal is an integer" succeeded without the test "it lies in
	// the small range" having succeeded too — whatever the usage context and the policy's switches
	nKeep := 0
	for _, fn := range p.FuncsIn("pkg/analysis/ir") {
		rt := resultTypes(fn)
		if fn.Signature.Recv() == nil || len(rt) != 1 || rt[0].String() != "bool" || len(fn.Params) < 2 || !strings.HasSuffix(fn.Params[1].Type().String(), "ssa.Const") {
			continue
		}
		isSmallCall := func(v ssa.Value) bool {
			c, ok := v.(*ssa.Call)
			if !ok {
				return false
			}
			g := core.StaticCallee(&c.Call)
			// the range test: a method of the policy that judges a go/constant.Value
			if g == nil || !p.IsProdFunc(g) || g.Signature.Recv() == nil || len(g.Params) != 2 {
				return false
			}
			grt := resultTypes(g)
			return len(grt) == 1 && grt[0].String() == "bool" && strings.HasSuffix(g.Params[1].Type().String(), "go/constant.Value") &&
				types.Identical(core.Deref(g.Signature.Recv().Type()), core.Deref(fn.Signature.Recv().Type()))
		}
		isSmallVal := func(x ssa.Value) bool {
			if isSmallCall(x) {
				return true
			}
			ph, ok := x.(*ssa.Phi)
			if !ok {
				return false
			}
			n := 0
			for _, e := range ph.Edges {
				if k, isC := e.(*ssa.Const); isC {
					if k.Value == nil || k.Value.Kind() != constant.Bool || constant.BoolVal(k.Value) {
						return false
					}
					continue
				}
				if !isSmallCall(e) {
					return false
				}
				n++
			}
			return n > 0
		}
		isIntegerVal := func(x ssa.Value) bool {
			b, ok := x.(*ssa.BinOp)
			if !ok || b.Op != token.EQL {
				return false
			}
			c, isCall := b.X.(*ssa.Call)
			k, isK := core.ConstInt(b.Y)
			return isCall && isK && k == int64(constant.Int) && c.Call.IsInvoke() && c.Call.Method.Name() == "Kind"
		}
		intEdges, nInt := core.GuardEdges(fn, core.BoolGuard(isIntegerVal, true))
		if len(nInt) == 0 {
			continue
		}
		extra := map[core.Edge]bool{}
		var starts []*ssa.BasicBlock
		for e := range intEdges {
			if e.Via == nil {
				extra[core.Edge{From: e.From, Idx: 1 - e.Idx}] = true // explored under "the literal is an integer"
				starts = append(starts, e.From.Succs[e.Idx])
			}
		}
		can, wit, nr := keepWithoutSmall(p, fn, isSmallVal, starts, extra, 0)
		nKeep += nr
		r.Check(!can, "C02.ABST", core.FuncName(fn)+"#integer-kept-only-if-small", fn.Pos(), "an integer literal is kept verbatim only after the small-range test succeeded", "an integer literal can be kept verbatim without the small-range test having succeeded (path "+core.FmtPath(wit)+"): literals outside the documented small range leak into the fingerprint in that usage context, so replacing one changes the fingerprint")
	}
	r.Floor("C02.ABST", "'keep' results of the literal policy's decision function", nKeep, 3)
}

func c02Comm(r *core.Run) {
	p := r.P
	n := 0
	for _, fn := range p.FuncsIn("pkg/analysis/ir") {
		for _, b := range fn.Blocks {
			if len(b.Instrs) == 0 {
				continue
			}
			ifi, ok := b.Instrs[len(b.Instrs)-1].(*ssa.If)
			if !ok {
				continue
			}
			op, x, y, neg, ok := core.Compare(ifi.Cond)
			if !ok || neg || op != token.GTR {
				continue
			}
			cx, okx := x.(*ssa.Call)
			cy, oky := y.(*ssa.Call)
			if !okx || !oky || core.StaticCallee(&cx.Call) == nil || core.StaticCallee(&cx.Call) != core.StaticCallee(&cy.Call) || x.Type().String() != "string" {
				continue
			}
			n++
			fnm := core.FuncName(fn)
			// guarded by the commutativity predicate
			ok1, n1, _ := core.MustPass(fn, b.Succs[0], core.BoolGuard(func(v ssa.Value) bool {
				c, ok := v.(*ssa.Call)
				if !ok {
					return false
				}
				callee := core.StaticCallee(&c.Call)
				return callee != nil && len(callee.Params) == 1 && strings.HasSuffix(callee.Params[0].Type().String(), "ssa.BinOp")
			}, true))
			r.Check(ok1 && n1 > 0, "C02.COMM", fnm+"#exchange-only-if-commutative", ifi.Pos(), "operand strings are exchanged only for commutative operations", "operand strings are exchanged without the commutativity test")
			// the two branches write the operands in opposite orders
			firstWritten := func(blk *ssa.BasicBlock) ssa.Value {
				for _, in := range blk.Instrs {
					if c := core.CallOf(in); c != nil && strings.HasSuffix(core.CalleeName(c), "strings.Builder).WriteString") {
						if c.Args[1] == x || c.Args[1] == y {
							return c.Args[1]
						}
					}
				}
				return nil
			}
			ft, ff := firstWritten(b.Succs[0]), firstWritten(b.Succs[1])
			r.Check(ft == y && ff == x, "C02.COMM", fnm+"#ordered-write", ifi.Pos(), "the smaller rendered operand is written first", "the branches do not write the operands in exchanged order: a+b and b+a render differently")
		}
	}
	// the predicate really covers the commutative integer operations, also for defined integer types
	nPred := 0
	for _, fn := range p.FuncsIn("pkg/analysis/ir") {
		rt := resultTypes(fn)
		if len(rt) != 1 || rt[0].String() != "bool" || len(fn.Params) != 1 || !strings.HasSuffix(fn.Params[0].Type().String(), "ssa.BinOp") {
			continue
		}
		nPred++
		fnm := core.FuncName(fn)
		covered := map[token.Token]bool{}
		for _, ret := range core.Returns(fn) {
			c, ok := ret.Results[0].(*ssa.Const)
			if !ok || c.Value == nil || c.Value.String() != "true" {
				continue
			}
			gate, _ := tokensGating(fn, ret.Block(), "Op")
			for _, g := range gate {
				covered[g] = true
			}
		}
		var missing []string
		for _, t := range []token.Token{token.ADD, token.MUL, token.AND, token.OR, token.XOR} {
			if !covered[t] {
				missing = append(missing, t.String())
			}
		}
		r.Check(len(missing) == 0, "C02.COMM", fnm+"#covers-commutative-integer-ops", fn.Pos(), "+ * & | ^ are recognised as commutative", "operators {"+strings.Join(missing, " ")+"} are not recognised as commutative: exchanging their operands changes the fingerprint")
		all, bad := structuralAsserts(fn, "types.Basic")
		r.Check(len(all) > 0 && len(bad) == 0, "C02.COMM", fnm+"#numeric-test-through-Underlying", fn.Pos(), "the numeric test looks through defined types (Underlying)", "the numeric test is applied to the declared type, not its Underlying(): a+b on a defined integer type (time.Duration, type Cents int64) is not treated as commutative")
	}
	r.Floor("C02.COMM", "commutativity predicate func(*ssa.BinOp) bool", nPred, 1)
	r.Floor("C02.COMM", "ordered operand write of commutative operations", n, 1)
}

func c02DeclOrder(r *core.Run) {
	p := r.P
	n := 0
	for _, fn := range p.FuncsIn("pkg/diff") {
		rt := resultTypes(fn)
		if len(rt) != 2 || fn.Parent() != nil || !strings.Contains(rt[0].String(), "FingerprintResult") || !strings.HasPrefix(rt[0].String(), "[]") {
			continue
		}
		for _, ret := range core.Returns(fn) {
			if !core.IsNilConst(ret.Results[1]) || core.IsNilConst(ret.Results[0]) {
				continue
			}
			if ex, ok := ret.Results[0].(*ssa.Extract); ok {
				if _, isCall := ex.Tuple.(*ssa.Call); isCall {
					continue // delegation
				}
			}
			n++
			sorted := false
			core.InstrsOf(fn, func(in ssa.Instruction) {
				c, ok := in.(*ssa.Call)
				if !ok {
					return
				}
				nm := core.CalleeName(&c.Call)
				if nm != "sort.Slice" && nm != "sort.SliceStable" {
					return
				}
				if !sameSliceAfter(core.Unwrap(c.Call.Args[0]), ret.Results[0], c) {
					return
				}
				less := closureFunc(c.Call.Args[1])
				if less == nil {
					return
				}
				for _, lr := range core.Returns(less) {
					if b, ok := lr.Results[0].(*ssa.BinOp); ok && b.Op == token.LSS {
						_, fx := core.FieldLoad(b.X, "FunctionName")
						_, fy := core.FieldLoad(b.Y, "FunctionName")
						if fx && fy {
							sorted = true
						}
					}
				}
			})
			r.Check(sorted, "C02.DECLORDER", core.FuncName(fn)+"#results-sorted-by-name", ret.Pos(), "results are sorted by function name before they are returned", "results are returned in declaration / map order: reordering top-level declarations changes the report")
		}
	}
	r.Floor("C02.DECLORDER", "returns of freshly collected fingerprint results", n, 1)
}

// c02VirtualView: once a branch is exchanged virtually, everything that depends on the ORDER of a block's two
// successors must read it through the accessor that knows the exchange — the If line already does; the block
// numbering must too, or `a >= b {A} else {B}` and `a < b {B} else {A}` number their blocks differently. Decided:
// (1) a function of the canonicaliser that produces a block order ([]*BasicBlock from a *Function) loads no
// Succs field directly and calls the accessor; (2) outside the accessor and the function that records exchanges,
// no direct load of Succs is indexed with the constant 1 (only an If has a second successor).
func c02VirtualView(r *core.Run) {
	p := r.P
	isBlockSlice := func(t types.Type) bool {
		sl, ok := t.Underlying().(*types.Slice)
		if !ok {
			return false
		}
		pt, isPtr := sl.Elem().(*types.Pointer)
		return isPtr && strings.HasSuffix(pt.Elem().String(), "ssa.BasicBlock")
	}
	var accessor *ssa.Function
	recorders := map[*ssa.Function]bool{}
	for _, fn := range p.FuncsIn("pkg/analysis/ir") {
		rt := resultTypes(fn)
		if len(rt) == 1 && isBlockSlice(rt[0]) && len(fn.Params) == 2 && strings.HasSuffix(fn.Params[1].Type().String(), "ssa.BasicBlock") {
			readsView := false
			core.InstrsOf(fn, func(in ssa.Instruction) {
				if lk, ok := in.(*ssa.Lookup); ok && lk.Index == ssa.Value(fn.Params[1]) {
					readsView = true
				}
			})
			if readsView {
				accessor = fn
			}
		}
		core.InstrsOf(fn, func(in ssa.Instruction) {
			if sto, ok := in.(*ssa.Store); ok {
				if ar, isArr := core.Deref(sto.Addr.Type()).Underlying().(*types.Array); isArr && strings.HasSuffix(ar.Elem().String(), "ssa.BasicBlock") {
					recorders[fn] = true
				}
				if fa, isFA := sto.Addr.(*ssa.FieldAddr); isFA {
					if ar, isArr := deref1(fa.Type()).Underlying().(*types.Array); isArr && strings.HasSuffix(ar.Elem().String(), "ssa.BasicBlock") {
						recorders[fn] = true
					}
				}
				if ia, isIA := sto.Addr.(*ssa.IndexAddr); isIA {
					if ar, isArr := core.Deref(ia.X.Type()).Underlying().(*types.Array); isArr && ar.Len() == 2 && strings.HasSuffix(ar.Elem().String(), "ssa.BasicBlock") {
						recorders[fn] = true // the exchanged pair of an If
					}
				}
			}
		})
	}
	if !r.Floor("C02.SWAP", "accessor of the virtual successor order", map[bool]int{true: 1, false: 0}[accessor != nil], 1) {
		return
	}
	directSuccs := func(v ssa.Value) bool {
		u, ok := v.(*ssa.UnOp)
		if !ok || u.Op != token.MUL {
			return false
		}
		fa, ok := u.X.(*ssa.FieldAddr)
		return ok && strings.HasSuffix(core.Deref(fa.X.Type()).String(), "ssa.BasicBlock") && core.FieldName(fa.X.Type(), fa.Field) == "Succs"
	}
	// the functions that produce THE block order: what the numbering loop (blockMap[b] = "b<i>") walks, followed
	// back through appends and through helpers that extend a list they are handed
	numbering := map[*ssa.Function]bool{}
	var chase func(v ssa.Value, d int)
	chase = func(v ssa.Value, d int) {
		if d > 6 {
			return
		}
		for _, o := range core.Origins(core.Unwrap(v)) {
			if ap, ok := isBuiltinCall(o, "append"); ok {
				chase(ap.Call.Args[0], d+1)
				continue
			}
			c, ok := o.(*ssa.Call)
			if !ok {
				continue
			}
			g := core.StaticCallee(&c.Call)
			if g == nil || !p.IsProdFunc(g) {
				continue
			}
			extended := false
			for i, pa := range g.Params {
				if isBlockSlice(pa.Type()) && i < len(c.Call.Args) {
					chase(c.Call.Args[i], d+1)
					extended = true
				}
			}
			if !extended {
				numbering[g] = true
				// a wrapper that assembles the order from other producers: those count too
				for _, ret := range core.Returns(g) {
					if len(ret.Results) > 0 {
						chase(ret.Results[0], d+1)
					}
				}
			}
		}
		// the list is handed in by the callers
		if prm, isP := core.Unwrap(v).(*ssa.Parameter); isP {
			for i, q := range prm.Parent().Params {
				if q != prm {
					continue
				}
				for _, site := range callersOf(p, prm.Parent()) {
					if args := core.CallArgs(site.Common()); i < len(args) {
						chase(args[i], d+1)
					}
				}
			}
		}
	}
	for _, fn := range p.FuncsIn("pkg/analysis/ir") {
		core.InstrsOf(fn, func(in ssa.Instruction) {
			mu, ok := in.(*ssa.MapUpdate)
			if !ok || !isBlockStringMap(mu.Map.Type()) {
				return
			}
			// the key is an element of the walked list
			if u, isLoad := core.Unwrap(mu.Key).(*ssa.UnOp); isLoad {
				if ia, isIA := u.X.(*ssa.IndexAddr); isIA {
					chase(ia.X, 0)
				}
			}
		})
	}
	nOrder := 0
	for _, fn := range p.FuncsIn("pkg/analysis/ir") {
		if fn == accessor || recorders[fn] {
			continue
		}
		fnm := core.FuncName(fn)
		orders := numbering[fn]
		direct, viaAccessor := token.NoPos, false
		core.InstrsOf(fn, func(in ssa.Instruction) {
			if v, ok := in.(ssa.Value); ok && directSuccs(v) && direct == token.NoPos {
				direct = in.Pos()
			}
			if c := core.CallOf(in); c != nil && core.StaticCallee(c) == accessor {
				viaAccessor = true
			}
			if ia, ok := in.(*ssa.IndexAddr); ok && directSuccs(ia.X) {
				if k, isK := core.ConstInt(ia.Index); isK && k == 1 {
					r.Fail("C02.SWAP", fnm+"#second-successor-read-directly", in.Pos(), "the second successor of a block is read from the real successor list, not through "+core.FuncName(accessor)+": an exchanged branch is seen in its source order here and in its exchanged order on the If line")
				}
			}
		})
		if orders {
			nOrder++
			// a wrapper that only assembles the lists of other ordering functions reads no successors itself
			callsOrdering := false
			core.InstrsOf(fn, func(in ssa.Instruction) {
				if c := core.CallOf(in); c != nil && numbering[core.StaticCallee(c)] && core.StaticCallee(c) != fn {
					callsOrdering = true
				}
			})
			if callsOrdering {
				viaAccessor = true
			}
			r.Check(direct == token.NoPos && viaAccessor, "C02.SWAP", fnm+"#block-order-through-virtual-view", fn.Pos(), "the block order is computed from the virtual successor order", "the block order is computed from the real successor list (or without "+core.FuncName(accessor)+"): blocks of an exchanged branch are numbered in source order while the If line prints the exchanged order, so the two spellings of one test get different IR")
		}
	}
	r.Floor("C02.SWAP", "functions that produce the block order", nOrder, 1)

	// (3) instructions that are rendered in another block than their own (hoisted calls) are collected while walking
	// the blocks in an order; that order is the canonical one (the result of an ordering function), not the real
	// Function.Blocks order, or the two arms of an exchanged branch contribute in exchanged order
	isBlockInstrMap := func(t types.Type) bool {
		m, ok := t.Underlying().(*types.Map)
		if !ok || !strings.HasSuffix(m.Key().String(), "ssa.BasicBlock") {
			return false
		}
		sl, ok := m.Elem().Underlying().(*types.Slice)
		return ok && strings.HasSuffix(sl.Elem().String(), "ssa.Instruction")
	}
	orderFns := numbering
	var blockListOf func(fn *ssa.Function, v ssa.Value, d int) (string, token.Pos)
	blockListOf = func(fn *ssa.Function, v ssa.Value, d int) (string, token.Pos) {
		// v: the slice of blocks a loop walks; classify where it comes from
		v = core.Unwrap(v)
		if d > 3 {
			return "unknown", v.Pos()
		}
		if u, ok := v.(*ssa.UnOp); ok && u.Op == token.MUL {
			if fa, isFA := u.X.(*ssa.FieldAddr); isFA && isSSAFunctionPtr(fa.X.Type()) && core.FieldName(fa.X.Type(), fa.Field) == "Blocks" {
				return "real", u.Pos()
			}
		}
		for _, o := range core.Origins(v) {
			if c, ok := o.(*ssa.Call); ok && orderFns[core.StaticCallee(&c.Call)] {
				return "canonical", c.Pos()
			}
			// a helper that extends the list it is handed
			if c, ok := o.(*ssa.Call); ok {
				if g := core.StaticCallee(&c.Call); g != nil && p.IsProdFunc(g) {
					for i, pa := range g.Params {
						if isBlockSlice(pa.Type()) && i < len(c.Call.Args) {
							return blockListOf(fn, c.Call.Args[i], d+1)
						}
					}
				}
			}
			if ap, ok := isBuiltinCall(o, "append"); ok {
				return blockListOf(fn, ap.Call.Args[0], d+1)
			}
		}
		if prm, ok := v.(*ssa.Parameter); ok {
			res, pos := "canonical", prm.Pos()
			sites := callersOf(p, fn)
			if len(sites) == 0 {
				return "unknown", prm.Pos()
			}
			for i, q := range fn.Params {
				if q != prm {
					continue
				}
				for _, site := range sites {
					args := core.CallArgs(site.Common())
					if i >= len(args) {
						return "unknown", prm.Pos()
					}
					if k, ps := blockListOf(site.Parent(), args[i], d+1); k != "canonical" {
						res, pos = k, ps
					}
				}
			}
			return res, pos
		}
		return "unknown", v.Pos()
	}
	nMoved := 0
	for _, fn := range p.FuncsIn("pkg/analysis/ir") {
		core.InstrsOf(fn, func(in ssa.Instruction) {
			mu, ok := in.(*ssa.MapUpdate)
			if !ok || !isBlockInstrMap(mu.Map.Type()) {
				return
			}
			ap, isApp := isBuiltinCall(mu.Value, "append")
			if !isApp {
				return
			}
			// the walked block: the appended instruction is an element of <block>.Instrs
			elems, _ := varargElems(ap.Call.Args[1])
			for _, e := range elems {
				var walked ssa.Value
				for _, o := range core.Origins(core.Unwrap(e)) {
					if u, ok := o.(*ssa.UnOp); ok && u.Op == token.MUL {
						if ia, isIA := u.X.(*ssa.IndexAddr); isIA {
							if base, isInstrs := core.FieldLoad(ia.X, "Instrs"); isInstrs {
								walked = base
							}
						}
					}
				}
				if walked == nil || core.Unwrap(mu.Key) == core.Unwrap(walked) {
					continue // the block's own list: order of the walk is irrelevant
				}
				// walked = blocks[i]
				wu, ok := core.Unwrap(walked).(*ssa.UnOp)
				if !ok {
					continue
				}
				wia, ok := wu.X.(*ssa.IndexAddr)
				if !ok {
					continue
				}
				nMoved++
				kind, pos := blockListOf(fn, wia.X, 0)
				r.Check(kind == "canonical", "C02.SWAP", core.FuncName(fn)+"#moved-instructions-in-canonical-order", pos,
					"instructions rendered in another block are collected while walking the canonical block order",
					"instructions rendered in another block (hoisted calls) are collected while walking the "+kind+" block list: two hoisted calls from the two arms of a branch land in the pre-header in source order, so the opposite test with exchanged arms numbers them differently")
			}
		})
	}
	r.Floor("C02.SWAP", "collections of instructions moved to another block", nMoved, 1)
}

// keepWithoutSmall: can fn, entered at one of starts, return false ("keep") although the small-range test has not
// succeeded? The value recognised by isSmall is taken as false: the true edges of its tests are cut, and it counts
// as false inside returned expressions. A returned call of a repository helper is evaluated the same way with the
// helper's parameters bound to the arguments that are the small-range value. Also returns the number of returns
// that can yield false at all.
func keepWithoutSmall(p *core.Program, fn *ssa.Function, isSmall func(ssa.Value) bool, starts []*ssa.BasicBlock, extraCut map[core.Edge]bool, depth int) (bool, []int, int) {
	cut, _ := core.GuardEdges(fn, core.BoolGuard(isSmall, true))
	if os.Getenv("SFW_DUMP") == "keep" {
		fn.WriteTo(os.Stderr)
		for e := range cut {
			fmt.Fprintf(os.Stderr, "CUT b%d.%d via=%v\n", e.From.Index, e.Idx, e.Via != nil)
		}
	}
	for e := range extraCut {
		cut[e] = true
	}
	type via struct{ at, pred *ssa.BasicBlock }
	var falseWays func(v ssa.Value, neg bool, d int) (always bool, vias []via)
	falseWays = func(v ssa.Value, neg bool, d int) (bool, []via) {
		base, n2 := core.StripNot(v)
		neg = neg != n2
		if d > 4 {
			return true, nil
		}
		if k, isC := base.(*ssa.Const); isC && k.Value != nil && k.Value.Kind() == constant.Bool {
			return constant.BoolVal(k.Value) == neg, nil
		}
		if isSmall(base) {
			return !neg, nil
		}
		if ph, isPhi := base.(*ssa.Phi); isPhi {
			var vs []via
			for i, e := range ph.Edges {
				if i >= len(ph.Block().Preds) {
					continue
				}
				al, sub := falseWays(e, neg, d+1)
				if al || len(sub) > 0 {
					vs = append(vs, via{ph.Block(), ph.Block().Preds[i]})
				}
			}
			return false, vs
		}
		if c, isCall := base.(*ssa.Call); isCall && !neg && depth < 2 {
			if g := core.StaticCallee(&c.Call); g != nil && p.IsProdFunc(g) && g.Blocks != nil {
				bound := map[ssa.Value]bool{}
				args := core.CallArgs(&c.Call)
				for i, pa := range g.Params {
					if i < len(args) && isSmall(args[i]) {
						bound[pa] = true
					}
				}
				if len(bound) > 0 {
					can, _, _ := keepWithoutSmall(p, g, func(x ssa.Value) bool { return bound[x] }, []*ssa.BasicBlock{g.Blocks[0]}, nil, depth+1)
					return can, nil
				}
			}
		}
		return true, nil // an open value (a policy switch): can be false
	}
	nRet := 0
	var wit []int
	for _, ret := range core.Returns(fn) {
		if len(ret.Results) == 0 {
			continue
		}
		always, vias := falseWays(ret.Results[0], false, 0)
		if !always && len(vias) == 0 {
			continue
		}
		nRet++
		for _, start := range starts {
			if always {
				if start == ret.Block() {
					if wit == nil {
						wit = []int{start.Index}
					}
					continue
				}
				if pth := core.PathAvoiding(start, ret.Block(), cut); pth != nil && wit == nil {
					wit = pth
				}
				continue
			}
			for _, w := range vias {
				edgeCut := false
				for si, sb := range w.pred.Succs {
					if sb == w.at && cut[core.Edge{From: w.pred, Idx: si}] {
						edgeCut = true
					}
				}
				if edgeCut {
					continue
				}
				var pth []int
				if start == w.pred {
					pth = []int{start.Index}
				} else {
					pth = core.PathAvoiding(start, w.pred, cut)
				}
				if pth != nil && core.ReachAvoiding(w.at, cut)[ret.Block()] && wit == nil {
					wit = append(pth, w.at.Index)
				}
			}
		}
	}
	return wit != nil, wit, nRet
}

// c02RenamerThreaded: a symbolic expression is rendered for the canonical IR through StringWithRenamer, which
// replaces source names by canonical ones and applies the literal policy. Every sub-expression must be rendered
// the same way: a renderer that falls back to String() for one operand prints parameter names and raw literals.
// Also decided: a recurrence prints its start before its step ({start, +, step}).
func c02RenamerThreaded(r *core.Run) {
	p := r.P
	n := 0
	for _, fn := range p.FuncsIn("pkg/analysis/loop") {
		if fn.Name() != "StringWithRenamer" || fn.Signature.Recv() == nil {
			continue
		}
		fnm := core.FuncName(fn)
		core.InstrsOf(fn, func(in ssa.Instruction) {
			c, ok := in.(*ssa.Call)
			if !ok || !c.Call.IsInvoke() {
				return
			}
			if !strings.HasSuffix(c.Call.Value.Type().String(), "loop.SCEV") {
				return
			}
			n++
			r.Check(c.Call.Method.Name() == "StringWithRenamer", "C02.NONAME", fnm+"#operand-rendered-with-renamer("+core.Canon(c.Call.Value)+")", in.Pos(), "the sub-expression is rendered through the renamer", "a sub-expression is rendered with "+c.Call.Method.Name()+"() instead of StringWithRenamer: source names of parameters and raw literals appear in the TripCount line, so renaming a parameter or replacing an abstracted literal changes the fingerprint")
		})
		// {start, +, step}
		if strings.HasSuffix(core.Deref(fn.Signature.Recv().Type()).String(), "loop.SCEVAddRec") {
			for _, ret := range core.Returns(fn) {
				for _, o := range core.Origins(ret.Results[0]) {
					c, ok := o.(*ssa.Call)
					if !ok || core.CalleeName(&c.Call) != "fmt.Sprintf" {
						continue
					}
					elems, _ := varargElems(c.Call.Args[1])
					var order []string
					for _, e := range elems {
						if ic, isCall := core.Unwrap(e).(*ssa.Call); isCall && ic.Call.IsInvoke() {
							if _, name, okF := fieldLoadBy(ic.Call.Value, func(types.Type) bool { return true }); okF {
								order = append(order, name)
							}
						}
					}
					if len(order) >= 2 {
						n++
						r.Check(order[0] == "Start" && order[1] == "Step", "C02.NONAME", fnm+"#start-before-step", c.Pos(), "a recurrence is printed as {start, +, step}", "a recurrence is printed with "+strings.Join(order[:2], " before ")+": {2,+,3} and {3,+,2} exchange their renderings, so the IR describes another sequence than the loop runs")
					}
				}
			}
		}
	}
	r.Floor("C02.NONAME", "sub-expression renderings in the symbolic printers", n, 4)
}
