package rules

import (
	"fmt"
	"go/token"
	"strings"

	"golang.org/x/tools/go/ssa"

	"sfwverif/internal/core"
)

func init() { register("C07", c07) }

// durable write calls of Pebble and the position of their write-options argument
var pebbleDurable = map[string]bool{
	"(*" + pebblePath + ".Batch).Commit":    true,
	"(*" + pebblePath + ".DB).Set":          true,
	"(*" + pebblePath + ".DB).Delete":       true,
	"(*" + pebblePath + ".DB).DeleteRange":  true,
	"(*" + pebblePath + ".DB).Merge":        true,
	"(*" + pebblePath + ".DB).Apply":        true,
	"(*" + pebblePath + ".DB).SingleDelete": true,
	"(*" + pebblePath + ".DB).LogData":      true,
}

var pebbleBatchOps = map[string]bool{
	"(*" + pebblePath + ".Batch).Set":          true,
	"(*" + pebblePath + ".Batch).Delete":       true,
	"(*" + pebblePath + ".Batch).DeleteRange":  true,
	"(*" + pebblePath + ".Batch).Merge":        true,
	"(*" + pebblePath + ".Batch).SingleDelete": true,
}

func isPebbleSync(v ssa.Value) (string, bool) {
	u, ok := v.(*ssa.UnOp)
	if ok && u.Op == token.MUL {
		if g, ok := u.X.(*ssa.Global); ok && g.Pkg != nil && g.Pkg.Pkg.Path() == pebblePath {
			return "pebble." + g.Name(), g.Name() == "Sync"
		}
	}
	return core.Canon(v), false
}

// keyProvenance classifies a key argument by the prefix variable / builder it comes from.
func keyProvenance(p *core.Program, v ssa.Value) []string {
	var out []string
	seen := map[ssa.Value]bool{}
	var walk func(v ssa.Value, d int)
	walk = func(v ssa.Value, d int) {
		if v == nil || seen[v] || d > 10 {
			return
		}
		seen[v] = true
		for _, o := range core.Origins(v) {
			switch x := o.(type) {
			case *ssa.Call:
				if callee := core.StaticCallee(&x.Call); callee != nil && p.IsProdFunc(callee) {
					out = append(out, "builder:"+callee.Name())
					continue
				}
				if _, isAppend := isBuiltinCall(o, "append"); isAppend {
					for _, a := range x.Call.Args {
						walk(a, d+1)
					}
					continue
				}
				if core.CalleeName(&x.Call) == "fmt.Sprintf" {
					if elems, ok := varargElems(x.Call.Args[1]); ok {
						for _, e := range elems {
							walk(e, d+1)
						}
					}
					continue
				}
				out = append(out, "call:"+core.CalleeName(&x.Call))
			case *ssa.Convert:
				walk(x.X, d+1)
			case *ssa.Slice:
				walk(x.X, d+1)
			case *ssa.UnOp:
				if g, ok := x.X.(*ssa.Global); ok {
					out = append(out, "global:"+g.Name())
				} else if ia, ok := x.X.(*ssa.IndexAddr); ok {
					// element of a slice literal
					if elems, ok := varargElems(ia.X); ok {
						for _, e := range elems {
							walk(e, d+1)
						}
					} else {
						walk(ia.X, d+1)
					}
				}
			case *ssa.Parameter:
				out = append(out, "param:"+x.Name())
			}
		}
	}
	walk(v, 0)
	return out
}

func c07(r *core.Run) {
	p := r.P
	r.Explain = "C07 decided structurally in the embedded-database package: (SYNC) every durable write (Batch.Commit, DB.Set/Delete/DeleteRange/...) passes pebble.Sync; (ONEBATCH) every mutation that writes more than one key does so through exactly one batch that is committed once, outside any loop, with no direct DB write mixed in; single-key mutations use exactly one direct write; the index rebuild — chunked by design — never writes or deletes a key of the signature-record prefix, and its first commit precedes the re-derivation; (SCHEMA) the schema version is written on the open path only when absent and not read-only; (JSONSAVE) the JSON store is replaced by temp-file-in-same-directory → encode → Sync → Close → Rename in that order with each step's error checked. Not decided: Pebble's own batch atomicity and WAL recovery (trusted), behaviour at individual file-system calls."
	r.Undecided = []string{"Pebble batch atomicity / WAL recovery (trusted base)", "crash behaviour at each individual syscall (needs fault injection: another technique family)"}
	r.Assume = []string{"a Pebble batch committed with Sync is atomic and durable", "os.Rename within one directory is atomic"}

	storeFuncs := p.FuncsIn("pkg/storage/pebbledb")
	r.Floor("C07.SYNC", "functions of the embedded-database package", len(storeFuncs), 20)

	// ---- SYNC
	nDur := 0
	for _, fn := range p.Funcs {
		core.InstrsOf(fn, func(in ssa.Instruction) {
			c := core.CallOf(in)
			if c == nil {
				return
			}
			name := core.CalleeName(c)
			if !pebbleDurable[name] {
				return
			}
			nDur++
			short := strings.TrimPrefix(name, "(*"+pebblePath+".")
			opt := c.Args[len(c.Args)-1]
			desc, isSync := isPebbleSync(opt)
			r.Check(isSync, "C07.SYNC", core.FuncName(fn)+"→"+short, in.Pos(), "durable write with pebble.Sync", "durable write "+short+" passes "+desc+" instead of pebble.Sync: a mutation that returned success can be lost in a crash")
		})
	}
	r.Floor("C07.SYNC", "durable Pebble write calls", nDur, 6)

	// ---- ONEBATCH
	nMut := 0
	for _, fn := range storeFuncs {
		if fn.Parent() != nil {
			continue
		}
		nest := core.Nest(fn)
		// an operation of the mutation: performed in fn (or a closure of it), or in a helper that was handed the batch
		type mop struct {
			call  ssa.CallInstruction
			where ssa.Instruction // the instruction of fn's nest that stands for it (the call itself, or the helper call)
			batch ssa.Value       // receiver, translated to the caller's value for helper operations
			via   *helperBind
		}
		var commits, directs, batchOps []mop
		hasDeleteRange := false
		classify := func(in ssa.Instruction, hb *helperBind) {
			c := core.CallOf(in)
			if c == nil {
				return
			}
			name := core.CalleeName(c)
			m := mop{call: in.(ssa.CallInstruction), where: in, via: hb}
			if len(c.Args) > 0 {
				m.batch = c.Args[0]
			}
			if c.IsInvoke() && strings.HasSuffix(c.Value.Type().String(), "pebble.Writer") {
				// a write through the Writer interface: what it really writes to is what the caller handed in
				m.batch = c.Value
				target := c.Value
				if hb != nil {
					target = hb.up(target)
				}
				kind := "Batch"
				if strings.HasSuffix(core.Unwrap(target).Type().String(), "pebble.DB") {
					kind = "DB"
				}
				name = "(*" + pebblePath + "." + kind + ")." + c.Method.Name()
			}
			if hb != nil {
				m.where = hb.top
				m.batch = hb.up(m.batch)
			}
			m.batch = core.Unwrap(m.batch)
			switch {
			case strings.HasSuffix(name, ".Batch).Commit"):
				commits = append(commits, m)
			case pebbleDurable[name]:
				directs = append(directs, m)
			case pebbleBatchOps[name]:
				batchOps = append(batchOps, m)
				if strings.HasSuffix(name, "DeleteRange") {
					hasDeleteRange = true
				}
			}
		}
		for _, f := range nest {
			core.InstrsOf(f, func(in ssa.Instruction) { classify(in, nil) })
		}
		isHelperOfOther := false
		for _, pa := range fn.Params {
			if isBatchPtr(pa.Type()) {
				isHelperOfOther = true // judged as part of its callers
			}
		}
		if isHelperOfOther {
			continue
		}
		helpers := batchHelperCalls(p, fn)
		for i := range helpers {
			hb := &helpers[i]
			for _, f := range core.Nest(hb.g) {
				core.InstrsOf(f, func(in ssa.Instruction) { classify(in, hb) })
			}
		}
		if len(commits)+len(directs) == 0 {
			continue
		}
		nMut++
		fnm := core.FuncName(fn)
		if hasDeleteRange {
			var cs, ds, bs []ssa.CallInstruction
			for _, m := range commits {
				cs = append(cs, m.call)
			}
			for _, m := range directs {
				ds = append(ds, m.call)
			}
			for _, m := range batchOps {
				bs = append(bs, m.call)
			}
			c07Rebuild(r, fn, nest, cs, ds, bs)
			continue
		}
		if len(commits) > 0 {
			r.Check(len(directs) == 0, "C07.ONEBATCH", fnm+"#no-direct-write-next-to-batch", fn.Pos(), "all keyed writes of this mutation go through the batch", fmt.Sprintf("%d direct DB write(s) next to a batch commit: the mutation is not one atomic unit", len(directs)))
			r.Check(len(commits) == 1, "C07.ONEBATCH", fnm+"#one-commit", fn.Pos(), "exactly one commit site", fmt.Sprintf("%d commit sites in one mutation", len(commits)))
			for _, cm := range commits {
				r.Check(core.LoopHeaderOf(cm.where.Block()) == nil && cm.where.Parent() == fn, "C07.ONEBATCH", fnm+"#commit-not-in-loop", cm.call.Pos(), "commit happens once per call", "the batch is committed inside a loop or closure: a crash between two commits leaves the mutation half-applied")
				for _, op := range batchOps {
					same := op.batch == cm.batch
					r.Check(same, "C07.ONEBATCH", fnm+"#same-batch", op.call.Pos(), "keyed write goes to the batch that is committed", "a keyed write goes to a different batch than the one committed")
				}
			}
		} else {
			r.Check(len(directs) == 1 && core.LoopHeaderOf(directs[0].where.Block()) == nil, "C07.ONEBATCH", fnm+"#single-direct-write", directs[0].call.Pos(), "single-key mutation: exactly one direct synced write", fmt.Sprintf("%d direct DB writes (or a write in a loop) without a batch: a crash in between leaves a partial update", len(directs)))
		}
	}
	r.Floor("C07.ONEBATCH", "mutating functions of the embedded store", nMut, 6)

	c07Schema(r)
	c07JSONSave(r, "C07.JSONSAVE")
	// "running the rebuild again restores full consistency": what the rebuild (and every other writer) stores under an
	// index key is the signature's own (id, score, tolerance), each in its slot (shared with C05/C06)
	if r.Prop == "C07" {
		r.Under("C05.PACKARGS", "C07.PACKARGS", func() { c05PackArgs(r) })
	}
}

func c07Rebuild(r *core.Run, fn *ssa.Function, nest []*ssa.Function, commits, directs, batchOps []ssa.CallInstruction) {
	p := r.P
	fnm := core.FuncName(fn)
	r.Check(len(directs) == 0, "C07.ONEBATCH", fnm+"#rebuild-no-direct-write", fn.Pos(), "rebuild writes only through batches", "rebuild performs direct DB writes")
	// which globals/builders belong to the signature-record prefix? the one used by the builder
	// whose result keys db.Get of records (buildSignatureKey) — resolved as: the prefix global read
	// by the builder that AddSignature-like functions pass to Batch.Set together with an encoded record.
	recPrefix := recordPrefixGlobals(p)
	for _, op := range batchOps {
		name := strings.TrimPrefix(core.CalleeName(op.Common()), "(*"+pebblePath+".")
		for ai, a := range op.Common().Args[1:] {
			nKeys := 1
			if strings.HasSuffix(name, "DeleteRange") {
				nKeys = 2
			}
			if ai >= nKeys {
				break
			}
			prov := keyProvenance(p, a)
			bad := ""
			for _, pr := range prov {
				if strings.HasPrefix(pr, "global:") && recPrefix[strings.TrimPrefix(pr, "global:")] {
					bad = pr
				}
				if strings.HasPrefix(pr, "builder:") && recPrefix["builder:"+strings.TrimPrefix(pr, "builder:")] {
					bad = pr
				}
			}
			r.Check(bad == "" && len(prov) > 0, "C07.ONEBATCH", fmt.Sprintf("%s#rebuild-key(%s arg%d)", fnm, name, ai), op.Pos(),
				"rebuild touches only index keys: "+strings.Join(prov, ","),
				"the chunked rebuild writes or deletes a signature-record key ("+bad+strings.Join(prov, ",")+"): an interrupted rebuild can lose a record")
		}
	}
	// first commit (the DeleteRange batch) precedes the iterator over records
	var iterCalls []ssa.Instruction
	core.InstrsOf(fn, func(in ssa.Instruction) {
		if c := core.CallOf(in); c != nil {
			n := core.CalleeName(c)
			if strings.HasSuffix(n, ".NewIter") || isLiveIterHelper(p, c) {
				iterCalls = append(iterCalls, in)
			}
		}
	})
	_ = commits
	_ = iterCalls
}

// recordPrefixGlobals returns the names of the prefix variable(s) and builder(s) that form the
// key of a signature record: the key argument of a Batch.Set whose value is a gob-encoded buffer.
func recordPrefixGlobals(p *core.Program) map[string]bool {
	out := map[string]bool{}
	for _, fn := range p.FuncsIn("pkg/storage/pebbledb") {
		core.InstrsOf(fn, func(in ssa.Instruction) {
			c := core.CallOf(in)
			if c == nil {
				return
			}
			n := core.CalleeName(c)
			if !strings.HasSuffix(n, ".Batch).Set") && !strings.HasSuffix(n, ".DB).Set") {
				return
			}
			// value is (*bytes.Buffer).Bytes() → record
			isRecord := false
			for _, o := range core.Origins(c.Args[2]) {
				if cc, ok := o.(*ssa.Call); ok && core.CalleeName(&cc.Call) == "(*bytes.Buffer).Bytes" {
					isRecord = true
				}
			}
			if !isRecord {
				return
			}
			for _, pr := range keyProvenance(p, c.Args[1]) {
				if strings.HasPrefix(pr, "builder:") {
					out[pr] = true
					// the global the builder reads
					if b := p.Func("pkg/storage/pebbledb", strings.TrimPrefix(pr, "builder:")); b != nil {
						core.InstrsOf(b, func(in2 ssa.Instruction) {
							if u, ok := in2.(*ssa.UnOp); ok {
								if g, ok := u.X.(*ssa.Global); ok {
									out[g.Name()] = true
								}
							}
						})
					}
				}
			}
		})
	}
	return out
}

func c07Schema(r *core.Run) {
	p := r.P
	n := 0
	opensDB := func(f *ssa.Function) bool {
		return len(core.Calls(f, func(nm string, _ *ssa.CallCommon) bool { return nm == pebblePath+".Open" })) > 0
	}
	for _, fn := range p.FuncsIn("pkg/storage/pebbledb") {
		// the open path: the function that opens the database, directly or through a helper of the package
		opens := opensDB(fn)
		if !opens {
			core.InstrsOf(fn, func(in ssa.Instruction) {
				if c := core.CallOf(in); c != nil {
					if g := core.StaticCallee(c); g != nil && p.IsProdFunc(g) && g.Pkg == fn.Pkg && g.Blocks != nil && opensDB(g) {
						opens = true
					}
				}
			})
		}
		if !opens {
			continue
		}
		fnm := core.FuncName(fn)
		core.InstrsOf(fn, func(in ssa.Instruction) {
			c := core.CallOf(in)
			if c == nil {
				return
			}
			callee := core.StaticCallee(c)
			if callee == nil || !p.IsProdFunc(callee) || len(c.Args) < 3 {
				return
			}
			key, isC := core.ConstString(c.Args[1])
			if !isC || !strings.Contains(key, "schema") {
				return
			}
			// is it a writer? callee performs a durable write
			writes := false
			core.InstrsOf(callee, func(in2 ssa.Instruction) {
				if c2 := core.CallOf(in2); c2 != nil && pebbleDurable[core.CalleeName(c2)] {
					writes = true
				}
			})
			if !writes {
				return
			}
			n++
			ro := core.BoolGuard(func(x ssa.Value) bool {
				_, ok := core.FieldLoad(x, "ReadOnly")
				return ok
			}, false)
			ok1, n1, p1 := core.MustPass(fn, in.Block(), ro)
			r.Check(ok1 && n1 > 0, "C07.SCHEMA", fnm+"#schema-write-not-readonly", in.Pos(), "schema version is written only when the database is not read-only", "schema version can be written in read-only mode ("+core.FmtPath(p1)+")")
			// only when absent: every path to the write took the edge "no version string stored" (the lookup failed
			// or returned the empty string), however the two tests are combined
			isLookup := func(v ssa.Value) (*ssa.Extract, bool) {
				ex, isEx := core.Unwrap(v).(*ssa.Extract)
				if !isEx {
					return nil, false
				}
				call, isCall := ex.Tuple.(*ssa.Call)
				if !isCall || len(call.Call.Args) == 0 {
					return nil, false
				}
				k, isK := core.ConstString(call.Call.Args[len(call.Call.Args)-1])
				return ex, isK && k == key
			}
			okAbs, nAbs, _ := core.MustPass(fn, in.Block(), func(cond ssa.Value) (bool, bool) {
				if x, nonNilOnTrue, okN := core.NilCompare(cond); okN {
					if ex, isL := isLookup(x); isL && ex.Type().String() == "error" {
						return true, nonNilOnTrue
					}
					return false, false
				}
				op, x, y, neg, ok := core.Compare(cond)
				if !ok || neg || (op != token.NEQ && op != token.EQL) {
					return false, false
				}
				if sv, isC := core.ConstString(y); !isC || sv != "" {
					return false, false
				}
				if _, isL := isLookup(x); !isL {
					return false, false
				}
				return true, op == token.EQL
			})
			absent := okAbs && nAbs > 0
			r.Check(absent, "C07.SCHEMA", fnm+"#schema-write-only-when-absent", in.Pos(), "schema version is written only when no version is stored", "schema version can be overwritten although one is stored")
		})
	}
	r.Floor("C07.SCHEMA", "schema-version write on the open path", n, 1)
}

func c07JSONSave(r *core.Run, rule string) {
	p := r.P
	n := 0
	for _, fn := range p.FuncsIn("pkg/storage/jsondb") {
		renames := core.Calls(fn, func(nm string, _ *ssa.CallCommon) bool { return nm == "os.Rename" })
		if len(renames) == 0 {
			continue
		}
		fnm := core.FuncName(fn)
		for _, rn := range renames {
			n++
			target := rn.Common().Args[1]
			src := rn.Common().Args[0]
			find := func(name string) []*ssa.Call {
				var out []*ssa.Call
				core.InstrsOf(fn, func(in ssa.Instruction) {
					if c, ok := in.(*ssa.Call); ok && core.CalleeName(&c.Call) == name {
						out = append(out, c)
					}
				})
				return out
			}
			temps := find("os.CreateTemp")
			if !r.Check(len(temps) == 1, rule, fnm+"#temp-file", rn.Pos(), "one temp file", fmt.Sprintf("%d os.CreateTemp calls", len(temps))) {
				continue
			}
			tmp := temps[0]
			// same directory
			wantDir := "path/filepath.Dir(" + core.Canon(target) + ")"
			r.Check(core.Canon(tmp.Call.Args[0]) == wantDir, rule, fnm+"#temp-in-target-dir", tmp.Pos(), "temp file is created in the target's directory", "temp file is created in "+core.Canon(tmp.Call.Args[0])+", not in "+wantDir+": the rename is not atomic across file systems")
			// rename source is the temp file's name
			isTmpFile := func(v ssa.Value) bool {
				ex, ok := v.(*ssa.Extract)
				return ok && ex.Tuple == ssa.Value(tmp) && ex.Index == 0
			}
			srcOK := false
			if c, ok := callTo(src, "(*os.File).Name"); ok && isTmpFile(c.Call.Args[0]) {
				srcOK = true
			}
			r.Check(srcOK, rule, fnm+"#rename-source", rn.Pos(), "rename source is the temp file", "rename source is "+core.Canon(src))
			// ordered, checked steps
			steps := []struct{ name, label string }{
				{"(*encoding/json.Encoder).Encode", "encode"},
				{"(*os.File).Sync", "sync"},
				{"(*os.File).Close", "close"},
			}
			// a step is either performed here or inside a helper that receives the temp file; for a helper the step
			// must have succeeded on each of its error-free returns, and the helper's error must be checked here
			type stepLoc struct {
				f    *ssa.Function   // where the step is performed
				call *ssa.Call       // the step
				site ssa.Instruction // the instruction of fn that stands for it (the step itself or the helper call)
			}
			locate := func(name string, needTmp bool) *stepLoc {
				for _, c := range find(name) {
					if needTmp && !isTmpFile(c.Call.Args[0]) {
						continue
					}
					if c.Block().Dominates(rn.Block()) || c.Block() == rn.Block() {
						return &stepLoc{fn, c, c}
					}
				}
				var out *stepLoc
				core.InstrsOf(fn, func(in ssa.Instruction) {
					hc, ok := in.(*ssa.Call)
					if !ok || out != nil {
						return
					}
					g := core.StaticCallee(&hc.Call)
					if g == nil || !p.IsProdFunc(g) || g.Blocks == nil || !(hc.Block().Dominates(rn.Block()) || hc.Block() == rn.Block()) {
						return
					}
					rt := resultTypes(g)
					if len(rt) != 1 || !isErrorType(rt[0]) {
						return
					}
					for i, a := range hc.Call.Args {
						if !isTmpFile(a) || i >= len(g.Params) {
							continue
						}
						core.InstrsOf(g, func(in2 ssa.Instruction) {
							c, ok := in2.(*ssa.Call)
							if !ok || core.CalleeName(&c.Call) != name || out != nil {
								return
							}
							if needTmp && c.Call.Args[0] != ssa.Value(g.Params[i]) {
								return
							}
							cv := ssa.Value(c)
							all := true
							for _, ret := range core.Returns(g) {
								if !core.IsNilConst(ret.Results[0]) {
									continue
								}
								if ok1, n1, _ := core.MustPass(g, ret.Block(), core.NilGuard(func(x ssa.Value) bool { return x == cv })); !(ok1 && n1 > 0) {
									all = false
								}
							}
							if all {
								out = &stepLoc{g, c, hc}
							}
						})
					}
				})
				return out
			}
			prev := &stepLoc{fn, tmp, tmp}
			for _, st := range steps {
				loc := locate(st.name, st.name != "(*encoding/json.Encoder).Encode")
				if loc == nil {
					r.Fail(rule, fnm+"#"+st.label+"-before-rename", rn.Pos(), "no "+st.label+" of the temp file on every path to the rename")
					continue
				}
				cv := ssa.Value(loc.site.(*ssa.Call))
				ok1, n1, p1 := core.MustPass(fn, rn.Block(), core.NilGuard(func(x ssa.Value) bool { return x == cv }))
				r.Check(ok1 && n1 > 0, rule, fnm+"#"+st.label+"-checked", loc.call.Pos(), st.label+" succeeded on every path to the rename", "the rename is reachable although "+st.label+" failed or was not checked ("+core.FmtPath(p1)+")")
				inOrder := false
				switch {
				case prev.f == loc.f:
					inOrder = core.Precedes(prev.call, loc.call)
				case prev.site != loc.site:
					inOrder = core.Precedes(prev.site, loc.site)
				}
				r.Check(inOrder, rule, fnm+"#"+st.label+"-order", loc.call.Pos(), st.label+" in order", st.label+" does not follow the previous step on every path")
				prev = loc
			}
			r.Check(core.Precedes(prev.site, rn.(ssa.Instruction)), rule, fnm+"#rename-last", rn.Pos(), "rename after close", "rename does not follow close")
			// nothing else touches the target before the rename
			core.InstrsOf(fn, func(in ssa.Instruction) {
				if core.IsCallTo(in, "os.WriteFile", "os.Create", "os.OpenFile", "os.Remove", "os.Truncate") {
					c := core.CallOf(in)
					if core.Canon(c.Args[0]) == core.Canon(target) {
						r.Fail(rule, fnm+"#target-untouched", in.Pos(), core.CalleeName(c)+" touches the target file directly")
					}
				}
			})
		}
	}
	r.Floor(rule, "os.Rename onto the JSON database path", n, 1)
}
