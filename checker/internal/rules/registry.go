// Package rules holds the repository-specific rule tables, one file per property.
package rules

import (
	"sort"

	"sfwverif/internal/core"
)

// Rule is the entry point of one property's checks.
type Rule func(r *core.Run)

var registry = map[string]Rule{}

func register(id string, f Rule) { registry[id] = f }

// Get returns the rule set of a property.
func Get(id string) Rule { return registry[id] }

// IDs lists the registered properties.
func IDs() []string {
	var out []string
	for k := range registry {
		out = append(out, k)
	}
	sort.Strings(out)
	return out
}
