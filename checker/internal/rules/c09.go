package rules

import (
	"fmt"
	"go/token"
	"go/types"
	"strings"

	"golang.org/x/tools/go/ssa"

	"sfwverif/internal/core"
)

func init() {
	register("C09", c09)
	register("C19", c19)
}

func diffPath(p *core.Program) string { return p.ModPath + "/pkg/diff" }

// matcherFuncs: functions of pkg/diff that return ([]TopologyMatch, []FingerprintResult, []FingerprintResult).
func matcherFuncs(p *core.Program) []*ssa.Function {
	var out []*ssa.Function
	for _, fn := range p.FuncsIn("pkg/diff") {
		rt := resultTypes(fn)
		if len(rt) != 3 || fn.Parent() != nil {
			continue
		}
		if sl, ok := rt[0].Underlying().(*types.Slice); ok && core.IsNamed(sl.Elem(), diffPath(p), "TopologyMatch") {
			out = append(out, fn)
		}
	}
	return out
}

func elemType(v ssa.Value) types.Type {
	if sl, ok := v.Type().Underlying().(*types.Slice); ok {
		return sl.Elem()
	}
	return nil
}

// boolMapLookup matches cond as (negated) lookup in a map[K]bool and returns the lookup.
func boolMapLookup(v ssa.Value) (*ssa.Lookup, bool) {
	lk, ok := v.(*ssa.Lookup)
	if !ok || lk.CommaOk {
		return nil, false
	}
	m, ok := lk.X.Type().Underlying().(*types.Map)
	if !ok {
		return nil, false
	}
	b, ok := m.Elem().Underlying().(*types.Basic)
	return lk, ok && b.Kind() == types.Bool
}

// matcherParts runs the partition rules shared by C09 and C19.
func matcherParts(r *core.Run, rulePart, ruleThresh string) {
	p := r.P
	ms := matcherFuncs(p)
	if !r.Floor(rulePart, "function matcher (returns matched/added/removed)", len(ms), 1) {
		return
	}
	for _, fn := range ms {
		matcherDomains(r, fn, rulePart)
	}
	for _, fn := range ms {
		fnm := core.FuncName(fn)
		nPair, nLeft, nCand := 0, 0, 0
		core.InstrsOf(fn, func(in ssa.Instruction) {
			ap, ok := isBuiltinCall(valueOf(in), "append")
			if !ok {
				return
			}
			et := elemType(ap)
			if et == nil {
				return
			}
			elems, _ := varargElems(ap.Call.Args[1])
			switch {
			case core.IsNamed(et, diffPath(p), "TopologyMatch") && len(elems) == 1:
				nPair++
				byName, okB := core.StructLitField(elems[0], "ByName")
				isByName := false
				if okB {
					if c, ok := byName.(*ssa.Const); ok && c.Value != nil {
						isByName = c.Value.String() == "true"
					}
				}
				// the record may be built by a helper: its literal decides
				if hc, isCall := core.Unwrap(elems[0]).(*ssa.Call); isCall && !okB {
					if g := core.StaticCallee(&hc.Call); g != nil && p.IsProdFunc(g) && g.Blocks != nil {
						all := len(core.Returns(g)) > 0
						for _, ret := range core.Returns(g) {
							bv, okR := core.StructLitField(ret.Results[0], "ByName")
							c, isC := bv.(*ssa.Const)
							if !okR || !isC || c.Value == nil || c.Value.String() != "true" {
								all = false
							}
						}
						isByName = all
					}
				}
				// marks set in the same block
				var marks []*ssa.MapUpdate
				for _, in2 := range ap.Block().Instrs {
					if mu, ok := in2.(*ssa.MapUpdate); ok {
						if c, ok := mu.Value.(*ssa.Const); ok && c.Value != nil && c.Value.String() == "true" {
							marks = append(marks, mu)
						}
					}
				}
				maps := map[ssa.Value]bool{}
				for _, mu := range marks {
					maps[mu.Map] = true
				}
				kind := "rename pairing"
				if isByName {
					kind = "name pairing"
				}
				r.Check(len(maps) >= 2, rulePart, fnm+"#"+kind+"/marks-both-sides", ap.Pos(), "every pairing marks both the old and the new function as used", "a pairing is recorded without marking both functions as used: a function can appear in two entries")
				if !isByName {
					// dominated by "neither index used"
					n := 0
					for m := range maps {
						mm := m
						ok1, n1, _ := core.MustPass(fn, ap.Block(), core.BoolGuard(func(x ssa.Value) bool {
							lk, ok := boolMapLookup(x)
							return ok && lk.X == mm
						}, false))
						if ok1 && n1 > 0 {
							n++
						}
					}
					r.Check(n >= 2 && n == len(maps), rulePart, fnm+"#rename pairing/unused-only", ap.Pos(), "a rename pairing is made only if neither function is already used (one-to-one)", "a rename candidate is paired although one side may already be used: pairings are not one-to-one")
					// the marks use the candidate's own indices
					okKeys := true
					for _, mu := range marks {
						if _, f, ok := sigField(mu.Key); !ok || (f != "oldIdx" && f != "newIdx") {
							okKeys = false
						}
					}
					r.Check(okKeys, rulePart, fnm+"#rename pairing/marks-own-indices", ap.Pos(), "the used marks are set for the candidate's own indices", "the used marks are not keyed by the paired candidate's indices")
					// ... each side with its own index: the two marks use different index fields, and a used-set is
					// marked under the same index field it is tested with
					markField := map[ssa.Value]string{}
					distinct := map[string]bool{}
					for _, mu := range marks {
						if _, f, ok := sigField(mu.Key); ok {
							markField[mu.Map] = f
							distinct[f] = true
						}
					}
					agree := len(distinct) == len(marks)
					core.InstrsOf(fn, func(in2 ssa.Instruction) {
						lk, ok := in2.(*ssa.Lookup)
						if !ok {
							return
						}
						if mf, isMarked := markField[lk.X]; isMarked {
							if _, f, okF := sigField(lk.Index); okF && f != mf {
								agree = false
							}
						}
					})
					r.Check(agree, rulePart, fnm+"#rename pairing/marks-match-tests", ap.Pos(), "each used-set is marked under the index it is tested with, the two sides under different indices", "a used-set is marked under another index than the one it is tested with (or both marks use the same index): a function already paired stays available and is paired twice, and the function at the wrongly marked position appears in no entry")
				} else {
					// name pairing: the new result is the commaok lookup of the same name
					okLookup := false
					core.InstrsOf(fn, func(in2 ssa.Instruction) {
						if lk, ok := in2.(*ssa.Lookup); ok && lk.CommaOk {
							for _, mu := range marks {
								if lk.Index == mu.Key {
									ok1, n1, _ := core.MustPass(fn, ap.Block(), core.BoolGuard(func(x ssa.Value) bool {
										ex, ok := x.(*ssa.Extract)
										return ok && ex.Tuple == ssa.Value(lk) && ex.Index == 1
									}, true))
									if ok1 && n1 > 0 {
										okLookup = true
									}
								}
							}
						}
					})
					r.Check(okLookup, rulePart, fnm+"#name pairing/same-name", ap.Pos(), "name-identical functions are paired: the partner is looked up under the same name and must exist", "the name pairing is not the lookup of the same name in the other file")
				}
			case core.IsNamed(et, diffPath(p), "FingerprintResult") && len(elems) == 1:
				nLeft++
				ok1, n1, path := core.MustPass(fn, ap.Block(), core.BoolGuard(func(x ssa.Value) bool {
					_, ok := boolMapLookup(x)
					return ok
				}, false))
				r.Check(ok1 && n1 > 0, rulePart, fnm+"#leftover/unmarked-only", ap.Pos(), "a function goes to the leftover/added/removed lists only if it is not marked as paired", "a function can be listed as added/removed although it was paired ("+core.FmtPath(path)+"): it appears in two entries")
			case strings.HasSuffix(et.String(), "candidate") && len(elems) == 1:
				nCand++
				sim, okS := core.StructLitField(elems[0], "sim")
				var thr *ssa.Parameter
				for _, pa := range fn.Params {
					if b, ok := pa.Type().Underlying().(*types.Basic); ok && b.Kind() == types.Float64 {
						thr = pa
					}
				}
				atom := func(cond ssa.Value) (bool, bool) {
					op, x, y, neg, ok := core.Compare(cond)
					if !ok || neg || !okS || thr == nil {
						return false, false
					}
					if op == token.GEQ && x == sim && y == ssa.Value(thr) {
						return true, true
					}
					if op == token.LEQ && y == sim && x == ssa.Value(thr) {
						return true, true
					}
					return false, false
				}
				ok1, n1, path := core.MustPass(fn, ap.Block(), atom)
				r.Check(ok1 && n1 > 0, ruleThresh, fnm+"#candidate/sim>=threshold", ap.Pos(), "a rename candidate exists only under similarity >= threshold", "a rename candidate is created without similarity >= threshold ("+core.FmtPath(path)+"): functions below the threshold can be paired")
				// the candidate search is exhaustive: neither loop around the append is left early
				for h := core.LoopHeaderOf(ap.Block()); h != nil && strings.HasPrefix(ruleThresh, "C19"); h = outerLoopHeader(h) {
					body := loopBody(h)
					for b := range body {
						if b == h {
							continue
						}
						for _, sc := range b.Succs {
							if !body[sc] {
								r.Fail("C19.CAND", fnm+"#candidate/search-exhaustive", ap.Pos(), "the candidate loop is left early from block "+b.String()+" (break/return inside the search): some old/new pairs are never scored, so a renamed function can be reported as removed+added")
							}
						}
					}
					r.OK("C19.CAND", fnm+"#candidate/search-exhaustive@"+h.String(), ap.Pos(), "loop around the candidate append is left only through its own iteration test")
				}
				if okS {
					_, isSim := callTo(sim, p.ModPath+"/pkg/analysis/topology.TopologySimilarity")
					r.Check(isSim, ruleThresh, fnm+"#candidate/sim-source", ap.Pos(), "candidate similarity is the structural similarity of the two topologies", "candidate similarity is "+core.Canon(sim))
				}
			}
		})
		r.Floor(rulePart, "pairing appends in "+fnm, nPair, 2)
		r.Floor(rulePart, "leftover/added/removed appends in "+fnm, nLeft, 4)
		r.Floor(ruleThresh, "candidate appends in "+fnm, nCand, 1)
	}
}

func c09(r *core.Run) {
	r.Explain = "C09 decided structurally: (PART) in the function matcher every pairing marks both sides, rename pairings are made only if neither side is used and mark the candidate's own indices, name pairings look the partner up under the same name, and a function reaches the leftover/added/removed lists only if unmarked — so every function flows to exactly one output; (MAPS) the zipper's forward and reverse instruction maps are written only in one function, always together, the value map only in one function, and matches recorded in the propagation loop are dominated by 'old not yet mapped' and 'new not yet mapped'; (COUNT) the summary's added/removed counters are len() of the very lists whose elements are appended with that status, the total is their sum with the matched list, preserved/modified are counted once per matched entry; (DIVERGE) the divergence pass visits every instruction of both functions and skips only virtualised ones. Not decided: uniqueness of short names within one file (argued, not checked); that the instruction matching is maximal."
	r.Undecided = []string{"uniqueness of short function names within one package", "maximality/optimality of the instruction matching"}
	matcherParts(r, "C09.PART", "C09.PART")
	c09Maps(r)
	c09Count(r)
	c09Diverge(r)
	// "every function of the old file and of the new file": the collection that feeds the report enumerates every
	// function with a body, nested literals of synthetic initialisers included (shared with C16)
	c16EnumRule(r, "C09.ENUM")
	// "a one-to-one, kind- and type-respecting matching": the comparator's attribute equalities are a conjunction
	// (shared with C04)
	r.Under("C04.CONJ", "C09.CONJ", func() { c04Conj(r) })
	// the high-risk counter counts what the entries call high risk: one comparison against the bound everywhere
	thresholdAgreement(r, "C09.BOUND", "/internal/cli")
}

func c19(r *core.Run) {
	p := r.P
	r.Explain = "C19 decided structurally: (THRESH) a rename candidate is created only under similarity >= threshold, with the similarity being the structural similarity of the two topologies; (ONE2ONE) rename pairings are one-to-one (shared with C09.PART); (STATUS) the status 'renamed' and the 'old → new' label are stored exactly on the not-matched-by-name edge; (NAMEFREE) the inputs of the similarity contain no name of the subject function (see C05.NAMEFREE, run here on the similarity's inputs); (TIE) candidate order is deterministic (see C10). (CAND) the candidate search is exhaustive: neither loop around the candidate append is left early; (SYM) TopologySimilarity(a,b) = TopologySimilarity(b,a) is proved by structural induction over the SSA value graph (mirrored fields, commutative operators, min/max selectors, |x| of a mirrored difference, recursively proved helpers), with MapSimilarity proved separately as a two-pass sum over the union of keys: the per-key terms are symmetric in the two counts, the second pass adds for a key only the second map has exactly what the first pass adds for a key only the first map has (e(c,0), simplified with min(c,0)=0 and max(c,0)=c for non-negative counts), and the result is a symmetric function of the sums; (RANGE) the similarity is score/weights where interval evaluation of the SSA value graph bounds score between 0 and the constant sum of the weights (each term lies between 0 and its weight; |x-y|/max(x,y) ∈ [0,1] for non-negative counts; the helper similarities are assumed to lie in [0,1]). Not decided (numeric, out of reach of a sound static argument here): range [0,1] of the similarity, the value 1 for a renamed copy, whether the greedy matcher pairs the right functions."
	r.Undecided = []string{"that frequency counts are non-negative (assumed by C19.SYM)", "range [0,1] of MapSimilarity and typeListSimilarity themselves (assumed by C19.RANGE, which decides that the weights agree and every other term is bounded)", "similarity exactly 1 for a renamed copy (only the name-freedom of its inputs is decided)", "optimality of greedy pairing"}
	matcherParts(r, "C19.ONE2ONE", "C19.THRESH")
	c19Sym(r)
	c19Range(r)
	// the greedy pairing takes candidates best-first: the candidate list is sorted by similarity DESCENDING before
	// it is walked, so a renamed function is paired with its best match, not with a barely-similar bystander
	nSort := 0
	for _, fn := range matcherFuncs(p) {
		core.InstrsOf(fn, func(in ssa.Instruction) {
			c, ok := in.(*ssa.Call)
			if !ok {
				return
			}
			name := core.CalleeName(&c.Call)
			if name != "sort.Slice" && name != "sort.SliceStable" {
				return
			}
			sl, isSl := core.Unwrap(c.Call.Args[0]).Type().Underlying().(*types.Slice)
			if !isSl || !strings.HasSuffix(sl.Elem().String(), "candidate") {
				return
			}
			less := closureFunc(c.Call.Args[1])
			if less == nil || len(less.Params) < 2 {
				return
			}
			nSort++
			pi, pj := ssa.Value(less.Params[len(less.Params)-2]), ssa.Value(less.Params[len(less.Params)-1])
			side := func(v ssa.Value) int {
				base, _, ok := fieldLoadBy(core.Unwrap(v), isFloat64)
				if !ok {
					return -1
				}
				if ia, isIA := base.(*ssa.IndexAddr); isIA {
					switch ia.Index {
					case pi:
						return 0
					case pj:
						return 1
					}
				}
				return -1
			}
			verdict := ""
			for _, ret := range core.Returns(less) {
				b, isB := ret.Results[0].(*ssa.BinOp)
				if !isB {
					continue
				}
				a, bb := side(b.X), side(b.Y)
				if a < 0 || bb < 0 || a == bb {
					continue
				}
				desc := (b.Op == token.GTR && a == 0) || (b.Op == token.LSS && a == 1)
				if desc && verdict == "" {
					verdict = "desc"
				}
				if !desc {
					verdict = "not-desc:" + b.Op.String()
				}
			}
			r.Check(verdict == "desc", "C19.ORDER", core.FuncName(fn)+"#candidates-best-first", c.Pos(), "rename candidates are sorted by descending similarity before the greedy pass", "rename candidates are not sorted by descending similarity ("+verdict+"): the greedy pass pairs the least similar admissible candidates first, so a renamed function is paired with a look-alike and its real successor is reported as added")
		})
	}
	r.Floor("C19.ORDER", "sorts of the rename-candidate list", nSort, 1)
	// a function can be recognised under a new name only through its topology, which is extracted from the SSA
	// function a fingerprint result carries (shared with C16)
	r.Under("C16.ENUM", "C19.HANDLE", func() { c16Handle(r) })
	// STATUS
	n := 0
	for _, fn := range p.FuncsIn("internal/cli") {
		core.InstrsOf(fn, func(in ssa.Instruction) {
			st, ok := in.(*ssa.Store)
			if !ok {
				return
			}
			fa, ok := st.Addr.(*ssa.FieldAddr)
			if !ok || !core.IsNamed(fa.X.Type(), modelsPath(p), "FunctionDiff") || core.FieldName(fa.X.Type(), fa.Field) != "Status" {
				return
			}
			s, isC := core.ConstString(st.Val)
			if !isC || s != "renamed" {
				return
			}
			n++
			ok1, n1, path := core.MustPass(fn, st.Block(), core.BoolGuard(func(x ssa.Value) bool {
				_, ok := core.FieldLoad(x, "ByName")
				return ok
			}, false))
			r.Check(ok1 && n1 > 0, "C19.STATUS", core.FuncName(fn)+"#status-renamed", st.Pos(), "'renamed' is stored only for pairs that were not matched by name", "'renamed' can be stored for a name-matched pair ("+core.FmtPath(path)+")")
			// and every !ByName pair gets it: the false edge of ByName leads to this store unconditionally
			gs := mandatoryGuards(fn, st.Block())
			extra := ""
			for _, g := range gs {
				if !strings.Contains(g, ".ByName") && !strings.Contains(g, "len(") && !strings.Contains(g, "phi(") && !strings.Contains(g, "nil") && !strings.Contains(g, "Size()") {
					extra = g
				}
			}
			r.Check(extra == "", "C19.STATUS", core.FuncName(fn)+"#status-renamed-unconditional", st.Pos(), "every pair not matched by name is reported as renamed", "reporting a rename additionally depends on "+extra)
		})
	}
	r.Floor("C19.STATUS", "stores of status 'renamed'", n, 1)
	nameFree(r, "C19.NAMEFREE", []string{"pkg/analysis/topology"})
}

// zipRoles: the current names of the zipper's state fields, resolved by type and use (they are unexported and
// freely renamable): the two instruction maps, the value map, and which instruction map is keyed by instructions
// of the old function (the first argument of the exported constructor).
type zipRoles struct{ fwd, rev, val, oldFn, newFn string }

func zipperRoles(p *core.Program) zipRoles {
	var z zipRoles
	var zt types.Type
	if pk := p.SSAPkg("pkg/diff"); pk != nil {
		if m, ok := pk.Members["Zipper"].(*ssa.Type); ok {
			zt = m.Type()
		}
	}
	if zt == nil {
		return z
	}
	im := structFieldsBy(zt, isInstrInstrMap)
	if vm := structFieldsBy(zt, isValueValueMap); len(vm) > 0 {
		z.val = vm[0]
	}
	if ctor := p.Func("pkg/diff", "NewZipper"); ctor != nil && len(ctor.Params) >= 2 {
		core.InstrsOf(ctor, func(in ssa.Instruction) {
			if st, ok := in.(*ssa.Store); ok {
				if fa, ok := st.Addr.(*ssa.FieldAddr); ok {
					switch st.Val {
					case ssa.Value(ctor.Params[0]):
						z.oldFn = core.FieldName(fa.X.Type(), fa.Field)
					case ssa.Value(ctor.Params[1]):
						z.newFn = core.FieldName(fa.X.Type(), fa.Field)
					}
				}
			}
		})
	}
	if len(im) == 2 {
		z.fwd, z.rev = im[0], im[1] // declaration order unless the uses say otherwise
		for _, fn := range p.FuncsIn("pkg/diff") {
			core.InstrsOf(fn, func(in ssa.Instruction) {
				lk, ok := in.(*ssa.Lookup)
				if !ok {
					return
				}
				_, name, isI := fieldLoadBy(lk.X, isInstrInstrMap)
				if !isI || z.oldFn == "" {
					return
				}
				idx := core.Canon(lk.Index)
				if strings.Contains(idx, "."+z.oldFn+".") && !strings.Contains(idx, "."+z.newFn+".") {
					z.fwd = name
					for _, o := range im {
						if o != name {
							z.rev = o
						}
					}
				}
			})
		}
	}
	return z
}

func c09Maps(r *core.Run) {
	p := r.P
	zr := zipperRoles(p)
	if !r.Check(zr.fwd != "" && zr.rev != "" && zr.val != "", "C09.MAPS", "diff.Zipper#state-fields", token.NoPos, "forward map "+zr.fwd+", reverse map "+zr.rev+", value map "+zr.val, "cannot resolve the zipper's two instruction maps and its value map by type") {
		return
	}
	writers := map[string]map[*ssa.Function]bool{}
	for _, fn := range p.FuncsIn("pkg/diff") {
		core.InstrsOf(fn, func(in ssa.Instruction) {
			mu, ok := in.(*ssa.MapUpdate)
			if !ok {
				return
			}
			if base, ok := mu.Map.(*ssa.UnOp); ok {
				if fa, ok := base.X.(*ssa.FieldAddr); ok && core.IsNamed(fa.X.Type(), diffPath(p), "Zipper") {
					f := core.FieldName(fa.X.Type(), fa.Field)
					if writers[f] == nil {
						writers[f] = map[*ssa.Function]bool{}
					}
					writers[f][fn] = true
				}
			}
		})
	}
	for _, f := range []string{zr.fwd, zr.rev, zr.val} {
		ws := core.SortedFuncs(writers[f])
		var names []string
		for _, w := range ws {
			names = append(names, core.FuncName(w))
		}
		r.Check(len(ws) == 1, "C09.MAPS", "diff.Zipper."+f+"#single-writer", token.NoPos, "written only in "+strings.Join(names, ","), "zipper map "+f+" is written in "+strings.Join(names, ",")+" (expected exactly one writer function): forward and reverse maps can drift apart")
	}
	// forward and reverse written together
	fw, rv := core.SortedFuncs(writers[zr.fwd]), core.SortedFuncs(writers[zr.rev])
	if len(fw) == 1 && len(rv) == 1 {
		rec := fw[0]
		r.Check(fw[0] == rv[0], "C09.MAPS", "diff.Zipper#forward-and-reverse-together", rec.Pos(), "forward and reverse instruction maps are written by the same function", "forward and reverse maps have different writer functions")
		// same block, keys/values mirrored
		var a, b *ssa.MapUpdate
		core.InstrsOf(rec, func(in ssa.Instruction) {
			if mu, ok := in.(*ssa.MapUpdate); ok {
				if u, ok := mu.Map.(*ssa.UnOp); ok {
					if fa, ok := u.X.(*ssa.FieldAddr); ok {
						switch core.FieldName(fa.X.Type(), fa.Field) {
						case zr.fwd:
							a = mu
						case zr.rev:
							b = mu
						}
					}
				}
			}
		})
		r.Check(a != nil && b != nil && a.Block() == b.Block() && a.Key == b.Value && a.Value == b.Key, "C09.MAPS", core.FuncName(rec)+"#mirrored-update", rec.Pos(), "instrMap[old]=new and revInstrMap[new]=old are set in one step", "the two instruction maps are not updated as mirror images in one step")
		// call sites in the user-matching loop are dominated by both "not yet mapped" tests
		n := 0
		{
			for _, vs := range callSitesThroughForwarders(p, "pkg/diff", rec) {
				fn, ci := vs.fn, vs.call
				if fn == rec || len(vs.args) < 3 {
					continue
				}
				if core.LoopHeaderOf(ci.Block()) == nil && !afterLoopHeader(ci.Block()) {
					continue
				}
				// subject: the greedy candidate loops (candidates come out of a bucket map); the
				// LCS alignment pairs each instruction at most once by construction
				bucketed := false
				hasBucket := func(g *ssa.Function) {
					core.InstrsOf(g, func(in ssa.Instruction) {
						if lk, ok := in.(*ssa.Lookup); ok {
							if m, ok := lk.X.Type().Underlying().(*types.Map); ok {
								if _, isSlice := m.Elem().Underlying().(*types.Slice); isSlice {
									bucketed = true
								}
							}
						}
					})
				}
				hasBucket(fn)
				// the candidate loop may have been moved into a helper of the function that fills the buckets
				for _, site := range callersOf(p, fn) {
					if site.Parent() != fn && p.IsProdFunc(site.Parent()) {
						hasBucket(site.Parent())
					}
				}
				if !bucketed {
					continue
				}
				// only the candidate loops (two nested loops) are subject: require lookups on both maps
				oldV, newV := vs.args[1], vs.args[2]
				var chkAt func(g *ssa.Function, sink *ssa.BasicBlock, field string, key ssa.Value, d int) bool
				chkAt = func(g *ssa.Function, sink *ssa.BasicBlock, field string, key ssa.Value, d int) bool {
					ok1, n1, _ := core.MustPass(g, sink, core.BoolGuard(func(x ssa.Value) bool {
						ex, ok := x.(*ssa.Extract)
						if !ok || ex.Index != 1 {
							return false
						}
						lk, ok := ex.Tuple.(*ssa.Lookup)
						if !ok || lk.Index != key {
							return false
						}
						_, isF := core.FieldLoad(lk.X, field)
						return isF
					}, false))
					if ok1 && n1 > 0 {
						return true
					}
					// the test stayed in the callers of a helper: the instruction is the helper's parameter, and every
					// call passes an instruction it has tested
					prm, isParam := key.(*ssa.Parameter)
					if !isParam || d > 2 {
						return false
					}
					idx := -1
					for i, q := range g.Params {
						if q == prm {
							idx = i
						}
					}
					sites := callersOf(p, g)
					if idx < 0 || len(sites) == 0 {
						return false
					}
					for _, site := range sites {
						args := core.CallArgs(site.Common())
						if site.Common().IsInvoke() || idx >= len(args) || !chkAt(site.Parent(), site.Block(), field, args[idx], d+1) {
							return false
						}
					}
					return true
				}
				chk := func(field string, key ssa.Value) bool { return chkAt(fn, ci.Block(), field, key, 0) }
				n++
				// the map keyed by the recorder's i-th parameter is consulted with the i-th argument
				m1, m2 := zr.fwd, zr.rev
				if a != nil && b != nil && len(rec.Params) >= 3 && a.Key == ssa.Value(rec.Params[2]) && b.Key == ssa.Value(rec.Params[1]) {
					m1, m2 = zr.rev, zr.fwd
				}
				r.Check(chk(m1, oldV) && chk(m2, newV), "C09.MAPS", core.FuncName(fn)+"→"+rec.Name()+"#unmapped-only", ci.Pos(), "a match is recorded only if neither instruction is mapped yet", "an instruction match is recorded although the old or new instruction may already be mapped: the matching is not one-to-one")
			}
		}
		r.Floor("C09.MAPS", "match recordings inside loops", n, 1)
		// the positional alignment pairs instructions taken from two sequences at two running indices; it is
		// one-to-one because a recorded pair consumes both: on the way from the recording back to the loop header
		// both indices change (an index left as it is offers the same instruction for a second pairing)
		nAl := 0
		for _, vs := range callSitesThroughForwarders(p, "pkg/diff", rec) {
			fn, ci := vs.fn, vs.call
			if fn == rec || len(vs.args) < 3 {
				continue
			}
			h := core.LoopHeaderOf(ci.Block())
			if h == nil {
				continue
			}
			indexPhi := func(v ssa.Value) *ssa.Phi {
				// v = seq[idx] with idx = phi or phi ± const, phi at the loop header
				for _, o := range core.Origins(core.Unwrap(v)) {
					u, ok := o.(*ssa.UnOp)
					if !ok || u.Op != token.MUL {
						continue
					}
					ia, ok := u.X.(*ssa.IndexAddr)
					if !ok {
						continue
					}
					idx := ia.Index
					if b, isB := idx.(*ssa.BinOp); isB && (b.Op == token.SUB || b.Op == token.ADD) {
						if _, isK := core.ConstInt(b.Y); isK {
							idx = b.X
						}
					}
					if ph, isPhi := idx.(*ssa.Phi); isPhi && ph.Block() == h {
						return ph
					}
				}
				return nil
			}
			pOld, pNew := indexPhi(vs.args[1]), indexPhi(vs.args[2])
			if pOld == nil || pNew == nil || pOld == pNew {
				continue
			}
			nAl++
			// one path from the recording back to the header
			cut := map[core.Edge]bool{}
			path := core.PathAvoiding(ci.Block(), h, cut)
			unchanged := ""
			if len(path) >= 2 {
				blockAt := func(idx int) *ssa.BasicBlock { return fn.Blocks[idx] }
				for _, ph := range []*ssa.Phi{pOld, pNew} {
					k := len(path) - 1
					var v ssa.Value = ph
					// value entering the header along the path, resolved through merge phis on the path
					for k >= 1 {
						cur, isPhi := v.(*ssa.Phi)
						if !isPhi || cur.Block() != blockAt(path[k]) {
							// defined earlier on the path? step back
							found := false
							for m := k - 1; m >= 1; m-- {
								if cp, ok := v.(*ssa.Phi); ok && cp.Block() == blockAt(path[m]) {
									k = m
									found = true
									break
								}
							}
							if !found {
								break
							}
							continue
						}
						pred := blockAt(path[k-1])
						for ei, pb := range cur.Block().Preds {
							if pb == pred {
								v = cur.Edges[ei]
							}
						}
						k--
					}
					if v == ssa.Value(ph) {
						unchanged = ph.Comment
						if unchanged == "" {
							unchanged = ph.Name()
						}
					}
				}
			}
			r.Check(unchanged == "" && len(path) >= 2, "C09.MAPS", core.FuncName(fn)+"→"+rec.Name()+"#alignment-consumes-both", ci.Pos(), "a recorded pair advances both running indices", "after a pair is recorded one of the two running indices ("+unchanged+") reaches the next iteration unchanged: the same instruction is offered again and paired a second time, so the matching is not one-to-one and the reverse map is overwritten")
		}
		r.Floor("C09.MAPS", "positional alignments that record matches", nAl, 1)
	}
}

func c09Count(r *core.Run) {
	p := r.P
	n := 0
	for _, fn := range p.FuncsIn("internal/cli") {
		// the matcher call
		var mcall *ssa.Call
		core.InstrsOf(fn, func(in ssa.Instruction) {
			if c, ok := in.(*ssa.Call); ok {
				for _, m := range matcherFuncs(p) {
					if core.StaticCallee(&c.Call) == m {
						mcall = c
					}
				}
			}
		})
		if mcall == nil {
			continue
		}
		fnm := core.FuncName(fn)
		ext := func(v ssa.Value) int {
			v = core.Resolve(v)
			if ln, ok := isBuiltinCall(v, "len"); ok {
				if ex, ok := ln.Call.Args[0].(*ssa.Extract); ok && ex.Tuple == ssa.Value(mcall) {
					return ex.Index
				}
			}
			return -1
		}
		core.InstrsOf(fn, func(in ssa.Instruction) {
			st, ok := in.(*ssa.Store)
			if !ok {
				return
			}
			fa, ok := st.Addr.(*ssa.FieldAddr)
			if !ok || !core.IsNamed(fa.X.Type(), modelsPath(p), "DiffSummary") {
				return
			}
			f := core.FieldName(fa.X.Type(), fa.Field)
			switch f {
			case "Added":
				n++
				r.Check(ext(st.Val) == 1, "C09.COUNT", fnm+"#Summary.Added", st.Pos(), "Added = len(added list of the matcher)", "Summary.Added is "+core.Canon(st.Val)+", not the length of the added list")
			case "Removed":
				n++
				r.Check(ext(st.Val) == 2, "C09.COUNT", fnm+"#Summary.Removed", st.Pos(), "Removed = len(removed list of the matcher)", "Summary.Removed is "+core.Canon(st.Val)+", not the length of the removed list")
			case "Preserved":
				// a counter: every increment that feeds it happens under "the entry just listed has this status"
				n++
				var incs []*ssa.BinOp
				seen := map[ssa.Value]bool{}
				var walk func(v ssa.Value, d int)
				walk = func(v ssa.Value, d int) {
					if v == nil || seen[v] || d > 20 {
						return
					}
					seen[v] = true
					switch x := v.(type) {
					case *ssa.Phi:
						for _, e := range x.Edges {
							walk(e, d+1)
						}
					case *ssa.BinOp:
						if k, isK := core.ConstInt(x.Y); isK && k == 1 && x.Op == token.ADD {
							incs = append(incs, x)
							walk(x.X, d+1)
						}
					case *ssa.UnOp:
						if x.Op != token.MUL {
							return
						}
						switch a := x.X.(type) {
						case *ssa.Alloc:
							for _, s2 := range core.StoresTo(a) {
								walk(s2.Val, d+1)
							}
						case *ssa.FieldAddr:
							// a field of a local tally struct: every store to that field of that variable
							if base, isAl := a.X.(*ssa.Alloc); isAl && base.Referrers() != nil {
								for _, ref := range *base.Referrers() {
									if fa2, ok := ref.(*ssa.FieldAddr); ok && fa2.Field == a.Field {
										for _, s2 := range core.StoresTo(fa2) {
											walk(s2.Val, d+1)
										}
									}
								}
							}
						}
					}
				}
				walk(st.Val, 0)
				want := strings.ToLower(f)
				okAll := len(incs) > 0
				for _, inc := range incs {
					ok1, n1, _ := core.MustPass(fn, inc.Block(), func(cond ssa.Value) (bool, bool) {
						op, x, y, neg, ok := core.Compare(cond)
						if !ok || neg || (op != token.EQL && op != token.NEQ) {
							return false, false
						}
						for _, pair := range [][2]ssa.Value{{x, y}, {y, x}} {
							if sv, isC := core.ConstString(pair[1]); isC && sv == want {
								if base, isSt := core.FieldLoad(core.Unwrap(pair[0]), "Status"); isSt && core.IsNamed(base.Type(), modelsPath(p), "FunctionDiff") {
									return true, op == token.EQL
								}
							}
						}
						return false, false
					})
					if !(ok1 && n1 > 0) {
						okAll = false
					}
				}
				r.Check(okAll, "C09.COUNT", fnm+"#Summary."+f, st.Pos(), "the counter is incremented only for an entry whose status is "+want, "Summary."+f+" is incremented under another condition than `entry.Status == \""+want+"\"`: the summary counter and the number of listed entries with that status drift apart (e.g. a renamed pair with equal fingerprints)")
			case "TotalFunctions":
				n++
				s := core.Canon(core.Resolve(st.Val))
				r.Check(strings.Count(s, "builtin.len(") == 3 && strings.Count(s, "+") == 2, "C09.COUNT", fnm+"#Summary.TotalFunctions", st.Pos(), "Total = len(matched)+len(added)+len(removed)", "Summary.TotalFunctions is "+s)
			}
		})
		// entries with status added/removed are appended while ranging over the same lists
		core.InstrsOf(fn, func(in ssa.Instruction) {
			ap, ok := isBuiltinCall(valueOf(in), "append")
			if !ok || elemType(ap) == nil || !core.IsNamed(elemType(ap), modelsPath(p), "FunctionDiff") {
				return
			}
			elems, _ := varargElems(ap.Call.Args[1])
			if len(elems) != 1 {
				return
			}
			// the entry is a literal, or the result of a helper that returns such a literal on every path
			statusOf := func(v ssa.Value) (string, bool) {
				if sv, ok := core.StructLitField(v, "Status"); ok {
					return core.ConstString(sv)
				}
				if c, ok := v.(*ssa.Call); ok {
					if g := core.StaticCallee(&c.Call); g != nil && p.IsProdFunc(g) && g.Blocks != nil {
						out, okAll := "", true
						for _, ret := range core.Returns(g) {
							sv, ok := core.StructLitField(ret.Results[0], "Status")
							cs, isC := "", false
							if ok {
								cs, isC = core.ConstString(sv)
							}
							if !isC || (out != "" && out != cs) {
								okAll = false
							}
							out = cs
						}
						return out, okAll && out != ""
					}
				}
				return "", false
			}
			s, isC := statusOf(elems[0])
			if !isC || (s != "added" && s != "removed") {
				return
			}
			want := map[string]int{"added": 1, "removed": 2}[s]
			h := core.LoopHeaderOf(ap.Block())
			okLoop := false
			if h != nil {
				for _, in2 := range h.Instrs {
					if b, ok := in2.(*ssa.BinOp); ok && b.Op == token.LSS {
						for _, o := range core.Origins(b.Y) {
							if ln, ok := isBuiltinCall(o, "len"); ok {
								if ex, ok := ln.Call.Args[0].(*ssa.Extract); ok && ex.Tuple == ssa.Value(mcall) && ex.Index == want {
									okLoop = true
								}
							}
						}
					}
				}
				// the only guards of the append are the loop condition
				for _, g := range mandatoryGuards(fn, ap.Block()) {
					if !strings.Contains(g, "len(") && !strings.Contains(g, "nil") && !strings.Contains(g, "Size()") {
						okLoop = false
					}
				}
			}
			n++
			r.Check(okLoop, "C09.COUNT", fnm+"#entries("+s+")", ap.Pos(), "one '"+s+"' entry per element of the list that is counted", "'"+s+"' entries are not appended once per element of the counted list")
		})
	}
	r.Floor("C09.COUNT", "summary counters and status entries", n, 5)
}

func c09Diverge(r *core.Run) {
	p := r.P
	n := 0
	for _, fn := range p.FuncsIn("pkg/diff") {
		core.InstrsOf(fn, func(in ssa.Instruction) {
			st, ok := in.(*ssa.Store)
			if !ok {
				return
			}
			fa, ok := st.Addr.(*ssa.FieldAddr)
			if !ok || !core.IsNamed(fa.X.Type(), diffPath(p), "ZipperArtifacts") {
				return
			}
			f := core.FieldName(fa.X.Type(), fa.Field)
			if f != "Added" && f != "Removed" {
				return
			}
			if _, isAppend := isBuiltinCall(st.Val, "append"); !isAppend {
				return
			}
			n++
			zr := zipperRoles(p)
			wantMap := map[string]string{"Removed": zr.fwd, "Added": zr.rev}[f]
			okGuards := true
			sawMap := false
			detail := ""
			for _, g := range mandatoryGuards(fn, st.Block()) {
				switch {
				case strings.Contains(g, "."+wantMap):
					sawMap = true
				case strings.Contains(g, ".VirtualizedInstrs"):
				case strings.Contains(g, "len("):
				default:
					okGuards = false
					detail = g
				}
			}
			r.Check(okGuards && sawMap, "C09.DIVERGE", core.FuncName(fn)+"#"+f, st.Pos(), "an instruction is listed iff it is unmapped in "+wantMap+" (virtualised ones skipped)", "the "+f+" list is not exactly the unmapped instructions: extra condition "+detail+" [guards: "+strings.Join(mandatoryGuards(fn, st.Block()), " ; ")+"]")
		})
	}
	r.Floor("C09.DIVERGE", "appends to the Added/Removed operation lists", n, 2)

	// ... and nothing rewrites the lists between their collection and the report: every other store into them, and
	// every store into the report's AddedOps/RemovedOps, is the list as collected (sorting in place keeps the multiset)
	nFlow := 0
	isListField := func(fa *ssa.FieldAddr) (string, bool) {
		f := core.FieldName(fa.X.Type(), fa.Field)
		switch {
		case core.IsNamed(fa.X.Type(), diffPath(p), "ZipperArtifacts") && (f == "Added" || f == "Removed"):
			return f, true
		case core.IsNamed(fa.X.Type(), modelsPath(p), "FunctionDiff") && (f == "AddedOps" || f == "RemovedOps"):
			return f, true
		}
		return "", false
	}
	for _, fn := range append(p.FuncsIn("pkg/diff"), p.FuncsIn("internal/cli")...) {
		core.InstrsOf(fn, func(in ssa.Instruction) {
			st, ok := in.(*ssa.Store)
			if !ok {
				return
			}
			// an element overwritten in place
			if ia, isIA := st.Addr.(*ssa.IndexAddr); isIA {
				if u, isLoad := ia.X.(*ssa.UnOp); isLoad && u.Op == token.MUL {
					if fa, isFA := u.X.(*ssa.FieldAddr); isFA {
						if f, isList := isListField(fa); isList {
							nFlow++
							r.Fail("C09.DIVERGE", core.FuncName(fn)+"#"+f+"/rewritten", st.Pos(), "an element of the "+f+" list is overwritten after collection: the list is no longer the unpaired instructions")
						}
					}
				}
				return
			}
			fa, ok := st.Addr.(*ssa.FieldAddr)
			if !ok {
				return
			}
			f, isList := isListField(fa)
			if !isList {
				return
			}
			if _, isAppend := isBuiltinCall(st.Val, "append"); isAppend && core.IsNamed(fa.X.Type(), diffPath(p), "ZipperArtifacts") {
				return // decided above
			}
			nFlow++
			v := core.Unwrap(st.Val)
			okFlow, what := false, core.Canon(v)
			if k, isC := v.(*ssa.Const); isC && k.Value == nil {
				okFlow = true
			}
			if u, isLoad := v.(*ssa.UnOp); isLoad && u.Op == token.MUL {
				if fa2, isFA := u.X.(*ssa.FieldAddr); isFA {
					if _, isList2 := isListField(fa2); isList2 {
						okFlow = true
					}
				}
			}
			r.Check(okFlow, "C09.DIVERGE", core.FuncName(fn)+"#"+f+"/flow", st.Pos(), "the list reaches the report as collected", "the "+f+" list is replaced by "+what+" after collection (de-duplicated, truncated or filtered): it is no longer exactly the instructions left unpaired, and counts derived from it no longer add up")
		})
	}
	r.Floor("C09.DIVERGE", "stores that carry the operation lists into the report", nFlow, 2)
}

// loopBody: the natural loop of header h (blocks dominated by h that reach h without leaving its dominance region).
func loopBody(h *ssa.BasicBlock) map[*ssa.BasicBlock]bool {
	body := map[*ssa.BasicBlock]bool{h: true}
	var work []*ssa.BasicBlock
	for _, pr := range h.Preds {
		if h.Dominates(pr) {
			work = append(work, pr)
		}
	}
	for len(work) > 0 {
		b := work[len(work)-1]
		work = work[:len(work)-1]
		if body[b] {
			continue
		}
		body[b] = true
		for _, pr := range b.Preds {
			if h.Dominates(pr) {
				work = append(work, pr)
			}
		}
	}
	return body
}

// outerLoopHeader: header of the innermost loop strictly containing the loop of h (nil if none).
func outerLoopHeader(h *ssa.BasicBlock) *ssa.BasicBlock {
	for d := h.Idom(); d != nil; d = d.Idom() {
		if lb := loopBody(d); len(lb) > 1 && lb[h] {
			return d
		}
	}
	return nil
}

// afterLoopHeader: b is dominated by a loop header (it lies in a loop body or on an exit path taken from inside
// the loop, such as `record(...); return` in a search loop).
func afterLoopHeader(b *ssa.BasicBlock) bool {
	for d := b; d != nil; d = d.Idom() {
		for _, pr := range d.Preds {
			if d.Dominates(pr) {
				return true
			}
		}
	}
	return false
}

// matcherDomains: the rename pass works with positions in several parallel lists (the unmatched old functions and
// their topologies, the unmatched new ones and theirs). A position is only meaningful in the lists it was taken
// from. Decided: (a) an index field of a candidate is filled with a position of a list that the field is later used
// to index; (b) a used-set is consulted, in the leftover loops, with positions of the list whose positions it is
// marked with. Exchanged positions pair the wrong functions or leave a paired function in the leftovers as well.
func matcherDomains(r *core.Run, fn *ssa.Function, rule string) {
	fnm := core.FuncName(fn)
	// lists are told apart by identity (two lists built by the same make(...) have the same canonical text)
	sliceKey := func(v ssa.Value) string {
		v = core.Resolve(v)
		return fmt.Sprintf("%s@%p", v.Name(), v)
	}
	// lists each index value is used on
	indexDomain := map[ssa.Value]map[string]bool{}
	add := func(idx ssa.Value, list string) {
		if indexDomain[idx] == nil {
			indexDomain[idx] = map[string]bool{}
		}
		indexDomain[idx][list] = true
	}
	fieldDomain := map[string]map[string]bool{} // candidate field → lists indexed with it
	core.InstrsOf(fn, func(in ssa.Instruction) {
		ia, ok := in.(*ssa.IndexAddr)
		if !ok {
			return
		}
		if _, isSl := ia.X.Type().Underlying().(*types.Slice); !isSl {
			return
		}
		add(ia.Index, sliceKey(ia.X))
		if _, f, okF := sigField(ia.Index); okF {
			if fieldDomain[f] == nil {
				fieldDomain[f] = map[string]bool{}
			}
			fieldDomain[f][sliceKey(ia.X)] = true
		}
	})
	overlap := func(a, b map[string]bool) bool {
		for k := range a {
			if b[k] {
				return true
			}
		}
		return false
	}
	keys := func(m map[string]bool) string {
		var ks []string
		for k := range m {
			if i := strings.Index(k, "@"); i >= 0 {
				k = k[:i] // the SSA register name; the address only tells lists apart
			}
			ks = append(ks, k)
		}
		sortStrings(ks)
		return strings.Join(ks, ",")
	}
	n := 0
	// (a) candidate literals
	core.InstrsOf(fn, func(in ssa.Instruction) {
		st, ok := in.(*ssa.Store)
		if !ok {
			return
		}
		fa, ok := st.Addr.(*ssa.FieldAddr)
		if !ok || !strings.HasSuffix(core.Deref(fa.X.Type()).String(), "candidate") {
			return
		}
		f := core.FieldName(fa.X.Type(), fa.Field)
		fd, dv := fieldDomain[f], indexDomain[st.Val]
		if len(fd) == 0 || len(dv) == 0 {
			return
		}
		n++
		r.Check(overlap(fd, dv), rule, fnm+"#candidate."+f+"/position-of-its-own-list", st.Pos(), "the field holds a position of a list it is used to index", "candidate."+f+" is filled with a position taken from "+keys(dv)+" but is used to index "+keys(fd)+": old and new positions are exchanged, the greedy pass pairs the wrong functions (or indexes out of range)")
	})
	// (b) used-sets: marked with candidate fields, tested with loop positions
	setDomain := map[string]map[string]bool{}
	core.InstrsOf(fn, func(in ssa.Instruction) {
		if mu, ok := in.(*ssa.MapUpdate); ok {
			if _, f, okF := sigField(mu.Key); okF && len(fieldDomain[f]) > 0 {
				setDomain[sliceKey(mu.Map)] = fieldDomain[f]
			}
		}
	})
	core.InstrsOf(fn, func(in ssa.Instruction) {
		lk, ok := in.(*ssa.Lookup)
		if !ok {
			return
		}
		sd := setDomain[sliceKey(lk.X)]
		dv := indexDomain[lk.Index]
		if len(sd) == 0 || len(dv) == 0 {
			return
		}
		if _, _, isField := sigField(lk.Index); isField {
			return
		}
		n++
		r.Check(overlap(sd, dv), rule, fnm+"#used-set/tested-with-its-own-positions", lk.Pos(), "the used-set is consulted with positions of the list it was marked for", "a used-set marked with positions of "+keys(sd)+" is consulted with a position of "+keys(dv)+": a function that was paired is also listed as added/removed, and an unpaired one appears in no entry")
	})
	r.Floor(rule, "position/list agreements in the rename pass", n, 3)
}
