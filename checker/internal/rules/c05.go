package rules

import (
	"fmt"
	"go/token"
	"go/types"
	"reflect"
	"sort"
	"strings"

	"golang.org/x/tools/go/ssa"

	"sfwverif/internal/core"
)

func init() { register("C05", c05) }

func c05(r *core.Run) {
	p := r.P
	r.Explain = "C05 decided structurally: (HASHAGREE) the hash fields of a signature are assigned only from the two hash functions, and every comparison with / index lookup by such a hash in both backends and in the matcher uses a value produced by the same function applied to the scanned topology; (KEYAGREE) index reader prefixes are format-prefixes of the writer keys over the same prefix variable, and the packed index value is decoded with the byte layout and positional order it was encoded with (same magic byte); (NAMEFREE) no name of the analysed function, its parameters or locals is read on the topology/hash path, callee names only, self-calls replaced by a name-free token, no Signature.String(); (INCLUSIVE) every admission comparison is inclusive (>=), necessary for a full-confidence self-match at threshold 1.0; (SELFCONF) the indexer draws required calls and string patterns from exactly the collections the matcher consults. Not decided: that the confidence of a self-match is numerically 1.0, the entropy pre-filter on real scores. (SELFCONF, sharpened) a stored string pattern is the literal or a trimmed form of it (no byte slicing unless the function works on rune boundaries)."
	r.Undecided = []string{"confidence of a self-match equals exactly 1.0 (arithmetic)", "entropy pre-filter on concrete scores", "renaming of *other* package-level functions that the analysed function calls (callee names are part of the call profile by design)"}

	// ---- HASHAGREE
	producers := map[string]map[*ssa.Function]bool{"TopologyHash": {}, "FuzzyHash": {}}
	nStores := 0
	for _, fn := range p.Funcs {
		core.InstrsOf(fn, func(in ssa.Instruction) {
			st, ok := in.(*ssa.Store)
			if !ok {
				return
			}
			fa, ok := st.Addr.(*ssa.FieldAddr)
			if !ok || !core.IsNamed(fa.X.Type(), detPath(p), "Signature") {
				return
			}
			f := core.FieldName(fa.X.Type(), fa.Field)
			if producers[f] == nil {
				return
			}
			nStores++
			for _, o := range core.Origins(st.Val) {
				c, ok := o.(*ssa.Call)
				callee := (*ssa.Function)(nil)
				if ok {
					callee = core.StaticCallee(&c.Call)
				}
				if callee == nil || !p.IsProdFunc(callee) {
					r.Fail("C05.HASHAGREE", core.FuncName(fn)+"#assign("+f+")", st.Pos(), f+" of a signature is assigned from "+core.Canon(o)+", not from a hash function of the topology")
					continue
				}
				producers[f][callee] = true
				r.OK("C05.HASHAGREE", core.FuncName(fn)+"#assign("+f+")", st.Pos(), f+" = "+core.FuncName(callee)+"(topology)")
			}
		})
	}
	r.Floor("C05.HASHAGREE", "assignments of signature hash fields", nStores, 2)
	hashOf := func(v ssa.Value) *ssa.Function {
		for _, o := range core.Origins(core.Resolve(v)) {
			if c, ok := o.(*ssa.Call); ok {
				if callee := core.StaticCallee(&c.Call); callee != nil && p.IsProdFunc(callee) {
					return callee
				}
			}
		}
		return nil
	}
	// comparisons with hash fields
	nCmp := 0
	for _, fn := range p.Funcs {
		core.InstrsOf(fn, func(in ssa.Instruction) {
			b, ok := in.(*ssa.BinOp)
			if !ok || (b.Op != token.EQL && b.Op != token.NEQ) {
				return
			}
			for _, pair := range [][2]ssa.Value{{b.X, b.Y}, {b.Y, b.X}} {
				_, f, ok := sigField(pair[0])
				if !ok || producers[f] == nil {
					continue
				}
				if _, f2, ok2 := sigField(pair[1]); ok2 && f2 == f {
					return // old vs new signature comparison (stale-entry logic)
				}
				if s, isC := core.ConstString(pair[1]); isC && s == "" {
					return
				}
				nCmp++
				h := hashOf(pair[1])
				r.Check(h != nil && producers[f][h], "C05.HASHAGREE", core.FuncName(fn)+"#compare("+f+")", b.Pos(), "compared with "+f+" computed by the function that produced the stored hash", "a signature's "+f+" is compared with "+core.Canon(pair[1])+", which is not produced by the function that computes stored hashes")
				return
			}
		})
	}
	r.Floor("C05.HASHAGREE", "comparisons against stored hash fields", nCmp, 3)
	// index prefixes built from hashes: Sprintf with an index prefix global and a hash argument
	builders := map[string]*ssa.Function{}
	for _, fn := range p.FuncsIn(storeRel) {
		if rt := resultTypes(fn); fn.Parent() == nil && len(rt) == 1 && rt[0].String() == "[]byte" && len(globalsReadBy(fn)) > 0 {
			builders[fn.Name()] = fn
		}
	}
	// which global does each index builder read, and which signature field feeds it
	globalField := map[string]string{}
	for _, fn := range p.FuncsIn(storeRel) {
		for _, op := range batchOpsOf(p, fn) {
			if op.kind != "Set" || op.key == nil || len(op.key.args) < 2 {
				continue
			}
			if _, f, ok := sigField(op.key.args[0]); ok && producers[f] != nil {
				for _, g := range globalsReadBy(op.key.builder) {
					globalField[g] = f
				}
			}
		}
	}
	r.Floor("C05.HASHAGREE", "index prefix variables keyed by a hash field", len(globalField), 2)
	nPref := 0
	// how the writers assemble the key of each index (Sprintf or concatenation, it does not matter)
	writerFormat := map[string]string{}
	for g := range globalField {
		for _, b := range builders {
			for _, gg := range globalsReadBy(b) {
				if gg != g {
					continue
				}
				for _, ret := range core.Returns(b) {
					if t := keyTemplate(ret.Results[0], 0); len(t) > 0 && t[0].kind == "glob" && t[0].text == g {
						writerFormat[g] = renderTemplate(t)
					}
				}
			}
		}
	}
	for _, fn := range p.FuncsIn(storeRel) {
		if _, isBuilder := builders[fn.Name()]; isBuilder && fn.Parent() == nil {
			continue
		}
		seenRoot := map[ssa.Value]bool{}
		core.InstrsOf(fn, func(in ssa.Instruction) {
			// candidate roots: conversions to []byte and Sprintf results that are not themselves converted
			var root ssa.Value
			switch x := in.(type) {
			case *ssa.Convert:
				if x.Type().String() == "[]byte" {
					root = x
				}
			case *ssa.Call:
				if core.CalleeName(&x.Call) == "fmt.Sprintf" {
					root = x
					if refs := x.Referrers(); refs != nil {
						for _, ref := range *refs {
							if cv, ok := ref.(*ssa.Convert); ok && cv.Type().String() == "[]byte" {
								root = nil
							}
						}
					}
				}
			}
			if root == nil || seenRoot[root] {
				return
			}
			seenRoot[root] = true
			t := keyTemplate(root, 0)
			if len(t) < 2 || t[0].kind != "glob" || t[1].kind != "arg" {
				return
			}
			g := t[0].text
			f, isHashPrefix := globalField[g]
			if !isHashPrefix {
				return
			}
			nPref++
			format := renderTemplate(t)
			harg := t[1].val
			h := hashOf(harg)
			fromParam := false
			if _, isParam := core.Unwrap(core.Resolve(harg)).(*ssa.Parameter); isParam {
				fromParam = true // lookup API taking the hash from its caller
			}
			r.Check((h != nil && producers[f][h]) || fromParam, "C05.HASHAGREE", core.FuncName(fn)+"#lookup-prefix("+g+")", in.Pos(), "index is probed with the "+f+" computed by the indexing hash function", "the "+g+" index is probed with "+core.Canon(harg)+", not with the hash function used when indexing")
			wf := writerFormat[g]
			r.Check(wf != "" && strings.HasPrefix(wf, format), "C05.KEYAGREE", core.FuncName(fn)+"#reader-prefix("+g+")", in.Pos(), fmt.Sprintf("reader template %q is a prefix of the writer's key template %q", format, wf), fmt.Sprintf("reader template %q is not a prefix of the writer's key template %q: indexed entries are not found", format, wf))
			// ... cut at a component boundary: a prefix that ends in the hash itself (the separator that follows it in
			// the writer's key left off) also matches every longer hash that merely starts with the probed one
			if wf != "" && strings.HasPrefix(wf, format) && len(wf) > len(format) {
				r.Check(!strings.HasSuffix(format, "%s") && !strings.HasSuffix(format, "%v"), "C05.KEYAGREE", core.FuncName(fn)+"#reader-prefix-closed("+g+")", in.Pos(), fmt.Sprintf("reader template %q ends with the separator that closes the hash component", format), fmt.Sprintf("reader template %q ends inside the key (the writer continues with %q): the probe for hash \"ab\" also covers entries of hash \"abc\", so a lookup returns a signature with another hash", format, wf[len(format):]))
			}
		})
	}
	r.Floor("C05.KEYAGREE", "hash-index prefix probes", nPref, 5)

	c05Pack(r)
	nameFree(r, "C05.NAMEFREE", nil)

	// ---- INCLUSIVE
	adms := admissions(p)
	for _, a := range adms {
		for _, s := range a.sinks {
			var ts []ssa.Value
			ok, n, _ := core.MustPass(a.fn, s.Block(), admissionAtom(a, true, &ts))
			r.Check(ok && n > 0, "C05.INCLUSIVE", core.FuncName(a.fn)+"#admit-inclusive", s.Pos(), "admission uses >= (a confidence equal to the threshold is admitted)", "admission uses a strict comparison: a full-confidence self-match is dropped at threshold 1.0")
		}
	}
	r.Floor("C05.INCLUSIVE", "admission sites", len(adms), 4)

	c05SelfConf(r)
	c05IDFresh(r)
	c05EntropyAgree(r)
	c05PackArgs(r)
	// the hash stored at index time equals the hash computed at scan time only if the hash functions are deterministic:
	// every range over a map on their path is order-insensitive or feeds a total sort (the effect engine of C01/C10)
	{
		var es []*ssa.Function
		for _, e := range [][2]string{{"pkg/detection", "GenerateTopologyHash"}, {"pkg/analysis/topology", "GenerateFuzzyHash"}, {"pkg/analysis/topology", "ExtractTopology"}} {
			if fn := p.Func(e[0], e[1]); fn != nil {
				es = append(es, fn)
			}
		}
		if len(es) > 0 {
			runOrd(r, "C05.ORD", reachPrecise(p, es...), 1)
		}
	}

	c05CaseSym(r)
	c05UniqueTags(r, "C05.TAGS")
}

// byte range of a Slice expression with constant bounds ("lo:hi", hi empty for open)
func sliceRange(v ssa.Value) (string, ssa.Value, bool) {
	sl, ok := v.(*ssa.Slice)
	if !ok {
		return "", nil, false
	}
	lo, hi := "0", ""
	if sl.Low != nil {
		k, ok := core.ConstInt(sl.Low)
		if !ok {
			return "", nil, false
		}
		lo = fmt.Sprint(k)
	}
	if sl.High != nil {
		k, ok := core.ConstInt(sl.High)
		if !ok {
			return "", nil, false
		}
		hi = fmt.Sprint(k)
	}
	return lo + ":" + hi, sl.X, true
}

func c05Pack(r *core.Run) {
	p := r.P
	var enc, dec *ssa.Function
	for _, fn := range p.FuncsIn(storeRel) {
		core.InstrsOf(fn, func(in ssa.Instruction) {
			if core.IsCallTo(in, "(encoding/binary.littleEndian).PutUint64") {
				enc = fn
			}
			if core.IsCallTo(in, "(encoding/binary.littleEndian).Uint64") {
				dec = fn
			}
		})
	}
	if enc == nil || dec == nil {
		r.Floor("C05.KEYAGREE", "packed index value encoder/decoder", 0, 1)
		return
	}
	paramIdx := func(fn *ssa.Function, v ssa.Value) int {
		for i, pa := range fn.Params {
			if pa == v {
				return i
			}
		}
		return -1
	}
	encLayout := map[int]string{}
	encMagic, decMagic := "", ""
	core.InstrsOf(enc, func(in ssa.Instruction) {
		switch x := in.(type) {
		case *ssa.Call:
			switch core.CalleeName(&x.Call) {
			case "(encoding/binary.littleEndian).PutUint64":
				rng, _, ok := sliceRange(x.Call.Args[1])
				if fb, isFB := callTo(x.Call.Args[2], "math.Float64bits"); ok && isFB {
					encLayout[paramIdx(enc, fb.Call.Args[0])] = rng
				}
			case "builtin.copy":
				rng, _, ok := sliceRange(x.Call.Args[0])
				if ok {
					src := x.Call.Args[1]
					if cv, isCv := src.(*ssa.Convert); isCv {
						src = cv.X
					}
					encLayout[paramIdx(enc, src)] = rng
				}
			}
		case *ssa.Store:
			if ia, ok := x.Addr.(*ssa.IndexAddr); ok {
				if k, ok := core.ConstInt(ia.Index); ok && k == 0 {
					encMagic = core.Canon(x.Val)
				}
			}
		}
	})
	decLayout := map[int]string{}
	for _, ret := range core.Returns(dec) {
		results := ret.Results
		// a decoder that returns one struct: its fields, in declaration order, are the results
		if len(results) == 1 {
			if st, ok := core.Deref(results[0].Type()).Underlying().(*types.Struct); ok {
				var fs []ssa.Value
				for i := 0; i < st.NumFields(); i++ {
					v, ok := core.StructLitField(results[0], st.Field(i).Name())
					if !ok || v == nil {
						fs = nil
						break
					}
					fs = append(fs, v)
				}
				results = fs
			}
		}
		if len(results) < 3 {
			continue
		}
		flag, isC := results[len(results)-1].(*ssa.Const)
		if !isC || flag.Value == nil || flag.Value.String() != "true" {
			continue
		}
		for i, res := range results[:len(results)-1] {
			switch x := res.(type) {
			case *ssa.Call:
				if core.CalleeName(&x.Call) == "math.Float64frombits" {
					if u, ok := callTo(x.Call.Args[0], "(encoding/binary.littleEndian).Uint64"); ok {
						if rng, _, ok := sliceRange(u.Call.Args[1]); ok {
							decLayout[i] = rng
						}
					}
				}
			case *ssa.Convert:
				if rng, _, ok := sliceRange(x.X); ok {
					decLayout[i] = rng
				}
			}
		}
	}
	core.InstrsOf(dec, func(in ssa.Instruction) {
		if b, ok := in.(*ssa.BinOp); ok && (b.Op == token.EQL || b.Op == token.NEQ) {
			if u, ok := b.X.(*ssa.UnOp); ok {
				if ia, ok := u.X.(*ssa.IndexAddr); ok {
					if k, ok := core.ConstInt(ia.Index); ok && k == 0 {
						decMagic = core.Canon(b.Y)
					}
				}
			}
		}
	})
	var keys []int
	for k := range encLayout {
		keys = append(keys, k)
	}
	sort.Ints(keys)
	r.Floor("C05.KEYAGREE", "packed fields found in the encoder", len(keys), 3)
	for _, k := range keys {
		r.Check(k >= 0 && decLayout[k] == encLayout[k], "C05.KEYAGREE", fmt.Sprintf("%s↔%s#field%d", enc.Name(), dec.Name(), k), enc.Pos(),
			fmt.Sprintf("encoder parameter %d and decoder result %d both use bytes [%s]", k, k, encLayout[k]),
			fmt.Sprintf("encoder writes parameter %d at bytes [%s] but the decoder reads result %d from [%s]: score and tolerance (or the id) are exchanged on the read path", k, encLayout[k], k, decLayout[k]))
	}
	r.Check(encMagic != "" && encMagic == decMagic, "C05.KEYAGREE", enc.Name()+"↔"+dec.Name()+"#magic", enc.Pos(), "same magic byte "+encMagic, "magic byte differs between encoder ("+encMagic+") and decoder ("+decMagic+")")
}

func c05SelfConf(r *core.Run) {
	p := r.P
	// collections ranged by the indexer vs. the matchers, by topology field name
	rangedFields := func(fn *ssa.Function) map[string]bool {
		out := map[string]bool{}
		core.InstrsOf(fn, func(in ssa.Instruction) {
			switch x := in.(type) {
			case *ssa.Range:
				if _, f, ok := sigField(x.X); ok {
					out[f] = true
				}
			case *ssa.IndexAddr:
				if _, f, ok := sigField(x.X); ok {
					out[f] = true
				}
			case *ssa.Call:
				if ln, ok := isBuiltinCall(x, "len"); ok {
					if _, f, ok := sigField(ln.Call.Args[0]); ok {
						out[f] = true
					}
				}
				for _, a := range x.Call.Args {
					if _, f, ok := sigField(a); ok && core.StaticCallee(&x.Call) != nil {
						out["arg:"+f] = true
					}
				}
			}
		})
		return out
	}
	n := 0
	for _, fn := range p.FuncsIn("pkg/detection") {
		// indexer: builds a Signature literal with IdentifyingFeatures
		builds := false
		core.InstrsOf(fn, func(in ssa.Instruction) {
			if st, ok := in.(*ssa.Store); ok {
				if fa, ok := st.Addr.(*ssa.FieldAddr); ok && core.FieldName(fa.X.Type(), fa.Field) == "RequiredCalls" {
					builds = true
				}
			}
		})
		if !builds {
			continue
		}
		n++
		fnm := core.FuncName(fn)
		rf := rangedFields(fn)
		r.Check(rf["CallSignatures"], "C05.SELFCONF", fnm+"#required-calls-source", fn.Pos(), "required calls are taken from the topology's call profile", "required calls are not taken from the call profile the matcher consults")
		r.Check(rf["arg:StringLiterals"] || rf["StringLiterals"], "C05.SELFCONF", fnm+"#string-patterns-source", fn.Pos(), "string patterns are taken from the topology's string literals", "string patterns are not taken from the literals the matcher consults")
	}
	r.Floor("C05.SELFCONF", "signature indexer", n, 1)
	c05PatternDerivation(r)
	c05IndependentMatching(r)
	// matchers consult the same collections
	callsOK, strsOK := false, false
	for _, fn := range p.FuncsIn("pkg/detection") {
		rt := resultTypes(fn)
		if len(rt) < 2 || rt[0].String() != "float64" {
			continue
		}
		rf := rangedFields(fn)
		if rf["CallSignatures"] {
			callsOK = true
		}
		if rf["StringLiterals"] {
			strsOK = true
		}
	}
	r.Check(callsOK, "C05.SELFCONF", "detection#call-matcher-consults(CallSignatures)", token.NoPos, "the call matcher consults the call profile", "no matcher consults the call profile")
	r.Check(strsOK, "C05.SELFCONF", "detection#string-matcher-consults(StringLiterals)", token.NoPos, "the string matcher consults the string literals", "no matcher consults the string literals")
}

// c05PatternDerivation: a stored string pattern must still be contained (after the matcher's case folding)
// in the literal it was taken from. That holds when the pattern is the literal itself or a trimmed form of
// it; any other transformation (byte slicing can cut a multi-byte rune, concatenation, replacement) is
// reported unless the function visibly works on rune boundaries.
func c05PatternDerivation(r *core.Run) {
	p := r.P
	nSites := 0
	for _, idx := range p.FuncsIn("pkg/detection") {
		core.InstrsOf(idx, func(in ssa.Instruction) {
			c, ok := in.(*ssa.Call)
			if !ok {
				return
			}
			ex := core.StaticCallee(&c.Call)
			if ex == nil || !p.IsProdFunc(ex) || len(c.Call.Args) != 1 || len(ex.Params) != 1 {
				return
			}
			if _, f, ok := sigField(c.Call.Args[0]); !ok || f != "StringLiterals" {
				return
			}
			if rt := resultTypes(ex); len(rt) != 1 || rt[0].String() != "[]string" {
				return
			}
			lits := ex.Params[0]
			runeAware := false
			core.InstrsOf(ex, func(in ssa.Instruction) {
				if cc := core.CallOf(in); cc != nil && strings.HasPrefix(core.CalleeName(cc), "unicode/utf8.") {
					runeAware = true
				}
			})
			var derive func(v ssa.Value, d int) string
			derive = func(v ssa.Value, d int) string {
				if d > 10 {
					return "derivation too deep"
				}
				switch x := v.(type) {
				case *ssa.Extract:
					if nx, ok := x.Tuple.(*ssa.Next); ok {
						if rg, ok := nx.Iter.(*ssa.Range); ok && rg.X == ssa.Value(lits) {
							return ""
						}
					}
				case *ssa.UnOp:
					if ia, ok := x.X.(*ssa.IndexAddr); ok && x.Op == token.MUL && ia.X == ssa.Value(lits) {
						return ""
					}
				case *ssa.Phi:
					for _, e := range x.Edges {
						if why := derive(e, d+1); why != "" {
							return why
						}
					}
					return ""
				case *ssa.Call:
					switch core.CalleeName(&x.Call) {
					case "strings.Trim", "strings.TrimSpace", "strings.TrimLeft", "strings.TrimRight", "strings.TrimPrefix", "strings.TrimSuffix", "strings.TrimFunc":
						return derive(x.Call.Args[0], d+1)
					}
					return "result of " + core.CalleeName(&x.Call)
				case *ssa.Slice:
					if runeAware {
						return derive(x.X, d+1)
					}
					return "a byte slice " + core.Canon(x) + " (may cut a multi-byte rune; case folding then changes the tail)"
				}
				return core.Canon(v)
			}
			core.InstrsOf(ex, func(in ssa.Instruction) {
				mu, ok := in.(*ssa.MapUpdate)
				if !ok || mu.Key.Type().String() != "string" {
					return
				}
				nSites++
				why := derive(mu.Key, 0)
				r.Check(why == "", "C05.SELFCONF", core.FuncName(ex)+"#pattern-is-trimmed-literal", mu.Pos(), "a stored pattern is the literal or a trimmed form of it", "a stored string pattern is "+why+", not the literal or a trimmed form of it: the matcher may not find the pattern in the very literal it came from, so the indexed function is not found again with full confidence")
			})
		})
	}
	r.Floor("C05.SELFCONF", "pattern insert sites in the string-pattern extractor", nSites, 1)
}

// c05IndependentMatching: the indexer stores every call of the profile (every literal) as a requirement, and the
// matchers look each requirement up in the scanned function's profile. A self match finds all of them only if each
// requirement is decided on its own: a matcher that remembers, across requirements, which profile entries were
// "used up" lets one requirement consume the entry another one needs (fmt.Sprint / fmt.Sprintf), and the indexed
// function is no longer found with full confidence.
func c05IndependentMatching(r *core.Run) {
	p := r.P
	n := 0
	for _, fn := range p.FuncsIn("pkg/detection") {
		rt := resultTypes(fn)
		if len(rt) < 2 || rt[0].String() != "float64" || fn.Parent() != nil {
			continue
		}
		// a matcher: ranges over a []string parameter (the requirements)
		var req *ssa.Parameter
		for _, pa := range fn.Params {
			if pa.Type().String() == "[]string" {
				req = pa
			}
		}
		if req == nil {
			continue
		}
		n++
		// local maps/sets written inside a loop and consulted by a branch inside a loop
		written := map[ssa.Value]ssa.Instruction{}
		core.InstrsOf(fn, func(in ssa.Instruction) {
			if mu, ok := in.(*ssa.MapUpdate); ok && core.LoopHeaderOf(mu.Block()) != nil {
				if _, isLocal := core.Resolve(mu.Map).(*ssa.MakeMap); isLocal {
					written[core.Resolve(mu.Map)] = in
				} else if _, isLocal := mu.Map.(*ssa.MakeMap); isLocal {
					written[mu.Map] = in
				}
			}
		})
		bad := ""
		core.InstrsOf(fn, func(in ssa.Instruction) {
			lk, ok := in.(*ssa.Lookup)
			if !ok || core.LoopHeaderOf(lk.Block()) == nil {
				return
			}
			m := core.Resolve(lk.X)
			if _, w := written[m]; !w {
				if _, w2 := written[lk.X]; !w2 {
					return
				}
			}
			if len(branchesOn(lk)) > 0 {
				bad = p.Pos(lk.Pos())
			}
			if refs := lk.Referrers(); refs != nil {
				for _, ref := range *refs {
					if ex, ok := ref.(*ssa.Extract); ok && len(branchesOn(ex)) > 0 {
						bad = p.Pos(lk.Pos())
					}
				}
			}
		})
		r.Check(bad == "", "C05.SELFCONF", core.FuncName(fn)+"#requirements-decided-independently", fn.Pos(), "each requirement is looked up on its own (no bookkeeping shared between requirements decides a match)", "the matcher consults ("+bad+") a table it fills while matching other requirements: one requirement can use up the profile entry another one needs, so a function no longer matches the signature generated from itself")
	}
	r.Floor("C05.SELFCONF", "requirement matchers (score, matched…) over a []string of requirements", n, 2)
}

// c05IDFresh: `sfw index` generates the ID under which a signature is stored. Adding a signature whose ID already
// exists is an update: the earlier signature's blob and index entries are replaced, so the function indexed first
// is no longer found. A generated ID must therefore differ (a) between the signatures of one run — it includes a
// value that changes per iteration — and (b) from what earlier runs stored — it includes a value read from the
// opened database, a hash of the content, or a random value; the clock alone repeats within a second.
func c05IDFresh(r *core.Run) {
	p := r.P
	r.Explain += " (IDFRESH) a signature ID generated by the index command includes a value that changes per indexed function and a value read from the opened database (or content-derived / random): two index runs within one second must not reuse IDs, because adding an existing ID is an update that removes the earlier signature's index entries."
	n := 0
	for _, fn := range p.FuncsIn("internal/cli") {
		core.InstrsOf(fn, func(in ssa.Instruction) {
			st, ok := in.(*ssa.Store)
			if !ok {
				return
			}
			fa, ok := st.Addr.(*ssa.FieldAddr)
			if !ok || !core.IsNamed(fa.X.Type(), detPath(p), "Signature") || core.FieldName(fa.X.Type(), fa.Field) != "ID" {
				return
			}
			if _, isConst := st.Val.(*ssa.Const); isConst {
				return
			}
			n++
			perIter, state, how := false, false, ""
			seen := map[ssa.Value]bool{}
			var walk func(v ssa.Value, d int)
			walk = func(v ssa.Value, d int) {
				if v == nil || seen[v] || d > 30 || len(seen) > 400 {
					return
				}
				seen[v] = true
				switch x := v.(type) {
				case *ssa.Parameter:
					// a helper that formats the ID: look at what its callers pass
					for i, prm := range x.Parent().Params {
						if prm != x {
							continue
						}
						for _, site := range callersOf(p, x.Parent()) {
							if args := core.CallArgs(site.Common()); i < len(args) {
								walk(args[i], d+1)
							}
						}
					}
					return
				case *ssa.Phi:
					if core.LoopHeaderOf(x.Block()) == x.Block() || core.LoopHeaderOf(x.Block()) != nil {
						perIter = true
					}
					for _, e := range x.Edges {
						walk(e, d+1)
					}
					return
				case *ssa.Call:
					name := core.CalleeName(&x.Call)
					if g := core.StaticCallee(&x.Call); g != nil && g.Signature.Recv() != nil {
						rt := core.Deref(g.Signature.Recv().Type()).String()
						if strings.Contains(rt, "/pkg/storage/") {
							state, how = true, "a value read from the opened database ("+core.FuncName(g)+")"
						}
					}
					if strings.HasPrefix(name, "crypto/rand.") || strings.HasPrefix(name, "crypto/sha256.") || strings.Contains(name, "uuid") {
						state, how = true, "a random or content-derived value ("+name+")"
					}
					if name == "fmt.Sprintf" || name == "fmt.Sprint" {
						if elems, ok := varargElems(x.Call.Args[len(x.Call.Args)-1]); ok {
							for _, e := range elems {
								walk(core.Unwrap(e), d+1)
							}
						}
						return
					}
					for _, a := range core.CallArgs(&x.Call) {
						walk(a, d+1)
					}
					return
				case *ssa.UnOp:
					if x.Op == token.MUL {
						if _, name, ok := fieldLoadBy(x, func(t types.Type) bool { return true }); ok && (name == "TopologyHash" || name == "FuzzyHash") {
							state, how = true, "the content hash "+name
						}
						if a, ok := x.X.(*ssa.Alloc); ok {
							for _, s2 := range core.StoresTo(a) {
								walk(s2.Val, d+1)
							}
							return
						}
					}
				}
				if in2, ok := v.(ssa.Instruction); ok {
					for _, op := range in2.Operands(nil) {
						if op != nil && *op != nil {
							walk(*op, d+1)
						}
					}
				}
			}
			walk(st.Val, 0)
			fnm := core.FuncName(fn)
			r.Check(perIter, "C05.IDFRESH", fnm+"#id-differs-within-run", st.Pos(), "the generated ID includes a value that changes with every indexed function", "the generated signature ID includes nothing that changes per indexed function: the signatures of one run overwrite each other")
			r.Check(state, "C05.IDFRESH", fnm+"#id-differs-across-runs", st.Pos(), "the generated ID includes "+how, "the generated signature ID is built from the clock (one-second resolution), the category and the position in the batch only: a second `sfw index` run into the same database within the same second reuses the IDs of the first, AddSignatures treats them as updates and the functions indexed first are no longer found")
		})
	}
	r.Floor("C05.IDFRESH", "generated signature IDs in the index command", n, 2)
}

// topoFieldPath: v loads a field (possibly of a nested struct) of a FunctionTopology; returns the dotted path.
func topoFieldPath(v ssa.Value) (string, bool) {
	u, ok := core.Unwrap(v).(*ssa.UnOp)
	if !ok || u.Op != token.MUL {
		return "", false
	}
	var names []string
	cur := u.X
	for {
		fa, isFA := cur.(*ssa.FieldAddr)
		if !isFA {
			return "", false
		}
		names = append([]string{core.FieldName(fa.X.Type(), fa.Field)}, names...)
		if strings.HasSuffix(core.Deref(fa.X.Type()).String(), "topology.FunctionTopology") {
			return strings.Join(names, "."), true
		}
		cur = fa.X
	}
}

// c05EntropyAgree: the entropy pre-filter of both backends and the matcher compare a signature's stored entropy
// score with one figure of the scanned function's topology. The figure stored at index time must be that same
// figure, or a function never passes the pre-filter of its own signature.
func c05EntropyAgree(r *core.Run) {
	p := r.P
	produced := map[string]token.Pos{}
	for _, fn := range p.FuncsIn("pkg/detection") {
		core.InstrsOf(fn, func(in ssa.Instruction) {
			st, ok := in.(*ssa.Store)
			if !ok {
				return
			}
			fa, ok := st.Addr.(*ssa.FieldAddr)
			if !ok || !core.IsNamed(fa.X.Type(), detPath(p), "Signature") || core.FieldName(fa.X.Type(), fa.Field) != "EntropyScore" {
				return
			}
			for _, o := range core.Origins(st.Val) {
				if path, isT := topoFieldPath(o); isT {
					produced[path] = st.Pos()
				}
			}
		})
	}
	consumed := map[string]int{}
	isSigScore := func(v ssa.Value) bool {
		v = core.Unwrap(v)
		if base, ok := core.FieldLoad(v, "EntropyScore"); ok && strings.HasSuffix(core.Deref(base.Type()).String(), "detection.Signature") {
			return true
		}
		// the score unpacked from an index value
		if ex, isEx := v.(*ssa.Extract); isEx {
			if c, isCall := ex.Tuple.(*ssa.Call); isCall {
				if g := core.StaticCallee(&c.Call); g != nil && p.IsProdFunc(g) && isFloat64(ex.Type()) {
					return true
				}
			}
		}
		if fl, isF := v.(*ssa.Field); isF && isFloat64(fl.Type()) {
			return true
		}
		return false
	}
	for _, pr := range floatPairs(p, append(scannerFuncs(p), p.FuncsIn("pkg/detection")...)) {
		for _, pair := range [][2]ssa.Value{{pr[0], pr[1]}, {pr[1], pr[0]}} {
			if path, isT := topoFieldPath(pair[0]); isT && isSigScore(pair[1]) {
				consumed[path]++
			}
		}
	}
	var cs []string
	for c := range consumed {
		cs = append(cs, c)
	}
	sortStrings(cs)
	r.Floor("C05.ENTROPY", "comparisons of a stored entropy score with a figure of the scanned topology", len(consumed), 1)
	r.Check(len(cs) <= 1, "C05.ENTROPY", "scan#one-figure", token.NoPos, "every comparison uses the topology figure "+strings.Join(cs, ","), "the backends / the matcher compare the stored score with different topology figures: "+strings.Join(cs, ", "))
	for path, pos := range produced {
		r.Check(consumed[path] > 0, "C05.ENTROPY", "index#stores("+path+")", pos, "the stored entropy score is the figure the scans compare with ("+path+")", "the entropy score stored at index time is the topology's "+path+", but the scans compare it with "+strings.Join(cs, ",")+": a function with string literals of differing entropy fails the pre-filter of its own signature")
	}
	r.Floor("C05.ENTROPY", "assignments of a signature's entropy score from a topology", len(produced), 1)
}

// c05PackArgs: the packed index value carries (id, score, tolerance) of ONE signature, each in its slot. The slot
// the scans read the score from (the decoder result they compare with the topology's entropy figure) must be fed,
// at every call of the encoder, with the signature field the other backend and the matcher use as the score; the
// remaining float slot with another field of the same signature, the same one at every site (sibling agreement
// between the single add, the batch add and the rebuild).
func c05PackArgs(r *core.Run) {
	p := r.P
	var enc, dec *ssa.Function
	for _, fn := range p.FuncsIn(storeRel) {
		core.InstrsOf(fn, func(in ssa.Instruction) {
			if core.IsCallTo(in, "(encoding/binary.littleEndian).PutUint64") {
				enc = fn
			}
			if core.IsCallTo(in, "(encoding/binary.littleEndian).Uint64") {
				dec = fn
			}
		})
	}
	if enc == nil || dec == nil {
		return // reported by C05.KEYAGREE
	}
	// the score slot: which decoder result is compared with a figure of the scanned topology
	scoreSlot := -1
	for _, pr := range floatPairs(p, scannerFuncs(p)) {
		for _, pair := range [][2]ssa.Value{{pr[0], pr[1]}, {pr[1], pr[0]}} {
			if _, isT := topoFieldPath(pair[0]); !isT {
				continue
			}
			switch v := core.Unwrap(pair[1]).(type) {
			case *ssa.Extract:
				if c, isCall := v.Tuple.(*ssa.Call); isCall && core.StaticCallee(&c.Call) == dec {
					scoreSlot = v.Index
				}
			case *ssa.Field:
				if c, isCall := v.X.(*ssa.Call); isCall && core.StaticCallee(&c.Call) == dec {
					scoreSlot = v.Field
				}
			case *ssa.UnOp:
				if fa, isFA := v.X.(*ssa.FieldAddr); isFA {
					var srcs []ssa.Value
					if al, isAl := fa.X.(*ssa.Alloc); isAl {
						for _, sto := range core.StoresTo(al) {
							srcs = append(srcs, core.Origins(sto.Val)...)
						}
					} else {
						srcs = core.Origins(core.LoadOf(fa.X))
					}
					for _, o := range srcs {
						if c, isCall := o.(*ssa.Call); isCall && core.StaticCallee(&c.Call) == dec {
							scoreSlot = fa.Field
						}
					}
				}
			}
		}
	}
	// the signature field that is the score for the matcher and the JSON backend
	scoreField := ""
	for _, pr := range floatPairs(p, append(scannerFuncs(p), p.FuncsIn("pkg/detection")...)) {
		for _, pair := range [][2]ssa.Value{{pr[0], pr[1]}, {pr[1], pr[0]}} {
			if _, isT := topoFieldPath(pair[0]); !isT {
				continue
			}
			if base, name, ok := fieldLoadBy(core.Unwrap(pair[1]), isFloat64); ok && strings.HasSuffix(core.Deref(base.Type()).String(), "detection.Signature") {
				scoreField = name
			}
		}
	}
	if !r.Floor("C05.PACKARGS", "score slot of the packed value and score field of a signature", map[bool]int{true: 1, false: 0}[scoreSlot >= 0 && scoreField != ""], 1) {
		return
	}
	n := 0
	others := map[string]bool{}
	for _, fn := range p.FuncsIn(storeRel) {
		core.InstrsOf(fn, func(in ssa.Instruction) {
			c := core.CallOf(in)
			if c == nil || core.StaticCallee(c) != enc || scoreSlot >= len(c.Args) {
				return
			}
			n++
			fnm := core.FuncName(fn)
			base, name, ok := fieldLoadBy(core.Unwrap(c.Args[scoreSlot]), isFloat64)
			r.Check(ok && name == scoreField && strings.HasSuffix(core.Deref(base.Type()).String(), "detection.Signature"), "C05.PACKARGS", fnm+"#score-slot", in.Pos(),
				"the score slot of the packed index value is fed with the signature's "+scoreField,
				"the score slot of the packed index value is fed with "+core.Canon(c.Args[scoreSlot])+", not with the signature's "+scoreField+": the entropy pre-filter of the scans then compares the scanned function's entropy with the wrong number and drops the signature's own function")
			for i, a := range c.Args {
				if i == scoreSlot || !isFloat64(a.Type()) {
					continue
				}
				b2, n2, ok2 := fieldLoadBy(core.Unwrap(a), isFloat64)
				sameSig := ok && ok2 && core.Canon(b2) == core.Canon(base)
				r.Check(ok2 && n2 != scoreField && sameSig, "C05.PACKARGS", fnm+fmt.Sprintf("#slot%d", i), in.Pos(),
					"the other float slot is fed with another field of the same signature ("+n2+")",
					"the other float slot of the packed index value is fed with "+core.Canon(a)+": not a second field of the same signature")
				if ok2 {
					others[n2] = true
				}
			}
		})
	}
	var os []string
	for o := range others {
		os = append(os, o)
	}
	sortStrings(os)
	r.Check(len(os) <= 1, "C05.PACKARGS", "encoder-call-sites#agree", token.NoPos, "all writers of the packed index value agree on its fields", "the writers of the packed index value disagree on what goes into the tolerance slot: "+strings.Join(os, ", "))
	r.Floor("C05.PACKARGS", "calls of the packed-value encoder", n, 3)
}

// floatPairs lists the operand pairs of float subtractions (and of two-float-argument calls of repository
// functions) in fns; an operand that is a parameter of a helper is replaced by what each caller passes.
func floatPairs(p *core.Program, fns []*ssa.Function) [][2]ssa.Value {
	var out [][2]ssa.Value
	expand := func(fn *ssa.Function, v ssa.Value) []ssa.Value {
		prm, ok := core.Unwrap(v).(*ssa.Parameter)
		if !ok {
			return []ssa.Value{v}
		}
		var vals []ssa.Value
		for i, q := range fn.Params {
			if q != prm {
				continue
			}
			for _, site := range callersOf(p, fn) {
				if args := core.CallArgs(site.Common()); i < len(args) {
					vals = append(vals, args[i])
				}
			}
		}
		if len(vals) == 0 {
			return []ssa.Value{v}
		}
		return vals
	}
	for _, fn := range fns {
		fn := fn
		core.InstrsOf(fn, func(in ssa.Instruction) {
			var a, b ssa.Value
			switch x := in.(type) {
			case *ssa.BinOp:
				if x.Op != token.SUB || !isFloat64(x.Type()) {
					return
				}
				a, b = x.X, x.Y
			case *ssa.Call:
				g := core.StaticCallee(&x.Call)
				if g == nil || !p.IsProdFunc(g) || len(x.Call.Args) != 2 || !isFloat64(x.Call.Args[0].Type()) || !isFloat64(x.Call.Args[1].Type()) {
					return
				}
				a, b = x.Call.Args[0], x.Call.Args[1]
			default:
				return
			}
			as, bs := expand(fn, a), expand(fn, b)
			if len(as) == len(bs) && len(as) > 1 {
				// both operands are parameters: pair them per call site
				for i := range as {
					out = append(out, [2]ssa.Value{as[i], bs[i]})
				}
				return
			}
			for _, x := range as {
				for _, y := range bs {
					out = append(out, [2]ssa.Value{x, y})
				}
			}
		})
	}
	return out
}

// c05CaseSym: a containment / prefix / equality test between two strings of which one was folded to lower (upper)
// case folds the other one the same way. A pattern stored lower-cased and searched in the raw literal never matches a
// literal that contains a capital: the function's own string pattern is then "not found" in the function itself.
func c05CaseSym(r *core.Run) {
	p := r.P
	n := 0
	folded := func(v ssa.Value) string {
		for _, o := range core.Origins(core.Unwrap(v)) {
			if c, ok := o.(*ssa.Call); ok {
				switch core.CalleeName(&c.Call) {
				case "strings.ToLower":
					return "lower"
				case "strings.ToUpper":
					return "upper"
				}
			}
		}
		return ""
	}
	for _, fn := range p.FuncsIn("pkg/detection") {
		core.InstrsOf(fn, func(in ssa.Instruction) {
			c := core.CallOf(in)
			if c == nil || len(c.Args) != 2 {
				return
			}
			switch core.CalleeName(c) {
			case "strings.Contains", "strings.HasPrefix", "strings.HasSuffix", "strings.EqualFold":
			default:
				return
			}
			a, b := folded(c.Args[0]), folded(c.Args[1])
			if a == "" && b == "" {
				return
			}
			_, ca := core.ConstString(c.Args[0])
			_, cb := core.ConstString(c.Args[1])
			if ca || cb {
				return
			}
			n++
			r.Check(a == b, "C05.CASE", core.FuncName(fn)+"#"+strings.TrimPrefix(core.CalleeName(c), "strings."), in.Pos(), "both strings are folded to "+a+" case", "only one side of the test is case-folded ("+a+"/"+b+"): a pattern that was lower-cased is searched in the raw text, so a literal with a capital letter never matches its own pattern and the indexed function no longer matches itself with full confidence")
		})
	}
	r.Floor("C05.CASE", "string tests with a case-folded operand", n, 1)
}

// c05UniqueTags: within one serialised struct every json name is used once. encoding/json silently DROPS all fields
// that share a name at one level, so a copy-pasted tag loses both fields on every save/load.
func c05UniqueTags(r *core.Run, rule string) {
	p := r.P
	n := 0
	for _, pkg := range p.Prod {
		if !strings.HasSuffix(pkg.PkgPath, "/pkg/detection") && !strings.HasSuffix(pkg.PkgPath, "/pkg/models") {
			continue
		}
		scope := pkg.Types.Scope()
		for _, name := range scope.Names() {
			tn, ok := scope.Lookup(name).(*types.TypeName)
			if !ok {
				continue
			}
			st, ok := tn.Type().Underlying().(*types.Struct)
			if !ok {
				continue
			}
			seen := map[string]string{}
			for i := 0; i < st.NumFields(); i++ {
				tag := strings.Split(reflect.StructTag(st.Tag(i)).Get("json"), ",")[0]
				if tag == "" || tag == "-" {
					continue
				}
				n++
				prev, dup := seen[tag]
				r.Check(!dup, rule, pkg.Types.Name()+"."+name+"."+st.Field(i).Name()+"#json-name-unique", st.Field(i).Pos(), "json name "+tag+" is used once", "fields "+prev+" and "+st.Field(i).Name()+" of "+name+" share the json name \""+tag+"\": encoding/json drops BOTH, so a JSON database loses them on every save/load and the signature no longer matches its own function")
				seen[tag] = st.Field(i).Name()
			}
		}
	}
	r.Floor(rule, "json-tagged fields of the signature and report types", n, 20)
}
