package rules

import (
	"fmt"
	"go/ast"
	"go/token"
	"go/types"
	"sort"
	"strings"

	"golang.org/x/tools/go/ssa"

	"sfwverif/internal/core"
)

func init() { register("C03", c03) }

// fields of go/ssa instruction structs that the renderer does not have to observe, with reasons
var c03FieldExceptions = map[string]string{
	"Alloc.Heap":            "stack/heap placement is an escape-analysis artefact, not behaviour",
	"Alloc.Comment":         "cosmetic (source variable name)",
	"Phi.Comment":           "cosmetic (source variable name)",
	"Next.IsString":         "determined by the type of the ranged operand",
	"Defer.DeferStack":      "determined by the kind of the enclosing function (range-over-func)",
	"DebugRef.Expr":         "DebugRef has no semantics",
	"DebugRef.X":            "DebugRef has no semantics",
	"DebugRef.IsAddr":       "DebugRef has no semantics",
	"Call.Call.Method":      "",
	"MakeClosure.Fn":        "",
	"MakeInterface.X":       "",
	"ChangeInterface.X":     "",
	"SliceToArrayPointer.X": "",
}

// kinds whose result type is not determined by their operands and must be rendered
var c03TypeCarrying = map[string]bool{"Alloc": true, "MakeSlice": true, "MakeMap": true, "MakeChan": true, "MakeInterface": true,
	"ChangeType": true, "Convert": true, "ChangeInterface": true, "SliceToArrayPointer": true, "MultiConvert": true}

// assertGuard: the block is reached only when v.(T) succeeded, T's name ending in suffix.
func assertGuard(suffix string) core.Atom {
	return core.BoolGuard(func(x ssa.Value) bool {
		ex, ok := x.(*ssa.Extract)
		if !ok || ex.Index != 1 {
			return false
		}
		ta, ok := ex.Tuple.(*ssa.TypeAssert)
		return ok && strings.HasSuffix(ta.AssertedType.String(), suffix)
	}, true)
}

// tokensGating returns the go/token constants k such that sink is reachable through the true edge
// of an `x.Op == k` test, and whether sink is reachable without any such test.
func tokensGating(fn *ssa.Function, sink *ssa.BasicBlock, field string) (toks []token.Token, ungated bool) {
	type eq struct {
		ifi *ssa.If
		k   int64
	}
	var eqs []eq
	for _, b := range fn.Blocks {
		if len(b.Instrs) == 0 {
			continue
		}
		ifi, ok := b.Instrs[len(b.Instrs)-1].(*ssa.If)
		if !ok {
			continue
		}
		op, x, y, neg, ok := core.Compare(ifi.Cond)
		if !ok || neg || op != token.EQL {
			continue
		}
		if _, isF := core.FieldLoad(x, field); !isF {
			continue
		}
		if k, isC := core.ConstInt(y); isC {
			eqs = append(eqs, eq{ifi, k})
		}
	}
	back := backEdges(fn)
	all := map[core.Edge]bool{}
	for _, e := range eqs {
		all[core.Edge{From: e.ifi.Block(), Idx: 0}] = true
	}
	ungated = core.PathAvoiding(fn.Blocks[0], sink, all) != nil
	seen := map[int64]bool{}
	for _, e := range eqs {
		cut := map[core.Edge]bool{}
		for k := range back {
			cut[k] = true
		}
		for _, o := range eqs {
			if o.ifi != e.ifi {
				cut[core.Edge{From: o.ifi.Block(), Idx: 0}] = true
			}
		}
		if core.PathAvoiding(e.ifi.Block().Succs[0], sink, cut) != nil && !seen[e.k] {
			seen[e.k] = true
			toks = append(toks, token.Token(e.k))
		}
	}
	sort.Slice(toks, func(i, j int) bool { return toks[i] < toks[j] })
	return
}

func tokNames(ts []token.Token) string {
	var s []string
	for _, t := range ts {
		s = append(s, t.String())
	}
	return strings.Join(s, ",")
}

func c03(r *core.Run) {
	r.Explain = "C03 (injectivity) cannot be decided statically; decided are its structural necessary conditions: (COVER) the renderer's dispatcher has a clause for every concrete instruction kind of the go/ssa version the target builds against and every clause observes every exported field of that kind (frozen exception list with reasons) and the result type where it is not determined by the operands; (LEAF) constants are rendered with their type on every path, function references with package identity, globals with package, name and type, free variables with their types; (PERM) a clause that sorts a sequence of the instruction keeps the elements' original indices observable; (GATE) each normalisation is guarded as its soundness argument requires — branch swap only for integer/string comparisons whose only user is that If, with two successors and the table {>=→<, >→<=}; commutative reordering only for {+,*,==,!=,&,|,^} with + numeric only; hoisting only for the pure builtins with map/channel len/cap excluded, invariant arguments and a unique pre-header; (ENUM) functions that carry source statements are not skipped. Not decided: that the rendered strings are injective, and every semantic question beyond 'was the attribute observed / was the guard present'. The map/channel exclusion of len/cap tests the operand type through Underlying(); the crosswise operand match of the zipper is analysed where its permission is computed (inline flag or predicate helper)."
	r.Undecided = []string{"injectivity of the rendering as a whole (separator injection, hash collisions)", "behavioural equivalence of the swapped / reordered / hoisted forms (only their gating is decided)"}

	c03Cover(r)
	c03Leaf(r)
	c03Perm(r)
	c03Referent(r)
	c03TestedThenRendered(r)
	c03FlagFamilies(r)
	c03GateSwap(r, "C03.GATE.swap")
	c03GateComm(r, "C03.GATE.comm")
	c12IVGate(r, "C03.GATE.iv", "C03.GATE.iv")
	c03GateHoist(r)
	c16EnumRule(r, "C03.ENUM")
}

func c03Cover(r *core.Run) {
	p := r.P
	kinds := ssaInstrKinds(p)
	if !r.Floor("C03.COVER", "concrete go/ssa instruction kinds of the target's x/tools", len(kinds), 30) {
		return
	}
	ds := findDispatchers(p, "pkg/analysis/ir", 25)
	if !r.Floor("C03.COVER", "instruction dispatcher in the renderer", len(ds), 1) {
		return
	}
	d := ds[0]
	dn := "ir." + d.Fn.Name.Name
	var names []string
	for k := range kinds {
		names = append(names, k)
	}
	sort.Strings(names)
	for _, k := range names {
		cl := d.Clauses[k]
		if cl == nil {
			r.Fail("C03.COVER", dn+"#clause("+k+")", d.Switch.Pos(), "no clause for instruction kind "+k+": it is rendered as an opaque placeholder, so functions differing only in such instructions collide")
			continue
		}
		if k == "DebugRef" {
			r.OK("C03.COVER", dn+"#clause("+k+")", cl.Pos, "DebugRef carries no semantics and renders nothing")
			continue
		}
		var missing []string
		for _, f := range exportedFields(kinds[k]) {
			if reason, exc := c03FieldExceptions[k+"."+f]; exc && reason != "" {
				continue
			}
			if cl.Reads[f] {
				continue
			}
			// a CallCommon handled as a whole
			if strings.HasPrefix(f, "Call.") && (cl.Reads[f+"()"] || cl.Reads["Call."+strings.TrimPrefix(f, "Call.")]) {
				continue
			}
			missing = append(missing, f)
		}
		if c03TypeCarrying[k] && !cl.Reads["Type()"] {
			missing = append(missing, "Type()")
		}
		var rs []string
		for f := range cl.Reads {
			rs = append(rs, f)
		}
		sort.Strings(rs)
		r.Check(len(missing) == 0, "C03.COVER", dn+"#clause("+k+")", cl.Pos, "observes "+strings.Join(rs, ","), "clause for "+k+" never observes "+strings.Join(missing, ", ")+": two functions that differ only there get the same canonical IR")
	}
}

func c03Leaf(r *core.Run) {
	p := r.P
	// the operand renderer: method returning string that type-asserts its operand to *ssa.Const
	var norm *ssa.Function
	for _, fn := range p.FuncsIn("pkg/analysis/ir") {
		rt := resultTypes(fn)
		if len(rt) != 1 || rt[0].String() != "string" || fn.Parent() != nil {
			continue
		}
		core.InstrsOf(fn, func(in ssa.Instruction) {
			if ta, ok := in.(*ssa.TypeAssert); ok && strings.HasSuffix(ta.AssertedType.String(), "ssa.Const") {
				norm = fn
			}
		})
	}
	if norm == nil {
		r.Floor("C03.LEAF", "operand renderer (asserts *ssa.Const)", 0, 1)
		return
	}
	nn := core.FuncName(norm)
	under := func(b *ssa.BasicBlock, suffix string) bool {
		ok, n, _ := core.MustPass(norm, b, assertGuard(suffix))
		return ok && n > 0
	}
	// what a returned string is built from: names of callees whose results feed the Sprintf
	ingredients := func(v ssa.Value) (calls []string, vals []ssa.Value) {
		for _, o := range core.Origins(v) {
			c, ok := o.(*ssa.Call)
			if !ok {
				vals = append(vals, o)
				continue
			}
			if core.CalleeName(&c.Call) == "fmt.Sprintf" {
				if elems, ok := varargElems(c.Call.Args[1]); ok {
					for _, e := range elems {
						e = core.Unwrap(e)
						vals = append(vals, e)
						calls = append(calls, core.Canon(e))
					}
				}
				continue
			}
			vals = append(vals, o)
			calls = append(calls, core.Canon(o))
		}
		return
	}
	nConst, nFunc, nGlobal, nExact := 0, 0, 0, 0
	for _, ret := range core.Returns(norm) {
		calls, _ := ingredients(ret.Results[0])
		joined := strings.Join(calls, " ; ")
		switch {
		case under(ret.Block(), "ssa.Const"):
			nConst++
			r.Check(strings.Contains(joined, "ssa.Const).Type("), "C03.LEAF", nn+"#const-rendering", ret.Pos(), "constant rendered together with its type", "a constant is rendered without its type ("+joined+"): uint8 vs int8 arithmetic, any(int64(1)) vs any(int32(1)) collide")
			// the value is rendered exactly: String() of a constant.Value (or of the ssa.Const) abbreviates long
			// strings, large integers and most floats
			lossy := ""
			for _, l := range []string{"constant.Value).String(", "ssa.Const).String(", "ssa.Const).Name(", "ssa.Const).RelString(", "ssa.Const).Float64(", "ssa.Const).Int64(", "ssa.Const).Uint64(", "constant.Float64Val(", "constant.Float32Val(", "constant.Int64Val(", "constant.Uint64Val(", "constant.Val("} {
				if strings.Contains(joined, l) {
					lossy = l
				}
			}
			_, vals := ingredients(ret.Results[0])
			for _, v := range vals {
				if v != nil && strings.HasSuffix(v.Type().String(), "go/constant.Value") {
					lossy = "a constant.Value formatted by fmt (its String method)"
				}
			}
			if strings.Contains(joined, "ExactString(") || strings.Contains(joined, "constant.StringVal(") {
				nExact++
			}
			r.Check(lossy == "", "C03.LEAF", nn+"#const-value-exact", ret.Pos(), "no abbreviating rendering of a constant's value is used", "a constant's value is rendered through "+lossy+" — which abbreviates: 0.1234567 and 0.12345678, or two long strings with a common prefix, collide")
		case under(ret.Block(), "ssa.Global"):
			nGlobal++
			r.Check(strings.Contains(joined, ".Path(") && strings.Contains(joined, "ssa.Global).Name(") && strings.Contains(joined, "ssa.Global).Type("), "C03.LEAF", nn+"#global-rendering", ret.Pos(), "global rendered with package path, name and type", "a global is rendered without package path / name / type ("+joined+")")
		case under(ret.Block(), "ssa.Function"):
			// the register-name shortcut returns a map lookup; the rendering return uses Sprintf
			if !strings.Contains(joined, "Signature") && !strings.Contains(joined, "(") {
				continue
			}
			if len(calls) == 0 {
				continue
			}
			nFunc++
			okPkg := false
			for _, o := range core.Origins(ret.Results[0]) {
				c, ok := o.(*ssa.Call)
				if !ok || core.CalleeName(&c.Call) != "fmt.Sprintf" {
					continue
				}
				elems, _ := varargElems(c.Call.Args[1])
				for _, e := range elems {
					if identifiesPackage(p, core.Unwrap(e), 0) {
						okPkg = true
					}
				}
			}
			r.Check(okPkg, "C03.LEAF", nn+"#function-reference", ret.Pos(), "function references carry package identity", "a function reference is rendered by bare name ("+joined+"): crypto/rand.Read and math/rand.Read collide")
		}
	}
	r.Floor("C03.LEAF", "constant renderings", nConst, 3)
	r.Floor("C03.LEAF", "constant renderings through ExactString / StringVal", nExact, 2)
	r.Floor("C03.LEAF", "function-reference renderings", nFunc, 1)
	r.Floor("C03.LEAF", "global renderings", nGlobal, 1)

	// add-recurrences name their loop: {0, +, 1} of an outer and of an inner loop are different values
	nAR := 0
	for _, fn := range p.FuncsIn("pkg/analysis/loop") {
		if fn.Signature.Recv() == nil || !strings.HasSuffix(fn.Signature.Recv().Type().String(), "loop.SCEVAddRec") || fn.Name() != "StringWithRenamer" {
			continue
		}
		nAR++
		usesLoop := false
		core.InstrsOf(fn, func(in ssa.Instruction) {
			// the renamer is asked about something built from the receiver's Loop, and its answer reaches the text
			c, ok := in.(*ssa.Call)
			if !ok || c.Call.IsInvoke() || core.StaticCallee(&c.Call) != nil {
				return
			}
			if _, isParam := c.Call.Value.(*ssa.Parameter); !isParam || len(c.Call.Args) != 1 {
				return
			}
			// the argument is a loop reference built from the receiver's Loop field
			if strings.HasSuffix(core.Unwrap(c.Call.Args[0]).Type().String(), "loop.LoopRef") || strings.Contains(core.Canon(c.Call.Args[0]), ".Loop") {
				fromRecv := false
				core.InstrsOf(fn, func(in2 ssa.Instruction) {
					if fa, ok := in2.(*ssa.FieldAddr); ok && fa.X == ssa.Value(fn.Params[0]) && core.FieldName(fa.X.Type(), fa.Field) == "Loop" {
						fromRecv = true
					}
				})
				if refs := c.Referrers(); fromRecv && refs != nil && len(*refs) > 0 {
					usesLoop = true
				}
			}
		})
		r.Check(usesLoop, "C03.LEAF", core.FuncName(fn)+"#recurrence-names-its-loop", fn.Pos(), "the rendering of an add-recurrence includes a label of its loop obtained from the renamer", "an add-recurrence is rendered as {start, +, step} without its loop: induction variables of different loops are indistinguishable (a[i][j] vs a[j][i])")
		// ... and on every path: the only excuses for not asking are a missing renamer, a missing loop or a loop without a
		// header — not a property of the loop (its depth, its parent, its kind)
		if usesLoop {
			excuse := func(x ssa.Value) bool {
				x = core.Unwrap(x)
				if b, ok := core.FieldLoad(x, "Loop"); ok {
					return core.Unwrap(b) == ssa.Value(fn.Params[0])
				}
				if b, ok := core.FieldLoad(x, "Header"); ok {
					_, ok2 := core.FieldLoad(core.Unwrap(b), "Loop")
					return ok2
				}
				return false
			}
			askBlocks, wit := renamerAskedOnEveryPath(fn, "loop.LoopRef", excuse)
			r.Check(wit == nil && len(askBlocks) > 0, "C03.LEAF", core.FuncName(fn)+"#recurrence-names-its-loop-on-every-path", fn.Pos(),
				"every rendering of an add-recurrence with a renamer, a loop and a header asks for the loop's label",
				"an add-recurrence can be rendered without asking for its loop's label although renamer, loop and header are present (path "+core.FmtPath(wit)+"): recurrences of the loops so exempted collide with each other")
		}
	}
	r.Floor("C03.LEAF", "add-recurrence renderer", nAR, 1)
	nLR := 0
	for _, fn := range p.FuncsIn("pkg/analysis/ir") {
		core.InstrsOf(fn, func(in ssa.Instruction) {
			ta, ok := in.(*ssa.TypeAssert)
			if !ok || !strings.HasSuffix(ta.AssertedType.String(), "loop.LoopRef") {
				return
			}
			nLR++
			// the label is the canonical name of the loop's header block
			labelled := false
			core.InstrsOf(fn, func(in2 ssa.Instruction) {
				if lk, ok := in2.(*ssa.Lookup); ok && isBlockStringMap(lk.X.Type()) && strings.Contains(core.Canon(lk.Index), ".Header") {
					labelled = true
				}
			})
			r.Check(labelled, "C03.LEAF", core.FuncName(fn)+"#loop-label", ta.Pos(), "a loop is labelled by the canonical name of its header block", "the loop label handed to add-recurrences is not the canonical header block name")
		})
	}
	r.Floor("C03.LEAF", "loop labelling in the canonicaliser's renamer", nLR, 1)

	// free variables typed in the signature line
	nSig := 0
	for _, fn := range p.FuncsIn("pkg/analysis/ir") {
		readsParams, readsFV, fvTyped := false, false, false
		core.InstrsOf(fn, func(in ssa.Instruction) {
			if _, ok := core.FieldLoad(valueOf(in), "Params"); ok {
				readsParams = true
			}
			if _, ok := core.FieldLoad(valueOf(in), "FreeVars"); ok {
				readsFV = true
			}
			if core.IsCallTo(in, "(*"+ssaPkgPath+".FreeVar).Type") {
				fvTyped = true
			}
			// ... or the captured variable is handed to a helper that renders its Type()
			if c := core.CallOf(in); c != nil {
				if g := core.StaticCallee(c); g != nil && p.IsProdFunc(g) && g.Blocks != nil {
					for i, a := range c.Args {
						if i >= len(g.Params) || !strings.HasSuffix(core.Unwrap(a).Type().String(), "ssa.FreeVar") {
							continue
						}
						pa := g.Params[i]
						core.InstrsOf(g, func(in2 ssa.Instruction) {
							if c2 := core.CallOf(in2); c2 != nil && c2.IsInvoke() && c2.Value == ssa.Value(pa) && c2.Method.Name() == "Type" {
								fvTyped = true
							}
						})
					}
				}
			}
		})
		writesSig := false
		core.InstrsOf(fn, func(in ssa.Instruction) {
			if c := core.CallOf(in); c != nil && strings.HasSuffix(core.CalleeName(c), "strings.Builder).WriteString") {
				if s, ok := core.ConstString(c.Args[1]); ok && s == "func(" {
					writesSig = true
				}
			}
		})
		if !writesSig || !readsParams {
			continue
		}
		nSig++
		r.Check(readsFV && fvTyped, "C03.LEAF", core.FuncName(fn)+"#free-variable-types", fn.Pos(), "the signature line lists the types of captured variables", "captured variables' types are missing from the signature line: a closure over int8 and one over int16 collide")
	}
	r.Floor("C03.LEAF", "signature-line writer", nSig, 1)
}

// identifiesPackage reports whether v is (derived from) fn.String()/RelString/Pkg of a function.
func identifiesPackage(p *core.Program, v ssa.Value, d int) bool {
	if d > 3 {
		return false
	}
	c, ok := v.(*ssa.Call)
	if !ok {
		return false
	}
	name := core.CalleeName(&c.Call)
	if name == "(*"+ssaPkgPath+".Function).String" || name == "(*"+ssaPkgPath+".Function).RelString" {
		return true
	}
	if callee := core.StaticCallee(&c.Call); callee != nil && p.IsProdFunc(callee) {
		found := false
		for _, ret := range core.Returns(callee) {
			for _, o := range core.Origins(ret.Results[0]) {
				if identifiesPackage(p, o, d+1) {
					found = true
				}
			}
		}
		return found
	}
	return false
}

func c03Perm(r *core.Run) {
	p := r.P
	n := 0
	for _, fn := range p.FuncsIn("pkg/analysis/ir") {
		// sorts a slice built while ranging over a field of an instruction (States)
		var sortCall *ssa.Call
		core.InstrsOf(fn, func(in ssa.Instruction) {
			if c, ok := in.(*ssa.Call); ok {
				switch core.CalleeName(&c.Call) {
				case "sort.Slice", "sort.SliceStable", "sort.Stable", "sort.Sort":
					sortCall = c
				}
			}
		})
		if sortCall == nil {
			continue
		}
		rangesStates := false
		core.InstrsOf(fn, func(in ssa.Instruction) {
			if _, ok := core.FieldLoad(valueOf(in), "States"); ok {
				rangesStates = true
			}
		})
		if !rangesStates {
			continue
		}
		n++
		// element type: local struct; is there an index field and is it observed by the output?
		sl, _ := core.Unwrap(sortCall.Call.Args[0]).Type().Underlying().(*types.Slice)
		var st *types.Struct
		if sl != nil {
			st, _ = sl.Elem().Underlying().(*types.Struct)
		}
		idxFields := map[string]bool{}
		if st != nil {
			for i := 0; i < st.NumFields(); i++ {
				if b, ok := st.Field(i).Type().Underlying().(*types.Basic); ok && b.Kind() == types.Int {
					idxFields[st.Field(i).Name()] = true
				}
			}
		}
		read := false
		for _, f := range core.Nest(fn) {
			core.InstrsOf(f, func(in ssa.Instruction) {
				for name := range idxFields {
					if _, ok := core.FieldLoad(valueOf(in), name); ok {
						read = true
					}
					if fl, ok := in.(*ssa.Field); ok && core.FieldName(fl.X.Type(), fl.Field) == name {
						read = true
					}
				}
			})
		}
		r.Check(read, "C03.PERM", core.FuncName(fn)+"#sort(States)", sortCall.Pos(), "the sorted cases keep their original index observable", "select cases are sorted for rendering but their original indices are never rendered while Extract/compare instructions still use source indices: exchanging the channels of two cases leaves the IR unchanged")
	}
	r.Floor("C03.PERM", "clauses that sort a sequence of the instruction", n, 1)
	c03PermCensus(r)
}

// c03PermCensus: the position of an operand inside its instruction is part of the instruction's meaning (call
// arguments, captured variables, struct fields ...). The canonicaliser may reorder a sequence that derives from an
// operand list of an SSA construct only for the lists in the reviewed table below: phi edges (each rendered with
// the label of its predecessor, which is its identity), select states (decided by the rule above), and block lists
// (traversal order, decided by C02/C04).
var permAllowedLists = map[string]string{
	"ssa.Phi.Edges":         "each edge is rendered together with its predecessor's label",
	"ssa.BasicBlock.Preds":  "predecessor labels identify phi edges",
	"ssa.BasicBlock.Succs":  "traversal order of blocks (C02.SWAP / C04.SUCC decide it)",
	"ssa.Select.States":     "decided by the select rule above",
	"ssa.Function.Blocks":   "traversal order of blocks",
	"ssa.BasicBlock.Instrs": "",
}

func c03PermCensus(r *core.Run) {
	p := r.P
	r.Explain += " (PERM, census) a sequence derived from an operand list of an SSA construct is reordered only for the reviewed lists (phi edges with their labels, select states, block lists)."
	sortNames := map[string]bool{"sort.Strings": true, "sort.Ints": true, "sort.Slice": true, "sort.SliceStable": true, "sort.Sort": true, "sort.Stable": true,
		"slices.Sort": true, "slices.SortFunc": true, "slices.SortStableFunc": true, "slices.Reverse": true}
	n := 0
	for _, fn := range p.FuncsIn("pkg/analysis/ir") {
		core.InstrsOf(fn, func(in ssa.Instruction) {
			c, ok := in.(*ssa.Call)
			if !ok || !sortNames[core.CalleeName(&c.Call)] || len(c.Call.Args) == 0 {
				return
			}
			n++
			lists := operandListsBehind(c.Call.Args[0])
			var bad []string
			for _, l := range lists {
				if why, ok := permAllowedLists[l]; !ok || why == "" {
					bad = append(bad, l)
				}
			}
			sortStrings(bad)
			sortStrings(lists)
			for _, b := range bad {
				r.Fail("C03.PERM", core.FuncName(fn)+"#reorders("+b+")", c.Pos(), "a sequence derived from "+b+" is reordered before it is rendered: the position of an operand is part of the instruction's meaning, so two instructions that differ in which operand is which render alike")
			}
			if len(bad) == 0 {
				r.OK("C03.PERM", core.FuncName(fn)+"#reorders("+strings.Join(lists, ",")+")", c.Pos(), "reorders only sequences of the reviewed table")
			}
		})
	}
	r.Floor("C03.PERM", "sort calls in the canonicaliser", n, 5)
}

// operandListsBehind walks backwards from a slice value through the values stored into it and returns the operand
// lists (Type.Field of a go/ssa construct, or "param []ssa.Value") its elements derive from.
func operandListsBehind(v ssa.Value) []string {
	seen := map[ssa.Value]bool{}
	found := map[string]bool{}
	var walk func(v ssa.Value, d int)
	storesInto := func(base ssa.Value, d int) {
		refs := base.Referrers()
		if refs == nil {
			return
		}
		for _, ref := range *refs {
			switch x := ref.(type) {
			case *ssa.IndexAddr:
				for _, st := range core.StoresTo(x) {
					walk(st.Val, d+1)
				}
			case *ssa.FieldAddr:
				for _, st := range core.StoresTo(x) {
					walk(st.Val, d+1)
				}
			case *ssa.Store:
				if x.Addr == base {
					walk(x.Val, d+1)
				}
			case *ssa.Slice:
				if x.X == base && !seen[x] {
					// a reslice of the same backing array (make + append pattern)
					seen[x] = true
				}
			}
		}
	}
	walk = func(v ssa.Value, d int) {
		if v == nil || seen[v] || len(seen) > 600 || d > 40 {
			return
		}
		seen[v] = true
		if prm, ok := v.(*ssa.Parameter); ok {
			if sl, isSl := prm.Type().Underlying().(*types.Slice); isSl && strings.Contains(sl.Elem().String(), ssaPkgPath) && !strings.HasSuffix(sl.Elem().String(), "ssa.BasicBlock") {
				found["param []"+core.TypeName(sl.Elem())] = true
			}
			return
		}
		// a load of a slice-typed field of a go/ssa construct
		if u, ok := v.(*ssa.UnOp); ok && u.Op == token.MUL {
			if fa, isFA := u.X.(*ssa.FieldAddr); isFA {
				if _, isSl := u.Type().Underlying().(*types.Slice); isSl && strings.Contains(core.Deref(fa.X.Type()).String(), ssaPkgPath) {
					found[core.TypeName(core.Deref(fa.X.Type()))+"."+core.FieldName(fa.X.Type(), fa.Field)] = true
					return
				}
			}
		}
		if c, ok := v.(*ssa.Call); ok && strings.Contains(core.CalleeName(&c.Call), ").Operands") {
			found["Instruction.Operands"] = true
			return
		}
		switch x := v.(type) {
		case *ssa.Alloc:
			storesInto(x, d)
			return
		case *ssa.MakeSlice:
			storesInto(x, d)
			return
		case *ssa.UnOp:
			if x.Op == token.MUL {
				if a, ok := x.X.(*ssa.Alloc); ok {
					for _, st := range core.StoresTo(a) {
						walk(st.Val, d+1)
					}
					storesInto(a, d)
					return
				}
				if fa, ok := x.X.(*ssa.FieldAddr); ok {
					// a field of a local struct: what was stored into that field
					if a, ok := fa.X.(*ssa.Alloc); ok {
						if refs := a.Referrers(); refs != nil {
							for _, ref := range *refs {
								if fa2, ok := ref.(*ssa.FieldAddr); ok && fa2.Field == fa.Field {
									for _, st := range core.StoresTo(fa2) {
										walk(st.Val, d+1)
									}
								}
							}
						}
						return
					}
				}
			}
		case *ssa.Slice:
			walk(x.X, d+1)
			return
		}
		if in, ok := v.(ssa.Instruction); ok {
			for _, op := range in.Operands(nil) {
				if op != nil && *op != nil {
					walk(*op, d+1)
				}
			}
		}
	}
	walk(v, 0)
	var out []string
	for l := range found {
		out = append(out, l)
	}
	return out
}

// ---- GATE: branch swap

func c03GateSwap(r *core.Run, rule string) {
	p := r.P
	n := 0
	for _, fn := range p.FuncsIn("pkg/diff") {
		var upd *ssa.MapUpdate
		core.InstrsOf(fn, func(in ssa.Instruction) {
			if mu, ok := in.(*ssa.MapUpdate); ok {
				if isBinOpTokenMap(mu.Map.Type()) { // a field or a local: only the shape counts
					upd = mu
				}
			}
		})
		if upd == nil {
			continue
		}
		n++
		fnm := core.FuncName(fn)
		sb := upd.Block()
		// (a) operand types integer|string: both calls of the type predicate are true
		var predCalls []*ssa.Call
		core.InstrsOf(fn, func(in ssa.Instruction) {
			if c, ok := in.(*ssa.Call); ok {
				if callee := core.StaticCallee(&c.Call); callee != nil {
					// the type predicate: a closure of this function, or a named function of the package from a
					// go/types.Type to bool
					named := false
					if p.IsProdFunc(callee) && callee.Parent() == nil && len(callee.Params) == 1 && strings.HasSuffix(callee.Params[0].Type().String(), "go/types.Type") {
						if crt := resultTypes(callee); len(crt) == 1 && crt[0].String() == "bool" {
							named = true
						}
					}
					if callee.Parent() == fn || named {
						predCalls = append(predCalls, c)
					}
				}
			}
		})
		nTrue := 0
		for _, pc := range predCalls {
			pv := ssa.Value(pc)
			ok1, n1, _ := core.MustPass(fn, sb, core.BoolGuard(func(x ssa.Value) bool { return x == pv }, true))
			if ok1 && n1 > 0 {
				nTrue++
			}
			// predicate body: Info() & (IsInteger|IsString) != 0
			callee := core.StaticCallee(&pc.Call)
			mask := int64(-1)
			core.InstrsOf(callee, func(in ssa.Instruction) {
				if b, ok := in.(*ssa.BinOp); ok && b.Op == token.AND {
					if _, isInfo := callTo(b.X, "(*go/types.Basic).Info"); isInfo {
						mask, _ = core.ConstInt(b.Y)
					}
				}
			})
			r.Check(mask == int64(types.IsInteger|types.IsString), rule, fnm+"#operand-type-mask", pc.Pos(), "swap only for integer or string operands", fmt.Sprintf("the swap's operand type mask is %d, not IsInteger|IsString: NaN-sensitive float comparisons (or others) would be swapped", mask))
			if strings.HasPrefix(rule, "C02") {
				all, bad := structuralAsserts(callee, "types.Basic")
				r.Check(len(all) > 0 && len(bad) == 0, rule, fnm+"#operand-type-through-Underlying", pc.Pos(), "the operand type test looks through defined types (Underlying)", "the operand type test is applied to the declared type, not its Underlying(): comparisons of defined integer/string types (type Idx int) are never swapped, so the >=/> rewrite changes their fingerprint")
			}
		}
		r.Check(nTrue >= 2, rule, fnm+"#both-operand-types-checked", upd.Pos(), "both operand types pass the type predicate", "the swap does not require both operand types to be integer/string")
		// (b) sole referrer: every referrer other than DebugRef must be this If
		okRef := false
		why := "no referrer test found"
		for _, b := range fn.Blocks {
			if len(b.Instrs) == 0 {
				continue
			}
			ifi, ok := b.Instrs[len(b.Instrs)-1].(*ssa.If)
			if !ok {
				continue
			}
			op, x, _, neg, ok := core.Compare(ifi.Cond)
			if !ok || neg || op != token.NEQ {
				continue
			}
			u, isLoad := x.(*ssa.UnOp)
			if !isLoad {
				continue
			}
			if _, isIA := u.X.(*ssa.IndexAddr); !isIA || !strings.HasSuffix(u.Type().String(), "ssa.Instruction") {
				continue
			}
			// reject edge cannot reach the update; the loop may be bypassed only when there are no referrers
			// (a `continue outer` is a back edge itself: it ends this block's turn without reaching the update)
			if !backEdges(fn)[core.Edge{From: b, Idx: 0}] && core.ReachAvoiding(b.Succs[0], backEdges(fn))[sb] {
				why = "a referrer other than the If does not prevent the swap"
				continue
			}
			h := core.LoopHeaderOf(b)
			if h == nil {
				why = "referrer test is not in a loop"
				continue
			}
			cut := map[core.Edge]bool{}
			for _, pr := range h.Preds {
				for i, s := range pr.Succs {
					if s == h {
						cut[core.Edge{From: pr, Idx: i}] = true
					}
				}
			}
			// bypass allowed through `refs == nil`
			for _, bb := range fn.Blocks {
				if len(bb.Instrs) == 0 {
					continue
				}
				if i2, ok := bb.Instrs[len(bb.Instrs)-1].(*ssa.If); ok {
					if xv, nonNilOnTrue, ok := core.NilCompare(i2.Cond); ok {
						if _, isRef := callTo(xv, "(*"+ssaPkgPath+".BinOp).Referrers", "(*"+ssaPkgPath+".register).Referrers"); isRef || strings.Contains(core.Canon(xv), "Referrers(") {
							idx := 0
							if nonNilOnTrue {
								idx = 1
							}
							cut[core.Edge{From: bb, Idx: idx}] = true
						}
					}
				}
			}
			if core.PathAvoiding(fn.Blocks[0], sb, cut) == nil {
				okRef = true
			} else {
				why = "the referrer check can be bypassed"
			}
		}
		r.Check(okRef, rule, fnm+"#sole-referrer", upd.Pos(), "swap only if every non-debug referrer of the comparison is this If", "the comparison's other users are not checked before the operator is rewritten ("+why+"): a stored or returned comparison result would be inverted")
		// (c) two successors
		ok3, n3, _ := core.MustPass(fn, sb, func(cond ssa.Value) (bool, bool) {
			op, x, y, neg, ok := core.Compare(cond)
			if !ok || neg {
				return false, false
			}
			ln, isLen := isBuiltinCall(x, "len")
			if !isLen {
				return false, false
			}
			if _, isS := core.FieldLoad(ln.Call.Args[0], "Succs"); !isS {
				return false, false
			}
			k, _ := core.ConstInt(y)
			return k == 2, op == token.EQL
		})
		r.Check(ok3 && n3 > 0, rule, fnm+"#two-successors", upd.Pos(), "swap only for blocks with exactly two successors", "the swap is recorded for blocks without exactly two successors")
		// (d) rewrite table
		table := map[string]string{}
		if ph, ok := upd.Value.(*ssa.Phi); ok {
			for i, e := range ph.Edges {
				k, isC := core.ConstInt(e)
				if !isC {
					continue
				}
				gate, _ := tokensGating(fn, ph.Block().Preds[i], "Op")
				for _, g := range gate {
					table[g.String()] = token.Token(k).String()
				}
			}
		} else if k, isC := core.ConstInt(upd.Value); isC {
			gate, _ := tokensGating(fn, sb, "Op")
			for _, g := range gate {
				table[g.String()] = token.Token(k).String()
			}
		}
		var ts []string
		for k, v := range table {
			ts = append(ts, k+"→"+v)
		}
		sort.Strings(ts)
		got := strings.Join(ts, ",")
		r.Check(got == ">=→<,>→<=", rule, fnm+"#rewrite-table", upd.Pos(), "operator rewrite table is {>=→<, >→<=}", "operator rewrite table is {"+got+"}: the swapped form is not the negation of the original comparison")
		// the update itself is gated by exactly GEQ/GTR
		gate, ungated := tokensGating(fn, sb, "Op")
		r.Check(!ungated && tokNames(gate) == ">,>=", rule, fnm+"#swap-operators", upd.Pos(), "swap only for > and >=", "swap is recorded for operators {"+tokNames(gate)+"}")
		// swap state set together (C02.SWAP)
		both := false
		for _, in := range sb.Instrs {
			if mu, ok := in.(*ssa.MapUpdate); ok {
				if isBlockBoolMap(mu.Map.Type()) {
					both = true
				}
			}
		}
		r.Check(both, rule, fnm+"#operator-and-branches-together", upd.Pos(), "operator rewrite and branch exchange are recorded together", "the operator is rewritten without exchanging the branches (or vice versa)")
	}
	r.Floor(rule, "branch-swap computation (writes the map[*ssa.BinOp]token.Token of operator rewrites)", n, 1)
}

// ---- GATE: commutativity

func c03GateComm(r *core.Run, rule string) {
	p := r.P
	allowed := map[token.Token]bool{token.ADD: true, token.MUL: true, token.EQL: true, token.NEQ: true, token.AND: true, token.OR: true, token.XOR: true}
	numericOnly := map[token.Token]bool{token.ADD: true}
	n := 0
	numericGuard := func(cond ssa.Value) (bool, bool) {
		b, nonZeroOnTrue, ok := maskTest(cond)
		if !ok {
			return false, false
		}
		k, _ := core.ConstInt(b.Y)
		num := int64(types.IsInteger | types.IsFloat | types.IsComplex)
		return k != 0 && k&^num == 0, nonZeroOnTrue
	}
	// predicate in the renderer: func(*ssa.BinOp) bool
	for _, fn := range p.FuncsIn("pkg/analysis/ir") {
		rt := resultTypes(fn)
		if len(rt) != 1 || rt[0].String() != "bool" || len(fn.Params) != 1 || !strings.HasSuffix(fn.Params[0].Type().String(), "ssa.BinOp") {
			continue
		}
		n++
		fnm := core.FuncName(fn)
		for _, ret := range core.Returns(fn) {
			c, ok := ret.Results[0].(*ssa.Const)
			if !ok || c.Value == nil || c.Value.String() != "true" {
				continue
			}
			gate, ungated := tokensGating(fn, ret.Block(), "Op")
			bad := ungated
			for _, g := range gate {
				if !allowed[g] {
					bad = true
				}
			}
			r.Check(!bad, rule, fnm+"#commutative-operators("+tokNames(gate)+")", ret.Pos(), "operand reordering only for commutative operators", "operands are reordered for operators {"+tokNames(gate)+"}: a non-commutative operation (a-b vs b-a) gets one canonical form")
			for _, g := range gate {
				if numericOnly[g] {
					ok1, n1, _ := core.MustPass(fn, ret.Block(), numericGuard)
					r.Check(ok1 && n1 > 0, rule, fnm+"#"+g.String()+"-numeric-only", ret.Pos(), g.String()+" is commutative only for numeric operands", g.String()+" is treated as commutative without the numeric-type test: string concatenation a+b and b+a collide")
				}
			}
		}
	}
	// the zipper: the exchanged comparison is attempted only under the same table
	for _, fn := range p.FuncsIn("pkg/diff") {
		core.InstrsOf(fn, func(in ssa.Instruction) {
			c, ok := in.(*ssa.Call)
			if !ok {
				return
			}
			callee := core.StaticCallee(&c.Call)
			if callee == nil || callee.Parent() != nil || !p.IsProdFunc(callee) || len(c.Call.Args) != 5 {
				return
			}
			// exchanged: args (a0,a1,b1,b0)
			a := c.Call.Args
			if !(strings.Contains(core.Canon(a[3]), "[1]") && strings.Contains(core.Canon(a[4]), "[0]")) {
				return
			}
			n++
			fnm := core.FuncName(fn)
			// the boolean that permits the exchanged attempt: a value v with "v is true" on every path to the call.
			// It is a phi of constants (computed inline) or the result of a predicate helper; in both cases the
			// places where it becomes true are examined in the function that computes it.
			type src struct {
				f   *ssa.Function
				blk *ssa.BasicBlock
			}
			var srcs []src
			unknown := ""
			var collect func(f *ssa.Function, v ssa.Value, at *ssa.BasicBlock, d int)
			collect = func(f *ssa.Function, v ssa.Value, at *ssa.BasicBlock, d int) {
				if d > 6 {
					unknown = "permission too deeply nested"
					return
				}
				switch x := v.(type) {
				case *ssa.Const:
					if x.Value != nil && x.Value.String() == "true" {
						srcs = append(srcs, src{f, at})
					}
				case *ssa.Phi:
					for i, e := range x.Edges {
						collect(f, e, x.Block().Preds[i], d+1)
					}
				case *ssa.Call:
					g := core.StaticCallee(&x.Call)
					if g == nil || !p.IsProdFunc(g) || g.Blocks == nil {
						unknown = "permission computed by " + core.Canon(x)
						return
					}
					for _, ret := range core.Returns(g) {
						collect(g, ret.Results[0], ret.Block(), d+1)
					}
				default:
					unknown = "permission computed from " + core.Canon(v)
				}
			}
			found := false
			for _, b := range fn.Blocks {
				if len(b.Instrs) == 0 {
					continue
				}
				ifi, ok := b.Instrs[len(b.Instrs)-1].(*ssa.If)
				if !ok {
					continue
				}
				base, neg := core.StripNot(ifi.Cond)
				if neg {
					continue
				}
				switch base.(type) {
				case *ssa.Phi, *ssa.Call:
				default:
					continue
				}
				if bt, isB := base.Type().Underlying().(*types.Basic); !isB || bt.Kind() != types.Bool {
					continue
				}
				ok1, n1, _ := core.MustPass(fn, c.Block(), core.BoolGuard(func(x ssa.Value) bool { return x == base }, true))
				if ok1 && n1 > 0 {
					found = true
					collect(fn, base, b, 0)
				}
			}
			if !found {
				gate, ungated := tokensGating(fn, c.Block(), "Op")
				bad := ungated
				for _, g := range gate {
					if !allowed[g] {
						bad = true
					}
				}
				r.Check(!bad, rule, fnm+"#exchanged-match("+tokNames(gate)+")", c.Pos(), "operands are matched crosswise only for commutative operators", "operands are matched crosswise for operators {"+tokNames(gate)+"}")
				return
			}
			if unknown != "" {
				r.Fail(rule, fnm+"#exchanged-match", c.Pos(), "cannot follow how the crosswise match is permitted: "+unknown)
				return
			}
			r.Check(len(srcs) > 0, rule, fnm+"#exchanged-match/permission-sources", c.Pos(), "the permission for the crosswise match is set to true somewhere", "the crosswise match is never permitted (dead) or its permission is not a constant")
			for _, sc := range srcs {
				gate, ungated := tokensGating(sc.f, sc.blk, "Op")
				bad := ungated
				arith := false
				for _, g := range gate {
					if !allowed[g] {
						bad = true
					}
					if g != token.EQL && g != token.NEQ {
						arith = true
					}
				}
				r.Check(!bad, rule, fnm+"#exchanged-match("+tokNames(gate)+")", c.Pos(), "operands are matched crosswise only for commutative operators", "operands are matched crosswise for operators {"+tokNames(gate)+"} (permission set in "+core.FuncName(sc.f)+")")
				if arith {
					ok1, n1, _ := core.MustPass(sc.f, sc.blk, numericGuard)
					r.Check(ok1 && n1 > 0, rule, fnm+"#arith-exchange-numeric-only("+tokNames(gate)+")", c.Pos(), "crosswise matching of arithmetic operands only for numeric types", "crosswise matching of "+tokNames(gate)+" operands without the numeric-type test: string a+b matches b+a (permission set in "+core.FuncName(sc.f)+")")
				}
			}
		})
	}
	r.Floor(rule, "commutativity decisions (renderer predicate + zipper exchange)", n, 2)
}

// ---- GATE: hoisting

func c03GateHoist(r *core.Run) {
	p := r.P
	rule := "C03.GATE.hoist"
	pure := map[string]bool{"len": true, "cap": true, "complex": true, "real": true, "imag": true, "min": true, "max": true}
	n := 0
	for _, fn := range p.FuncsIn("pkg/analysis/ir") {
		var upd *ssa.MapUpdate
		core.InstrsOf(fn, func(in ssa.Instruction) {
			if mu, ok := in.(*ssa.MapUpdate); ok {
				// the hoist mark: an instruction-set entry made for a *call*
				if isInstrBoolMap(mu.Map.Type()) && strings.HasSuffix(core.Unwrap(mu.Key).Type().String(), "ssa.Call") {
					upd = mu
				}
			}
		})
		if upd == nil {
			continue
		}
		n++
		fnm := core.FuncName(fn)
		var purePred *ssa.Function
		nGuards := 0
		core.InstrsOf(fn, func(in ssa.Instruction) {
			c, ok := in.(*ssa.Call)
			if !ok {
				return
			}
			callee := core.StaticCallee(&c.Call)
			if callee == nil || !p.IsProdFunc(callee) {
				return
			}
			rt := resultTypes(callee)
			if len(rt) != 1 || rt[0].String() != "bool" {
				return
			}
			cv := ssa.Value(c)
			ok1, n1, _ := core.MustPass(fn, upd.Block(), core.BoolGuard(func(x ssa.Value) bool { return x == cv }, true))
			if ok1 && n1 > 0 {
				nGuards++
				if len(c.Call.Args) == 2 {
					purePred = callee
				}
			}
		})
		r.Check(nGuards >= 2, rule, fnm+"#pure-and-invariant", upd.Pos(), "a call is hoisted only if it is a pure builtin and its arguments are loop-invariant", "a call is marked hoisted without both the purity and the argument-invariance test")
		ok2, n2, _ := mustPassLifted(p, fn, upd.Block(), func(cond ssa.Value) (bool, bool) {
			op, x, y, neg, ok := core.Compare(cond)
			if !ok || neg {
				return false, false
			}
			if _, isLen := isBuiltinCall(x, "len"); !isLen {
				return false, false
			}
			k, _ := core.ConstInt(y)
			return k == 1, op == token.EQL
		})
		r.Check(ok2 && n2 > 0, rule, fnm+"#unique-preheader", upd.Pos(), "hoisting only into a unique pre-header", "hoisting is performed without a unique pre-header")
		if purePred == nil {
			r.Fail(rule, fnm+"#purity-predicate", upd.Pos(), "cannot resolve the purity predicate")
			continue
		}
		pn := core.FuncName(purePred)
		for _, ret := range core.Returns(purePred) {
			c, ok := ret.Results[0].(*ssa.Const)
			if !ok || c.Value == nil || c.Value.String() != "true" {
				continue
			}
			// names gating `return true`
			var names []string
			type eq struct {
				ifi *ssa.If
				s   string
			}
			var eqs []eq
			for _, b := range purePred.Blocks {
				if len(b.Instrs) == 0 {
					continue
				}
				ifi, ok := b.Instrs[len(b.Instrs)-1].(*ssa.If)
				if !ok {
					continue
				}
				op, x, y, neg, ok := core.Compare(ifi.Cond)
				if !ok || neg || op != token.EQL {
					continue
				}
				if _, isName := callTo(x, "(*"+ssaPkgPath+".Builtin).Name"); !isName {
					continue
				}
				if s, isC := core.ConstString(y); isC {
					eqs = append(eqs, eq{ifi, s})
				}
			}
			all := map[core.Edge]bool{}
			for _, e := range eqs {
				all[core.Edge{From: e.ifi.Block(), Idx: 0}] = true
			}
			// the last disjunct of `a || b || c` is not a branch: it arrives as a phi operand
			type phiEq struct {
				blk, pred *ssa.BasicBlock
				s         string
				idx       int
			}
			var phiEqs []phiEq
			for _, b := range purePred.Blocks {
				if len(b.Instrs) == 0 {
					continue
				}
				ifi, ok := b.Instrs[len(b.Instrs)-1].(*ssa.If)
				if !ok {
					continue
				}
				base, neg := core.StripNot(ifi.Cond)
				ph, ok := base.(*ssa.Phi)
				if !ok || ph.Block() != b {
					continue
				}
				for i, e := range ph.Edges {
					op, x, y, n2, ok := core.Compare(e)
					if !ok || n2 || op != token.EQL {
						continue
					}
					if _, isName := callTo(x, "(*"+ssaPkgPath+".Builtin).Name"); !isName {
						continue
					}
					if sv, isC := core.ConstString(y); isC {
						idx := 0
						if neg {
							idx = 1
						}
						phiEqs = append(phiEqs, phiEq{b, b.Preds[i], sv, idx})
						for k, sc := range b.Preds[i].Succs {
							if sc == b {
								all[core.Edge{From: b.Preds[i], Idx: k}] = true
							}
						}
					}
				}
			}
			ungated := core.PathAvoiding(purePred.Blocks[0], ret.Block(), all) != nil
			seen := map[string]bool{}
			for _, e := range eqs {
				cut := map[core.Edge]bool{}
				for _, o := range eqs {
					if o.ifi != e.ifi {
						cut[core.Edge{From: o.ifi.Block(), Idx: 0}] = true
					}
				}
				if core.PathAvoiding(e.ifi.Block().Succs[0], ret.Block(), cut) != nil && !seen[e.s] {
					seen[e.s] = true
					names = append(names, e.s)
				}
			}
			for _, pe := range phiEqs {
				if core.PathAvoiding(pe.blk.Succs[pe.idx], ret.Block(), nil) != nil && !seen[pe.s] {
					seen[pe.s] = true
					names = append(names, pe.s)
				}
			}
			sort.Strings(names)
			bad := ungated
			for _, s := range names {
				if !pure[s] {
					bad = true
				}
			}
			r.Check(!bad, rule, pn+"#pure-builtins("+strings.Join(names, ",")+")", ret.Pos(), "only side-effect-free builtins are considered pure", "builtins {"+strings.Join(names, ",")+"} are considered pure (allowed: len cap complex real imag min max)")
			// len/cap of maps and channels excluded: from the len/cap branch, return true needs both type tests to fail
			for _, e := range eqs {
				if e.s != "len" && e.s != "cap" {
					continue
				}
				// only the second occurrence (the volatile-length check) matters: it must exist
			}
			nType := 0
			for _, tsuf := range []string{"types.Map", "types.Chan"} {
				suf := tsuf
				// an assert to this type whose success edge cannot reach `return true`
				core.InstrsOf(purePred, func(in ssa.Instruction) {
					ta, ok := in.(*ssa.TypeAssert)
					if !ok || !strings.HasSuffix(ta.AssertedType.String(), suf) || !ta.CommaOk {
						return
					}
					if refs := ta.Referrers(); refs != nil {
						for _, ref := range *refs {
							ex, ok := ref.(*ssa.Extract)
							if !ok || ex.Index != 1 || ex.Referrers() == nil {
								continue
							}
							for _, r2 := range *ex.Referrers() {
								if ifi, ok := r2.(*ssa.If); ok && !core.ReachAvoiding(ifi.Block().Succs[0], nil)[ret.Block()] {
									// and the test is under name == len || cap
									g, _ := func() ([]string, bool) {
										var gs []string
										for _, e := range eqs {
											if core.ReachAvoiding(e.ifi.Block().Succs[0], nil)[ifi.Block()] {
												gs = append(gs, e.s)
											}
										}
										return gs, true
									}()
									hasLen, hasCap := false, false
									for _, s := range g {
										if s == "len" {
											hasLen = true
										}
										if s == "cap" {
											hasCap = true
										}
									}
									if hasLen && hasCap {
										nType++
									}
								}
							}
						}
					}
				})
			}
			allTA, badTA := structuralAsserts(purePred, "types.Map", "types.Chan")
			r.Check(len(allTA) >= 2 && len(badTA) == 0, rule, pn+"#volatile-length-through-Underlying", ret.Pos(), "the map/channel test looks through defined types (Underlying)", "the map/channel test is applied to the declared type, not its Underlying(): len/cap of a defined map or channel type (type Set map[K]V) counts as pure and is hoisted out of a loop that changes it")
			r.Check(nType >= 2, rule, pn+"#volatile-length-excluded", ret.Pos(), "len/cap of maps and channels are not pure", "len/cap of a map or channel is considered pure: it would be hoisted out of a loop that changes it")
		}
	}
	r.Floor(rule, "hoisting decision (writes a map[ssa.Instruction]bool mark)", n, 1)
}

// renamerAskedOnEveryPath: fn (a StringWithRenamer method) calls its renamer parameter with a value of type
// refType on every path to a return; the only excuses are a nil renamer and the nil tests accepted by excuse.
func renamerAskedOnEveryPath(fn *ssa.Function, refType string, excuse func(ssa.Value) bool) (askBlocks []*ssa.BasicBlock, wit []int) {
	core.InstrsOf(fn, func(in ssa.Instruction) {
		if c, ok := in.(*ssa.Call); ok && !c.Call.IsInvoke() && core.StaticCallee(&c.Call) == nil && len(c.Call.Args) == 1 {
			if _, isParam := c.Call.Value.(*ssa.Parameter); isParam && strings.HasSuffix(core.Unwrap(c.Call.Args[0]).Type().String(), refType) {
				askBlocks = append(askBlocks, c.Block())
			}
		}
	})
	exc := func(x ssa.Value) bool {
		x = core.Unwrap(x)
		if prm, ok := x.(*ssa.Parameter); ok {
			_, isFn := prm.Type().Underlying().(*types.Signature)
			return isFn
		}
		return excuse != nil && excuse(x)
	}
	cut, _ := core.GuardEdges(fn, core.NilGuard(exc))
	for _, ab := range askBlocks {
		for _, pb := range ab.Preds {
			for i, sb := range pb.Succs {
				if sb == ab {
					cut[core.Edge{From: pb, Idx: i}] = true
				}
			}
		}
	}
	for _, ret := range core.Returns(fn) {
		if len(askBlocks) > 0 && ret.Block() == askBlocks[0] {
			continue
		}
		if pth := core.PathAvoiding(fn.Blocks[0], ret.Block(), cut); pth != nil {
			return askBlocks, pth
		}
	}
	return askBlocks, nil
}

// c03Referent: the text that stands for a referenced function depends on WHICH function is referenced: every
// string a naming helper (string from a *ssa.Function argument) returns is computed from that argument. A branch
// that names the subject instead renders all references into the own nest alike (f(a)-g(b) and g(a)-f(b) collide).
func c03Referent(r *core.Run) {
	p := r.P
	n := 0
	for _, fn := range p.FuncsIn("pkg/analysis/ir") {
		rt := resultTypes(fn)
		if len(rt) != 1 || rt[0].String() != "string" || fn.Parent() != nil || ast.IsExported(fn.Name()) {
			continue
		}
		var ref *ssa.Parameter
		np := 0
		for i, pa := range fn.Params {
			if i == 0 && fn.Signature.Recv() != nil {
				continue
			}
			np++
			if isSSAFunctionPtr(pa.Type()) {
				ref = pa
			}
		}
		if ref == nil || np != 1 {
			continue
		}
		for _, ret := range core.Returns(fn) {
			n++
			seen := map[ssa.Value]bool{}
			var dep func(v ssa.Value, d int) bool
			dep = func(v ssa.Value, d int) bool {
				if v == nil || seen[v] || d > 14 {
					return false
				}
				seen[v] = true
				if v == ssa.Value(ref) {
					return true
				}
				if in, ok := v.(ssa.Instruction); ok {
					for _, op := range in.Operands(nil) {
						if op != nil && *op != nil && dep(*op, d+1) {
							return true
						}
					}
				}
				return false
			}
			r.Check(dep(ret.Results[0], 0), "C03.LEAF", core.FuncName(fn)+"#name-depends-on-the-referenced-function", ret.Pos(), "the returned name is computed from the referenced function", "a name returned for a referenced function is not computed from that function ("+core.Canon(ret.Results[0])+"): all references it is used for render alike, so two functions that call different closures / nest members share a fingerprint")
		}
	}
	r.Floor("C03.LEAF", "returns of the helpers that name a referenced function", n, 2)
}

// c03TestedThenRendered: an optional operand (a field of an SSA construct that may be nil) that the renderer tests for
// presence is also the operand it renders: after `x.F != nil` the function uses x.F itself. Testing one field and
// rendering another leaves the tested operand out of the IR.
func c03TestedThenRendered(r *core.Run) {
	p := r.P
	n := 0
	for _, fn := range p.FuncsIn("pkg/analysis/ir") {
		for _, b := range fn.Blocks {
			if len(b.Instrs) == 0 {
				continue
			}
			ifi, ok := b.Instrs[len(b.Instrs)-1].(*ssa.If)
			if !ok {
				continue
			}
			x, _, okN := core.NilCompare(ifi.Cond)
			if !okN {
				continue
			}
			base, name, isF := fieldLoadBy(core.Unwrap(x), func(t types.Type) bool { return strings.HasSuffix(t.String(), "ssa.Value") })
			if !isF || !strings.Contains(core.Deref(base.Type()).String(), ssaPkgPath) {
				continue
			}
			n++
			used := false
			core.InstrsOf(fn, func(in ssa.Instruction) {
				c := core.CallOf(in)
				if c == nil {
					return
				}
				for _, a := range core.CallArgs(c) {
					b2, n2, isF2 := fieldLoadBy(core.Unwrap(a), func(t types.Type) bool { return true })
					if isF2 && n2 == name && core.Canon(b2) == core.Canon(base) {
						used = true
					}
				}
			})
			r.Check(used, "C03.LEAF", core.FuncName(fn)+"#tested-operand-is-rendered("+core.TypeName(core.Deref(base.Type()))+"."+name+")", ifi.Pos(), "the operand that is tested for presence is handed to the renderer", "the optional operand "+name+" is tested for presence but never handed to a renderer: what is rendered in its place is another field, so two instructions that differ only in "+name+" (the value sent in a select case) share their IR")
		}
	}
	r.Floor("C03.LEAF", "presence tests of optional SSA operands", n, 1)
}

// c03FlagFamilies: a switch of the literal policy governs one family of literals: a flag that decides about string
// literals (it is tested under "the literal is a string") is not tested under "the literal is an integer", and vice
// versa. A string flag in an integer clause makes that clause follow the wrong setting: under the default policy small
// map keys are abstracted, and m[1] and m[2] collide.
func c03FlagFamilies(r *core.Run) {
	p := r.P
	n := 0
	for _, fn := range p.FuncsIn("pkg/analysis/ir") {
		rt := resultTypes(fn)
		if fn.Signature.Recv() == nil || len(rt) != 1 || rt[0].String() != "bool" || len(fn.Params) < 2 || !strings.HasSuffix(fn.Params[1].Type().String(), "ssa.Const") {
			continue
		}
		kindTest := func(cond ssa.Value) int64 {
			b, ok := cond.(*ssa.BinOp)
			if !ok || b.Op != token.EQL {
				return -1
			}
			c, isCall := b.X.(*ssa.Call)
			k, isK := core.ConstInt(b.Y)
			if isCall && isK && c.Call.IsInvoke() && c.Call.Method.Name() == "Kind" {
				return k
			}
			return -1
		}
		// regions: blocks dominated by the true successor of a kind test (directly or through its value)
		region := map[*ssa.BasicBlock]map[int64]bool{}
		for _, b := range fn.Blocks {
			if len(b.Instrs) == 0 {
				continue
			}
			ifi, ok := b.Instrs[len(b.Instrs)-1].(*ssa.If)
			if !ok {
				continue
			}
			k := kindTest(ifi.Cond)
			if k < 0 {
				continue
			}
			for _, d := range fn.Blocks {
				if b.Succs[0].Dominates(d) && len(b.Succs[0].Preds) == 1 {
					if region[d] == nil {
						region[d] = map[int64]bool{}
					}
					region[d][k] = true
				}
			}
		}
		flagKinds := map[string]map[int64]bool{}
		for _, b := range fn.Blocks {
			if len(b.Instrs) == 0 {
				continue
			}
			ifi, ok := b.Instrs[len(b.Instrs)-1].(*ssa.If)
			if !ok {
				continue
			}
			base, name, isF := fieldLoadBy(core.Unwrap(ifi.Cond), func(t types.Type) bool { return t.String() == "bool" })
			if !isF || core.Unwrap(base) != ssa.Value(fn.Params[0]) {
				continue
			}
			for k := range region[b] {
				if flagKinds[name] == nil {
					flagKinds[name] = map[int64]bool{}
				}
				flagKinds[name][k] = true
			}
		}
		for name, ks := range flagKinds {
			n++
			r.Check(len(ks) <= 1, "C03.LEAF", core.FuncName(fn)+"#flag-governs-one-literal-kind("+name+")", fn.Pos(), "the switch is consulted for one kind of literal only", "the policy switch "+name+" is consulted both for string and for integer literals: one of the clauses follows the wrong setting, so literals the policy documents as kept are abstracted there (m[1] and m[2] share a fingerprint under the default policy)")
		}
	}
	r.Floor("C03.LEAF", "policy switches consulted under a literal-kind test", n, 2)
}
