package rules

import (
	"go/ast"
	"go/token"
	"go/types"
	"sort"
	"strings"

	"golang.org/x/tools/go/packages"
	"golang.org/x/tools/go/ssa"

	"sfwverif/internal/core"
)

// varargElems returns the values stored into the backing array of a slice built by the compiler
// for a variadic call or a slice literal: `new [n]T; &a[i] = v_i; slice a[:]`.
func varargElems(v ssa.Value) ([]ssa.Value, bool) {
	sl, ok := v.(*ssa.Slice)
	if !ok {
		return nil, false
	}
	al, ok := sl.X.(*ssa.Alloc)
	if !ok {
		return nil, false
	}
	refs := al.Referrers()
	if refs == nil {
		return nil, false
	}
	type ent struct {
		idx int64
		val ssa.Value
	}
	var ents []ent
	for _, r := range *refs {
		ia, ok := r.(*ssa.IndexAddr)
		if !ok {
			continue
		}
		idx, ok := core.ConstInt(ia.Index)
		if !ok {
			return nil, false
		}
		for _, st := range core.StoresTo(ia) {
			ents = append(ents, ent{idx, st.Val})
		}
	}
	sort.Slice(ents, func(i, j int) bool { return ents[i].idx < ents[j].idx })
	var out []ssa.Value
	for _, e := range ents {
		out = append(out, e.val)
	}
	return out, true
}

// stringElems returns the constant strings of a compiler-built slice (see varargElems).
func stringElems(v ssa.Value) ([]string, bool) {
	vals, ok := varargElems(v)
	if !ok {
		return nil, false
	}
	var out []string
	for _, x := range vals {
		s, ok := core.ConstString(x)
		if !ok {
			return nil, false
		}
		out = append(out, s)
	}
	return out, true
}

// isBuiltinCall reports whether v is a call of builtin name.
func isBuiltinCall(v ssa.Value, name string) (*ssa.Call, bool) {
	c, ok := v.(*ssa.Call)
	if !ok {
		return nil, false
	}
	b, ok := c.Call.Value.(*ssa.Builtin)
	if !ok || b.Name() != name {
		return nil, false
	}
	return c, true
}

// callTo returns v as a call to the named static callee.
func callTo(v ssa.Value, names ...string) (*ssa.Call, bool) {
	c, ok := v.(*ssa.Call)
	if !ok {
		return nil, false
	}
	n := core.CalleeName(&c.Call)
	for _, x := range names {
		if n == x {
			return c, true
		}
	}
	return nil, false
}

// compositeLits returns all composite literals of the named type in production packages.
func compositeLits(p *core.Program, pkgPath, name string) []litSite {
	var out []litSite
	var paths []string
	for path := range p.Prod {
		paths = append(paths, path)
	}
	sort.Strings(paths)
	for _, path := range paths {
		pkg := p.Prod[path]
		for _, f := range pkg.Syntax {
			ast.Inspect(f, func(n ast.Node) bool {
				cl, ok := n.(*ast.CompositeLit)
				if !ok {
					return true
				}
				tv, ok := pkg.TypesInfo.Types[cl]
				if ok && core.IsNamed(tv.Type, pkgPath, name) {
					if _, isStruct := core.Deref(tv.Type).Underlying().(*types.Struct); isStruct {
						out = append(out, litSite{cl, pkg, f})
					}
				}
				return true
			})
		}
	}
	return out
}

type litSite struct {
	Lit  *ast.CompositeLit
	Pkg  *packages.Package
	File *ast.File
}

// field returns the value expression of a keyed field of a struct literal.
func (l litSite) field(name string) ast.Expr {
	for _, e := range l.Lit.Elts {
		kv, ok := e.(*ast.KeyValueExpr)
		if !ok {
			continue
		}
		if id, ok := kv.Key.(*ast.Ident); ok && id.Name == name {
			return kv.Value
		}
	}
	return nil
}

// enclosingFuncName names the function declaration enclosing pos in file f (pkgname.Func form).
func enclosingFuncName(pkg *packages.Package, f *ast.File, pos token.Pos) string {
	for _, d := range f.Decls {
		fd, ok := d.(*ast.FuncDecl)
		if !ok || fd.Pos() > pos || pos > fd.End() {
			continue
		}
		name := fd.Name.Name
		if fd.Recv != nil && len(fd.Recv.List) > 0 {
			name = "(" + types.ExprString(fd.Recv.List[0].Type) + ")." + name
		}
		return pkg.Name + "." + name
	}
	return pkg.Name + ".<file scope>"
}

// calleeObj resolves the function object called by a call expression.
func calleeObj(info *types.Info, call *ast.CallExpr) *types.Func {
	var id *ast.Ident
	switch f := ast.Unparen(call.Fun).(type) {
	case *ast.Ident:
		id = f
	case *ast.SelectorExpr:
		id = f.Sel
	case *ast.IndexExpr:
		if s, ok := f.X.(*ast.SelectorExpr); ok {
			id = s.Sel
		} else if i, ok := f.X.(*ast.Ident); ok {
			id = i
		}
	}
	if id == nil {
		return nil
	}
	fn, _ := info.Uses[id].(*types.Func)
	return fn
}

func hasPrefixAny(s string, pre ...string) bool {
	for _, p := range pre {
		if strings.HasPrefix(s, p) {
			return true
		}
	}
	return false
}

// callersOf returns the call instructions in production code that can invoke fn: static calls
// and interface invocations of a method that fn implements.
func callersOf(p *core.Program, fn *ssa.Function) []ssa.CallInstruction {
	var out []ssa.CallInstruction
	var recvT types.Type
	if fn.Signature.Recv() != nil {
		recvT = fn.Signature.Recv().Type()
	}
	for _, f := range p.Funcs {
		core.InstrsOf(f, func(in ssa.Instruction) {
			ci, ok := in.(ssa.CallInstruction)
			if !ok {
				return
			}
			c := ci.Common()
			if c.IsInvoke() {
				if recvT == nil || c.Method.Name() != fn.Name() {
					return
				}
				if iface, ok := c.Value.Type().Underlying().(*types.Interface); ok {
					if types.Implements(recvT, iface) || types.Implements(types.NewPointer(recvT), iface) {
						out = append(out, ci)
					}
				}
				return
			}
			if core.StaticCallee(c) == fn {
				out = append(out, ci)
			}
		})
	}
	return out
}

// structuralAsserts lists the assertions in fn of a go/types.Type value to one of the given structural
// go/types types (suffixes such as "types.Basic"), and those among them whose operand is not, on every
// origin, the result of Underlying(): such a test silently fails for every defined (named) type.
func structuralAsserts(fn *ssa.Function, suffixes ...string) (all, notUnderlying []*ssa.TypeAssert) {
	core.InstrsOf(fn, func(in ssa.Instruction) {
		ta, ok := in.(*ssa.TypeAssert)
		if !ok || ta.X.Type().String() != "go/types.Type" {
			return
		}
		hit := false
		for _, s := range suffixes {
			if strings.HasSuffix(ta.AssertedType.String(), s) {
				hit = true
			}
		}
		if !hit {
			return
		}
		all = append(all, ta)
		for _, o := range core.Origins(ta.X) {
			c, isCall := o.(*ssa.Call)
			if !isCall || !strings.HasSuffix(core.CalleeName(&c.Call), ".Underlying") {
				notUnderlying = append(notUnderlying, ta)
				return
			}
		}
	})
	return
}

// ---- roles resolved by type shape instead of by (unexported, freely renamable) identifiers

// fieldLoadBy: v is a load of a struct field whose type satisfies pred; returns the struct value and the field's
// current name (for messages only).
func fieldLoadBy(v ssa.Value, pred func(types.Type) bool) (base ssa.Value, name string, ok bool) {
	var fa *ssa.FieldAddr
	switch x := v.(type) {
	case *ssa.UnOp:
		if x.Op != token.MUL {
			return nil, "", false
		}
		fa, _ = x.X.(*ssa.FieldAddr)
	case *ssa.FieldAddr:
		fa = x
	case *ssa.Field:
		if pred(x.Type()) {
			return x.X, core.FieldName(x.X.Type(), x.Field), true
		}
		return nil, "", false
	}
	if fa == nil {
		return nil, "", false
	}
	ft := deref1(fa.Type())
	if !pred(ft) {
		return nil, "", false
	}
	return fa.X, core.FieldName(fa.X.Type(), fa.Field), true
}

// mapOf builds a predicate "map whose key type ends with k and whose element type ends with v".
func mapOf(k, v string) func(types.Type) bool {
	return func(t types.Type) bool {
		m, ok := t.Underlying().(*types.Map)
		return ok && strings.HasSuffix(m.Key().String(), k) && strings.HasSuffix(m.Elem().String(), v)
	}
}

var (
	isBinOpTokenMap  = mapOf("ssa.BinOp", "token.Token")           // operator rewrites of the branch swap
	isBlockBoolMap   = mapOf("ssa.BasicBlock", "bool")             // swapped blocks
	isInstrBoolMap   = mapOf("ssa.Instruction", "bool")            // hoisted / sunk instruction marks
	isInstrInstrMap  = mapOf("ssa.Instruction", "ssa.Instruction") // zipper forward / reverse maps
	isValueValueMap  = mapOf("ssa.Value", "ssa.Value")             // zipper value map, canonicaliser substitutions
	isValueStringMap = mapOf("ssa.Value", "string")                // register names
	isBlockStringMap = mapOf("ssa.BasicBlock", "string")           // block names
	isStringIntMap   = mapOf("string", "int")                      // ID → slot index
)

// structFieldOfType lists the names of the fields of named struct type t whose type satisfies pred, in declaration order.
func structFieldsBy(t types.Type, pred func(types.Type) bool) []string {
	st, ok := core.Deref(t).Underlying().(*types.Struct)
	if !ok {
		return nil
	}
	var out []string
	for i := 0; i < st.NumFields(); i++ {
		if pred(st.Field(i).Type()) {
			out = append(out, st.Field(i).Name())
		}
	}
	return out
}

func isIntegerType(t types.Type) bool {
	b, ok := t.Underlying().(*types.Basic)
	return ok && b.Info()&types.IsInteger != 0
}

func isSSAFunctionPtr(t types.Type) bool {
	return strings.HasSuffix(t.String(), "*"+ssaPkgPath+".Function")
}

// isLoopCounter: an integer phi that starts at a constant and is advanced by a constant on its other edges
// (go/ssa's synthetic range index, or a hand-written i := 0; ...; i++ counter).
func isLoopCounter(v ssa.Value) bool {
	ph, ok := v.(*ssa.Phi)
	if !ok || !isIntegerType(ph.Type()) {
		return false
	}
	if ph.Comment == "rangeindex" {
		return true
	}
	nConst, nStep := 0, 0
	for _, e := range ph.Edges {
		if _, isC := core.ConstInt(e); isC {
			nConst++
			continue
		}
		if b, ok := e.(*ssa.BinOp); ok && (b.Op == token.ADD || b.Op == token.SUB) && b.X == ssa.Value(ph) {
			if _, isC := core.ConstInt(b.Y); isC {
				nStep++
				continue
			}
		}
		return false
	}
	return nConst >= 1 && nStep >= 1
}

// deref1 removes exactly one pointer level (the type of the variable a *T address points to).
func deref1(t types.Type) types.Type {
	if p, ok := t.Underlying().(*types.Pointer); ok {
		return p.Elem()
	}
	return t
}

// isLiveIterHelper: callee is a store function that opens an iterator on the live *pebble.DB handle and hands it
// out (the repository's iterator wrapper, whatever it is called).
func isLiveIterHelper(p *core.Program, c *ssa.CallCommon) bool {
	g := core.StaticCallee(c)
	if g == nil || !p.IsProdFunc(g) || g.Blocks == nil {
		return false
	}
	res := g.Signature.Results()
	if res.Len() == 0 || !strings.HasSuffix(res.At(0).Type().String(), "pebble.Iterator") {
		return false
	}
	found := false
	core.InstrsOf(g, func(in ssa.Instruction) {
		if cc := core.CallOf(in); cc != nil {
			if n := core.CalleeName(cc); strings.HasSuffix(n, ".NewIter") && strings.Contains(n, "pebble.DB)") {
				found = true
			}
		}
	})
	return found
}

// maskTest decomposes `x & K != 0`, `x & K == 0` and their negations: it returns the AND operation and whether the
// condition is true exactly when the masked value is non-zero.
func maskTest(cond ssa.Value) (and *ssa.BinOp, nonZeroOnTrue bool, ok bool) {
	op, x, y, neg, isCmp := core.Compare(cond)
	if !isCmp || (op != token.NEQ && op != token.EQL) {
		return nil, false, false
	}
	if z, isZ := core.ConstInt(y); !isZ || z != 0 {
		if z2, isZ2 := core.ConstInt(x); isZ2 && z2 == 0 {
			x = y
		} else {
			return nil, false, false
		}
	}
	b, isAnd := x.(*ssa.BinOp)
	if !isAnd || b.Op != token.AND {
		return nil, false, false
	}
	nz := op == token.NEQ
	if neg {
		nz = !nz
	}
	return b, nz, true
}

// ---- batch helpers: functions of the store package that are handed a *pebble.Batch do part of a mutation on behalf
// of their caller. The rules treat their operations as the caller's, at the position of the call.

type helperBind struct {
	site ssa.CallInstruction // the call in the mutation (or in an outer helper)
	top  ssa.Instruction     // the instruction of the mutating function itself that stands for the helper's work
	g    *ssa.Function
}

// up maps a helper's parameter to the argument passed at the call site (other values are returned unchanged).
func (h helperBind) up(v ssa.Value) ssa.Value {
	if pa, ok := v.(*ssa.Parameter); ok && pa.Parent() == h.g {
		for i, q := range h.g.Params {
			if q == pa && i < len(h.site.Common().Args) {
				return h.site.Common().Args[i]
			}
		}
	}
	return v
}

// isBatchPtr: a *pebble.Batch, or the pebble.Writer interface through which a helper may be handed one.
func isBatchPtr(t types.Type) bool {
	return strings.HasSuffix(t.String(), "pebble.Batch") || strings.HasSuffix(t.String(), "pebble.Writer")
}

// batchHelperCalls lists the calls (to depth 2) from fn's nest to functions of the same package that take a batch.
func batchHelperCalls(p *core.Program, fn *ssa.Function) []helperBind {
	var out []helperBind
	seen := map[*ssa.Function]bool{fn: true}
	var scan func(f *ssa.Function, top ssa.Instruction, d int)
	scan = func(f *ssa.Function, top ssa.Instruction, d int) {
		for _, nf := range core.Nest(f) {
			core.InstrsOf(nf, func(in ssa.Instruction) {
				ci, ok := in.(ssa.CallInstruction)
				if !ok {
					return
				}
				g := core.StaticCallee(ci.Common())
				if g == nil || !p.IsProdFunc(g) || g.Blocks == nil || g.Pkg != fn.Pkg || seen[g] {
					return
				}
				takesBatch := false
				for _, pa := range g.Params {
					if isBatchPtr(pa.Type()) {
						takesBatch = true
					}
				}
				if !takesBatch {
					return
				}
				seen[g] = true
				t := top
				if t == nil {
					t = in
				}
				out = append(out, helperBind{site: ci, top: t, g: g})
				if d < 2 {
					scan(g, t, d+1)
				}
			})
		}
	}
	scan(fn, nil, 0)
	return out
}

// ---- forwarders: a function that, as its first unconditional act, calls target with its own parameters is a thin
// wrapper of target; the obligations of target's call sites then apply to the wrapper's call sites.

type viaSite struct {
	fn   *ssa.Function
	call ssa.CallInstruction
	args []ssa.Value // in target's argument order
}

func callSitesThroughForwarders(p *core.Program, rel string, target *ssa.Function) []viaSite {
	type fw struct{ idx []int }
	forwarders := map[*ssa.Function]fw{}
	isFw := func(g *ssa.Function) (fw, bool) {
		if g == target || len(g.Blocks) == 0 {
			return fw{}, false
		}
		for _, in := range g.Blocks[0].Instrs {
			c := core.CallOf(in)
			if c == nil || core.StaticCallee(c) != target {
				continue
			}
			var idx []int
			for _, a := range c.Args {
				k := -1
				for i, pa := range g.Params {
					if a == ssa.Value(pa) {
						k = i
					}
				}
				if k < 0 {
					return fw{}, false
				}
				idx = append(idx, k)
			}
			return fw{idx}, true
		}
		return fw{}, false
	}
	for _, g := range p.FuncsIn(rel) {
		if f, ok := isFw(g); ok {
			forwarders[g] = f
		}
	}
	var out []viaSite
	for _, fn := range p.FuncsIn(rel) {
		if _, isF := forwarders[fn]; isF {
			continue
		}
		core.InstrsOf(fn, func(in ssa.Instruction) {
			ci, ok := in.(ssa.CallInstruction)
			if !ok {
				return
			}
			g := core.StaticCallee(ci.Common())
			if g == nil {
				return
			}
			if g == target {
				out = append(out, viaSite{fn, ci, ci.Common().Args})
				return
			}
			if f, ok := forwarders[g]; ok {
				var args []ssa.Value
				for _, k := range f.idx {
					if k < len(ci.Common().Args) {
						args = append(args, ci.Common().Args[k])
					}
				}
				out = append(out, viaSite{fn, ci, args})
			}
		})
	}
	return out
}

// ---- key templates: how a storage key / prefix is assembled, independent of whether it is written with
// fmt.Sprintf, with string concatenation or with conversions in between.

type tpart struct {
	kind string // lit | glob | arg
	text string // literal text, or the global's name
	val  ssa.Value
}

// keyTemplate decomposes v into literal text, package-level prefix variables and other (argument) values.
func keyTemplate(v ssa.Value, d int) []tpart {
	if d > 8 {
		return []tpart{{kind: "arg", val: v}}
	}
	v = core.Unwrap(v)
	switch x := v.(type) {
	case *ssa.Const:
		if s, ok := core.ConstString(x); ok {
			return []tpart{{kind: "lit", text: s}}
		}
	case *ssa.Convert:
		return keyTemplate(x.X, d+1)
	case *ssa.UnOp:
		if g, ok := x.X.(*ssa.Global); ok && x.Op == token.MUL {
			return []tpart{{kind: "glob", text: g.Name()}}
		}
	case *ssa.BinOp:
		if x.Op == token.ADD && isStringType(x.Type()) {
			return mergeLits(append(keyTemplate(x.X, d+1), keyTemplate(x.Y, d+1)...))
		}
	case *ssa.Call:
		if core.CalleeName(&x.Call) == "fmt.Sprintf" {
			format, okf := core.ConstString(x.Call.Args[0])
			args, oka := varargElems(x.Call.Args[1])
			if okf && oka {
				var out []tpart
				ai := 0
				lit := ""
				for i := 0; i < len(format); i++ {
					if format[i] != '%' || i+1 >= len(format) {
						lit += string(format[i])
						continue
					}
					if format[i+1] == '%' {
						lit += "%"
						i++
						continue
					}
					// a verb: flags/width/precision up to the verb letter
					j := i + 1
					for j < len(format) && strings.ContainsRune("+-# 0123456789.", rune(format[j])) {
						j++
					}
					if j >= len(format) || ai >= len(args) {
						return []tpart{{kind: "arg", val: v}}
					}
					if lit != "" {
						out = append(out, tpart{kind: "lit", text: lit})
						lit = ""
					}
					if format[j] == 's' && j == i+1 {
						out = append(out, keyTemplate(args[ai], d+1)...)
					} else {
						out = append(out, tpart{kind: "arg", text: format[i : j+1], val: args[ai]})
					}
					ai++
					i = j
				}
				if lit != "" {
					out = append(out, tpart{kind: "lit", text: lit})
				}
				return mergeLits(out)
			}
		}
	}
	return []tpart{{kind: "arg", val: v}}
}

func mergeLits(ps []tpart) []tpart {
	var out []tpart
	for _, p := range ps {
		if p.kind == "lit" && len(out) > 0 && out[len(out)-1].kind == "lit" {
			out[len(out)-1].text += p.text
			continue
		}
		out = append(out, p)
	}
	return out
}

// renderTemplate prints a template with {global} and %s placeholders (formatted arguments keep their verb).
func renderTemplate(ps []tpart) string {
	var sb strings.Builder
	for _, p := range ps {
		switch p.kind {
		case "lit":
			sb.WriteString(p.text)
		case "glob":
			sb.WriteString("{" + p.text + "}")
		default:
			if p.text != "" {
				sb.WriteString(p.text)
			} else {
				sb.WriteString("%s")
			}
		}
	}
	return sb.String()
}

// mustPassLifted is MustPass with a fallback for code that was moved into a helper: if the guard is not found on
// every path inside fn, it may have stayed in the callers — then every static call of fn must itself be guarded.
func mustPassLifted(p *core.Program, fn *ssa.Function, sink *ssa.BasicBlock, atom core.Atom) (bool, int, []int) {
	ok, n, path := core.MustPass(fn, sink, atom)
	if ok && n > 0 {
		return ok, n, path
	}
	sites := 0
	total := 0
	for _, caller := range p.Funcs {
		if !p.IsProdFunc(caller) || caller == fn {
			continue
		}
		for _, ci := range core.Calls(caller, func(_ string, c *ssa.CallCommon) bool { return core.StaticCallee(c) == fn }) {
			sites++
			ok2, n2, _ := core.MustPass(caller, ci.Block(), atom)
			if !(ok2 && n2 > 0) {
				return ok, n, path
			}
			total += n2
		}
	}
	if sites == 0 {
		return ok, n, path
	}
	return true, total, nil
}

// thresholdAgreement: a named constant of the module that is used as the bound of ordered comparisons is compared the
// same way at every site (x >= K everywhere, not x > K at one of them): the sites implement one notion ("high risk")
// and a boundary value must fall on the same side in all of them. Reports the minority sites under rule.
func thresholdAgreement(r *core.Run, rule string, rels ...string) {
	p := r.P
	type site struct {
		pos token.Pos
		op  string
		fn  string
	}
	sites := map[types.Object][]site{}
	for _, pkg := range p.Prod {
		match := false
		for _, rel := range rels {
			if strings.HasSuffix(pkg.PkgPath, rel) {
				match = true
			}
		}
		if !match {
			continue
		}
		for _, f := range pkg.Syntax {
			if strings.HasSuffix(p.Fset.Position(f.Pos()).Filename, "_test.go") {
				continue
			}
			ast.Inspect(f, func(nd ast.Node) bool {
				be, ok := nd.(*ast.BinaryExpr)
				if !ok {
					return true
				}
				mirror := map[token.Token]token.Token{token.LSS: token.GTR, token.GTR: token.LSS, token.LEQ: token.GEQ, token.GEQ: token.LEQ}
				if _, isOrd := mirror[be.Op]; !isOrd {
					return true
				}
				constOf := func(e ast.Expr) types.Object {
					switch x := ast.Unparen(e).(type) {
					case *ast.Ident:
						if c, ok := pkg.TypesInfo.Uses[x].(*types.Const); ok && c.Pkg() != nil && strings.HasPrefix(c.Pkg().Path(), p.ModPath) {
							return c
						}
					case *ast.SelectorExpr:
						if c, ok := pkg.TypesInfo.Uses[x.Sel].(*types.Const); ok && c.Pkg() != nil && strings.HasPrefix(c.Pkg().Path(), p.ModPath) {
							return c
						}
					}
					return nil
				}
				op := be.Op
				obj := constOf(be.Y)
				if obj == nil {
					if obj = constOf(be.X); obj == nil {
						return true
					}
					op = mirror[op]
				}
				// where the bound itself falls: with the upper side (x >= K, x < K) or with the lower side (x > K, x <= K)
				class := "x >= K / x < K"
				if op == token.GTR || op == token.LEQ {
					class = "x > K / x <= K"
				}
				sites[obj] = append(sites[obj], site{be.OpPos, class, enclosingFuncName(pkg, f, be.Pos())})
				return true
			})
		}
	}
	n := 0
	for obj, ss := range sites {
		if len(ss) < 2 {
			continue
		}
		count := map[string]int{}
		for _, s := range ss {
			count[s.op]++
		}
		major, best := "", 0
		for op, c := range count {
			if c > best || (c == best && op > major) {
				major, best = op, c
			}
		}
		for _, s := range ss {
			n++
			r.Check(s.op == major, rule, s.fn+"#"+obj.Name(), s.pos, "the bound falls on the same side as at the other sites ("+major+")", "this site puts the bound "+obj.Name()+" on the other side ("+s.op+") than the other sites ("+major+"): a value exactly at the bound is treated as over it by some stages and as under it by this one (listed with that score but not counted / not sent on)")
		}
	}
	r.Floor(rule, "ordered comparisons against shared named bounds", n, 2)
}
