package rules

import (
	"go/ast"
	"go/token"
	"go/types"
	"sort"
	"strings"

	"golang.org/x/tools/go/packages"
	"golang.org/x/tools/go/ssa"

	"sfwverif/internal/core"
)

// varargElems returns the values stored into the backing array of a slice built by the compiler
// for a variadic call or a slice literal: `new [n]T; &a[i] = v_i; slice a[:]`.
func varargElems(v ssa.Value) ([]ssa.Value, bool) {
	sl, ok := v.(*ssa.Slice)
	if !ok {
		return nil, false
	}
	al, ok := sl.X.(*ssa.Alloc)
	if !ok {
		return nil, false
	}
	refs := al.Referrers()
	if refs == nil {
		return nil, false
	}
	type ent struct {
		idx int64
		val ssa.Value
	}
	var ents []ent
	for _, r := range *refs {
		ia, ok := r.(*ssa.IndexAddr)
		if !ok {
			continue
		}
		idx, ok := core.ConstInt(ia.Index)
		if !ok {
			return nil, false
		}
		for _, st := range core.StoresTo(ia) {
			ents = append(ents, ent{idx, st.Val})
		}
	}
	sort.Slice(ents, func(i, j int) bool { return ents[i].idx < ents[j].idx })
	var out []ssa.Value
	for _, e := range ents {
		out = append(out, e.val)
	}
	return out, true
}

// stringElems returns the constant strings of a compiler-built slice (see varargElems).
func stringElems(v ssa.Value) ([]string, bool) {
	vals, ok := varargElems(v)
	if !ok {
		return nil, false
	}
	var out []string
	for _, x := range vals {
		s, ok := core.ConstString(x)
		if !ok {
			return nil, false
		}
		out = append(out, s)
	}
	return out, true
}

// isBuiltinCall reports whether v is a call of builtin name.
func isBuiltinCall(v ssa.Value, name string) (*ssa.Call, bool) {
	c, ok := v.(*ssa.Call)
	if !ok {
		return nil, false
	}
	b, ok := c.Call.Value.(*ssa.Builtin)
	if !ok || b.Name() != name {
		return nil, false
	}
	return c, true
}

// callTo returns v as a call to the named static callee.
func callTo(v ssa.Value, names ...string) (*ssa.Call, bool) {
	c, ok := v.(*ssa.Call)
	if !ok {
		return nil, false
	}
	n := core.CalleeName(&c.Call)
	for _, x := range names {
		if n == x {
			return c, true
		}
	}
	return nil, false
}

// compositeLits returns all composite literals of the named type in production packages.
func compositeLits(p *core.Program, pkgPath, name string) []litSite {
	var out []litSite
	var paths []string
	for path := range p.Prod {
		paths = append(paths, path)
	}
	sort.Strings(paths)
	for _, path := range paths {
		pkg := p.Prod[path]
		for _, f := range pkg.Syntax {
			ast.Inspect(f, func(n ast.Node) bool {
				cl, ok := n.(*ast.CompositeLit)
				if !ok {
					return true
				}
				tv, ok := pkg.TypesInfo.Types[cl]
				if ok && core.IsNamed(tv.Type, pkgPath, name) {
					if _, isStruct := core.Deref(tv.Type).Underlying().(*types.Struct); isStruct {
						out = append(out, litSite{cl, pkg, f})
					}
				}
				return true
			})
		}
	}
	return out
}

type litSite struct {
	Lit  *ast.CompositeLit
	Pkg  *packages.Package
	File *ast.File
}

// field returns the value expression of a keyed field of a struct literal.
func (l litSite) field(name string) ast.Expr {
	for _, e := range l.Lit.Elts {
		kv, ok := e.(*ast.KeyValueExpr)
		if !ok {
			continue
		}
		if id, ok := kv.Key.(*ast.Ident); ok && id.Name == name {
			return kv.Value
		}
	}
	return nil
}

// enclosingFuncName names the function declaration enclosing pos in file f (pkgname.Func form).
func enclosingFuncName(pkg *packages.Package, f *ast.File, pos token.Pos) string {
	for _, d := range f.Decls {
		fd, ok := d.(*ast.FuncDecl)
		if !ok || fd.Pos() > pos || pos > fd.End() {
			continue
		}
		name := fd.Name.Name
		if fd.Recv != nil && len(fd.Recv.List) > 0 {
			name = "(" + types.ExprString(fd.Recv.List[0].Type) + ")." + name
		}
		return pkg.Name + "." + name
	}
	return pkg.Name + ".<file scope>"
}

// calleeObj resolves the function object called by a call expression.
func calleeObj(info *types.Info, call *ast.CallExpr) *types.Func {
	var id *ast.Ident
	switch f := ast.Unparen(call.Fun).(type) {
	case *ast.Ident:
		id = f
	case *ast.SelectorExpr:
		id = f.Sel
	case *ast.IndexExpr:
		if s, ok := f.X.(*ast.SelectorExpr); ok {
			id = s.Sel
		} else if i, ok := f.X.(*ast.Ident); ok {
			id = i
		}
	}
	if id == nil {
		return nil
	}
	fn, _ := info.Uses[id].(*types.Func)
	return fn
}

func hasPrefixAny(s string, pre ...string) bool {
	for _, p := range pre {
		if strings.HasPrefix(s, p) {
			return true
		}
	}
	return false
}

// callersOf returns the call instructions in production code that can invoke fn: static calls
// and interface invocations of a method that fn implements.
func callersOf(p *core.Program, fn *ssa.Function) []ssa.CallInstruction {
	var out []ssa.CallInstruction
	var recvT types.Type
	if fn.Signature.Recv() != nil {
		recvT = fn.Signature.Recv().Type()
	}
	for _, f := range p.Funcs {
		core.InstrsOf(f, func(in ssa.Instruction) {
			ci, ok := in.(ssa.CallInstruction)
			if !ok {
				return
			}
			c := ci.Common()
			if c.IsInvoke() {
				if recvT == nil || c.Method.Name() != fn.Name() {
					return
				}
				if iface, ok := c.Value.Type().Underlying().(*types.Interface); ok {
					if types.Implements(recvT, iface) || types.Implements(types.NewPointer(recvT), iface) {
						out = append(out, ci)
					}
				}
				return
			}
			if core.StaticCallee(c) == fn {
				out = append(out, ci)
			}
		})
	}
	return out
}

// structuralAsserts lists the assertions in fn of a go/types.Type value to one of the given structural
// go/types types (suffixes such as "types.Basic"), and those among them whose operand is not, on every
// origin, the result of Underlying(): such a test silently fails for every defined (named) type.
func structuralAsserts(fn *ssa.Function, suffixes ...string) (all, notUnderlying []*ssa.TypeAssert) {
	core.InstrsOf(fn, func(in ssa.Instruction) {
		ta, ok := in.(*ssa.TypeAssert)
		if !ok || ta.X.Type().String() != "go/types.Type" {
			return
		}
		hit := false
		for _, s := range suffixes {
			if strings.HasSuffix(ta.AssertedType.String(), s) {
				hit = true
			}
		}
		if !hit {
			return
		}
		all = append(all, ta)
		for _, o := range core.Origins(ta.X) {
			c, isCall := o.(*ssa.Call)
			if !isCall || !strings.HasSuffix(core.CalleeName(&c.Call), ".Underlying") {
				notUnderlying = append(notUnderlying, ta)
				return
			}
		}
	})
	return
}
