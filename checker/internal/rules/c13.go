package rules

import (
	"fmt"
	"go/token"
	"go/types"
	"sort"
	"strings"

	"golang.org/x/tools/go/ssa"

	"sfwverif/internal/core"
)

func init() { register("C13", c13) }

func modelsPath(p *core.Program) string { return p.ModPath + "/pkg/models" }

func isLLMResult(p *core.Program, t types.Type) bool {
	return core.IsNamed(t, modelsPath(p), "LLMResult") && core.Deref(t) == t || core.IsNamed(t, modelsPath(p), "LLMResult")
}

// verdictLoad matches a load of the Verdict field of an LLMResult.
func verdictLoad(p *core.Program, v ssa.Value) bool {
	base, ok := core.FieldLoad(v, "Verdict")
	return ok && core.IsNamed(base.Type(), modelsPath(p), "LLMResult")
}

// resultKind classifies the i-th result types of a function.
func resultTypes(fn *ssa.Function) []types.Type {
	var out []types.Type
	res := fn.Signature.Results()
	for i := 0; i < res.Len(); i++ {
		out = append(out, res.At(i).Type())
	}
	return out
}

func isErrorType(t types.Type) bool { return t.String() == "error" }

func c13(r *core.Run) {
	p := r.P
	r.Explain = "C13 decided on the finite control structure of the audit path: (EXIT) the verdict→status mapper returns 0 only on the true edge of an equality with MATCH (other constants gating exit 0 must be unreachable: rejected by the whitelist after case folding and never assigned as a verdict), every other return is a non-zero constant, and main turns err!=nil / status!=0 into a non-zero exit; (DEFAULT) the stored audit result is a constant ERROR, a constant MATCH only on the no-high-risk edge, or the provider result only on err==nil; (LLM) every return of the verdict producer is a literal ERROR/LIE/SUSPICIOUS or the provider value dominated by sentinel-safe, sentinel err==nil, provider err==nil and validator==nil; (WL) whitelist keys ⊆ {MATCH,SUSPICIOUS,LIE}, a miss and every forbidden phrase return non-nil; (SENT) safe is false on every error return and otherwise the decoded field after a successful Unmarshal; (HTTP) success returns only under status==200 and a role test (OpenAI) / err==nil (Gemini); (ENV) the commit message reaches the payload only through json.Marshal*, both envelope delimiters take one nonce that comes from the nonce generator, whose default reads crypto/rand and propagates its error. Not decided: robustness of the JSON-extraction regexes, the model's behaviour. (PARSE) the answer parser returns a result only after json.Unmarshal of the whole text (or a streaming decode followed by a trailing-data test)."
	r.Undecided = []string{"robustness of cleanJSONMarkdown's regex/brace heuristics on hostile text", "what the provider answers"}
	r.Assume = []string{"encoding/json escapes string values so that a JSON string cannot contain a raw newline or unescaped quote", "os.Exit terminates the process"}

	// ---- roles
	var mappers []*ssa.Function
	for _, fn := range p.Funcs {
		rt := resultTypes(fn)
		if len(rt) != 2 || !isErrorType(rt[1]) {
			continue
		}
		if b, ok := rt[0].Underlying().(*types.Basic); !ok || b.Kind() != types.Int {
			continue
		}
		reads := false
		core.InstrsOf(fn, func(in ssa.Instruction) {
			if b, ok := in.(*ssa.BinOp); ok && b.Op == token.EQL && (verdictLoad(p, b.X) || verdictLoad(p, b.Y)) {
				reads = true
			}
		})
		if reads {
			mappers = append(mappers, fn)
		}
	}
	if !r.Floor("C13.EXIT", "verdict→exit-status mapper (returns (int,error), branches on LLMResult.Verdict)", len(mappers), 1) {
		return
	}

	// validator(s): take an LLMResult, return error
	var validators, producers, sentinels []*ssa.Function
	for _, fn := range p.Funcs {
		rt := resultTypes(fn)
		if len(rt) == 1 && isErrorType(rt[0]) && len(fn.Params) == 1 && core.IsNamed(fn.Params[0].Type(), modelsPath(p), "LLMResult") {
			validators = append(validators, fn)
		}
		if len(rt) == 3 && isErrorType(rt[2]) {
			if b, ok := rt[0].Underlying().(*types.Basic); ok && b.Kind() == types.Bool {
				if s, ok := rt[1].Underlying().(*types.Basic); ok && s.Kind() == types.String {
					sentinels = append(sentinels, fn)
				}
			}
		}
		// the same screen handing back the decoded answer as a whole: (SentinelResponse, error)
		if len(rt) == 2 && isErrorType(rt[1]) && core.IsNamed(rt[0], modelsPath(p), "SentinelResponse") && p.IsProdFunc(fn) {
			sentinels = append(sentinels, fn)
		}
	}
	// producer: callee of a mapper returning (LLMResult, error)
	prodSet := map[*ssa.Function]bool{}
	for _, m := range mappers {
		core.InstrsOf(m, func(in ssa.Instruction) {
			if c := core.CallOf(in); c != nil {
				if callee := core.StaticCallee(c); callee != nil && p.IsProdFunc(callee) {
					rt := resultTypes(callee)
					if len(rt) == 2 && core.IsNamed(rt[0], modelsPath(p), "LLMResult") && isErrorType(rt[1]) {
						prodSet[callee] = true
					}
				}
			}
		})
	}
	producers = core.SortedFuncs(prodSet)
	// sentinels actually called by a producer
	var usedSentinels []*ssa.Function
	for _, s := range sentinels {
		for _, pr := range producers {
			if len(core.Calls(pr, func(_ string, c *ssa.CallCommon) bool { return core.StaticCallee(c) == s })) > 0 {
				usedSentinels = append(usedSentinels, s)
				break
			}
		}
	}
	sentinels = usedSentinels
	r.Floor("C13.WL", "verdict validator (LLMResult → error)", len(validators), 1)
	r.Floor("C13.LLM", "verdict producer (callee of the mapper returning (LLMResult, error))", len(producers), 1)
	r.Floor("C13.SENT", "injection sentinel ((bool,string,error) callee of the producer)", len(sentinels), 1)

	// whitelist keys W, assigned literals Lits
	W := map[string]bool{}
	for _, v := range validators {
		c13Whitelist(r, v, W)
	}
	Lits := map[string]bool{}
	for _, fn := range p.Funcs {
		core.InstrsOf(fn, func(in ssa.Instruction) {
			st, ok := in.(*ssa.Store)
			if !ok {
				return
			}
			fa, ok := st.Addr.(*ssa.FieldAddr)
			if !ok || !core.IsNamed(fa.X.Type(), modelsPath(p), "LLMResult") || core.FieldName(fa.X.Type(), fa.Field) != "Verdict" {
				return
			}
			if s, ok := core.ConstString(st.Val); ok {
				Lits[s] = true
			} else {
				Lits["<non-constant>"] = true
				r.Fail("C13.LLM", core.FuncName(fn)+"#store(Verdict)", st.Pos(), "a Verdict field is assigned a non-constant value "+core.Canon(st.Val))
			}
		})
	}

	for _, m := range mappers {
		c13Exit(r, m, W, Lits)
		c13Default(r, m, prodSet)
		c13Main(r, m)
	}
	for _, pr := range producers {
		c13Producer(r, pr, validators, sentinels)
		c13Env(r, pr)
	}
	for _, s := range sentinels {
		c13Sentinel(r, s)
	}
	c13HTTP(r)
	c13Parse(r)
	// which changes are sent to the model: the audit uses the same bound, the same way, as the diff that scored them
	thresholdAgreement(r, "C13.BOUND", "/internal/cli")
	c13Screened(r)
}

func c13Whitelist(r *core.Run, v *ssa.Function, W map[string]bool) {
	p := r.P
	vn := core.FuncName(v)
	allowed := map[string]bool{"MATCH": true, "SUSPICIOUS": true, "LIE": true}
	var lookups []*ssa.Lookup
	core.InstrsOf(v, func(in ssa.Instruction) {
		switch x := in.(type) {
		case *ssa.MapUpdate:
			if k, ok := core.ConstString(x.Key); ok {
				if tv, isTrue := x.Value.(*ssa.Const); isTrue && tv.Value != nil && tv.Value.String() == "true" {
					W[k] = true
					r.Check(allowed[k], "C13.WL", vn+"#whitelist("+k+")", x.Pos(), "whitelisted verdict is one of MATCH/SUSPICIOUS/LIE", "verdict "+k+" is whitelisted: the validator accepts a verdict outside {MATCH,SUSPICIOUS,LIE}")
				}
			}
		case *ssa.Lookup:
			if _, isMap := x.X.Type().Underlying().(*types.Map); isMap {
				lookups = append(lookups, x)
			}
		}
	})
	var nilReturns []core.Ret
	for _, ret := range core.Returns(v) {
		if len(ret.Results) == 1 && core.IsNilConst(ret.Results[0]) {
			nilReturns = append(nilReturns, ret)
		}
	}
	if !r.Floor("C13.WL", "whitelist lookup in "+vn, len(lookups), 1) || len(nilReturns) == 0 {
		return
	}
	for _, lk := range lookups {
		// index must be (ToUpper of) the Verdict field of the parameter
		idx := lk.Index
		if c, ok := callTo(idx, "strings.ToUpper"); ok {
			idx = c.Call.Args[0]
		}
		r.Check(verdictLoad(p, idx), "C13.WL", vn+"#lookup-key", lk.Pos(), "whitelist is consulted with the result's Verdict", "whitelist is consulted with "+core.Canon(lk.Index)+", not the result's Verdict")
		val := ssa.Value(lk)
		if lk.CommaOk {
			continue
		}
		for _, ret := range nilReturns {
			ok, n, path := core.MustPass(v, ret.Block(), core.BoolGuard(func(x ssa.Value) bool { return x == val }, true))
			r.Check(ok && n > 0, "C13.WL", vn+"#miss-rejected", ret.Pos(), "return nil only when the whitelist lookup is true", "return nil is reachable without a positive whitelist lookup ("+core.FmtPath(path)+"): an unknown verdict passes validation")
		}
	}
	// forbidden phrases: every strings.Contains test must be false before return nil
	var tests []*ssa.Call
	core.InstrsOf(v, func(in ssa.Instruction) {
		if c, ok := in.(*ssa.Call); ok && core.CalleeName(&c.Call) == "strings.Contains" {
			tests = append(tests, c)
		}
	})
	if r.Floor("C13.WL", "forbidden-phrase test in "+vn, len(tests), 1) {
		for _, t := range tests {
			tv := ssa.Value(t)
			for _, ret := range nilReturns {
				ok, n, path := core.MustPass(v, ret.Block(), core.BoolGuard(func(x ssa.Value) bool { return x == tv }, false))
				why := core.FmtPath(path)
				if !ok && n > 0 {
					// loop form: every phrase of a non-empty constant list is tested, first hit rejects
					if refs := t.Referrers(); refs != nil {
						for _, ref := range *refs {
							if ifi, isIf := ref.(*ssa.If); isIf {
								ok, why = core.ForAllGuard(ifi, 0, ret.Block())
							}
						}
					}
					if ok {
						ok = false
						why = "the tested phrase does not come from a non-empty constant list"
						if u, isLoad := t.Call.Args[1].(*ssa.UnOp); isLoad {
							if ia, isIA := u.X.(*ssa.IndexAddr); isIA {
								if strs, isConst := stringElems(ia.X); isConst && len(strs) > 0 {
									ok = true
								}
							}
						}
					}
				}
				r.Check(ok && n > 0, "C13.WL", vn+"#phrase-scan-precedes-nil", ret.Pos(), "return nil only after every forbidden-phrase test failed", "return nil reachable although a forbidden phrase matched ("+why+")")
			}
			// the text is folded to the case the phrases are written in: a lower-case phrase list is searched in the
			// lower-cased text (an upper-cased or unfolded text never contains them)
			var phrases []string
			if u, isLoad := t.Call.Args[1].(*ssa.UnOp); isLoad {
				if ia, isIA := u.X.(*ssa.IndexAddr); isIA {
					phrases, _ = stringElems(ia.X)
				}
			}
			if k, isC := core.ConstString(t.Call.Args[1]); isC {
				phrases = []string{k}
			}
			if len(phrases) == 0 {
				continue
			}
			allLower, allUpper := true, true
			for _, ph := range phrases {
				if ph != strings.ToLower(ph) {
					allLower = false
				}
				if ph != strings.ToUpper(ph) {
					allUpper = false
				}
			}
			fold := ""
			for _, o := range core.Origins(t.Call.Args[0]) {
				if c, isCall := o.(*ssa.Call); isCall {
					switch core.CalleeName(&c.Call) {
					case "strings.ToLower":
						fold = "lower"
					case "strings.ToUpper":
						fold = "upper"
					}
				}
			}
			okFold := (allLower && fold == "lower") || (allUpper && !allLower && fold == "upper")
			r.Check(okFold, "C13.WL", vn+"#phrase-scan-case", t.Pos(), "the text is folded to the case of the phrase list before it is searched", "the forbidden phrases are written in "+map[bool]string{true: "lower", false: "mixed/upper"}[allLower]+" case but the text is searched after folding it to '"+fold+"' case: the phrases can never match, so an answer whose evidence says 'ignore previous instructions' passes validation")
		}
	}
}

func c13Exit(r *core.Run, m *ssa.Function, W, Lits map[string]bool) {
	p := r.P
	mn := core.FuncName(m)
	type eq struct {
		ifi *ssa.If
		s   string
	}
	var eqs []eq
	for _, b := range m.Blocks {
		if len(b.Instrs) == 0 {
			continue
		}
		ifi, ok := b.Instrs[len(b.Instrs)-1].(*ssa.If)
		if !ok {
			continue
		}
		op, x, y, _, ok := core.Compare(ifi.Cond)
		if !ok || op != token.EQL {
			continue
		}
		var s string
		var isC bool
		switch {
		case verdictLoad(p, x):
			s, isC = core.ConstString(y)
		case verdictLoad(p, y):
			s, isC = core.ConstString(x)
		default:
			continue
		}
		if isC {
			eqs = append(eqs, eq{ifi, s})
		}
	}
	zeroReturns := 0
	for _, ret := range core.Returns(m) {
		n, isConst := core.ConstInt(ret.Results[0])
		if !isConst {
			r.Fail("C13.EXIT", mn+"#return(status)", ret.Pos(), "exit status is not a constant: "+core.Canon(ret.Results[0]))
			continue
		}
		if n != 0 {
			r.OK("C13.EXIT", mn+"#return(nonzero)", ret.Pos(), "non-zero status")
			continue
		}
		zeroReturns++
		allCut := map[core.Edge]bool{}
		for _, e := range eqs {
			allCut[core.Edge{From: e.ifi.Block(), Idx: 0}] = true
		}
		if path := core.PathAvoiding(m.Blocks[0], ret.Block(), allCut); path != nil {
			r.Fail("C13.EXIT", mn+"#return0", ret.Pos(), "return 0 is reachable without any verdict equality test ("+core.FmtPath(path)+"): the default branch passes")
			continue
		}
		var gating []string
		for _, e := range eqs {
			cut := map[core.Edge]bool{}
			for _, o := range eqs {
				if o.ifi != e.ifi {
					cut[core.Edge{From: o.ifi.Block(), Idx: 0}] = true
				}
			}
			// is return reachable through e's true edge?
			if core.PathAvoiding(e.ifi.Block().Succs[0], ret.Block(), cut) != nil {
				gating = append(gating, e.s)
			}
		}
		sort.Strings(gating)
		for _, s := range gating {
			construct := mn + "#exit0-on(" + s + ")"
			switch {
			case s == "MATCH":
				r.OK("C13.EXIT", construct, ret.Pos(), "exit 0 on MATCH")
			case !W[strings.ToUpper(s)] && !Lits[s] && len(W) > 0:
				r.OK("C13.EXIT", construct, ret.Pos(), "constant gates exit 0 but is unreachable: rejected by the whitelist after case folding and never assigned to a Verdict field")
			default:
				r.Fail("C13.EXIT", construct, ret.Pos(), "verdict "+s+" leads to exit status 0: the audit passes on a verdict other than MATCH")
			}
		}
	}
	r.Floor("C13.EXIT", "return 0 sites in "+mn, zeroReturns, 1)
}

func c13Default(r *core.Run, m *ssa.Function, producers map[*ssa.Function]bool) {
	p := r.P
	mn := core.FuncName(m)
	n := 0
	core.InstrsOf(m, func(in ssa.Instruction) {
		st, ok := in.(*ssa.Store)
		if !ok || !core.IsNamed(st.Val.Type(), modelsPath(p), "LLMResult") {
			return
		}
		if _, isFA := st.Addr.(*ssa.FieldAddr); !isFA {
			return
		}
		n++
		if v, ok := core.StructLitField(st.Val, "Verdict"); ok {
			s, isC := core.ConstString(v)
			switch {
			case !isC:
				r.Fail("C13.DEFAULT", mn+"#store(result literal)", st.Pos(), "audit result literal with non-constant verdict")
			case s == "MATCH":
				// must be on the no-high-risk edge: len(evidence) > 0 is false
				atom := func(cond ssa.Value) (bool, bool) {
					op, x, y, neg, ok := core.Compare(cond)
					if !ok || neg {
						return false, false
					}
					if c, isLen := isBuiltinCall(x, "len"); isLen && op == token.GTR {
						if z, isZ := core.ConstInt(y); isZ && z == 0 && strings.Contains(c.Call.Args[0].Type().String(), "AuditEvidence") {
							return true, false
						}
					}
					return false, false
				}
				ok2, ng, path := core.MustPass(m, st.Block(), atom)
				r.Check(ok2 && ng > 0, "C13.DEFAULT", mn+"#store(MATCH literal)", st.Pos(), "automatic MATCH only on the edge where no high-risk evidence exists", "automatic MATCH is stored on a path where high-risk evidence may exist ("+core.FmtPath(path)+")")
			default:
				r.Check(s == "ERROR" || s == "LIE" || s == "SUSPICIOUS", "C13.DEFAULT", mn+"#store("+s+" literal)", st.Pos(), "non-passing constant verdict", "unexpected constant verdict "+s)
			}
			return
		}
		// provider result: Extract #0 of a producer call; needs err == nil
		okAll := true
		for _, o := range core.Origins(st.Val) {
			ex, isEx := o.(*ssa.Extract)
			var call *ssa.Call
			if isEx {
				call, _ = ex.Tuple.(*ssa.Call)
			}
			if call == nil || !producers[core.StaticCallee(&call.Call)] || ex.Index != 0 {
				okAll = false
				r.Fail("C13.DEFAULT", mn+"#store(result)", st.Pos(), "audit result is assigned from "+core.Canon(o)+": neither a constant verdict nor the verdict producer's result")
				continue
			}
			guard := core.NilGuard(func(x ssa.Value) bool {
				e, ok := x.(*ssa.Extract)
				return ok && e.Tuple == ex.Tuple && e.Index == 1
			})
			ok2, ng, path := core.MustPass(m, st.Block(), guard)
			if !(ok2 && ng > 0) {
				okAll = false
				r.Fail("C13.DEFAULT", mn+"#store(provider result)", st.Pos(), "the provider's result reaches the audit output without err == nil ("+core.FmtPath(path)+")")
			}
		}
		if okAll {
			r.OK("C13.DEFAULT", mn+"#store(provider result)", st.Pos(), "provider result stored only on the err == nil edge")
		}
	})
	r.Floor("C13.DEFAULT", "stores of an LLMResult into the audit output in "+mn, n, 3)
}

// exitsProcess reports whether block b calls os.Exit or a module function that always calls os.Exit.
func exitsProcess(p *core.Program, b *ssa.BasicBlock) bool {
	for _, in := range b.Instrs {
		c := core.CallOf(in)
		if c == nil {
			continue
		}
		if core.CalleeName(c) == "os.Exit" {
			return true
		}
		if callee := core.StaticCallee(c); callee != nil && p.IsProdFunc(callee) {
			// every return of callee is preceded by os.Exit(nonzero const)
			var exits []ssa.Instruction
			core.InstrsOf(callee, func(in2 ssa.Instruction) {
				if core.IsCallTo(in2, "os.Exit") {
					if n, ok := core.ConstInt(core.CallOf(in2).Args[0]); ok && n != 0 {
						exits = append(exits, in2)
					}
				}
			})
			if len(exits) == 0 {
				continue
			}
			all := true
			for _, ret := range core.Returns(callee) {
				dom := false
				for _, e := range exits {
					if e.Block() == ret.Block() || e.Block().Dominates(ret.Block()) {
						dom = true
					}
				}
				if !dom {
					all = false
				}
			}
			if all {
				return true
			}
		}
	}
	return false
}

func c13Main(r *core.Run, m *ssa.Function) {
	p := r.P
	n := 0
	for _, fn := range p.Funcs {
		for _, ci := range core.Calls(fn, func(_ string, c *ssa.CallCommon) bool { return core.StaticCallee(c) == m }) {
			call, ok := ci.(*ssa.Call)
			if !ok {
				continue
			}
			n++
			cn := core.FuncName(fn) + "→" + core.FuncName(m)
			cut := map[core.Edge]bool{}
			for _, b := range fn.Blocks {
				if exitsProcess(p, b) {
					for i := range b.Succs {
						cut[core.Edge{From: b, Idx: i}] = true
					}
				}
			}
			errGuard := core.NilGuard(func(x ssa.Value) bool {
				e, ok := x.(*ssa.Extract)
				return ok && e.Tuple == ssa.Value(call) && e.Index == 1
			})
			codeGuard := func(cond ssa.Value) (bool, bool) {
				op, x, y, neg, ok := core.Compare(cond)
				if !ok || neg {
					return false, false
				}
				e, isEx := x.(*ssa.Extract)
				z, isZ := core.ConstInt(y)
				if !isEx || e.Tuple != ssa.Value(call) || e.Index != 0 || !isZ || z != 0 {
					return false, false
				}
				switch op {
				case token.NEQ:
					return true, false
				case token.EQL:
					return true, true
				}
				return false, false
			}
			for _, ret := range core.Returns(fn) {
				if core.PathAvoiding(call.Block(), ret.Block(), cut) == nil {
					continue
				}
				ok1, n1, p1 := core.MustPassFrom(fn, call.Block(), ret.Block(), errGuard, cut)
				r.Check(ok1 && n1 > 0, "C13.EXIT", cn+"#err→nonzero-exit", call.Pos(), "after the audit, err != nil always ends in a non-zero process exit", "the caller can return normally although the audit returned an error ("+core.FmtPath(p1)+")")
				ok2, n2, p2 := core.MustPassFrom(fn, call.Block(), ret.Block(), codeGuard, cut)
				r.Check(ok2 && n2 > 0, "C13.EXIT", cn+"#status→exit", call.Pos(), "after the audit, status != 0 always ends in os.Exit", "the caller can return normally although the audit status is non-zero ("+core.FmtPath(p2)+")")
			}
			// the exit on status != 0 must use a non-zero code: os.Exit(exitCode) or constant
			for _, b := range fn.Blocks {
				for _, in := range b.Instrs {
					if core.IsCallTo(in, "os.Exit") {
						a := core.CallOf(in).Args[0]
						if z, isC := core.ConstInt(a); isC && z == 0 && call.Block().Dominates(b) {
							if m2, onTrue := codeGuard(lastIfCond(b)); m2 || onTrue {
								_ = m2
							}
						}
					}
				}
			}
		}
	}
	r.Floor("C13.EXIT", "production call sites of the mapper", n, 1)
}

func lastIfCond(b *ssa.BasicBlock) ssa.Value {
	for _, pr := range b.Preds {
		if len(pr.Instrs) > 0 {
			if ifi, ok := pr.Instrs[len(pr.Instrs)-1].(*ssa.If); ok {
				return ifi.Cond
			}
		}
	}
	return nil
}

func c13Producer(r *core.Run, pr *ssa.Function, validators, sentinels []*ssa.Function) {
	pn := core.FuncName(pr)
	isIn := func(fn *ssa.Function, set []*ssa.Function) bool {
		for _, s := range set {
			if s == fn {
				return true
			}
		}
		return false
	}
	nProvider := 0
	for _, ret := range core.Returns(pr) {
		res := ret.Results[0]
		if v, ok := core.StructLitField(res, "Verdict"); ok {
			s, isC := core.ConstString(v)
			r.Check(isC && (s == "ERROR" || s == "LIE" || s == "SUSPICIOUS"), "C13.LLM", pn+"#return(literal "+s+")", ret.Pos(), "literal non-passing verdict", "the verdict producer returns the literal verdict "+s+" (only ERROR/LIE/SUSPICIOUS may be returned as literals)")
			continue
		}
		nProvider++
		construct := pn + "#return(provider value)"
		// (i) sentinel safe, (iv) sentinel err == nil
		var sentCalls []*ssa.Call
		core.InstrsOf(pr, func(in ssa.Instruction) {
			if c, ok := in.(*ssa.Call); ok && isIn(core.StaticCallee(&c.Call), sentinels) {
				sentCalls = append(sentCalls, c)
			}
		})
		if len(sentCalls) == 0 {
			r.Fail("C13.LLM", construct+"/sentinel", ret.Pos(), "no sentinel call in the verdict producer")
		}
		for _, sc := range sentCalls {
			isEx := func(idx int) func(ssa.Value) bool {
				return func(x ssa.Value) bool {
					e, ok := x.(*ssa.Extract)
					return ok && e.Tuple == ssa.Value(sc) && e.Index == idx
				}
			}
			if sc.Call.Signature().Results().Len() == 2 {
				// (answer, error): safe is the answer's Safe field
				isSafe := func(x ssa.Value) bool {
					base, ok := core.FieldLoad(x, "Safe")
					if !ok {
						return false
					}
					for _, o := range core.Origins(core.LoadOf(base)) {
						if isEx(0)(o) {
							return true
						}
					}
					if al, ok := base.(*ssa.Alloc); ok {
						for _, st := range core.StoresTo(al) {
							if isEx(0)(st.Val) {
								return true
							}
						}
					}
					return isEx(0)(base)
				}
				ok1, n1, p1 := core.MustPass(pr, ret.Block(), core.BoolGuard(isSafe, true))
				r.Check(ok1 && n1 > 0, "C13.LLM", construct+"/sentinel-safe", ret.Pos(), "provider value returned only when the sentinel answered safe", "the provider's verdict is returned although the injection screen did not answer safe ("+core.FmtPath(p1)+")")
				ok2, n2, p2 := core.MustPass(pr, ret.Block(), core.NilGuard(isEx(1)))
				r.Check(ok2 && n2 > 0, "C13.LLM", construct+"/sentinel-err", ret.Pos(), "provider value returned only when the sentinel call succeeded", "the provider's verdict is returned although the sentinel call failed ("+core.FmtPath(p2)+")")
				continue
			}
			ok1, n1, p1 := core.MustPass(pr, ret.Block(), core.BoolGuard(isEx(0), true))
			r.Check(ok1 && n1 > 0, "C13.LLM", construct+"/sentinel-safe", ret.Pos(), "provider value returned only when the sentinel answered safe", "the provider's verdict is returned although the injection screen did not answer safe ("+core.FmtPath(p1)+")")
			ok2, n2, p2 := core.MustPass(pr, ret.Block(), core.NilGuard(isEx(2)))
			r.Check(ok2 && n2 > 0, "C13.LLM", construct+"/sentinel-err", ret.Pos(), "provider value returned only when the sentinel call succeeded", "the provider's verdict is returned although the sentinel call failed ("+core.FmtPath(p2)+")")
		}
		// (ii) provider err == nil: the returned value's origins are Extract#0 of calls (or the zero value, which no
		// validator accepts); the error that travels with each of them must be nil. Value and error may be merged
		// by parallel phis (several providers assigning the same pair of variables): they are walked in lockstep.
		tuples := map[ssa.Value]bool{}
		for _, o := range core.Origins(res) {
			if isZeroValue(o) {
				continue
			}
			ex, ok := o.(*ssa.Extract)
			if !ok || ex.Index != 0 {
				r.Fail("C13.LLM", construct+"/origin", ret.Pos(), "returned value originates from "+core.Canon(o)+", not from a provider call")
				continue
			}
			tuples[ex.Tuple] = true
		}
		var paired func(e, v ssa.Value, d int) bool
		paired = func(e, v ssa.Value, d int) bool {
			if d > 6 {
				return false
			}
			v = core.LoadOf(v)
			e = core.LoadOf(e)
			if isZeroValue(v) {
				return true
			}
			if vx, ok := v.(*ssa.Extract); ok && vx.Index == 0 {
				ex, ok := e.(*ssa.Extract)
				return ok && ex.Tuple == vx.Tuple && ex.Index == 1
			}
			vp, ok1 := v.(*ssa.Phi)
			ep, ok2 := e.(*ssa.Phi)
			if ok1 && ok2 && vp.Block() == ep.Block() {
				for i := range vp.Edges {
					if !paired(ep.Edges[i], vp.Edges[i], d+1) {
						return false
					}
				}
				return true
			}
			if ok1 && !ok2 {
				// the value is merged, the error is not: every non-zero incoming value must come from e's call
				for _, ed := range vp.Edges {
					if !paired(e, ed, d+1) {
						return false
					}
				}
				return true
			}
			return false
		}
		errPred := func(x ssa.Value) bool {
			all := true
			for _, o := range core.Origins(x) {
				e, ok := o.(*ssa.Extract)
				if !ok || e.Index != 1 || !tuples[e.Tuple] {
					all = false
				}
			}
			return all || paired(x, res, 0)
		}
		ok3, n3, p3 := core.MustPass(pr, ret.Block(), core.NilGuard(errPred))
		r.Check(ok3 && n3 > 0, "C13.LLM", construct+"/provider-err", ret.Pos(), "provider value returned only on provider err == nil", "the provider's value is returned although the provider call failed ("+core.FmtPath(p3)+")")
		// (iii) validator(result) == nil on the same value
		valPred := func(x ssa.Value) bool {
			c, ok := x.(*ssa.Call)
			if !ok || !isIn(core.StaticCallee(&c.Call), validators) {
				return false
			}
			return c.Call.Args[0] == res || slotOf(c.Call.Args[0]) == slotOf(res) // by value or by pointer
		}
		ok4, n4, p4 := core.MustPass(pr, ret.Block(), core.NilGuard(valPred))
		r.Check(ok4 && n4 > 0, "C13.LLM", construct+"/validated", ret.Pos(), "provider value returned only when the validator accepted this very value", "the provider's value is returned without passing output validation ("+core.FmtPath(p4)+")")
	}
	r.Floor("C13.LLM", "returns of the provider's value in "+pn, nProvider, 1)
}

func c13Sentinel(r *core.Run, s *ssa.Function) {
	sn := core.FuncName(s)
	p := r.P
	nOK := 0
	if len(resultTypes(s)) == 2 {
		// (SentinelResponse, error): an error return carries the zero answer (Safe == false); a success return is
		// the variable that json.Unmarshal just filled
		for _, ret := range core.Returns(s) {
			if !core.IsNilConst(ret.Results[1]) {
				zero := isZeroValue(ret.Results[0])
				if !zero {
					if v, ok := core.StructLitField(ret.Results[0], "Safe"); ok {
						c, isC := v.(*ssa.Const)
						zero = v == nil || (isC && c.Value != nil && c.Value.String() == "false")
					}
				}
				r.Check(zero, "C13.SENT", sn+"#error-return", ret.Pos(), "the zero answer (safe=false) on an error return", "the sentinel returns "+core.Canon(ret.Results[0])+" together with an error")
				continue
			}
			nOK++
			u, isLoad := ret.Results[0].(*ssa.UnOp)
			if !isLoad {
				r.Fail("C13.SENT", sn+"#success-return", ret.Pos(), "on success the sentinel returns "+core.Canon(ret.Results[0])+" instead of the decoded answer")
				continue
			}
			base := u.X
			pred := func(x ssa.Value) bool {
				c, ok := callTo(x, "encoding/json.Unmarshal")
				return ok && core.Unwrap(c.Call.Args[1]) == base
			}
			ok2, n2, path := core.MustPass(s, ret.Block(), core.NilGuard(pred))
			r.Check(ok2 && n2 > 0, "C13.SENT", sn+"#success-return", ret.Pos(), "the answer is returned only after a successful Unmarshal into the same variable", "the answer is returned without a successful decode ("+core.FmtPath(path)+")")
			errPred := func(x ssa.Value) bool {
				for _, o := range core.Origins(x) {
					e, ok := o.(*ssa.Extract)
					if !ok || e.Index != 1 {
						return false
					}
					if c, ok := e.Tuple.(*ssa.Call); !ok || core.StaticCallee(&c.Call) == nil || !p.IsProdFunc(core.StaticCallee(&c.Call)) {
						return false
					}
				}
				return true
			}
			ok3, n3, p3 := core.MustPass(s, ret.Block(), core.NilGuard(errPred))
			r.Check(ok3 && n3 > 0, "C13.SENT", sn+"#success-needs-call-ok", ret.Pos(), "success only when the raw provider call succeeded", "the sentinel can answer although its provider call failed ("+core.FmtPath(p3)+")")
		}
		r.Floor("C13.SENT", "success returns in "+sn, nOK, 1)
		return
	}
	for _, ret := range core.Returns(s) {
		if !core.IsNilConst(ret.Results[2]) {
			c, isC := ret.Results[0].(*ssa.Const)
			r.Check(isC && c.Value != nil && c.Value.String() == "false", "C13.SENT", sn+"#error-return", ret.Pos(), "safe=false on an error return", "the sentinel returns safe="+core.Canon(ret.Results[0])+" together with an error")
			continue
		}
		nOK++
		base, isField := core.FieldLoad(ret.Results[0], "Safe")
		if !isField || !core.IsNamed(base.Type(), modelsPath(p), "SentinelResponse") {
			r.Fail("C13.SENT", sn+"#success-return", ret.Pos(), "on success the sentinel returns "+core.Canon(ret.Results[0])+" instead of the decoded Safe field")
			continue
		}
		// dominated by Unmarshal(_, &base) == nil
		pred := func(x ssa.Value) bool {
			c, ok := callTo(x, "encoding/json.Unmarshal")
			if !ok {
				return false
			}
			return core.Unwrap(c.Call.Args[1]) == base
		}
		ok2, n2, path := core.MustPass(s, ret.Block(), core.NilGuard(pred))
		r.Check(ok2 && n2 > 0, "C13.SENT", sn+"#success-return", ret.Pos(), "Safe is read only after a successful Unmarshal into the same variable", "Safe is returned without a successful decode ("+core.FmtPath(path)+")")
		// and by raw-call err == nil
		errPred := func(x ssa.Value) bool {
			for _, o := range core.Origins(x) {
				e, ok := o.(*ssa.Extract)
				if !ok || e.Index != 1 {
					return false
				}
				if c, ok := e.Tuple.(*ssa.Call); !ok || core.StaticCallee(&c.Call) == nil || !p.IsProdFunc(core.StaticCallee(&c.Call)) {
					return false
				}
			}
			return true
		}
		ok3, n3, p3 := core.MustPass(s, ret.Block(), core.NilGuard(errPred))
		r.Check(ok3 && n3 > 0, "C13.SENT", sn+"#success-needs-call-ok", ret.Pos(), "success only when the raw provider call succeeded", "the sentinel can answer although its provider call failed ("+core.FmtPath(p3)+")")
	}
	r.Floor("C13.SENT", "success returns in "+sn, nOK, 1)
}

// c13Parse: the provider's final answer becomes an LLMResult only through a whole-document decode
// (json.Unmarshal rejects trailing data; a streaming Decoder.Decode stops after the first value).
func c13Parse(r *core.Run) {
	p := r.P
	n := 0
	for _, fn := range p.FuncsIn("internal/llm") {
		rt := resultTypes(fn)
		if len(rt) != 2 || !core.IsNamed(rt[0], modelsPath(p), "LLMResult") || !isErrorType(rt[1]) {
			continue
		}
		// the function that turns the answer text into an LLMResult: it decodes JSON into one (wherever that code lives)
		decodes := false
		core.InstrsOf(fn, func(in ssa.Instruction) {
			if c := core.CallOf(in); c != nil && (core.CalleeName(c) == "encoding/json.Unmarshal" || core.CalleeName(c) == "(*encoding/json.Decoder).Decode") && len(c.Args) == 2 {
				if core.IsNamed(core.Deref(core.Unwrap(c.Args[1]).Type()), modelsPath(p), "LLMResult") {
					decodes = true
				}
			}
		})
		if !decodes {
			continue
		}
		fnm := core.FuncName(fn)
		for _, ret := range core.Returns(fn) {
			if !core.IsNilConst(ret.Results[1]) {
				continue
			}
			u, ok := ret.Results[0].(*ssa.UnOp)
			if !ok {
				continue
			}
			base := u.X
			if _, isAlloc := base.(*ssa.Alloc); !isAlloc {
				continue
			}
			n++
			trailingTest := false
			core.InstrsOf(fn, func(in2 ssa.Instruction) {
				if c2 := core.CallOf(in2); c2 != nil && (core.CalleeName(c2) == "(*encoding/json.Decoder).More" || core.CalleeName(c2) == "(*encoding/json.Decoder).Token") {
					trailingTest = true
				}
			})
			pred := func(x ssa.Value) bool {
				if c, ok := callTo(x, "encoding/json.Unmarshal"); ok && core.Unwrap(c.Call.Args[1]) == base {
					return true
				}
				// a streaming decode counts only together with a trailing-data test (checked below)
				c, ok := callTo(x, "(*encoding/json.Decoder).Decode")
				return ok && trailingTest && core.Unwrap(c.Call.Args[1]) == base
			}
			ok2, n2, path := core.MustPass(fn, ret.Block(), core.NilGuard(pred))
			r.Check(ok2 && n2 > 0, "C13.PARSE", fnm+"#whole-document-decode", ret.Pos(), "the answer is returned only after json.Unmarshal of the whole text into this value succeeded", "the provider's answer is returned without a successful json.Unmarshal of the whole text ("+core.FmtPath(path)+"): a streaming decode accepts a passing object followed by arbitrary trailing data")
		}
	}
	r.Floor("C13.PARSE", "success returns of the answer parser (decodes the text into an LLMResult)", n, 1)
	// no streaming decoder anywhere on the audit path's answer handling
	for _, fn := range p.FuncsIn("internal/llm") {
		core.InstrsOf(fn, func(in ssa.Instruction) {
			if c := core.CallOf(in); c != nil && core.CalleeName(c) == "(*encoding/json.Decoder).Decode" {
				t := core.Deref(core.Unwrap(c.Args[1]).Type())
				if core.IsNamed(t, modelsPath(p), "LLMResult") || core.IsNamed(t, modelsPath(p), "SentinelResponse") {
					more := false
					core.InstrsOf(fn, func(in2 ssa.Instruction) {
						if c2 := core.CallOf(in2); c2 != nil && (core.CalleeName(c2) == "(*encoding/json.Decoder).More" || core.CalleeName(c2) == "(*encoding/json.Decoder).Token") {
							more = true
						}
					})
					r.Check(more, "C13.PARSE", core.FuncName(fn)+"#streaming-decode", in.Pos(), "streaming decode is followed by a trailing-data test", "a verdict-bearing answer is decoded with Decoder.Decode and no trailing-data test: text after the first JSON value is ignored")
				}
			}
		})
	}
}

func c13HTTP(r *core.Run) {
	p := r.P
	nDo, nGen := 0, 0
	for _, fn := range p.FuncsIn("internal/llm") {
		doCalls := core.Calls(fn, func(n string, _ *ssa.CallCommon) bool { return n == "(*net/http.Client).Do" })
		genCalls := core.Calls(fn, func(n string, _ *ssa.CallCommon) bool {
			return strings.HasSuffix(n, "genai.Models).GenerateContent")
		})
		if len(doCalls) == 0 && len(genCalls) == 0 {
			continue
		}
		rt := resultTypes(fn)
		if len(rt) != 2 || !isErrorType(rt[1]) {
			continue
		}
		fnm := core.FuncName(fn)
		for _, ret := range core.Returns(fn) {
			// a success return: nil error, or the (value, error) of a helper handed on unchanged — then the helper's
			// own success returns are examined for the conditions that are not established here
			var delegate *ssa.Function
			if !core.IsNilConst(ret.Results[1]) {
				e0, ok0 := ret.Results[0].(*ssa.Extract)
				e1, ok1 := ret.Results[1].(*ssa.Extract)
				if !ok0 || !ok1 || e0.Tuple != e1.Tuple || e0.Index != 0 || e1.Index != 1 {
					continue
				}
				hc, isCall := e0.Tuple.(*ssa.Call)
				if !isCall {
					continue
				}
				g := core.StaticCallee(&hc.Call)
				if g == nil || !p.IsProdFunc(g) || g.Blocks == nil || g == fn {
					continue
				}
				delegate = g
			}
			if len(doCalls) > 0 {
				nDo++
				statusAtom := func(cond ssa.Value) (bool, bool) {
					op, x, y, neg, ok := core.Compare(cond)
					if !ok || neg {
						return false, false
					}
					if _, isSC := core.FieldLoad(x, "StatusCode"); !isSC {
						return false, false
					}
					if z, isC := core.ConstInt(y); !isC || z != 200 {
						return false, false
					}
					switch op {
					case token.NEQ:
						return true, false
					case token.EQL:
						return true, true
					}
					return false, false
				}
				ok1, n1, p1 := core.MustPass(fn, ret.Block(), statusAtom)
				r.Check(ok1 && n1 > 0, "C13.HTTP", fnm+"#success-needs-200", ret.Pos(), "a body is returned with nil error only under status == 200", "a response is returned as success without status == 200 ("+core.FmtPath(p1)+")")
				roleAtom := func(cond ssa.Value) (bool, bool) {
					op, x, y, neg, ok := core.Compare(cond)
					if !ok || neg || op != token.EQL {
						return false, false
					}
					if _, isRole := core.FieldLoad(x, "Role"); !isRole {
						return false, false
					}
					if s, isC := core.ConstString(y); !isC || (s != "assistant" && s != "model") {
						return false, false
					}
					return true, true
				}
				ok2, n2, p2 := core.MustPass(fn, ret.Block(), roleAtom)
				if !(ok2 && n2 > 0) && delegate != nil {
					ok2, n2 = true, 0
					for _, gret := range core.Returns(delegate) {
						if len(gret.Results) != 2 || !core.IsNilConst(gret.Results[1]) {
							continue
						}
						okg, ng, pg := core.MustPass(delegate, gret.Block(), roleAtom)
						n2 += ng
						if !(okg && ng > 0) {
							ok2, p2 = false, pg
						}
					}
				}
				r.Check(ok2 && n2 > 0, "C13.HTTP", fnm+"#success-needs-role", ret.Pos(), "only assistant/model items are returned", "an item with an arbitrary role is returned as the answer ("+core.FmtPath(p2)+")")
				doErr := func(x ssa.Value) bool {
					e, ok := x.(*ssa.Extract)
					if !ok || e.Index != 1 {
						return false
					}
					for _, d := range doCalls {
						if e.Tuple == d.Value() {
							return true
						}
					}
					return false
				}
				ok3, n3, p3 := core.MustPass(fn, ret.Block(), core.NilGuard(doErr))
				r.Check(ok3 && n3 > 0, "C13.HTTP", fnm+"#success-needs-transport-ok", ret.Pos(), "success only when the HTTP exchange succeeded", "success return reachable after a transport error ("+core.FmtPath(p3)+")")
			}
			if len(genCalls) > 0 {
				nGen++
				genErr := func(x ssa.Value) bool {
					e, ok := x.(*ssa.Extract)
					if !ok || e.Index != 1 {
						return false
					}
					for _, d := range genCalls {
						if e.Tuple == d.Value() {
							return true
						}
					}
					return false
				}
				ok3, n3, p3 := core.MustPass(fn, ret.Block(), core.NilGuard(genErr))
				r.Check(ok3 && n3 > 0, "C13.HTTP", fnm+"#success-needs-generate-ok", ret.Pos(), "success only when GenerateContent succeeded", "success return reachable after a provider error ("+core.FmtPath(p3)+")")
			}
		}
	}
	r.Floor("C13.HTTP", "success returns of the raw HTTP call", nDo, 1)
	r.Floor("C13.HTTP", "success returns of the raw Gemini call", nGen, 1)
}

// c13Env: commit message → payload only through json.Marshal*; nonce discipline.
func c13Env(r *core.Run, producer *ssa.Function) {
	p := r.P
	// prompt builder: callee of the producer returning (string,string,error) that receives the producer's first parameter
	var builders []*ssa.Function
	core.InstrsOf(producer, func(in ssa.Instruction) {
		c := core.CallOf(in)
		if c == nil {
			return
		}
		callee := core.StaticCallee(c)
		if callee == nil || !p.IsProdFunc(callee) {
			return
		}
		rt := resultTypes(callee)
		if len(rt) == 3 && isErrorType(rt[2]) && rt[0].String() == "string" && rt[1].String() == "string" && len(c.Args) > 0 && len(producer.Params) > 0 && c.Args[0] == ssa.Value(producer.Params[0]) {
			builders = append(builders, callee)
		}
	})
	if !r.Floor("C13.ENV", "prompt builder (receives the commit message, returns (system, payload, error))", len(builders), 1) {
		return
	}
	for _, b := range builders {
		bn := core.FuncName(b)
		msg := b.Params[0]
		// forward taint
		tainted := map[ssa.Value]bool{msg: true}
		taintedAlloc := map[*ssa.Alloc]bool{}
		changed := true
		for changed {
			changed = false
			mark := func(v ssa.Value) {
				if v != nil && !tainted[v] {
					tainted[v] = true
					changed = true
				}
			}
			core.InstrsOf(b, func(in ssa.Instruction) {
				switch x := in.(type) {
				case *ssa.Convert:
					if tainted[x.X] {
						mark(x)
					}
				case *ssa.Slice:
					if tainted[x.X] {
						mark(x)
					}
				case *ssa.BinOp:
					if tainted[x.X] || tainted[x.Y] {
						if x.Op == token.ADD {
							mark(x)
						}
					}
				case *ssa.Phi:
					for _, e := range x.Edges {
						if tainted[e] {
							mark(x)
						}
					}
				case *ssa.MakeInterface:
					if tainted[x.X] {
						mark(x)
					}
				case *ssa.ChangeType:
					if tainted[x.X] {
						mark(x)
					}
				case *ssa.Store:
					if tainted[x.Val] {
						root := x.Addr
						for {
							if fa, ok := root.(*ssa.FieldAddr); ok {
								root = fa.X
								continue
							}
							if ia, ok := root.(*ssa.IndexAddr); ok {
								root = ia.X
								continue
							}
							break
						}
						if al, ok := root.(*ssa.Alloc); ok && !taintedAlloc[al] {
							taintedAlloc[al] = true
							changed = true
						}
					}
				case *ssa.UnOp:
					if x.Op == token.MUL {
						root := x.X
						for {
							if fa, ok := root.(*ssa.FieldAddr); ok {
								root = fa.X
								continue
							}
							if ia, ok := root.(*ssa.IndexAddr); ok {
								root = ia.X
								continue
							}
							break
						}
						if al, ok := root.(*ssa.Alloc); ok && taintedAlloc[al] {
							mark(x)
						}
					}
				}
			})
			// slices of tainted allocs (varargs) are tainted values
			core.InstrsOf(b, func(in ssa.Instruction) {
				if sl, ok := in.(*ssa.Slice); ok {
					if al, ok := sl.X.(*ssa.Alloc); ok && taintedAlloc[al] {
						mark(sl)
					}
				}
			})
		}
		allowedSinks := map[string]bool{"unicode/utf8.RuneCountInString": true, "encoding/json.Marshal": true, "encoding/json.MarshalIndent": true, "builtin.len": true}
		nMarshal := 0
		core.InstrsOf(b, func(in ssa.Instruction) {
			c := core.CallOf(in)
			if c == nil {
				return
			}
			name := core.CalleeName(c)
			for _, a := range core.CallArgs(c) {
				isT := tainted[a]
				if al, ok := a.(*ssa.Alloc); ok && taintedAlloc[al] {
					isT = true
				}
				if !isT {
					continue
				}
				if strings.HasPrefix(name, "encoding/json.Marshal") {
					nMarshal++
				}
				r.Check(allowedSinks[name], "C13.ENV", bn+"#commit-msg→"+name, in.Pos(), "commit message flows into an allowed sink", "the untrusted commit message is passed to "+name+": it reaches the prompt outside the JSON string encoding")
			}
		})
		for _, ret := range core.Returns(b) {
			for i, res := range ret.Results {
				if tainted[res] {
					r.Fail("C13.ENV", fmt.Sprintf("%s#return[%d]", bn, i), ret.Pos(), "the raw commit message is returned as part of the prompt")
				}
			}
		}
		r.Floor("C13.ENV", "json.Marshal* of the payload struct carrying the commit message in "+bn, nMarshal, 1)

		// truncation: a RuneCount(msg) > K test exists and the marshalled field is a phi whose raw edge is the false edge
		trunc := false
		core.InstrsOf(b, func(in ssa.Instruction) {
			ifi, ok := in.(*ssa.If)
			if !ok {
				return
			}
			op, x, y, neg, ok := core.Compare(ifi.Cond)
			if !ok || neg || op != token.GTR {
				return
			}
			if c, isRC := callTo(x, "unicode/utf8.RuneCountInString"); isRC && c.Call.Args[0] == ssa.Value(msg) {
				if k, isC := core.ConstInt(y); isC && k <= 2000 {
					// every store of msg-derived value into a field must be the phi merging raw(false edge) and truncated
					trunc = true
					core.InstrsOf(b, func(in2 ssa.Instruction) {
						st, ok := in2.(*ssa.Store)
						if !ok {
							return
						}
						if _, isFA := st.Addr.(*ssa.FieldAddr); !isFA || !tainted[st.Val] {
							return
						}
						if st.Val == ssa.Value(msg) {
							r.Fail("C13.ENV", bn+"#truncation", st.Pos(), "the untruncated commit message is stored into the payload")
							return
						}
						if ph, isPhi := st.Val.(*ssa.Phi); isPhi {
							for i, e := range ph.Edges {
								if e == ssa.Value(msg) && ph.Block().Preds[i] != ifi.Block() {
									r.Fail("C13.ENV", bn+"#truncation", st.Pos(), "the raw commit message reaches the payload on a path other than the length test's false edge")
									return
								}
							}
						}
						r.OK("C13.ENV", bn+"#truncation", st.Pos(), fmt.Sprintf("payload field holds the message only when its rune count ≤ %d, otherwise the truncated form", k))
					})
				}
			}
		})
		r.Check(trunc, "C13.ENV", bn+"#truncation-test", b.Pos(), "length test on the commit message present", "no rune-count limit (≤ 2000) is applied to the commit message before it is marshalled")

		// nonce: the payload format's delimiters take one value from the nonce generator
		c13Nonce(r, b)
	}
}

func c13Nonce(r *core.Run, b *ssa.Function) {
	p := r.P
	bn := core.FuncName(b)
	found := 0
	core.InstrsOf(b, func(in ssa.Instruction) {
		c, ok := in.(*ssa.Call)
		if !ok || core.CalleeName(&c.Call) != "fmt.Sprintf" {
			return
		}
		format, ok := core.ConstString(c.Call.Args[0])
		if !ok || !strings.Contains(format, "BEGIN") || !strings.Contains(format, "END") {
			return
		}
		found++
		args, ok := varargElems(c.Call.Args[1])
		if !ok {
			r.Fail("C13.ENV", bn+"#envelope", c.Pos(), "cannot resolve envelope arguments")
			return
		}
		// verbs in order
		var verbs []int // index positions of %s occurrences, classify by surrounding text
		idx := 0
		var delimArgs []int
		for i := 0; i+1 < len(format); i++ {
			if format[i] == '%' {
				if format[i+1] == '%' {
					i++
					continue
				}
				lineStart := strings.LastIndexByte(format[:i], '\n') + 1
				lineEnd := strings.IndexByte(format[i:], '\n')
				if lineEnd < 0 {
					lineEnd = len(format) - i
				}
				line := format[lineStart : i+lineEnd]
				if strings.Contains(line, "BEGIN") || strings.Contains(line, "END") {
					delimArgs = append(delimArgs, idx)
				}
				verbs = append(verbs, idx)
				idx++
			}
		}
		if len(delimArgs) < 2 || len(verbs) != len(args) {
			r.Fail("C13.ENV", bn+"#envelope", c.Pos(), fmt.Sprintf("envelope format has %d delimiter holes / %d verbs for %d args", len(delimArgs), len(verbs), len(args)))
			return
		}
		first := core.Unwrap(args[delimArgs[0]])
		same := true
		for _, d := range delimArgs {
			if core.Unwrap(args[d]) != first {
				same = false
			}
		}
		r.Check(same, "C13.ENV", bn+"#envelope-one-nonce", c.Pos(), "both delimiters are filled from one value", "the BEGIN and END delimiters are filled from different values")
		// nonce origin: Extract#0 of a call through the nonce generator
		okOrigin := false
		var genGlobal *ssa.Global
		for _, o := range core.Origins(first) {
			ex, isEx := o.(*ssa.Extract)
			if !isEx || ex.Index != 0 {
				continue
			}
			call, isCall := ex.Tuple.(*ssa.Call)
			if !isCall {
				continue
			}
			if u, isLoad := call.Call.Value.(*ssa.UnOp); isLoad {
				if g, isG := u.X.(*ssa.Global); isG {
					genGlobal = g
					okOrigin = true
				}
			}
			if callee := core.StaticCallee(&call.Call); callee != nil && usesCryptoRand(callee) {
				okOrigin = true
			}
			// ... of a length that makes it unguessable: a constant request of at least 8 random bytes (an empty
			// nonce turns the delimiters into constants a commit message can reproduce)
			if okOrigin && len(call.Call.Args) >= 1 {
				k, isK := core.ConstInt(call.Call.Args[len(call.Call.Args)-1])
				r.Check(isK && k >= 8, "C13.ENV", bn+"#nonce-length", call.Pos(), fmt.Sprintf("the nonce request is for %d random bytes", k), fmt.Sprintf("the delimiter nonce is requested with length %s: with fewer than 8 random bytes (0 = empty) the envelope markers are predictable and untrusted text can forge them", core.Canon(call.Call.Args[len(call.Call.Args)-1])))
			}
		}
		r.Check(okOrigin, "C13.ENV", bn+"#nonce-origin", c.Pos(), "delimiter nonce comes from the nonce generator", "delimiter value is "+core.Canon(first)+", not a nonce from the generator")
		if genGlobal != nil {
			// default implementation: the function stored to the global in init
			nStores := 0
			for _, fn := range p.Funcs {
				core.InstrsOf(fn, func(in2 ssa.Instruction) {
					st, ok := in2.(*ssa.Store)
					if !ok || st.Addr != ssa.Value(genGlobal) {
						return
					}
					nStores++
					impl, _ := core.Unwrap(st.Val).(*ssa.Function)
					if mc, isMC := st.Val.(*ssa.MakeClosure); isMC {
						impl, _ = mc.Fn.(*ssa.Function)
					}
					if fn.Name() != "init" {
						r.Fail("C13.ENV", "llm."+genGlobal.Name()+"#reassigned", st.Pos(), "the nonce generator is replaced at run time in "+core.FuncName(fn))
						return
					}
					if impl == nil {
						r.Fail("C13.ENV", "llm."+genGlobal.Name()+"#default", st.Pos(), "cannot resolve the default nonce generator")
						return
					}
					r.Check(usesCryptoRand(impl), "C13.ENV", "llm."+genGlobal.Name()+"#crypto-rand", st.Pos(), "default nonce generator reads crypto/rand", "default nonce generator does not read crypto/rand: delimiters are predictable")
					// success return only when rand.Read err == nil
					for _, ret := range core.Returns(impl) {
						if len(ret.Results) == 2 && core.IsNilConst(ret.Results[1]) {
							pred := func(x ssa.Value) bool {
								e, ok := x.(*ssa.Extract)
								if !ok || e.Index != 1 {
									return false
								}
								_, isRand := callTo(e.Tuple, "crypto/rand.Read")
								return isRand
							}
							ok2, n2, path := core.MustPass(impl, ret.Block(), core.NilGuard(pred))
							r.Check(ok2 && n2 > 0, "C13.ENV", "llm."+genGlobal.Name()+"#rand-error-propagated", ret.Pos(), "nonce returned only when rand.Read succeeded", "a nonce is returned although crypto/rand failed ("+core.FmtPath(path)+")")
						}
					}
				})
			}
			r.Floor("C13.ENV", "initialiser of the nonce generator variable", nStores, 1)
		}
	})
	r.Floor("C13.ENV", "envelope format (BEGIN/END) in "+bn, found, 1)
}

func usesCryptoRand(fn *ssa.Function) bool {
	found := false
	core.InstrsOf(fn, func(in ssa.Instruction) {
		if core.IsCallTo(in, "crypto/rand.Read") {
			found = true
		}
	})
	return found
}

// isZeroValue: the zero value of a type (a nil-valued constant of struct type or an empty composite).
func isZeroValue(v ssa.Value) bool {
	c, ok := v.(*ssa.Const)
	return ok && c.Value == nil
}

// c13Screened: the injection screen looks at the UNTRUSTED text: the string handed to the sentinel is the payload the
// prompt builder made from the commit message (the result that went through json.Marshal and the nonce envelope),
// not the constant system prompt. Screening the wrong result lets every hostile message through to the auditor.
func c13Screened(r *core.Run) {
	p := r.P
	n := 0
	for _, fn := range p.FuncsIn("internal/llm") {
		// the builder call: (string, string, error) from a repository function that receives the commit message
		core.InstrsOf(fn, func(in ssa.Instruction) {
			c, ok := in.(*ssa.Call)
			if !ok {
				return
			}
			g := core.StaticCallee(&c.Call)
			if g == nil || !p.IsProdFunc(g) {
				return
			}
			rt := resultTypes(g)
			// the sentinel: (bool, string, error)
			if len(rt) != 3 || rt[0].String() != "bool" || rt[1].String() != "string" || rt[2].String() != "error" {
				return
			}
			// which of its string arguments comes from a (string, string, error) builder, and from which result
			for _, a := range c.Call.Args {
				ex, isEx := core.Unwrap(a).(*ssa.Extract)
				if !isEx {
					continue
				}
				bc, isCall := ex.Tuple.(*ssa.Call)
				if !isCall {
					continue
				}
				b := core.StaticCallee(&bc.Call)
				if b == nil || !p.IsProdFunc(b) {
					continue
				}
				brt := resultTypes(b)
				if len(brt) != 3 || brt[0].String() != "string" || brt[1].String() != "string" {
					continue
				}
				// the payload result: the one built from json.Marshal* output in the builder
				payloadIdx := -1
				for _, ret := range core.Returns(b) {
					for i := 0; i < 2; i++ {
						seen := map[ssa.Value]bool{}
						var uses func(v ssa.Value, d int) bool
						uses = func(v ssa.Value, d int) bool {
							if v == nil || seen[v] || d > 12 {
								return false
							}
							seen[v] = true
							if cc, ok := v.(*ssa.Call); ok && strings.HasPrefix(core.CalleeName(&cc.Call), "encoding/json.Marshal") {
								return true
							}
							if cc, ok := v.(*ssa.Call); ok {
								for _, aa := range cc.Call.Args {
									if elems, isVar := varargElems(aa); isVar {
										for _, e := range elems {
											if uses(core.Unwrap(e), d+1) {
												return true
											}
										}
									}
								}
							}
							if inn, ok := v.(ssa.Instruction); ok {
								for _, op := range inn.Operands(nil) {
									if op != nil && *op != nil && uses(*op, d+1) {
										return true
									}
								}
							}
							return false
						}
						if i < len(ret.Results) && uses(ret.Results[i], 0) {
							payloadIdx = i
						}
					}
				}
				if payloadIdx < 0 {
					continue
				}
				n++
				r.Check(ex.Index == payloadIdx, "C13.SENT", core.FuncName(fn)+"#screens-the-untrusted-payload", in.Pos(), "the sentinel is handed the payload built from the commit message", fmt.Sprintf("the sentinel is handed result %d of %s, but the untrusted commit message is in result %d: the screen only ever sees the constant system prompt, so a hostile message goes straight to the auditor and its MATCH is reported", ex.Index, core.FuncName(b), payloadIdx))
			}
		})
	}
	r.Floor("C13.SENT", "sentinel calls fed from the prompt builder", n, 0)
}
