package rules

import (
	"fmt"
	"go/token"
	"sort"
	"strings"

	"golang.org/x/tools/go/ssa"

	"sfwverif/internal/core"
)

const pebblePath = "github.com/cockroachdb/pebble"

func init() { register("C20", c20) }

var c20Protected = []string{"/etc", "/root", "/usr", "/bin", "/sbin", "/boot"}

func c20(r *core.Run) {
	p := r.P
	r.Explain = "C20 decided structurally on linux/amd64 (the GOOS test is folded): (GATE) pebble.Open is called at exactly one production site and that call (and any Stat of the path) is reachable only after every element of the protected list failed the containment test; (ABS/RESOLVED) on every incoming path the compared string is absolute AND symlink-resolved: it is the result of a successful EvalSymlinks applied to an Abs-derived value (the path itself or an existing ancestor), possibly extended by Join with the not-yet-existing remainder — followed through helper functions' return values; (BOUNDARY) the containment test is one of the enumerated boundary-aware idioms (p == d || HasPrefix(p, d+\"/\"), HasPrefix(p+\"/\", d+\"/\")), never a bare HasPrefix(p, d); the protected list contains the six confirmed directories. Not decided: file-system races between the check and the open (TOCTOU), behaviour on other operating systems."
	r.Undecided = []string{"TOCTOU between guard and pebble.Open", "non-linux platforms (the guard is linux-only by design)"}
	r.Assume = []string{"filepath.Abs/EvalSymlinks/Join/Dir/Clean behave as documented", "path components that do not exist cannot be symlinks"}

	type site struct {
		fn   *ssa.Function
		call ssa.CallInstruction
	}
	var opens []site
	for _, fn := range p.Funcs {
		for _, ci := range core.Calls(fn, func(n string, _ *ssa.CallCommon) bool { return n == pebblePath+".Open" }) {
			opens = append(opens, site{fn, ci})
		}
	}
	if len(opens) != 1 {
		r.Fail("C20.GATE", "pebble.Open#sites", token.NoPos, fmt.Sprintf("pebble.Open is called at %d production sites (expected exactly 1, the guarded constructor)", len(opens)))
		for _, s := range opens {
			r.Note("pebble.Open in %s at %s", core.FuncName(s.fn), p.Pos(s.call.Pos()))
		}
		if len(opens) == 0 {
			return
		}
	} else {
		r.OK("C20.GATE", "pebble.Open#sites", opens[0].call.Pos(), "exactly one production call site: "+core.FuncName(opens[0].fn))
	}
	for _, s := range opens {
		fn, call := s.fn, s.call
		// the open may live in a helper of the constructor (retry loop extracted): the guard is then judged in the
		// caller, with the helper call standing for the open
		for d := 0; d < 2 && !hasProtectedListTest(fn); d++ {
			var sites []site
			for _, caller := range p.Funcs {
				if !p.IsProdFunc(caller) || caller == fn {
					continue
				}
				for _, ci := range core.Calls(caller, func(_ string, c *ssa.CallCommon) bool { return core.StaticCallee(c) == fn }) {
					sites = append(sites, site{caller, ci})
				}
			}
			if len(sites) != 1 {
				break
			}
			fn, call = sites[0].fn, sites[0].call
		}
		c20Ctor(r, fn, call)
	}
	c20Kernel(r)
	c20SameSpelling(r)
}

// c20Kernel: the location is resolved the way the kernel will resolve the spelling when the database is opened:
// symbolic links are followed BEFORE ".." is applied. The spelling handed to EvalSymlinks must therefore not have
// gone through a lexically cleaning function (filepath.Abs, Clean, Join, Dir, Base) — for `link/../db` with
// link → /etc/ssl cleaning yields `./db`, the kernel opens /etc/db.
// c20SameSpelling: what is vetted is the spelling that is opened: the resolver is applied to the constructor's path
// parameter itself, not to a part of it (its directory, its base) — vetting only the directory lets a leaf that is a
// symlink into a protected directory through.
func c20SameSpelling(r *core.Run) {
	p := r.P
	n := 0
	for _, fn := range p.FuncsIn(storeRel) {
		core.InstrsOf(fn, func(in ssa.Instruction) {
			c, ok := in.(*ssa.Call)
			if !ok {
				return
			}
			g := core.StaticCallee(&c.Call)
			if g == nil || !p.IsProdFunc(g) || g == fn || len(c.Call.Args) != 1 {
				return
			}
			// g is the resolver: it applies EvalSymlinks to (something derived from) its parameter
			resolves := false
			core.InstrsOf(g, func(in2 ssa.Instruction) {
				if core.IsCallTo(in2, "path/filepath.EvalSymlinks") {
					resolves = true
				}
			})
			if !resolves {
				return
			}
			n++
			_, isParam := core.Unwrap(c.Call.Args[0]).(*ssa.Parameter)
			r.Check(isParam, "C20.RESOLVED", core.FuncName(fn)+"#resolver-gets-the-opened-spelling", in.Pos(), "the resolver is applied to the path parameter itself", "the resolver is applied to "+core.Canon(c.Call.Args[0])+", not to the path that is opened: only a part of the spelling is vetted, so a leaf that is a symlink into a protected directory (or the protected directory itself) is not refused")
		})
	}
	r.Floor("C20.RESOLVED", "calls of the location resolver", n, 1)
}

func c20Kernel(r *core.Run) {
	p := r.P
	n := 0
	cleaning := map[string]bool{"path/filepath.Abs": true, "path/filepath.Clean": true, "path/filepath.Join": true, "path/filepath.Dir": true, "path/filepath.Base": true, "path/filepath.Rel": true, "path.Clean": true, "path.Join": true}
	for _, fn := range p.FuncsIn(storeRel) {
		core.InstrsOf(fn, func(in ssa.Instruction) {
			c, ok := in.(*ssa.Call)
			if !ok || core.CalleeName(&c.Call) != "path/filepath.EvalSymlinks" {
				return
			}
			n++
			bad := ""
			seen := map[ssa.Value]bool{}
			var walk func(v ssa.Value, d int)
			walk = func(v ssa.Value, d int) {
				if v == nil || seen[v] || d > 14 || bad != "" {
					return
				}
				seen[v] = true
				switch x := v.(type) {
				case *ssa.Call:
					name := core.CalleeName(&x.Call)
					if cleaning[name] {
						bad = name
						return
					}
					if strings.HasPrefix(name, "strings.") && len(x.Call.Args) > 0 {
						walk(x.Call.Args[0], d+1)
					}
					return
				case *ssa.Extract:
					walk(x.Tuple, d+1)
					return
				case *ssa.Phi:
					for _, e := range x.Edges {
						walk(e, d+1)
					}
					return
				case *ssa.Slice:
					walk(x.X, d+1)
					return
				case *ssa.BinOp:
					walk(x.X, d+1)
					walk(x.Y, d+1)
					return
				}
			}
			walk(c.Call.Args[0], 0)
			r.Check(bad == "", "C20.KERNEL", core.FuncName(fn)+"#resolves-before-cleaning", in.Pos(), "the spelling handed to EvalSymlinks has not been cleaned lexically", "the spelling handed to EvalSymlinks went through "+bad+", which removes `..` lexically: for `link/../db` with link → a protected directory's child the guard vets `./db` while the kernel opens the database inside the protected directory")
		})
	}
	r.Floor("C20.KERNEL", "symlink resolutions of the database path", n, 1)
}

// hasProtectedListTest: fn tests something against the elements of a constant list of strings (in a loop, or through
// slices.ContainsFunc).
func hasProtectedListTest(fn *ssa.Function) bool {
	found := false
	core.InstrsOf(fn, func(in ssa.Instruction) {
		switch x := in.(type) {
		case *ssa.IndexAddr:
			if strs, ok := stringElems(x.X); ok && len(strs) > 2 {
				found = true
			}
		case *ssa.Call:
			if strings.HasPrefix(core.CalleeName(&x.Call), "slices.ContainsFunc") && len(x.Call.Args) == 2 {
				if strs, ok := stringElems(x.Call.Args[0]); ok && len(strs) > 2 {
					found = true
				}
			}
		}
	})
	return found
}

func c20Ctor(r *core.Run, fn *ssa.Function, open ssa.CallInstruction) {
	fnm := core.FuncName(fn)
	// the guard loop: an If inside a loop over a constant string list whose reject edge returns
	type guard struct {
		ifi   *ssa.If
		list  []string
		test  ssa.Value
		p, d  ssa.Value
		rej   int
		inner *ssa.Function
		whole bool      // the test covers the whole list by itself (library call), no loop to reason about
		pArg  ssa.Value // the path operand as written in the test call (a captured variable's load inside a closure)
	}
	var guards []guard
	for _, b := range fn.Blocks {
		if len(b.Instrs) == 0 {
			continue
		}
		ifi, ok := b.Instrs[len(b.Instrs)-1].(*ssa.If)
		if !ok {
			continue
		}
		base, neg := core.StripNot(ifi.Cond)
		// find the list element operand: a load of IndexAddr into a constant string slice
		var elem, other ssa.Value
		var list []string
		var inner *ssa.Function
		consider := func(args []ssa.Value) bool {
			for i, a := range args {
				if u, isLoad := a.(*ssa.UnOp); isLoad && u.Op == token.MUL {
					if ia, isIA := u.X.(*ssa.IndexAddr); isIA {
						if strs, isConst := stringElems(ia.X); isConst && len(strs) > 0 {
							elem, list = a, strs
							if len(args) == 2 {
								other = args[1-i]
							}
							return true
						}
					}
				}
			}
			return false
		}
		switch x := base.(type) {
		case *ssa.Call:
			// slices.ContainsFunc(list, func(d string) bool { return test(p, d) }): the library walks the whole list
			if strings.HasPrefix(core.CalleeName(&x.Call), "slices.ContainsFunc") && len(x.Call.Args) == 2 {
				strs, isConst := stringElems(x.Call.Args[0])
				cl := closureFunc(x.Call.Args[1])
				if !isConst || cl == nil || len(cl.Params) != 1 {
					continue
				}
				var tcall *ssa.Call
				for _, ret := range core.Returns(cl) {
					if c, ok := ret.Results[0].(*ssa.Call); ok {
						tcall = c
					}
				}
				if tcall == nil || len(tcall.Call.Args) != 2 {
					continue
				}
				rej := 0
				if neg {
					rej = 1
				}
				var pv, dv, praw ssa.Value
				for _, a := range tcall.Call.Args {
					if a == ssa.Value(cl.Params[0]) {
						dv = a
					} else {
						pv, praw = core.Resolve(a), a
					}
				}
				if pv == nil || dv == nil {
					continue
				}
				guards = append(guards, guard{ifi: ifi, list: strs, test: tcall, p: pv, d: dv, rej: rej, inner: core.StaticCallee(&tcall.Call), whole: true, pArg: praw})
				continue
			}
			if !consider(x.Call.Args) {
				continue
			}
			inner = core.StaticCallee(&x.Call)
		case *ssa.BinOp:
			if !consider([]ssa.Value{x.X, x.Y}) {
				continue
			}
		default:
			continue
		}
		if other == nil {
			continue
		}
		rej := 0
		if neg {
			rej = 1
		}
		guards = append(guards, guard{ifi: ifi, list: list, test: base, p: other, d: elem, rej: rej, inner: inner})
	}
	if !r.Floor("C20.GATE", "protected-directory test loop in "+fnm, len(guards), 1) {
		return
	}
	for _, g := range guards {
		have := map[string]bool{}
		for _, s := range g.list {
			have[s] = true
		}
		for _, d := range c20Protected {
			r.Check(have[d], "C20.GATE", fnm+"#protected("+d+")", g.ifi.Pos(), "directory is in the protected list", "confirmed protected directory "+d+" is no longer in the list")
		}
		// reject edge must not reach Open; loop must dominate Open
		forAll := func(sink *ssa.BasicBlock) (bool, string) {
			if !g.whole {
				return core.ForAllGuard(g.ifi, g.rej, sink)
			}
			cv := g.ifi.Cond
			ok1, n1, path := core.MustPass(fn, sink, func(cond ssa.Value) (bool, bool) { return cond == cv, g.rej == 1 })
			if ok1 && n1 > 0 {
				return true, ""
			}
			return false, "the list test can be bypassed (" + core.FmtPath(path) + ")"
		}
		ok, why := forAll(open.Block())
		r.Check(ok, "C20.GATE", fnm+"#open-after-guard", open.Pos(), "pebble.Open is reachable only after the whole protected list failed the containment test", "pebble.Open is reachable without the protected-directory check: "+why)
		// reject edge leads to an error return (non-nil error, nil scanner)
		rejBlock := g.ifi.Block().Succs[g.rej]
		for _, ret := range core.Returns(fn) {
			if reach := core.ReachAvoiding(rejBlock, nil); reach[ret.Block()] {
				last := ret.Results[len(ret.Results)-1]
				r.Check(!core.IsNilConst(last), "C20.GATE", fnm+"#refusal-is-error", ret.Pos(), "a hit in the protected list ends in an error return", "a hit in the protected list can end in a success return")
			}
		}
		// other file-system effects on the path before the guard
		core.InstrsOf(fn, func(in ssa.Instruction) {
			if core.IsCallTo(in, "os.Stat", "os.MkdirAll", "os.Mkdir", "os.Create", "os.OpenFile") {
				ok2, why2 := forAll(in.Block())
				r.Check(ok2, "C20.GATE", fnm+"#"+core.CalleeName(core.CallOf(in))+"-after-guard", in.Pos(), "file-system access to the database path happens after the guard", "file-system access before the protected-directory check: "+why2)
			}
		})
		if g.whole {
			c20ProvenanceAt(r, fn, g.p, fnm, g.ifi.Block())
			c20Boundary(r, fn, g.test, g.pArg, g.d, g.inner, fnm)
			continue
		}
		c20Provenance(r, fn, g.p, fnm)
		c20Boundary(r, fn, g.test, g.p, g.d, g.inner, fnm)
	}
}

// ---- provenance: absolute and resolved

type c20ctx struct {
	r     *core.Run
	depth int
	seen  map[ssa.Value]string
}

// absOf explains why v is NOT Abs-derived ("" if it is).
func (c *c20ctx) absOf(v ssa.Value, d int) string {
	if d > 12 {
		return "provenance too deep"
	}
	switch x := v.(type) {
	case *ssa.Phi:
		for i, e := range x.Edges {
			if e == ssa.Value(x) {
				continue
			}
			// the raw spelling is absolute on the edge that filepath.IsAbs(spelling) guards
			if _, isParam := e.(*ssa.Parameter); isParam && i < len(x.Block().Preds) {
				pred := func(v ssa.Value) bool {
					call, ok := callTo(v, "path/filepath.IsAbs")
					return ok && call.Call.Args[0] == e
				}
				ok, n, _ := core.MustPassUse(x.Parent(), core.Use{At: x.Block(), Via: x.Block().Preds[i]}, core.BoolGuard(pred, true))
				if ok && n > 0 {
					continue
				}
			}
			if why := c.absPhiEdge(x, e, d+1); why != "" {
				return why
			}
		}
		return ""
	case *ssa.Const:
		if sv, ok := core.ConstString(x); ok && strings.HasPrefix(sv, "/") {
			return ""
		}
		return "constant " + core.Canon(v) + " is not an absolute path"
	case *ssa.BinOp:
		// string concatenation: absolute if it starts with an absolute path (the working directory)
		if x.Op == token.ADD {
			return c.absOf(x.X, d+1)
		}
		return "value " + core.Canon(v) + " is not Abs-derived"
	case *ssa.Slice:
		// a prefix cut at a separator (the empty prefix is replaced by "/" where this is used)
		if x.Low == nil {
			return c.absOf(x.X, d+1)
		}
		return "value " + core.Canon(v) + " is not a prefix of an absolute path"
	case *ssa.Extract:
		if call, ok := callTo(x.Tuple, "path/filepath.Abs"); ok && x.Index == 0 {
			_ = call
			return ""
		}
		if _, ok := callTo(x.Tuple, "os.Getwd"); ok && x.Index == 0 {
			return ""
		}
		if call, ok := callTo(x.Tuple, "path/filepath.EvalSymlinks"); ok && x.Index == 0 {
			return c.absOf(call.Call.Args[0], d+1)
		}
		return "value " + core.Canon(v) + " is not the result of filepath.Abs"
	case *ssa.Call:
		switch core.CalleeName(&x.Call) {
		case "path/filepath.Dir", "path/filepath.Clean", "strings.TrimRight", "strings.TrimSuffix":
			return c.absOf(x.Call.Args[0], d+1)
		case "path/filepath.Join":
			elems, ok := varargElems(x.Call.Args[0])
			if !ok || len(elems) == 0 {
				return "cannot resolve Join arguments"
			}
			return c.absOf(elems[0], d+1)
		}
		return "value " + core.Canon(v) + " is not Abs-derived"
	}
	return "value " + core.Canon(v) + " is not Abs-derived (raw spelling)"
}

func (c *c20ctx) absPhiEdge(phi *ssa.Phi, e ssa.Value, d int) string {
	if p2, ok := e.(*ssa.Phi); ok && p2 == phi {
		return ""
	}
	// cycles through loop-carried phis: remember
	if c.seen == nil {
		c.seen = map[ssa.Value]string{}
	}
	key := e
	if w, ok := c.seen[key]; ok {
		return w
	}
	c.seen[key] = ""
	w := c.absOf(e, d)
	c.seen[key] = w
	return w
}

// resolvedOf explains why v is NOT (absolute ∧ symlink-resolved) at use site `at` ("" if it is).
func (c *c20ctx) resolvedOf(fn *ssa.Function, v ssa.Value, at core.Use, d int) string {
	if d > 10 {
		return "provenance too deep"
	}
	switch x := v.(type) {
	case *ssa.Phi:
		for i, e := range x.Edges {
			if why := c.resolvedOf(fn, e, core.Use{At: x.Block(), Via: x.Block().Preds[i]}, d+1); why != "" {
				return fmt.Sprintf("on the path through b%d: %s", x.Block().Preds[i].Index, why)
			}
		}
		return ""
	case *ssa.Extract:
		call, isCall := x.Tuple.(*ssa.Call)
		if !isCall {
			return "value " + core.Canon(v) + " is not a resolved path"
		}
		name := core.CalleeName(&call.Call)
		if name == "path/filepath.EvalSymlinks" && x.Index == 0 {
			// successful: the use must be dominated by err == nil of this call
			pred := func(e ssa.Value) bool {
				ex, ok := e.(*ssa.Extract)
				return ok && ex.Tuple == x.Tuple && ex.Index == 1
			}
			ok, n, path := core.MustPassUse(fn, at, core.NilGuard(pred))
			if !(ok && n > 0) {
				return "EvalSymlinks result is used without err == nil (" + core.FmtPath(path) + ")"
			}
			if why := c.absOf(call.Call.Args[0], 0); why != "" {
				return "EvalSymlinks is applied to a non-absolute spelling: " + why
			}
			return ""
		}
		if name == "path/filepath.Abs" {
			return "filepath.Abs result is not symlink-resolved (a symlinked ancestor stays unresolved)"
		}
		callee := core.StaticCallee(&call.Call)
		if callee != nil && c.r.P.IsProdFunc(callee) && x.Index == 0 {
			// every success return of the helper must be resolved
			n := 0
			for _, ret := range core.Returns(callee) {
				last := ret.Results[len(ret.Results)-1]
				if !core.IsNilConst(last) {
					continue
				}
				n++
				if why := c.resolvedOf(callee, ret.Results[0], core.Use{At: ret.Block()}, d+1); why != "" {
					return "helper " + core.FuncName(callee) + " returns (" + c.r.P.Pos(ret.Pos()) + ") an unresolved value: " + why
				}
			}
			if n == 0 {
				return "helper " + core.FuncName(callee) + " has no success return"
			}
			// and the use must be dominated by helper err == nil
			pred := func(e ssa.Value) bool {
				ex, ok := e.(*ssa.Extract)
				return ok && ex.Tuple == x.Tuple && ex.Index > 0
			}
			ok, ng, path := core.MustPassUse(fn, at, core.NilGuard(pred))
			if !(ok && ng > 0) {
				return "helper result is used without err == nil (" + core.FmtPath(path) + ")"
			}
			return ""
		}
		return "value " + core.Canon(v) + " is not a resolved path"
	case *ssa.Call:
		switch core.CalleeName(&x.Call) {
		case "path/filepath.Clean":
			return c.resolvedOf(fn, x.Call.Args[0], at, d+1)
		case "path/filepath.Join":
			elems, ok := varargElems(x.Call.Args[0])
			if !ok || len(elems) == 0 {
				return "cannot resolve Join arguments"
			}
			return c.resolvedOf(fn, elems[0], core.Use{At: x.Block()}, d+1)
		}
	}
	return "value " + core.Canon(v) + " is neither a successful EvalSymlinks result nor derived from one"
}

func c20Provenance(r *core.Run, fn *ssa.Function, pv ssa.Value, fnm string) {
	c := &c20ctx{r: r}
	// at the guard: the use block is where the test is computed
	at := fn.Blocks[0]
	if in, ok := pv.(ssa.Instruction); ok {
		at = in.Block()
	}
	// use site: any block where pv is compared; take the blocks of its referrers
	why := ""
	if refs := pv.Referrers(); refs != nil {
		for _, ref := range *refs {
			if w := c.resolvedOf(fn, pv, core.Use{At: ref.Block()}, 0); w != "" {
				why = w
				break
			}
		}
	} else {
		why = c.resolvedOf(fn, pv, core.Use{At: at}, 0)
	}
	r.Check(why == "", "C20.RESOLVED", fnm+"#guarded-path", pv.Pos(), "the compared path is absolute and symlink-resolved on every incoming path", "the path compared against the protected list is not the location the database would occupy: "+why)
}

// c20ProvenanceAt: as c20Provenance, with the use site given (the block of the list test).
func c20ProvenanceAt(r *core.Run, fn *ssa.Function, pv ssa.Value, fnm string, at *ssa.BasicBlock) {
	c := &c20ctx{r: r}
	why := c.resolvedOf(fn, pv, core.Use{At: at}, 0)
	r.Check(why == "", "C20.RESOLVED", fnm+"#guarded-path", pv.Pos(), "the compared path is absolute and symlink-resolved on every incoming path", "the path compared against the protected list is not the location the database would occupy: "+why)
}

// ---- boundary-aware containment

func c20Boundary(r *core.Run, fn *ssa.Function, test, pv, dv ssa.Value, inner *ssa.Function, fnm string) {
	where := fn
	var P, D ssa.Value = pv, dv
	if inner != nil && r.P.IsProdFunc(inner) {
		call := test.(*ssa.Call)
		where = inner
		for i, a := range call.Call.Args {
			if a == pv {
				P = inner.Params[i]
			}
			if a == dv {
				D = inner.Params[i]
			}
		}
	} else if inner != nil {
		// direct call of a library predicate
		name := core.CalleeName(&test.(*ssa.Call).Call)
		r.Fail("C20.BOUNDARY", fnm+"#containment-test", test.Pos(), "containment is tested with a bare "+name+"(path, dir): not boundary-aware (/etcetera is refused, or /etc itself is missed)")
		return
	}
	isD := func(v ssa.Value) bool { return v == D }
	isP := func(v ssa.Value) bool { return v == P }
	withSep := func(v ssa.Value, is func(ssa.Value) bool) bool {
		b, ok := v.(*ssa.BinOp)
		if !ok || b.Op != token.ADD || !is(b.X) {
			return false
		}
		s, isC := core.ConstString(b.Y)
		return isC && s == "/"
	}
	hasEq, nPrefix := false, 0
	var problems []string
	core.InstrsOf(where, func(in ssa.Instruction) {
		switch x := in.(type) {
		case *ssa.BinOp:
			if x.Op == token.EQL && ((isP(x.X) && isD(x.Y)) || (isD(x.X) && isP(x.Y))) {
				hasEq = true
			}
		case *ssa.Call:
			name := core.CalleeName(&x.Call)
			if name != "strings.HasPrefix" {
				return
			}
			a0, a1 := x.Call.Args[0], x.Call.Args[1]
			switch {
			case withSep(a0, isP) && withSep(a1, isD):
				nPrefix++
				hasEq = true // p+"/" covers equality
			case isP(a0) && withSep(a1, isD):
				nPrefix++
			case isP(a0) && isD(a1):
				problems = append(problems, "bare strings.HasPrefix(path, dir) at "+r.P.Pos(x.Pos()))
			}
		}
	})
	sort.Strings(problems)
	construct := fnm + "#containment-test"
	switch {
	case len(problems) > 0:
		r.Fail("C20.BOUNDARY", construct, test.Pos(), "containment test is not boundary-aware: "+strings.Join(problems, "; "))
	case nPrefix == 0:
		r.Fail("C20.BOUNDARY", construct, test.Pos(), "no enumerated containment idiom found (expected p == d || HasPrefix(p, d+\"/\") or HasPrefix(p+\"/\", d+\"/\"))")
	case !hasEq:
		r.Fail("C20.BOUNDARY", construct, test.Pos(), "HasPrefix(p, d+\"/\") without p == d: the protected directory itself is not refused")
	default:
		r.OK("C20.BOUNDARY", construct, test.Pos(), "boundary-aware containment idiom in "+core.FuncName(where))
	}
	// the predicate's result must be exactly eq || prefix: every return is a phi/const of those tests
	if where != fn {
		for _, ret := range core.Returns(where) {
			for _, o := range core.Origins(ret.Results[0]) {
				switch x := o.(type) {
				case *ssa.Const:
					continue
				case *ssa.BinOp:
					if x.Op == token.EQL {
						continue
					}
				case *ssa.Call:
					if core.CalleeName(&x.Call) == "strings.HasPrefix" {
						continue
					}
				}
				r.Fail("C20.BOUNDARY", construct+"/result", ret.Pos(), "containment predicate returns "+core.Canon(o)+": not one of the enumerated tests")
			}
		}
	}
}
