package rules

import (
	"fmt"
	"go/ast"
	"go/token"
	"go/types"
	"sort"
	"strings"

	"golang.org/x/tools/go/packages"
	"golang.org/x/tools/go/ssa"

	"sfwverif/internal/core"
)

func init() { register("C04", c04) }

// scalar attributes that `types.Identical` on the value type or operand mismatch already imply
var c04ScalarExceptions = map[string]string{
	"Lookup.CommaOk":   "implied by types.Identical on the value type (tuple vs. single value), which areEquivalent checks first",
	"Next.IsString":    "implied by the type of the iterated operand",
	"Alloc.Comment":    "cosmetic",
	"Phi.Comment":      "cosmetic",
	"Alloc.Heap":       "escape-analysis artefact (compared today, not required)",
	"Defer.DeferStack": "an operand in go/ssa's Operands()",
}

// scalarFields lists the non-operand (scalar) attributes of an instruction struct: fields of type
// token.Token, int, bool, types.Type, plus the invoke mode / method of an embedded CallCommon.
func scalarFields(st *types.Struct) []string {
	var out []string
	for i := 0; i < st.NumFields(); i++ {
		f := st.Field(i)
		if !f.Exported() {
			continue
		}
		if n, ok := f.Type().(*types.Named); ok && n.Obj().Name() == "CallCommon" {
			out = append(out, "Call.IsInvoke()", "Call.Method")
			continue
		}
		switch t := f.Type().(type) {
		case *types.Basic:
			if t.Kind() == types.Int || t.Kind() == types.Bool {
				out = append(out, f.Name())
			}
		case *types.Named:
			switch t.Obj().Name() {
			case "Token":
				out = append(out, f.Name())
			case "Type":
				if t.Obj().Pkg() != nil && t.Obj().Pkg().Path() == "go/types" {
					out = append(out, f.Name())
				}
			}
		}
	}
	sort.Strings(out)
	return out
}

// twoSidedReads collects, per attribute, the set of distinct variables it is read on within nodes,
// following helper calls that receive &x.Call / x.Call of the clause's variables.
func twoSidedReads(p *core.Program, pkg *packages.Package, nodes []ast.Stmt, depth int, prefix string, only map[types.Object]bool, out map[string]map[types.Object]bool) {
	add := func(name string, obj types.Object) {
		if out[name] == nil {
			out[name] = map[types.Object]bool{}
		}
		out[name][obj] = true
	}
	for _, s := range nodes {
		ast.Inspect(s, func(n ast.Node) bool {
			switch x := n.(type) {
			case *ast.SelectorExpr:
				name := x.Sel.Name
				if sel := pkg.TypesInfo.Selections[x]; sel != nil && sel.Kind() == types.MethodVal {
					name += "()"
				}
				if id, ok := ast.Unparen(x.X).(*ast.Ident); ok {
					if obj := pkg.TypesInfo.Uses[id]; obj != nil && (only == nil || only[obj]) {
						add(prefix+name, obj)
					}
				}
				if inner, ok := ast.Unparen(x.X).(*ast.SelectorExpr); ok && inner.Sel.Name == "Call" && prefix == "" {
					if id, ok := ast.Unparen(inner.X).(*ast.Ident); ok {
						if obj := pkg.TypesInfo.Uses[id]; obj != nil {
							add("Call."+name, obj)
						}
					}
				}
			case *ast.CallExpr:
				if depth >= 2 || prefix != "" {
					return true
				}
				fnObj := calleeObj(pkg.TypesInfo, x)
				if fnObj == nil || fnObj.Pkg() == nil || !p.InModule(fnObj.Pkg().Path()) {
					return true
				}
				decl, dpkg := funcDeclOf(p, fnObj)
				if decl == nil || decl.Body == nil {
					return true
				}
				var params []*ast.Ident
				for _, f := range decl.Type.Params.List {
					params = append(params, f.Names...)
				}
				sub := map[types.Object]bool{}
				for i, a := range x.Args {
					isCall := false
					switch e := ast.Unparen(a).(type) {
					case *ast.UnaryExpr:
						if sel, ok := ast.Unparen(e.X).(*ast.SelectorExpr); ok && e.Op == token.AND && sel.Sel.Name == "Call" {
							isCall = true
						}
					case *ast.SelectorExpr:
						if e.Sel.Name == "Call" {
							isCall = true
						}
					}
					if isCall && i < len(params) {
						if pobj := dpkg.TypesInfo.Defs[params[i]]; pobj != nil {
							sub[pobj] = true
						}
					}
				}
				if len(sub) > 0 {
					twoSidedReads(p, dpkg, decl.Body.List, depth+1, "Call.", sub, out)
				}
			}
			return true
		})
	}
}

func c04(r *core.Run) {
	r.Explain = "C04 decided structurally: (SUCC) the value stored into the zipper's Preserved flag depends on a computation that reads BasicBlock successor edges — otherwise the verdict is invariant under exchanging an If's branches; (SENTINEL) every constant that can be stored as a fingerprint (the size-guard marker) is excluded before fingerprint equality may yield 'preserved'; (OPS) the zipper's scalar comparator has, for every instruction kind with non-operand attributes (derived from the go/ssa struct definitions: operators, field numbers, indices, flags, asserted types, invoke mode and method of every kind embedding a CallCommon), a clause reading each attribute on both sides; (EQUIV) every recorded instruction match is dominated by a successful equivalence test, and equivalence requires kind equality, type identity, scalar and operand comparison; (PRES) Preserved is true only when both unmatched lists are empty, and the status 'preserved' is stored only under fingerprint equality or that flag; (COMMZ) crosswise operand matching only for commutative operators (shared with C03.GATE.comm). Not decided: completeness of the matching (that every behaviour change leaves an unmatched instruction). (SUCC, sharpened) a matched instruction is left out of the block correspondence only for an enumerated reason (unmatched, no operands, no block); (COMMZ) the permission for a crosswise match is followed into a predicate helper if there is one."
	r.Undecided = []string{"completeness of structural matching: that every behaviour change leaves an unmatched instruction or a block-mapping conflict", "the converse clause for identical copies beyond the fingerprint short-circuit"}

	c04Succ(r)
	c04Sentinel(r)
	c04Ops(r)
	c04DistinctArgs(r)
	c04ExchangePair(r)
	c04RelPkg(r)
	c04Conj(r)
	c04Equiv(r)
	c04Pres(r)
	// a change is visible to the structural matching only as an instruction left unpaired: the pairing must be
	// one-to-one (the map discipline of the zipper, shared with C09)
	r.Under("C09.MAPS", "C04.MAPS", func() { c09Maps(r) })
	c03GateComm(r, "C04.COMMZ")
	// 'preserved' by fingerprint equality rests on the normalisations not merging different behaviour
	c03GateSwap(r, "C04.SWAPGATE")
	// ... and on the rendering keeping apart what behaves differently: the structural necessary conditions of C03
	// are necessary conditions here, because an equal fingerprint is reported as preserved without any matching
	r.Under("C03.", "C04.FP.", func() {
		c03Cover(r)
		c03Leaf(r)
		c03Perm(r)
		c03Referent(r)
		c03TestedThenRendered(r)
		c03FlagFamilies(r)
		c12IVGate(r, "C03.GATE.iv", "C03.GATE.iv")
		c03GateHoist(r)
		c16EnumRule(r, "C03.ENUM")
	})
}

// readsSuccs reports whether fn (or callees in pkg/diff, depth 2) reads BasicBlock.Succs/Preds.
func readsSuccs(p *core.Program, fn *ssa.Function, depth int) bool {
	found := false
	core.InstrsOf(fn, func(in ssa.Instruction) {
		if fa, ok := in.(*ssa.FieldAddr); ok && strings.HasSuffix(core.TypeName(fa.X.Type()), "ssa.BasicBlock") {
			if f := core.FieldName(fa.X.Type(), fa.Field); f == "Succs" || f == "Preds" {
				found = true
			}
		}
		if depth < 2 {
			if c := core.CallOf(in); c != nil {
				if callee := core.StaticCallee(c); callee != nil && p.IsProdFunc(callee) && strings.HasSuffix(callee.Pkg.Pkg.Path(), "pkg/diff") {
					if readsSuccs(p, callee, depth+1) {
						found = true
					}
				}
			}
		}
	})
	return found
}

func c04Succ(r *core.Run) {
	p := r.P
	n := 0
	for _, fn := range p.FuncsIn("pkg/diff") {
		core.InstrsOf(fn, func(in ssa.Instruction) {
			st, ok := in.(*ssa.Store)
			if !ok {
				return
			}
			fa, ok := st.Addr.(*ssa.FieldAddr)
			if !ok || !core.IsNamed(fa.X.Type(), diffPath(p), "ZipperArtifacts") || core.FieldName(fa.X.Type(), fa.Field) != "Preserved" {
				return
			}
			n++
			// the stored value depends (through its && chain) on a call whose callee reads successor edges
			dep := false
			seen := map[ssa.Value]bool{}
			var walk func(v ssa.Value, d int)
			walk = func(v ssa.Value, d int) {
				if v == nil || seen[v] || d > 8 {
					return
				}
				seen[v] = true
				switch x := v.(type) {
				case *ssa.Phi:
					for _, e := range x.Edges {
						walk(e, d+1)
					}
				case *ssa.Call:
					if callee := core.StaticCallee(&x.Call); callee != nil && p.IsProdFunc(callee) && readsSuccs(p, callee, 0) {
						dep = true
					}
				case *ssa.BinOp:
					walk(x.X, d+1)
					walk(x.Y, d+1)
				case *ssa.UnOp:
					walk(x.X, d+1)
				}
			}
			walk(st.Val, 0)
			// conditions controlling the phi (the && chain) also count: calls whose result decides a branch on the way
			if !dep {
				for _, b := range fn.Blocks {
					if len(b.Instrs) == 0 {
						continue
					}
					if ifi, ok := b.Instrs[len(b.Instrs)-1].(*ssa.If); ok {
						if c, ok := ifi.Cond.(*ssa.Call); ok {
							if callee := core.StaticCallee(&c.Call); callee != nil && p.IsProdFunc(callee) && readsSuccs(p, callee, 0) {
								if core.ReachAvoiding(b, nil)[st.Block()] {
									dep = true
								}
							}
						}
					}
				}
			}
			r.Check(dep || readsSuccs(p, fn, 3) && false, "C04.SUCC", core.FuncName(fn)+"#Preserved-depends-on-successors", st.Pos(), "the Preserved verdict depends on a computation that reads successor edges", "nothing that decides Preserved reads BasicBlock.Succs/Preds: exchanging the bodies of an if/else leaves no unmatched instruction and is reported as preserved")
		})
	}
	r.Floor("C04.SUCC", "stores of ZipperArtifacts.Preserved", n, 1)
	c04BlockMap(r)
}

func c04Sentinel(r *core.Run) {
	p := r.P
	// constants stored into FingerprintResult.Fingerprint
	consts := map[string]bool{}
	for _, fn := range p.FuncsIn("pkg/diff") {
		core.InstrsOf(fn, func(in ssa.Instruction) {
			st, ok := in.(*ssa.Store)
			if !ok {
				return
			}
			fa, ok := st.Addr.(*ssa.FieldAddr)
			if !ok || !core.IsNamed(fa.X.Type(), diffPath(p), "FingerprintResult") || core.FieldName(fa.X.Type(), fa.Field) != "Fingerprint" {
				return
			}
			if s, isC := core.ConstString(st.Val); isC {
				consts[s] = true
			}
		})
	}
	r.Floor("C04.SENTINEL", "constant (non-hash) fingerprint markers", len(consts), 1)
	n := 0
	for _, fn := range p.FuncsIn("internal/cli") {
		core.InstrsOf(fn, func(in ssa.Instruction) {
			st, ok := in.(*ssa.Store)
			if !ok {
				return
			}
			fa, ok := st.Addr.(*ssa.FieldAddr)
			if !ok || !core.IsNamed(fa.X.Type(), modelsPath(p), "FunctionDiff") || core.FieldName(fa.X.Type(), fa.Field) != "Status" {
				return
			}
			if s, isC := core.ConstString(st.Val); !isC || s != "preserved" {
				return
			}
			// is this the fingerprint-equality store? (dominated by EQL of two Fingerprint loads)
			eqAtom := func(cond ssa.Value) (bool, bool) {
				op, x, y, neg, ok := core.Compare(cond)
				if !ok || neg || op != token.EQL {
					return false, false
				}
				_, fx := core.FieldLoad(x, "Fingerprint")
				_, fy := core.FieldLoad(y, "Fingerprint")
				return fx && fy, true
			}
			okEq, nEq, _ := core.MustPass(fn, st.Block(), eqAtom)
			if !(okEq && nEq > 0) {
				return
			}
			n++
			var cs []string
			for c := range consts {
				cs = append(cs, c)
			}
			sort.Strings(cs)
			for _, c := range cs {
				cc := c
				excl := 0
				for _, b := range fn.Blocks {
					if len(b.Instrs) == 0 {
						continue
					}
					ifi, ok := b.Instrs[len(b.Instrs)-1].(*ssa.If)
					if !ok {
						continue
					}
					op, x, y, neg, ok := core.Compare(ifi.Cond)
					if !ok || neg || (op != token.EQL && op != token.NEQ) {
						continue
					}
					if _, isFP := core.FieldLoad(x, "Fingerprint"); !isFP {
						continue
					}
					if s, isC := core.ConstString(y); !isC || s != cc {
						continue
					}
					idx := 0
					if op == token.NEQ {
						idx = 1
					}
					if !core.ReachAvoiding(b.Succs[idx], nil)[st.Block()] {
						excl++
					}
				}
				r.Check(excl >= 2, "C04.SENTINEL", core.FuncName(fn)+"#marker-excluded("+c+")", st.Pos(), "the marker is excluded on both sides before equal fingerprints mean 'preserved'", "the non-hash marker "+c+" takes part in the fingerprint-equality short-circuit: any two functions beyond the size guard are reported as preserved")
			}
		})
	}
	r.Floor("C04.SENTINEL", "'preserved' stores on the fingerprint-equality edge", n, 1)
}

func c04Ops(r *core.Run) {
	p := r.P
	kinds := ssaInstrKinds(p)
	ds := findDispatchers(p, "pkg/diff", 12)
	// the comparator: dispatcher inside a function with two instruction parameters returning bool
	var cmp *dispatcher
	for _, d := range ds {
		if d.Fn.Type.Results != nil && len(d.Fn.Type.Results.List) == 1 && d.Fn.Type.Params != nil {
			np := 0
			for _, f := range d.Fn.Type.Params.List {
				np += len(f.Names)
			}
			if np == 2 {
				cmp = d
			}
		}
	}
	if cmp == nil {
		r.Floor("C04.OPS", "scalar comparator dispatcher (two instructions → bool)", 0, 1)
		return
	}
	dn := "diff." + cmp.Fn.Name.Name
	nReq := 0
	var names []string
	for k := range kinds {
		names = append(names, k)
	}
	sort.Strings(names)
	for _, k := range names {
		var req []string
		for _, f := range scalarFields(kinds[k]) {
			if _, exc := c04ScalarExceptions[k+"."+f]; exc {
				continue
			}
			req = append(req, f)
		}
		if len(req) == 0 || k == "DebugRef" {
			continue
		}
		nReq++
		// locate the clause
		var clause *ast.CaseClause
		for _, s := range cmp.Switch.Body.List {
			cc := s.(*ast.CaseClause)
			for _, e := range cc.List {
				if tv, ok := cmp.Pkg.TypesInfo.Types[e]; ok {
					if pt, ok := tv.Type.(*types.Pointer); ok {
						if n, ok := pt.Elem().(*types.Named); ok && n.Obj().Name() == k && n.Obj().Pkg().Path() == ssaPkgPath {
							clause = cc
						}
					}
				}
			}
		}
		if clause == nil {
			r.Fail("C04.OPS", dn+"#clause("+k+")", cmp.Switch.Pos(), "no clause for "+k+": its "+strings.Join(req, ", ")+" never take part in instruction equivalence — a change there leaves no unmatched instruction and is reported as preserved")
			continue
		}
		reads := map[string]map[types.Object]bool{}
		twoSidedReads(p, cmp.Pkg, clause.Body, 0, "", nil, reads)
		var missing []string
		for _, f := range req {
			n := len(reads[f])
			if f == "Call.Method" && n < 2 {
				n = len(reads["Call.Method()"])
			}
			if n < 2 {
				missing = append(missing, f)
			}
		}
		r.Check(len(missing) == 0, "C04.OPS", dn+"#clause("+k+")", clause.Pos(), "compares "+strings.Join(req, ", ")+" on both sides", "clause for "+k+" does not compare "+strings.Join(missing, ", ")+" on both sides")
	}
	r.Floor("C04.OPS", "instruction kinds with scalar attributes", nReq, 10)
}

func c04Equiv(r *core.Run) {
	p := r.P
	// equivalence predicate: method (a, b ssa.Instruction) bool that calls the scalar comparator
	var equiv *ssa.Function
	for _, fn := range p.FuncsIn("pkg/diff") {
		rt := resultTypes(fn)
		if len(rt) != 1 || rt[0].String() != "bool" || fn.Parent() != nil {
			continue
		}
		if len(core.Calls(fn, func(nm string, _ *ssa.CallCommon) bool { return nm == "reflect.TypeOf" })) >= 2 {
			equiv = fn
		}
	}
	if equiv == nil {
		r.Floor("C04.EQUIV", "equivalence predicate (compares reflect.TypeOf of both instructions)", 0, 1)
		return
	}
	en := core.FuncName(equiv)
	// its true results: every return that can be true is dominated by the four tests
	for _, ret := range core.Returns(equiv) {
		if c, ok := ret.Results[0].(*ssa.Const); ok && c.Value != nil && c.Value.String() == "false" {
			continue
		}
		chk := func(name string, atom core.Atom, msg string) {
			ok1, n1, path := core.MustPass(equiv, ret.Block(), atom)
			r.Check(ok1 && n1 > 0, "C04.EQUIV", en+"#"+name, ret.Pos(), "equivalence requires "+msg, "two instructions can be equivalent without "+msg+" ("+core.FmtPath(path)+")")
		}
		chk("same-kind", func(cond ssa.Value) (bool, bool) {
			op, x, y, neg, ok := core.Compare(cond)
			if !ok || neg {
				return false, false
			}
			_, tx := callTo(x, "reflect.TypeOf")
			_, ty := callTo(y, "reflect.TypeOf")
			return tx && ty, op == token.EQL
		}, "the same instruction kind")
		// instructions that are not values have no type: that bypass (a.(ssa.Value) fails) is legitimate
		bypass := map[core.Edge]bool{}
		for _, b := range equiv.Blocks {
			if len(b.Instrs) == 0 {
				continue
			}
			if ifi, ok := b.Instrs[len(b.Instrs)-1].(*ssa.If); ok {
				if ex, ok := ifi.Cond.(*ssa.Extract); ok && ex.Index == 1 {
					if ta, ok := ex.Tuple.(*ssa.TypeAssert); ok && strings.HasSuffix(ta.AssertedType.String(), "ssa.Value") {
						bypass[core.Edge{From: b, Idx: 1}] = true
					}
				}
			}
		}
		okT, nT, pT := core.MustPassFrom(equiv, equiv.Blocks[0], ret.Block(), core.BoolGuard(func(x ssa.Value) bool {
			_, ok := callTo(x, "go/types.Identical")
			return ok
		}, true), bypass)
		r.Check(okT && nT > 0, "C04.EQUIV", en+"#identical-type", ret.Pos(), "equivalence of value instructions requires identical types", "two value instructions can be equivalent without identical types ("+core.FmtPath(pT)+")")
		chk("scalars-equal", core.BoolGuard(func(x ssa.Value) bool {
			c, ok := x.(*ssa.Call)
			if !ok {
				return false
			}
			callee := core.StaticCallee(&c.Call)
			return callee != nil && p.IsProdFunc(callee) && len(c.Call.Args) == 3 && resultTypes(callee)[0].String() == "bool"
		}, true), "equal scalar attributes")
		// the returned value itself is the operand comparison
		isOps := false
		if c, ok := ret.Results[0].(*ssa.Call); ok {
			if callee := core.StaticCallee(&c.Call); callee != nil && p.IsProdFunc(callee) {
				isOps = true
			}
		}
		r.Check(isOps, "C04.EQUIV", en+"#operands-compared", ret.Pos(), "the verdict is the operand comparison", "equivalence does not end in the operand comparison")
	}
	// every recorded match is dominated by a successful equivalence test on the same pair
	var rec *ssa.Function
	for _, fn := range p.FuncsIn("pkg/diff") {
		w := 0
		core.InstrsOf(fn, func(in ssa.Instruction) {
			if mu, ok := in.(*ssa.MapUpdate); ok {
				if isInstrInstrMap(mu.Map.Type()) {
					w++
				}
			}
		})
		if w > 0 {
			rec = fn
		}
	}
	n := 0
	if rec != nil {
		{
			for _, vs := range callSitesThroughForwarders(p, "pkg/diff", rec) {
				fn, ci, args := vs.fn, vs.call, vs.args
				if len(args) < 3 {
					continue
				}
				// calls from mapValue (value pairs already vetted by their callers) are exempt when the
				// arguments are type assertions of its own parameters
				if ex, isEx := args[1].(*ssa.Extract); isEx {
					if ta, isTA := ex.Tuple.(*ssa.TypeAssert); isTA {
						if _, ofParam := ta.X.(*ssa.Parameter); ofParam {
							continue
						}
					}
				}
				n++
				ok1, n1, path := core.MustPass(fn, ci.Block(), core.BoolGuard(func(x ssa.Value) bool {
					c, ok := x.(*ssa.Call)
					return ok && core.StaticCallee(&c.Call) == equiv && c.Call.Args[1] == args[1] && c.Call.Args[2] == args[2]
				}, true))
				r.Check(ok1 && n1 > 0, "C04.EQUIV", core.FuncName(fn)+"→"+rec.Name()+"#after-equivalence", ci.Pos(), "a match is recorded only after the pair passed the equivalence test", "an instruction match is recorded without a successful equivalence test on that pair ("+core.FmtPath(path)+")")
			}
		}
	}
	r.Floor("C04.EQUIV", "match recordings of instruction pairs", n, 2)
}

func c04Pres(r *core.Run) {
	p := r.P
	n := 0
	for _, fn := range p.FuncsIn("pkg/diff") {
		core.InstrsOf(fn, func(in ssa.Instruction) {
			st, ok := in.(*ssa.Store)
			if !ok {
				return
			}
			fa, ok := st.Addr.(*ssa.FieldAddr)
			if !ok || !core.IsNamed(fa.X.Type(), diffPath(p), "ZipperArtifacts") || core.FieldName(fa.X.Type(), fa.Field) != "Preserved" {
				return
			}
			n++
			// every origin that is not the constant false must be reached through both emptiness tests
			emptiness := func(field string) core.Atom {
				return func(cond ssa.Value) (bool, bool) {
					op, x, y, neg, ok := core.Compare(cond)
					if !ok || neg {
						return false, false
					}
					ln, isLen := isBuiltinCall(x, "len")
					if !isLen {
						return false, false
					}
					if _, isF := core.FieldLoad(ln.Call.Args[0], field); !isF {
						return false, false
					}
					z, isZ := core.ConstInt(y)
					return isZ && z == 0, op == token.EQL
				}
			}
			check := func(use core.Use, what string, val ssa.Value) {
				for _, f := range []string{"Added", "Removed"} {
					if val != nil {
						// the last conjunct of an && chain is the value itself
						if m, onTrue := emptiness(f)(val); m && onTrue {
							r.OK("C04.PRES", core.FuncName(fn)+"#Preserved-needs-empty("+f+")", st.Pos(), "Preserved is itself the emptiness test of the "+f+" list on this path")
							continue
						}
					}
					ok1, n1, path := core.MustPassUse(fn, use, emptiness(f))
					r.Check(ok1 && n1 > 0, "C04.PRES", core.FuncName(fn)+"#Preserved-needs-empty("+f+")", st.Pos(), "Preserved can be true only if the "+f+" list is empty", "Preserved can be true although unmatched ("+f+") instructions exist ("+core.FmtPath(path)+") ["+what+"]")
				}
			}
			switch v := st.Val.(type) {
			case *ssa.Phi:
				for i, e := range v.Edges {
					if c, ok := e.(*ssa.Const); ok && c.Value != nil && c.Value.String() == "false" {
						continue
					}
					check(core.Use{At: v.Block(), Via: v.Block().Preds[i]}, "phi edge", e)
				}
			default:
				if b, ok := v.(*ssa.BinOp); ok && b.Op == token.EQL {
					// single comparison form `len(a)==0` etc. is handled by the atoms on the store block
				}
				check(core.Use{At: st.Block()}, "direct", v)
			}
		})
	}
	r.Floor("C04.PRES", "stores of ZipperArtifacts.Preserved", n, 1)
	// status "preserved" only under fingerprint equality or artifacts.Preserved
	m := 0
	for _, fn := range p.FuncsIn("internal/cli") {
		core.InstrsOf(fn, func(in ssa.Instruction) {
			st, ok := in.(*ssa.Store)
			if !ok {
				return
			}
			fa, ok := st.Addr.(*ssa.FieldAddr)
			if !ok || !core.IsNamed(fa.X.Type(), modelsPath(p), "FunctionDiff") || core.FieldName(fa.X.Type(), fa.Field) != "Status" {
				return
			}
			if s, isC := core.ConstString(st.Val); !isC || s != "preserved" {
				return
			}
			m++
			atom := func(cond ssa.Value) (bool, bool) {
				op, x, y, neg, ok := core.Compare(cond)
				if ok && !neg && op == token.EQL {
					_, fx := core.FieldLoad(x, "Fingerprint")
					_, fy := core.FieldLoad(y, "Fingerprint")
					if fx && fy {
						return true, true
					}
				}
				base, n2 := core.StripNot(cond)
				if _, isP := core.FieldLoad(base, "Preserved"); isP {
					return true, !n2
				}
				return false, false
			}
			ok1, n1, path := core.MustPass(fn, st.Block(), atom)
			r.Check(ok1 && n1 > 0, "C04.PRES", core.FuncName(fn)+"#status-preserved", st.Pos(), "'preserved' only under fingerprint equality or the zipper's Preserved flag", "'preserved' can be reported without fingerprint equality or a Preserved verdict ("+core.FmtPath(path)+")")
		})
	}
	r.Floor("C04.PRES", "stores of status 'preserved'", m, 2)
}

// c04BlockMap: the block correspondence that the successor comparison works on is derived from the matched
// instructions; a matched instruction may be left out of it only for one of the enumerated reasons. Any other
// skip (for instance of terminators) removes exactly the blocks whose only matched instruction is the branch,
// and the exchange of that branch's arms is no longer seen.
func c04BlockMap(r *core.Run) {
	p := r.P
	n := 0
	isBlock := func(t types.Type) bool { return strings.HasSuffix(t.String(), "ssa.BasicBlock") }
	for _, fn := range p.FuncsIn("pkg/diff") {
		if !readsSuccs(p, fn, 0) {
			continue
		}
		var upd *ssa.MapUpdate
		core.InstrsOf(fn, func(in ssa.Instruction) {
			if mu, ok := in.(*ssa.MapUpdate); ok && upd == nil && isBlock(mu.Key.Type()) && isBlock(mu.Value.Type()) {
				upd = mu
			}
		})
		if upd == nil {
			continue
		}
		h := core.LoopHeaderOf(upd.Block())
		if h == nil {
			continue
		}
		n++
		fnm := core.FuncName(fn)
		back := backEdges(fn)
		allowed := func(cond ssa.Value) (string, bool) {
			base, _ := core.StripNot(cond)
			if ex, ok := base.(*ssa.Extract); ok && ex.Index == 1 {
				if lk, ok := ex.Tuple.(*ssa.Lookup); ok {
					if isInstrInstrMap(lk.X.Type()) {
						return "instruction is unmatched", true
					}
				}
			}
			if x, _, ok := core.NilCompare(cond); ok {
				if c, ok := x.(*ssa.Call); ok && c.Call.IsInvoke() && c.Call.Method.Name() == "Block" {
					return "instruction has no block", true
				}
			}
			if op, a, b, _, ok := core.Compare(base); ok && (op == token.EQL || op == token.NEQ) {
				if ln, isLen := isBuiltinCall(a, "len"); isLen {
					if c, ok := ln.Call.Args[0].(*ssa.Call); ok && c.Call.IsInvoke() && c.Call.Method.Name() == "Operands" {
						if k, isC := core.ConstInt(b); isC && k == 0 {
							return "instruction has no operands", true
						}
					}
				}
			}
			return "", false
		}
		for _, b := range fn.Blocks {
			if len(b.Instrs) == 0 || b == h || !h.Dominates(b) || core.LoopHeaderOf(b) == nil {
				continue
			}
			ifi, ok := b.Instrs[len(b.Instrs)-1].(*ssa.If)
			if !ok || !core.ReachAvoiding(b, back)[upd.Block()] {
				continue
			}
			// a skip: an edge from which the recording is unreachable within this iteration, but the loop goes on
			for i, sc := range b.Succs {
				goesOn := back[core.Edge{From: b, Idx: i}]
				if !goesOn && core.ReachAvoiding(sc, back)[upd.Block()] {
					continue
				}
				for bb := range core.ReachAvoiding(sc, back) {
					if goesOn {
						break
					}
					for k := range bb.Succs {
						if back[core.Edge{From: bb, Idx: k}] {
							goesOn = true
						}
					}
				}
				if !goesOn {
					continue // leads out of the function (verdict false)
				}
				what, ok := allowed(ifi.Cond)
				r.Check(ok, "C04.SUCC", fnm+"#block-map-skip("+shape(ifi.Cond, 0)+")", ifi.Pos(), "matched instruction left out of the block correspondence only because: "+what, "a matched instruction is left out of the block correspondence for an unlisted reason ("+shape(ifi.Cond, 0)+"): blocks whose only matched instruction is skipped are not compared, so exchanged branch arms can be reported as preserved")
			}
		}
	}
	r.Floor("C04.SUCC", "block correspondence built from matched instructions", n, 1)
}

// c04Conj: in the comparator, instruction equivalence is the CONJUNCTION of its attribute equalities: once one
// attribute of the two instructions is found different, "equivalent" is no longer a possible result — whatever
// the other attributes say. Decided per two-sided comparison c (x.F == y.F, x.M() == y.M(), types.Identical(x.T,
// y.T) with x, y the two instructions): starting in c's block with c taken as "different", no return can yield
// true (a constant true, or another comparison whose outcome is open).
func c04Conj(r *core.Run) {
	p := r.P
	n := 0
	for _, fn := range p.FuncsIn("pkg/diff") {
		rt := resultTypes(fn)
		if len(rt) != 1 || rt[0].String() != "bool" || fn.Blocks == nil {
			continue
		}
		// two parameters of one SSA type (instruction / call) besides an optional receiver
		var ps []*ssa.Parameter
		for _, pa := range fn.Params {
			if strings.Contains(pa.Type().String(), ssaPkgPath) {
				ps = append(ps, pa)
			}
		}
		// (old, new) or (old0, old1, new0, new1): the first half is one side, the second half the other
		if len(ps) < 2 || len(ps)%2 != 0 || !types.Identical(ps[0].Type(), ps[len(ps)-1].Type()) {
			continue
		}
		half := len(ps) / 2
		side := func(v ssa.Value) int {
			// which parameter the value is read from (0, 1) or -1
			seen := map[ssa.Value]bool{}
			res := -1
			var walk func(v ssa.Value, d int)
			walk = func(v ssa.Value, d int) {
				if v == nil || seen[v] || d > 10 {
					return
				}
				seen[v] = true
				for i, pa := range ps {
					if v == ssa.Value(pa) {
						if res == -1 {
							res = i / half
						} else if res != i/half {
							res = -2
						}
						return
					}
				}
				if in, ok := v.(ssa.Instruction); ok {
					for _, op := range in.Operands(nil) {
						if op != nil && *op != nil {
							walk(*op, d+1)
						}
					}
				}
			}
			walk(v, 0)
			return res
		}
		type cmpv struct {
			v       ssa.Value
			equalOn bool // the value is true when the attribute is equal
		}
		var cmps []cmpv
		core.InstrsOf(fn, func(in ssa.Instruction) {
			switch x := in.(type) {
			case *ssa.BinOp:
				if x.Op != token.EQL && x.Op != token.NEQ {
					return
				}
				a, b := side(x.X), side(x.Y)
				if a >= 0 && b >= 0 && a != b {
					cmps = append(cmps, cmpv{x, x.Op == token.EQL})
				}
			case *ssa.Call:
				if core.CalleeName(&x.Call) == "go/types.Identical" && len(x.Call.Args) == 2 {
					a, b := side(x.Call.Args[0]), side(x.Call.Args[1])
					if a >= 0 && b >= 0 && a != b {
						cmps = append(cmps, cmpv{x, true})
					}
				}
				// a repository helper that compares one part of the first instruction with the matching part of
				// the second (its last two arguments come from the two sides) and answers with a bool
				// (only where the function itself is handed the parts pairwise — a function that is handed whole
				// instructions may legitimately try a second pairing, e.g. exchanged operands of a commutative operation)
				if g := core.StaticCallee(&x.Call); g != nil && p.IsProdFunc(g) && len(x.Call.Args) >= 2 && len(ps) >= 4 {
					if grt := resultTypes(g); len(grt) == 1 && grt[0].String() == "bool" {
						args := x.Call.Args
						a, b := side(args[len(args)-2]), side(args[len(args)-1])
						if a >= 0 && b >= 0 && a != b {
							cmps = append(cmps, cmpv{x, true})
						}
					}
				}
			}
		})
		if len(cmps) < 2 {
			continue
		}
		isCmp := map[ssa.Value]bool{}
		for _, c := range cmps {
			isCmp[c.v] = true
		}
		for _, c := range cmps {
			n++
			bad := conjWitness(fn, c.v, c.equalOn)
			r.Check(bad == "", "C04.CONJ", core.FuncName(fn)+"#"+core.Canon(c.v), c.v.Pos(), "once this attribute differs the comparator cannot answer 'equivalent'", "with this attribute different the comparator can still answer 'equivalent' ("+bad+"): attribute equalities are combined by 'or' / a later test overrides an earlier difference, so two instructions that differ in this attribute are paired and the change is reported as preserved")
		}
	}
	r.Floor("C04.CONJ", "two-sided attribute comparisons in the comparators", n, 10)
}

// c04RelPkg: "two separately compiled copies of identical source are reported preserved" — also when the copies live
// under different import paths (old/f.go and new/f.go in one module). Every place of the canonicaliser that turns a
// package into text (a call of (*types.Package).Path, or Function.String with its full path) therefore treats the
// package under analysis specially: the function that renders it compares the rendered object's package with the
// subject's. A renderer without such a comparison writes the import path of the subject's own package into the IR.
func c04RelPkg(r *core.Run) {
	p := r.P
	n := 0
	for _, fn := range p.FuncsIn("pkg/analysis/ir") {
		var site ssa.Instruction
		what := ""
		core.InstrsOf(fn, func(in ssa.Instruction) {
			c := core.CallOf(in)
			if c == nil {
				return
			}
			switch core.CalleeName(c) {
			case "(*go/types.Package).Path":
				site, what = in, "the import path of a package"
			case "(*" + ssaPkgPath + ".Function).String":
				site, what = in, "the full name of a function"
			}
		})
		if site == nil {
			continue
		}
		// only renderers: the text reaches a string result
		rt := resultTypes(fn)
		if len(rt) != 1 || rt[0].String() != "string" {
			continue
		}
		n++
		compares := false
		core.InstrsOf(fn, func(in ssa.Instruction) {
			b, ok := in.(*ssa.BinOp)
			if !ok || (b.Op != token.EQL && b.Op != token.NEQ) {
				return
			}
			isPkg := func(v ssa.Value) bool {
				t := core.Deref(v.Type()).String()
				return strings.HasSuffix(t, "ssa.Package") || strings.HasSuffix(t, "go/types.Package")
			}
			if isPkg(b.X) && isPkg(b.Y) && !core.IsNilConst(b.X) && !core.IsNilConst(b.Y) {
				// one side belongs to the subject (read through the receiver)
				if strings.Contains(core.Canon(b.X), "recv.") || strings.Contains(core.Canon(b.Y), "recv.") {
					compares = true
				}
			}
		})
		r.Check(compares, "C04.RELPKG", core.FuncName(fn)+"#own-package-relative", site.Pos(), "the renderer distinguishes the package under analysis from other packages", "the renderer writes "+what+" without asking whether it is the package under analysis: the same source compiled under another import path (old/ and new/ copies in one module) renders differently, and every function that mentions a package-level type, function or variable of its own package is reported as modified")
	}
	r.Floor("C04.RELPKG", "renderers that turn a package into text", n, 2)
}

// c04DistinctArgs: the functions of the diff pipeline that take an old and a new thing (two parameters of one
// struct, pointer or interface type from the module or from go/ssa) are handed two different values. The same value
// twice compares a function with itself: every change is "preserved".
func c04DistinctArgs(r *core.Run) {
	p := r.P
	n := 0
	for _, fn := range append(p.FuncsIn("internal/cli"), p.FuncsIn("pkg/diff")...) {
		core.InstrsOf(fn, func(in ssa.Instruction) {
			c := core.CallOf(in)
			if c == nil || c.IsInvoke() {
				return
			}
			g := core.StaticCallee(c)
			if g == nil || !p.IsProdFunc(g) || g.Signature.Variadic() {
				return
			}
			sig := g.Signature
			off := 0
			if sig.Recv() != nil {
				off = 1
			}
			for i := 0; i+1 < sig.Params().Len(); i++ {
				ti, tj := sig.Params().At(i).Type(), sig.Params().At(i+1).Type()
				if !types.Identical(ti, tj) {
					continue
				}
				ts := ti.String()
				if !(strings.Contains(ts, p.ModPath) || strings.Contains(ts, ssaPkgPath)) {
					continue
				}
				if i+1+off >= len(c.Args) {
					continue
				}
				a, b := c.Args[i+off], c.Args[i+1+off]
				n++
				// the same SSA value, or two reads of the same field / variable
				same := a == b
				if !same {
					_, la := core.Unwrap(a).(*ssa.UnOp)
					_, lb := core.Unwrap(b).(*ssa.UnOp)
					_, fa := core.Unwrap(a).(*ssa.Field)
					_, fb := core.Unwrap(b).(*ssa.Field)
					same = ((la && lb) || (fa && fb)) && core.Canon(a) == core.Canon(b)
				}
				r.Check(!same, "C04.ARGS", core.FuncName(fn)+"→"+g.Name()+fmt.Sprintf("#arg%d≠arg%d", i, i+1), in.Pos(), "the old and the new side are different values", "both the old-side and the new-side parameter of "+core.FuncName(g)+" receive "+core.Canon(a)+": the function is compared with itself, so every behaviour change comes out as preserved")
			}
		})
	}
	r.Floor("C04.ARGS", "calls with an old-side and a new-side argument", n, 3)
}

// c04ExchangePair: where a branch exchange is recorded, the recorded pair IS the exchange: element 0 is the block's
// second successor and element 1 its first. Recording the successors in their own order rewrites the operator
// without exchanging the branches — `a >= b {A} else {B}` then hashes like `a < b {A} else {B}`.
func c04ExchangePair(r *core.Run) {
	p := r.P
	n := 0
	for _, fn := range p.FuncsIn("pkg/analysis/ir") {
		core.InstrsOf(fn, func(in ssa.Instruction) {
			sto, ok := in.(*ssa.Store)
			if !ok {
				return
			}
			ia, ok := sto.Addr.(*ssa.IndexAddr)
			if !ok {
				return
			}
			ar, isArr := core.Deref(ia.X.Type()).Underlying().(*types.Array)
			if !isArr || ar.Len() != 2 || !strings.HasSuffix(ar.Elem().String(), "ssa.BasicBlock") {
				return
			}
			slot, isK := core.ConstInt(ia.Index)
			u, isLoad := sto.Val.(*ssa.UnOp)
			if !isK || !isLoad {
				return
			}
			src, isIA := u.X.(*ssa.IndexAddr)
			if !isIA {
				return
			}
			base, isSuccs := core.FieldLoad(src.X, "Succs")
			from, isK2 := core.ConstInt(src.Index)
			if !isSuccs || !isK2 || !strings.HasSuffix(core.Deref(base.Type()).String(), "ssa.BasicBlock") {
				return
			}
			n++
			r.Check(slot+from == 1, "C04.EXCHANGE", core.FuncName(fn)+fmt.Sprintf("#slot%d", slot), in.Pos(), fmt.Sprintf("virtual successor %d is the real successor %d", slot, from), fmt.Sprintf("the recorded 'exchanged' pair keeps real successor %d in slot %d: the comparison operator is inverted but the branches are not exchanged, so a test and its opposite with the SAME arms get one fingerprint and the diff reports the change as preserved", from, slot))
		})
	}
	r.Floor("C04.EXCHANGE", "slots of the recorded branch exchange", n, 2)
}

// conjWitness: starting in the block of cv with cv taken as "different" (its value is !equalOn), can a return of fn
// still yield true? Returns the reason ("" if not).
func conjWitness(fn *ssa.Function, cv ssa.Value, equalOn bool) string {
	type st struct{ b, prev *ssa.BasicBlock }
	start := st{cv.(ssa.Instruction).Block(), nil}
	seen := map[st]bool{start: true}
	work := []st{start}
	bad := ""
	var badPos token.Pos
	valueAt := func(v ssa.Value, s st) ssa.Value {
		for d := 0; d < 4; d++ {
			ph, ok := v.(*ssa.Phi)
			if !ok || ph.Block() != s.b || s.prev == nil {
				return v
			}
			for i, pb := range s.b.Preds {
				if pb == s.prev {
					v = ph.Edges[i]
				}
			}
		}
		return v
	}
	for len(work) > 0 && bad == "" {
		s := work[len(work)-1]
		work = work[:len(work)-1]
		last := s.b.Instrs[len(s.b.Instrs)-1]
		switch x := last.(type) {
		case *ssa.Return:
			v := valueAt(x.Results[0], s)
			base, neg := core.StripNot(v)
			switch {
			case base == cv:
				// the comparison itself: "different" ⇒ false (or its negation ⇒ would be true)
				if equalOn == neg {
					bad, badPos = "the negated comparison is returned", x.Pos()
				}
			default:
				if k, isC := base.(*ssa.Const); isC && k.Value != nil {
					if (k.Value.String() == "true") != neg {
						bad, badPos = "true is returned", x.Pos()
					}
				} else {
					bad, badPos = "the result is left to "+core.Canon(base), x.Pos()
				}
			}
		case *ssa.If:
			cond := valueAt(x.Cond, s)
			base, neg := core.StripNot(cond)
			for i, sb := range s.b.Succs {
				if base == cv {
					// c "different": value = !equalOn; the condition = value xor neg
					val := !equalOn != neg
					if (i == 0) != val {
						continue
					}
				}
				if k, isC := base.(*ssa.Const); isC && k.Value != nil {
					val := (k.Value.String() == "true") != neg
					if (i == 0) != val {
						continue
					}
				}
				ns := st{sb, s.b}
				if !seen[ns] {
					seen[ns] = true
					work = append(work, ns)
				}
			}
		default:
			for _, sb := range s.b.Succs {
				ns := st{sb, s.b}
				if !seen[ns] {
					seen[ns] = true
					work = append(work, ns)
				}
			}
		}
	}
	_ = badPos
	return bad
}
