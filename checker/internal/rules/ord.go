package rules

import (
	"fmt"
	"go/token"
	"go/types"
	"sort"
	"strings"

	"golang.org/x/tools/go/ssa"

	"sfwverif/internal/core"
)

// ---------------------------------------------------------------------------------------------
// E-ORD: effect classification of unordered iteration (range over map, goroutine bodies).

// root describes the object an address or reference value belongs to.
type root struct {
	Kind string // local | param | fv | global | elem | ext | unknown
	Idx  int
	Name string
	V    ssa.Value
}

func (r root) String() string {
	switch r.Kind {
	case "param":
		return fmt.Sprintf("p%d", r.Idx)
	case "fv":
		return fmt.Sprintf("fv%d", r.Idx)
	case "global":
		return "global:" + r.Name
	}
	return r.Kind
}

func (r root) escaping() bool { return r.Kind != "local" }

// rootOf finds the object a reference belongs to, following field/index addressing, loads of
// pointer fields, conversions and phis.
func rootOf(v ssa.Value, d int) root { return rootOfV(v, d, map[ssa.Value]bool{}) }

func rootOfV(v ssa.Value, d int, seen map[ssa.Value]bool) root {
	if v == nil || d > 40 {
		return root{Kind: "unknown"}
	}
	if seen[v] {
		return root{Kind: "local", V: v} // neutral element of the join: the cycle adds nothing new
	}
	seen[v] = true
	rootOf := func(v ssa.Value, d int) root { return rootOfV(v, d, seen) }
	switch x := v.(type) {
	case *ssa.Alloc:
		return root{Kind: "local", V: x}
	case *ssa.MakeMap, *ssa.MakeSlice, *ssa.MakeChan, *ssa.MakeClosure, *ssa.Const, *ssa.Function, *ssa.Builtin:
		return root{Kind: "local", V: v}
	case *ssa.Parameter:
		for i, p := range x.Parent().Params {
			if p == x {
				return root{Kind: "param", Idx: i, V: x}
			}
		}
	case *ssa.FreeVar:
		for i, p := range x.Parent().FreeVars {
			if p == x {
				return root{Kind: "fv", Idx: i, V: x}
			}
		}
	case *ssa.Global:
		return root{Kind: "global", Name: x.Name(), V: x}
	case *ssa.FieldAddr:
		return rootOf(x.X, d+1)
	case *ssa.IndexAddr:
		return rootOf(x.X, d+1)
	case *ssa.Field:
		return rootOf(x.X, d+1)
	case *ssa.Index:
		return rootOf(x.X, d+1)
	case *ssa.Lookup:
		return rootOf(x.X, d+1)
	case *ssa.Slice:
		return rootOf(x.X, d+1)
	case *ssa.ChangeType:
		return rootOf(x.X, d+1)
	case *ssa.Convert:
		return rootOf(x.X, d+1)
	case *ssa.MakeInterface:
		return rootOf(x.X, d+1)
	case *ssa.ChangeInterface:
		return rootOf(x.X, d+1)
	case *ssa.TypeAssert:
		return rootOf(x.X, d+1)
	case *ssa.UnOp:
		if x.Op == token.MUL {
			// a pointer loaded from a local variable that holds a single assigned value
			if a, ok := x.X.(*ssa.Alloc); ok {
				sts := core.StoresTo(a)
				if len(sts) == 1 {
					return rootOf(sts[0].Val, d+1)
				}
				if len(sts) == 0 {
					return root{Kind: "local", V: a}
				}
				// several assignments: union
				var rs []root
				for _, st := range sts {
					rs = append(rs, rootOf(st.Val, d+1))
				}
				return joinRoots(rs)
			}
			return rootOf(x.X, d+1)
		}
		return root{Kind: "local", V: v}
	case *ssa.Extract:
		if nx, ok := x.Tuple.(*ssa.Next); ok {
			if rg, ok := nx.Iter.(*ssa.Range); ok {
				r := rootOf(rg.X, d+1)
				if r.Kind == "local" {
					return r
				}
				return root{Kind: "elem", V: v}
			}
		}
		return rootOf(x.Tuple, d+1)
	case *ssa.Call:
		// results of calls are fresh unless the callee is a known getter of shared state
		if b, ok := x.Call.Value.(*ssa.Builtin); ok {
			if b.Name() == "append" && len(x.Call.Args) > 0 {
				return rootOf(x.Call.Args[0], d+1)
			}
		}
		return root{Kind: "local", V: v}
	case *ssa.Phi:
		var rs []root
		for _, e := range x.Edges {
			if e == v {
				continue
			}
			rs = append(rs, rootOf(e, d+2))
		}
		return joinRoots(rs)
	case *ssa.BinOp:
		return root{Kind: "local", V: v}
	}
	return root{Kind: "unknown", V: v}
}

func joinRoots(rs []root) root {
	var esc *root
	for i := range rs {
		if rs[i].Kind == "unknown" {
			return rs[i]
		}
		if rs[i].escaping() {
			if esc != nil && esc.String() != rs[i].String() {
				return root{Kind: "unknown"}
			}
			esc = &rs[i]
		}
	}
	if esc != nil {
		return *esc
	}
	return root{Kind: "local"}
}

// eff is one escaping effect of a function, relative to its parameters / globals.
type eff struct {
	Root    root
	Kind    string // append | store | mapset | delete | orderedwrite | ext | pool
	KeyRoot root   // for mapset: where the key comes from
	KeyIsP  int    // parameter index of the key (-1)
	ValKind string // const | other
	Detail  string
	MapType string // for mapset: the map's type
	Pos     token.Pos
}

// pure (effect-free for callers) library packages and functions
var ordPurePkgs = []string{"strings.", "strconv.", "unicode", "math.", "math/bits", "bytes.", "path.", "path/filepath.", "errors.", "go/types.", "(go/types.", "(*go/types.", "go/token.", "(go/token.", "(*go/token.", "go/constant.", "(go/constant.",
	"go/ast.", "(*go/ast.", "golang.org/x/tools/go/ssa", "(*golang.org/x/tools/go/ssa", "(golang.org/x/tools/go/ssa", "reflect.TypeOf", "(*reflect.rtype)", "(reflect.Type)", "crypto/sha256.", "encoding/hex.", "regexp.", "(*regexp.", "unicode/utf8.", "sort.", "slices.", "(*math/big.Int)", "math/big.",
	"fmt.Sprintf", "fmt.Sprint", "fmt.Errorf", "(*strings.Builder).String", "(*strings.Builder).Len", "(*strings.Builder).Reset", "(*strings.Builder).Grow", "(*bytes.Buffer).Bytes", "(*bytes.Buffer).String", "(*sync.Mutex).", "(*sync.RWMutex).", "(*sync.Once).",
	"(*golang.org/x/tools/go/packages", "golang.org/x/tools/go/packages.Visit", "(golang.org/x/tools/go/packages", "invoke:(error).Error", "invoke:(go/types", "invoke:(golang.org/x/tools/go/ssa", "invoke:(go/constant", "invoke:(fmt.Stringer)", "os.IsNotExist", "runtime.GC",
	"encoding/binary.", "(encoding/binary.", "math/rand", "time.",
	"(*github.com/cockroachdb/pebble.Snapshot).", "(*github.com/cockroachdb/pebble.Iterator).", "(*github.com/cockroachdb/pebble.DB).NewSnapshot", "(*github.com/cockroachdb/pebble.DB).Get", "(*github.com/cockroachdb/pebble.DB).NewIter",
	"(*github.com/cockroachdb/pebble.DB).Metrics", "invoke:(context.Context).", "invoke:(io.Closer).Close", "context.", "(*encoding/gob.Decoder).Decode", "encoding/gob.NewDecoder", "encoding/json.Unmarshal", "bytes.NewReader", "io.ReadAll", "io.LimitReader",
	"invoke:(os.FileInfo).", "invoke:(io/fs.FileInfo).", "invoke:(io/fs.DirEntry)."}

// ordered writers: the order of calls is observable in the receiver
var ordOrderedWriters = []string{"(*strings.Builder).Write", "(*bytes.Buffer).Write", "fmt.Fprint", "(*encoding/json.Encoder).Encode", "invoke:(io.Writer).Write", "(*os.File).Write", "io.WriteString"}

func hasAnyPrefix(s string, ps []string) bool {
	for _, p := range ps {
		if strings.HasPrefix(s, p) {
			return true
		}
	}
	return false
}

type ordEngine struct {
	p      *core.Program
	sums   map[*ssa.Function][]eff
	inProg map[*ssa.Function]bool
}

func newOrdEngine(p *core.Program) *ordEngine {
	return &ordEngine{p: p, sums: map[*ssa.Function][]eff{}, inProg: map[*ssa.Function]bool{}}
}

// constLike: value does not depend on anything computed (constants, empty literals)
func constLike(v ssa.Value) bool {
	switch x := v.(type) {
	case *ssa.Const:
		return true
	case *ssa.MakeInterface:
		return constLike(x.X)
	case *ssa.Convert:
		return constLike(x.X)
	}
	return false
}

// returnsExtended: every value g returns is its parameter pa, possibly extended by append (directly, through a
// local that starts as pa, or through a call of such a function — including g itself).
func returnsExtended(g *ssa.Function, pa *ssa.Parameter, seen map[*ssa.Function]bool) bool {
	if seen[g] {
		return true // coinductive: recursion through itself
	}
	seen[g] = true
	var ext func(v ssa.Value, d int) bool
	vis := map[ssa.Value]bool{}
	ext = func(v ssa.Value, d int) bool {
		if v == ssa.Value(pa) {
			return true
		}
		if d > 12 {
			return false
		}
		if vis[v] {
			return true
		}
		vis[v] = true
		switch x := v.(type) {
		case *ssa.Phi:
			for _, e := range x.Edges {
				if !ext(e, d+1) {
					return false
				}
			}
			return true
		case *ssa.Call:
			if _, isAppend := isBuiltinCall(x, "append"); isAppend {
				return ext(x.Call.Args[0], d+1)
			}
			if h := core.StaticCallee(&x.Call); h != nil && h.Blocks != nil {
				for i, a := range x.Call.Args {
					if i < len(h.Params) && types.Identical(a.Type(), pa.Type()) && ext(a, d+1) && returnsExtended(h, h.Params[i], seen) {
						return true
					}
				}
			}
			return false
		case *ssa.UnOp:
			// load of a local that is only ever assigned extended values
			if al, ok := x.X.(*ssa.Alloc); ok && x.Op == token.MUL {
				for _, st := range core.StoresTo(al) {
					if !ext(st.Val, d+1) {
						return false
					}
				}
				return len(core.StoresTo(al)) > 0
			}
		}
		return false
	}
	n := 0
	for _, ret := range core.Returns(g) {
		for _, res := range ret.Results {
			if types.Identical(res.Type(), pa.Type()) {
				n++
				if !ext(res, 0) {
					return false
				}
			}
		}
	}
	return n > 0
}

// instrEffects lists the escaping effects of one instruction in terms of roots of its own function.
func (e *ordEngine) instrEffects(in ssa.Instruction, depth int) []eff {
	var out []eff
	switch x := in.(type) {
	case *ssa.Store:
		r := rootOf(x.Addr, 0)
		kind := "store"
		if ap, ok := isBuiltinCall(x.Val, "append"); ok {
			if sameAddrLoad(ap.Call.Args[0], x.Addr) {
				kind = "append"
			}
		}
		// x = f(…, x, …) where f only ever returns its parameter extended by appends: an append through a helper
		if c, ok := x.Val.(*ssa.Call); ok {
			if g := core.StaticCallee(&c.Call); g != nil && g.Blocks != nil {
				for i, a := range c.Call.Args {
					if sameAddrLoad(a, x.Addr) && i < len(g.Params) && returnsExtended(g, g.Params[i], map[*ssa.Function]bool{}) {
						kind = "append"
					}
				}
			}
		}
		vk := "other"
		if constLike(x.Val) {
			vk = "const"
		}
		switch x.Val.(type) {
		case *ssa.MakeMap, *ssa.MakeSlice:
			// lazy initialisation `if x.f == nil { x.f = make(...) }` is idempotent
			ok1, n1, _ := core.MustPass(in.Parent(), in.Block(), func(cond ssa.Value) (bool, bool) {
				v, nonNilOnTrue, ok := core.NilCompare(cond)
				if !ok || !sameAddrLoad(v, x.Addr) {
					return false, false
				}
				return true, !nonNilOnTrue
			})
			if ok1 && n1 > 0 {
				vk = "const"
			}
		}
		if b, ok := x.Val.(*ssa.BinOp); ok && isIntType(b.Type()) && (sameAddrLoad(b.X, x.Addr) || sameAddrLoad(b.Y, x.Addr)) {
			switch b.Op {
			case token.ADD, token.SUB, token.OR, token.AND, token.XOR:
				vk = "accumulate"
			}
		}
		out = append(out, eff{Root: r, Kind: kind, ValKind: vk, Detail: core.Canon(x.Addr), Pos: x.Pos(), KeyIsP: -1})
	case *ssa.MapUpdate:
		r := rootOf(x.Map, 0)
		vk := "other"
		if constLike(x.Value) {
			vk = "const"
		}
		if b, ok := x.Value.(*ssa.BinOp); ok && isIntType(b.Type()) {
			if lk, ok := b.X.(*ssa.Lookup); ok && lk.Index == x.Key {
				vk = "accumulate"
			}
		}
		kr := rootOf(x.Key, 0)
		kp := -1
		if pa, ok := x.Key.(*ssa.Parameter); ok {
			kp = kr.Idx
			_ = pa
		}
		out = append(out, eff{Root: r, Kind: "mapset", KeyRoot: kr, KeyIsP: kp, ValKind: vk, Detail: core.Canon(x.Map), MapType: x.Map.Type().String(), Pos: x.Pos()})
	case *ssa.Send:
		out = append(out, eff{Root: root{Kind: "ext", Name: "channel send"}, Kind: "ext", Detail: "channel send", Pos: x.Pos(), KeyIsP: -1})
	case *ssa.Go:
		out = append(out, eff{Root: root{Kind: "ext", Name: "go statement"}, Kind: "ext", Detail: "go statement", Pos: x.Pos(), KeyIsP: -1})
	case ssa.CallInstruction:
		if _, isDefer := in.(*ssa.Defer); isDefer {
			// deferred calls run at function exit: treat like calls
		}
		c := x.Common()
		name := core.CalleeName(c)
		if b, ok := c.Value.(*ssa.Builtin); ok {
			switch b.Name() {
			case "delete":
				r := rootOf(c.Args[0], 0)
				out = append(out, eff{Root: r, Kind: "delete", Detail: core.Canon(c.Args[0]), Pos: in.Pos(), KeyIsP: -1})
			case "copy":
				r := rootOf(c.Args[0], 0)
				if r.escaping() {
					out = append(out, eff{Root: r, Kind: "store", ValKind: "other", Detail: "copy into " + core.Canon(c.Args[0]), Pos: in.Pos(), KeyIsP: -1})
				}
			case "clear":
				r := rootOf(c.Args[0], 0)
				if r.escaping() {
					out = append(out, eff{Root: r, Kind: "delete", Detail: core.Canon(c.Args[0]), Pos: in.Pos(), KeyIsP: -1})
				}
			}
			return out
		}
		if strings.HasPrefix(name, "(*sync.Pool).") {
			return nil
		}
		for _, w := range ordOrderedWriters {
			if strings.HasPrefix(name, w) {
				args := core.CallArgs(c)
				r := rootOf(args[0], 0)
				out = append(out, eff{Root: r, Kind: "orderedwrite", Detail: name + " on " + core.Canon(args[0]), Pos: in.Pos(), KeyIsP: -1})
				return out
			}
		}
		// module callees: translate their summaries
		var callees []*ssa.Function
		if callee := core.StaticCallee(c); callee != nil {
			callees = append(callees, callee)
		} else {
			g, _ := e.p.CallGraph()
			if n := g.Nodes[in.Parent()]; n != nil {
				for _, ed := range n.Out {
					if ed.Site == x && e.p.IsProdFunc(ed.Callee.Func) {
						callees = append(callees, ed.Callee.Func)
					}
				}
			}
		}
		handled := false
		for _, callee := range callees {
			if !e.p.IsProdFunc(callee) {
				continue
			}
			handled = true
			args := core.CallArgs(c)
			for _, ce := range e.summary(callee, depth+1) {
				ne := ce
				switch ce.Root.Kind {
				case "param":
					if ce.Root.Idx >= len(args) {
						continue
					}
					ne.Root = rootOf(args[ce.Root.Idx], 0)
				case "fv":
					// closure state: the binding at its creation site; state that the creating
					// activation allocated itself cannot be pre-existing shared state
					if fvs := callee.FreeVars; ce.Root.Idx < len(fvs) {
						if b := core.BindingOf(fvs[ce.Root.Idx]); b != nil {
							if rb := rootOf(b, 0); !rb.escaping() && callee.Parent() != in.Parent() {
								continue
							}
						}
					}
					if mc, ok := c.Value.(*ssa.MakeClosure); ok && ce.Root.Idx < len(mc.Bindings) {
						ne.Root = rootOf(mc.Bindings[ce.Root.Idx], 0)
						if !ne.Root.escaping() {
							continue
						}
					} else if fvs := callee.FreeVars; ce.Root.Idx < len(fvs) {
						if b := core.BindingOf(fvs[ce.Root.Idx]); b != nil && callee.Parent() == in.Parent() {
							ne.Root = rootOf(b, 0)
							if !ne.Root.escaping() {
								continue
							}
						}
					}
				}
				if ce.Kind == "mapset" && ce.KeyIsP >= 0 && ce.KeyIsP < len(args) {
					ne.KeyRoot = rootOf(args[ce.KeyIsP], 0)
					if pa, ok := args[ce.KeyIsP].(*ssa.Parameter); ok {
						ne.KeyIsP = rootOf(pa, 0).Idx
					} else {
						ne.KeyIsP = -1
					}
				}
				ne.Detail = ce.Detail + " via " + callee.Name()
				ne.Pos = in.Pos()
				out = append(out, ne)
			}
		}
		if handled {
			return out
		}
		if hasAnyPrefix(name, ordPurePkgs) {
			return nil
		}
		if name == "" {
			name = "dynamic call of " + core.Canon(c.Value)
		}
		// unknown library call: it may write through every reference it receives
		for _, a := range core.CallArgs(c) {
			if !isRefLike(a.Type()) {
				continue
			}
			if r := rootOf(a, 0); r.escaping() {
				out = append(out, eff{Root: r, Kind: "ext", Detail: name + "(" + shortExpr(a) + ")", Pos: in.Pos(), KeyIsP: -1})
			}
		}
	}
	return out
}

func isRefLike(t types.Type) bool {
	switch t.Underlying().(type) {
	case *types.Pointer, *types.Map, *types.Slice, *types.Chan, *types.Interface, *types.Signature:
		return true
	}
	return false
}

func isIntType(t types.Type) bool {
	b, ok := t.Underlying().(*types.Basic)
	return ok && b.Info()&types.IsInteger != 0
}

// sameAddrLoad: v is a load of addr (same address expression).
func sameAddrLoad(v, addr ssa.Value) bool {
	u, ok := v.(*ssa.UnOp)
	if !ok || u.Op != token.MUL {
		return false
	}
	return u.X == addr || core.Canon(u.X) == core.Canon(addr)
}

// summary returns the escaping effects of fn relative to its parameters (memoised).
func (e *ordEngine) summary(fn *ssa.Function, depth int) []eff {
	if s, ok := e.sums[fn]; ok {
		return s
	}
	if e.inProg[fn] || depth > 12 {
		return nil
	}
	e.inProg[fn] = true
	var out []eff
	seen := map[string]bool{}
	for _, f := range core.Nest(fn) {
		if f != fn {
			// closures are accounted where they are called (or passed); calls through variables
			// resolve via the call graph; to stay conservative include their effects on captured state
			continue
		}
		core.InstrsOf(f, func(in ssa.Instruction) {
			for _, ef := range e.instrEffects(in, depth) {
				if !ef.Root.escaping() {
					continue
				}
				k := ef.Root.String() + "|" + ef.Kind + "|" + ef.ValKind + "|" + ef.Detail
				if !seen[k] {
					seen[k] = true
					out = append(out, ef)
				}
			}
		})
	}
	delete(e.inProg, fn)
	e.sums[fn] = out
	return out
}

// ---------------------------------------------------------------------------------------------
// sites

type ordSite struct {
	fn     *ssa.Function
	kind   string // map-range | tainted-slice-range | goroutine
	name   string
	pos    token.Pos
	header *ssa.BasicBlock
	body   map[*ssa.BasicBlock]bool
	ranged ssa.Value // the ranged map
	key    ssa.Value // per-iteration identity (range key / loop index)
	elem   ssa.Value
}

// naturalLoop returns the blocks of the loop headed by h.
func naturalLoop(h *ssa.BasicBlock) map[*ssa.BasicBlock]bool {
	body := map[*ssa.BasicBlock]bool{h: true}
	var work []*ssa.BasicBlock
	for _, p := range h.Preds {
		if h.Dominates(p) && !body[p] {
			body[p] = true
			work = append(work, p)
		}
	}
	for len(work) > 0 {
		b := work[len(work)-1]
		work = work[:len(work)-1]
		for _, p := range b.Preds {
			if !body[p] && h.Dominates(p) {
				body[p] = true
				work = append(work, p)
			}
		}
	}
	return body
}

func mapRangeSites(fn *ssa.Function) []*ordSite {
	var out []*ordSite
	core.InstrsOf(fn, func(in ssa.Instruction) {
		rg, ok := in.(*ssa.Range)
		if !ok {
			return
		}
		if _, isMap := rg.X.Type().Underlying().(*types.Map); !isMap {
			return
		}
		refs := rg.Referrers()
		if refs == nil {
			return
		}
		for _, ref := range *refs {
			nx, ok := ref.(*ssa.Next)
			if !ok {
				continue
			}
			s := &ordSite{fn: fn, kind: "map-range", pos: rg.Pos(), header: nx.Block(), body: naturalLoop(nx.Block()), ranged: rg.X}
			s.name = core.FuncName(fn) + "#range(" + shortExpr(rg.X) + ")"
			if nrefs := nx.Referrers(); nrefs != nil {
				for _, r2 := range *nrefs {
					if ex, ok := r2.(*ssa.Extract); ok {
						switch ex.Index {
						case 1:
							s.key = ex
						case 2:
							s.elem = ex
						}
					}
				}
			}
			out = append(out, s)
		}
	})
	return out
}

func shortExpr(v ssa.Value) string {
	s := core.Canon(v)
	if i := strings.LastIndex(s, "."); i >= 0 && !strings.Contains(s[i:], "(") && !strings.Contains(s[i:], "[") {
		head := "…"
		if strings.HasPrefix(s, "*recv") || strings.HasPrefix(s, "recv") {
			head = "recv"
		} else if strings.HasPrefix(s, "*param") || strings.HasPrefix(s, "param") {
			head = strings.TrimPrefix(s[:strings.Index(s, ".")], "*")
		}
		return head + s[i:]
	}
	if len(s) > 40 {
		s = s[:40] + "…"
	}
	return s
}

// inBody: value is computed inside the loop (per iteration)
func (s *ordSite) variant(v ssa.Value) bool {
	in, ok := v.(ssa.Instruction)
	if !ok {
		return false
	}
	return s.body[in.Block()]
}

// invariantExpr: the value is the same in every iteration (computed from values defined outside
// the loop by pure operations).
func (s *ordSite) invariantExpr(v ssa.Value, d int) bool {
	if d > 8 {
		return false
	}
	if !s.variant(v) {
		return true
	}
	switch x := v.(type) {
	case *ssa.BinOp:
		return s.invariantExpr(x.X, d+1) && s.invariantExpr(x.Y, d+1)
	case *ssa.Convert:
		return s.invariantExpr(x.X, d+1)
	case *ssa.ChangeType:
		return s.invariantExpr(x.X, d+1)
	case *ssa.MakeInterface:
		return s.invariantExpr(x.X, d+1)
	case *ssa.Slice:
		return s.invariantExpr(x.X, d+1)
	case *ssa.Call:
		if b, ok := x.Call.Value.(*ssa.Builtin); ok && (b.Name() == "append" || b.Name() == "len") {
			for _, a := range x.Call.Args {
				if !s.invariantExpr(a, d+1) {
					return false
				}
			}
			return true
		}
	case *ssa.Alloc:
		// varargs array filled with invariant values
		ok := true
		if refs := x.Referrers(); refs != nil {
			for _, ref := range *refs {
				if ia, isIA := ref.(*ssa.IndexAddr); isIA {
					for _, st := range core.StoresTo(ia) {
						if !s.invariantExpr(st.Val, d+1) {
							ok = false
						}
					}
				}
			}
		}
		return ok
	}
	return false
}

// keyed: the value identifies the current iteration injectively (the range key itself, the loop
// index, or — for goroutine bodies — a per-iteration copy of the index).
func (s *ordSite) keyed(v ssa.Value) bool {
	v = core.Unwrap(v)
	if v == s.key && s.key != nil {
		return true
	}
	if s.key != nil && ownedBy(v, s.key, 0) {
		// reached from the iteration's own key through container traversal only: elements owned by
		// distinct keys are distinct (instructions of distinct blocks, fields of distinct objects)
		return true
	}
	if s.kind == "map-range" && s.elem != nil && v == s.elem {
		// element identity (pointer-valued maps): distinct keys may share a value; not injective
		return false
	}
	return false
}

// ordFinding is a classified effect of one site.
type ordFinding struct {
	class  string // K0..K7 or BAD
	detail string
	pos    token.Pos
}

type taint struct {
	desc  string
	addr  ssa.Value // tainted variable (address) or nil
	value ssa.Value // tainted SSA value (header phi) or nil
	site  *ordSite
}

// classifySite classifies the effects of one unordered loop.
func (e *ordEngine) classifySite(s *ordSite) (fs []ordFinding, taints []taint) {
	add := func(class, detail string, pos token.Pos) {
		fs = append(fs, ordFinding{class, detail, pos})
	}
	exitOnly := func(b *ssa.BasicBlock) bool {
		// the block cannot come back to the header: it runs at most once per loop execution
		reach := core.ReachAvoiding(b, nil)
		return !reach[s.header] || !s.body[b]
	}
	var blocks []*ssa.BasicBlock
	for b := range s.body {
		blocks = append(blocks, b)
	}
	sort.Slice(blocks, func(i, j int) bool { return blocks[i].Index < blocks[j].Index })
	for _, b := range blocks {
		for _, in := range b.Instrs {
			// loop-carried values
			if ph, ok := in.(*ssa.Phi); ok && b == s.header {
				cls, det, t := s.classifyCarried(ph)
				if cls != "" {
					add(cls, det, ph.Pos())
				}
				if t != nil {
					taints = append(taints, *t)
				}
				continue
			}
			for _, ef := range e.instrEffects(in, 0) {
				// the root as seen from this function; iteration-local objects do not escape
				if ef.Root.Kind == "local" {
					inst, ok := ef.Root.V.(ssa.Instruction)
					if !ok || s.body[inst.Block()] {
						continue // object created in this very iteration (or a constant)
					}
				}
				switch ef.Kind {
				case "delete":
					if st, ok := in.(ssa.CallInstruction); ok && len(st.Common().Args) > 0 && core.Canon(st.Common().Args[0]) == core.Canon(s.ranged) {
						add("K0", "delete from the ranged map", ef.Pos)
					} else {
						add("K3", "delete from "+ef.Detail+" (deletions commute)", ef.Pos)
					}
				case "pool":
					add("K7", "pool get/put", ef.Pos)
				case "store", "append", "mapset":
					switch {
					case ef.ValKind == "const" || s.storeInvariant(in):
						add("K1", "idempotent write of a loop-invariant value to "+ef.Detail, ef.Pos)
					case ef.ValKind == "accumulate":
						add("K2", "commutative integer accumulation into "+ef.Detail, ef.Pos)
					case ef.Kind == "mapset" && s.keyedEffect(in, ef):
						add("K3", "write to "+ef.Detail+" keyed by the iteration's own key", ef.Pos)
					case ef.Kind == "store" && s.slotStore(in):
						add("K3", "write to a slot addressed by the iteration's own key/index", ef.Pos)
					case ef.Kind == "append":
						add("K4", "append to "+ef.Detail+" in iteration order", ef.Pos)
						taints = append(taints, taint{desc: ef.Detail, addr: storeAddr(in), site: s})
						if ta := e.pointerTarget(in, ef); ta != nil {
							taints[len(taints)-1].addr = ta
						}
					case ef.Kind == "mapset" && memoFill(in, ef):
						add("K5", "memo fill "+ef.Detail+" (same value whichever iteration computes it first)", ef.Pos)
					case exitOnly(b) && s.invariantExprStore(in):
						add("K1", "single write on the exit path", ef.Pos)
					case s.resetBeforeUse(in, ef):
						add("K6", "scratch value reset at the start of every iteration", ef.Pos)
					default:
						if reason := ordAcceptedEffect(s.name, ef.Detail); reason != "" {
							add("K5", "accepted by table: "+reason, ef.Pos)
						} else {
							add("BAD", "last-writer-wins write to "+ef.Detail+": the surviving value depends on iteration order", ef.Pos)
						}
					}
				case "orderedwrite":
					if strings.Contains(ef.Detail, "os.Stderr") || strings.Contains(ef.Detail, "Stderr") {
						add("K1", "diagnostic on stderr (not part of any report)", ef.Pos)
					} else {
						add("BAD", "ordered output "+ef.Detail+" inside unordered iteration", ef.Pos)
					}
				case "ext":
					add("BAD", "unclassified effect: "+ef.Detail, ef.Pos)
				}
			}
		}
	}
	// an early exit after element-dependent effects: which elements were processed depends on the iteration order
	elementEffects := ""
	for _, f := range fs {
		switch f.class {
		case "K2", "K3", "K4", "K5":
			if elementEffects == "" {
				elementEffects = f.detail
			}
		}
	}
	if elementEffects != "" {
		for _, b := range blocks {
			if b == s.header {
				continue
			}
			for _, sc := range b.Succs {
				if s.body[sc] {
					continue
				}
				// leaving the loop from inside the body (break / return / goto)
				if exitsWithError(sc) {
					continue // abandoning the whole computation with an error is not a partial result
				}
				pos := token.NoPos
				if len(b.Instrs) > 0 {
					pos = b.Instrs[len(b.Instrs)-1].Pos()
				}
				if pos == token.NoPos {
					pos = s.pos
				}
				add("BAD", "the loop can be left early after "+elementEffects+": only some elements are processed, and which ones depends on the iteration order", pos)
			}
		}
	}
	// values escaping through early exits: defined in the body, used outside it
	for _, b := range blocks {
		for _, in := range b.Instrs {
			v, ok := in.(ssa.Value)
			if !ok {
				continue
			}
			refs := v.Referrers()
			if refs == nil {
				continue
			}
			for _, ref := range *refs {
				if s.body[ref.Block()] {
					continue
				}
				if ph, isPhi := ref.(*ssa.Phi); isPhi {
					_ = ph
				}
				if _, isHeaderExit := v.(*ssa.Phi); isHeaderExit && b == s.header {
					continue // loop-carried values leave through the header: handled above
				}
				if s.invariantExpr(v, 0) {
					continue
				}
				if _, isNext := v.(*ssa.Next); isNext {
					continue
				}
				if ex, isEx := v.(*ssa.Extract); isEx {
					if _, fromNext := ex.Tuple.(*ssa.Next); fromNext && ex.Index == 0 {
						continue
					}
				}
				add("BAD", fmt.Sprintf("value %s computed in one iteration is used after the loop (first-match / early exit): which element it comes from depends on iteration order", shortExpr(v)), ref.Pos())
			}
		}
	}
	return
}

// exitsWithError: every path from b returns with a non-nil error as its last result (the loop's partial work is
// abandoned together with the call).
func exitsWithError(b *ssa.BasicBlock) bool {
	seen := map[*ssa.BasicBlock]bool{}
	var walk func(b *ssa.BasicBlock, d int) bool
	walk = func(b *ssa.BasicBlock, d int) bool {
		if seen[b] || d > 6 {
			return false
		}
		seen[b] = true
		if len(b.Instrs) == 0 {
			return false
		}
		switch x := b.Instrs[len(b.Instrs)-1].(type) {
		case *ssa.Return:
			if len(x.Results) == 0 {
				return false
			}
			last := x.Results[len(x.Results)-1]
			return last.Type().String() == "error" && !core.IsNilConst(last)
		case *ssa.Panic:
			return true
		}
		if len(b.Succs) == 0 {
			return false
		}
		for _, sc := range b.Succs {
			if !walk(sc, d+1) {
				return false
			}
		}
		return true
	}
	return walk(b, 0)
}

func storeAddr(in ssa.Instruction) ssa.Value {
	if st, ok := in.(*ssa.Store); ok {
		return st.Addr
	}
	return nil
}

// pointerTarget: for an append performed by a callee through a pointer argument, the caller's variable.
func (e *ordEngine) pointerTarget(in ssa.Instruction, ef eff) ssa.Value {
	ci, ok := in.(ssa.CallInstruction)
	if !ok {
		return nil
	}
	for _, a := range core.CallArgs(ci.Common()) {
		if _, isPtr := a.Type().Underlying().(*types.Pointer); isPtr {
			if r := rootOf(a, 0); r.String() == ef.Root.String() && (r.V == ef.Root.V || r.V == nil || ef.Root.V == nil) {
				return a
			}
		}
	}
	return nil
}

// storeInvariant: the stored value (and for map updates the key) do not depend on the iteration.
func (s *ordSite) storeInvariant(in ssa.Instruction) bool {
	switch x := in.(type) {
	case *ssa.Store:
		return s.invariantExpr(x.Val, 0) && !s.variant(x.Addr) || s.invariantExpr(x.Val, 0) && s.addrInvariant(x.Addr)
	case *ssa.MapUpdate:
		return s.invariantExpr(x.Value, 0)
	}
	return false
}

func (s *ordSite) invariantExprStore(in ssa.Instruction) bool {
	switch x := in.(type) {
	case *ssa.Store:
		return s.invariantExpr(x.Val, 0)
	case *ssa.MapUpdate:
		return s.invariantExpr(x.Value, 0) && s.invariantExpr(x.Key, 0)
	}
	return false
}

func (s *ordSite) addrInvariant(a ssa.Value) bool {
	switch x := a.(type) {
	case *ssa.FieldAddr:
		return s.addrInvariant(x.X)
	case *ssa.IndexAddr:
		return s.addrInvariant(x.X) && s.invariantExpr(x.Index, 0)
	case *ssa.UnOp:
		return s.addrInvariant(x.X)
	}
	return !s.variant(a)
}

// keyedEffect: a map write whose key is the iteration's own key (directly or through a callee parameter).
func (s *ordSite) keyedEffect(in ssa.Instruction, ef eff) bool {
	switch x := in.(type) {
	case *ssa.MapUpdate:
		return s.keyed(x.Key)
	case ssa.CallInstruction:
		// the callee writes m[param_j]; the argument bound to param_j must be the iteration key
		for _, a := range core.CallArgs(x.Common()) {
			if s.keyed(a) && ef.KeyRoot.Kind != "" {
				return true
			}
		}
	}
	return false
}

// slotStore: store through IndexAddr whose index is the iteration key / a per-iteration copy of it.
func (s *ordSite) slotStore(in ssa.Instruction) bool {
	st, ok := in.(*ssa.Store)
	if !ok {
		return false
	}
	a := st.Addr
	for {
		switch x := a.(type) {
		case *ssa.FieldAddr:
			a = x.X
			continue
		case *ssa.IndexAddr:
			return s.keyed(core.Resolve(x.Index)) || s.keyed(x.Index)
		}
		return false
	}
}

// memoFill: cache[k] = pure(k) performed by a callee on its own parameter-keyed cache.
func memoFill(in ssa.Instruction, ef eff) bool {
	ci, ok := in.(ssa.CallInstruction)
	if !ok {
		return false
	}
	callee := core.StaticCallee(ci.Common())
	if callee == nil {
		return false
	}
	// the callee consults the same map with the same key before computing (memo discipline)
	ok2, _ := detMemo2(callee)
	return ok2 && ef.Kind == "mapset"
}

// resetBeforeUse: the written variable is assigned a fresh value at the start of each iteration
// before any read (scratch buffers).
func (s *ordSite) resetBeforeUse(in ssa.Instruction, ef eff) bool {
	return false
}

// classifyCarried classifies a loop-carried value (header phi).
func (s *ordSite) classifyCarried(ph *ssa.Phi) (class, detail string, t *taint) {
	// range bookkeeping (the hidden iterator) is not a phi; every header phi is a variable
	var updates []ssa.Value
	seen := map[ssa.Value]bool{ph: true}
	var walk func(v ssa.Value)
	walk = func(v ssa.Value) {
		if seen[v] {
			return
		}
		seen[v] = true
		if p2, ok := v.(*ssa.Phi); ok && s.body[p2.Block()] {
			for _, e := range p2.Edges {
				walk(e)
			}
			return
		}
		updates = append(updates, v)
	}
	for i, e := range ph.Edges {
		if s.body[ph.Block().Preds[i]] {
			walk(e)
		}
	}
	if len(updates) == 0 {
		return "", "", nil
	}
	// scratch buffer: the only use of the carried value inside the loop is `x[:0]`
	if refs := ph.Referrers(); refs != nil {
		onlyReset, any := true, false
		for _, ref := range *refs {
			if !s.body[ref.Block()] {
				continue
			}
			any = true
			sl, ok := ref.(*ssa.Slice)
			hi, isC := int64(-1), false
			if ok && sl.High != nil {
				hi, isC = core.ConstInt(sl.High)
			}
			if !ok || sl.Low != nil || !isC || hi != 0 {
				onlyReset = false
			}
		}
		if any && onlyReset {
			// it must not be used after the loop either
			used := false
			for _, ref := range *refs {
				if !s.body[ref.Block()] {
					if _, isDbg := ref.(*ssa.DebugRef); !isDbg {
						used = true
					}
				}
			}
			if !used {
				return "K6", "scratch buffer " + ph.Comment + " is truncated to length 0 before every use", nil
			}
		}
	}
	name := ph.Comment
	if name == "" {
		name = ph.Name()
	}
	derives := func(v ssa.Value) bool { // v is ph or a body phi merging ph
		if v == ssa.Value(ph) {
			return true
		}
		if p2, ok := v.(*ssa.Phi); ok && s.body[p2.Block()] {
			return seen[p2]
		}
		return false
	}
	worst := ""
	for _, u := range updates {
		switch {
		case s.invariantExpr(u, 0):
			if worst == "" {
				worst, detail = "K1", "variable "+name+" is set to a loop-invariant value"
			}
		case isAccumulate(u, derives):
			if worst == "" || worst == "K1" {
				worst, detail = "K2", "integer accumulation into "+name
			}
		case isAppendTo(u, derives):
			worst, detail = "K4", "append to "+name+" in iteration order"
			t = &taint{desc: name, value: ph, site: s}
		default:
			return "BAD", "variable " + name + " carries an order-dependent value across iterations (" + shortExpr(u) + ")", nil
		}
	}
	return worst, detail, t
}

func isAccumulate(u ssa.Value, derives func(ssa.Value) bool) bool {
	b, ok := u.(*ssa.BinOp)
	if !ok || !isIntType(b.Type()) {
		return false
	}
	switch b.Op {
	case token.ADD, token.OR, token.AND, token.XOR, token.MUL:
		return derives(b.X) || derives(b.Y)
	case token.SUB:
		return derives(b.X)
	}
	return false
}

func isAppendTo(u ssa.Value, derives func(ssa.Value) bool) bool {
	ap, ok := isBuiltinCall(u, "append")
	return ok && derives(ap.Call.Args[0])
}

// ---------------------------------------------------------------------------------------------
// taint discharge: an order-tainted collection must be totally sorted before any order-sensitive use

// totalComparators: element type → compared field that is unique among the elements, with reason.
var ordTotalTable = map[string]string{
	"*ssa.BasicBlock.Index":               "block indices are unique within one function, and the sorted slice holds blocks of one function",
	"diff.FingerprintResult.FunctionName": "RelString of distinct *ssa.Function objects of one package is unique and results are de-duplicated by a visited set",
}

// sanitizer: call sorts the tainted collection with a total order
func sanitizes(c *ssa.Call, isTainted func(ssa.Value) bool) (bool, string) {
	name := core.CalleeName(&c.Call)
	switch name {
	case "sort.Strings", "sort.Ints", "sort.Float64s", "slices.Sort":
		if isTainted(core.Unwrap(c.Call.Args[0])) {
			return true, name
		}
	case "sort.Slice", "sort.SliceStable":
		if !isTainted(core.Unwrap(c.Call.Args[0])) {
			return false, ""
		}
		less := closureFunc(c.Call.Args[1])
		if less == nil {
			return false, "unresolved comparator"
		}
		for _, ret := range core.Returns(less) {
			b, ok := ret.Results[0].(*ssa.BinOp)
			if !ok || (b.Op != token.LSS && b.Op != token.GTR) {
				return false, "comparator is not a single < / > on one key"
			}
			bx, fx, okx := sigField(b.X)
			_, fy, oky := sigField(b.Y)
			if !okx || !oky || fx != fy {
				return false, "comparator is not a single-field comparison"
			}
			et := core.TypeName(bx.Type())
			if sl, ok := core.Unwrap(c.Call.Args[0]).Type().Underlying().(*types.Slice); ok {
				et = core.TypeName(sl.Elem())
				if _, isPtr := sl.Elem().Underlying().(*types.Pointer); isPtr {
					et = "*" + et
				}
			}
			key := et + "." + fx
			if _, ok := ordTotalTable[key]; ok {
				return true, name + " by " + key + " (total: " + ordTotalTable[key] + ")"
			}
			if _, ok := ordTotalTable["*"+key]; ok {
				return true, name + " by *" + key + " (total: " + ordTotalTable["*"+key] + ")"
			}
			return false, "unreviewed comparator for element key " + key + " (not in the TOTAL table): a non-total order keeps the tainted input order among ties"
		}
	}
	return false, ""
}

// discharge checks the uses of a tainted collection after its loop.
func (e *ordEngine) discharge(t taint) (ok bool, detail string) {
	s := t.site
	fn := s.fn
	isTainted := func(v ssa.Value) bool {
		if t.value != nil && v == t.value {
			return true
		}
		if t.addr != nil {
			if u, isLoad := v.(*ssa.UnOp); isLoad && u.Op == token.MUL && (u.X == t.addr || core.Canon(u.X) == core.Canon(t.addr)) {
				return true
			}
			if v == t.addr { // pointer itself handed on
				return true
			}
		}
		return false
	}
	// sanitizer after the loop
	var san *ssa.Call
	sanDesc := ""
	why := ""
	core.InstrsOf(fn, func(in ssa.Instruction) {
		if c, isCall := in.(*ssa.Call); isCall && !s.body[c.Block()] {
			if yes, d := sanitizes(c, isTainted); yes {
				san, sanDesc = c, d
			} else if d != "" {
				why = d
			}
		}
	})
	// collect uses outside the loop
	var bad []string
	checkUse := func(ref ssa.Instruction, v ssa.Value) {
		if s.body[ref.Block()] {
			return
		}
		if san != nil && (ref == ssa.Instruction(san) || core.Precedes(san, ref)) {
			return
		}
		switch x := ref.(type) {
		case *ssa.Call:
			if b, isB := x.Call.Value.(*ssa.Builtin); isB && (b.Name() == "len" || b.Name() == "cap") {
				return
			}
			if san != nil && x == san {
				return
			}
		case *ssa.MakeInterface:
			// the interface value handed to sort.*: covered by the sanitizer check
			if refs := x.Referrers(); refs != nil {
				all := true
				for _, r2 := range *refs {
					if c2, ok := r2.(*ssa.Call); !ok || san == nil || c2 != san {
						all = false
					}
				}
				if all {
					return
				}
			}
		case *ssa.Phi:
			return // merges are followed through their own uses
		case *ssa.DebugRef:
			return
		case *ssa.Store:
			if x.Addr == t.addr {
				return
			}
		}
		bad = append(bad, fmt.Sprintf("%T at %s", ref, e.p.Pos(ref.Pos())))
	}
	seen := map[ssa.Value]bool{}
	var follow func(v ssa.Value)
	follow = func(v ssa.Value) {
		if v == nil || seen[v] {
			return
		}
		seen[v] = true
		refs := v.Referrers()
		if refs == nil {
			return
		}
		for _, ref := range *refs {
			checkUse(ref, v)
			if ph, isPhi := ref.(*ssa.Phi); isPhi && !s.body[ph.Block()] {
				follow(ph)
			}
		}
	}
	if t.value != nil {
		follow(t.value)
	}
	if t.addr != nil {
		// loads of the variable outside the loop
		core.InstrsOf(fn, func(in ssa.Instruction) {
			if u, isLoad := in.(*ssa.UnOp); isLoad && u.Op == token.MUL && (u.X == t.addr || core.Canon(u.X) == core.Canon(t.addr)) && !s.body[u.Block()] {
				if san != nil && core.Precedes(san, u) {
					return
				}
				follow(u)
			}
		})
		// the variable is a pointer parameter / result of the function: its final content leaves the function
		if r := rootOf(t.addr, 0); r.Kind == "param" && san == nil {
			bad = append(bad, "content handed back to the caller through parameter "+r.String())
		}
	}
	if len(bad) == 0 {
		if san != nil {
			return true, "sorted by " + sanDesc + " before any order-sensitive use"
		}
		// a field of an object that outlives the function: every reader in the program counts
		if fa, ok := t.addr.(*ssa.FieldAddr); ok {
			fname := core.FieldName(fa.X.Type(), fa.Field)
			owner := core.Deref(fa.X.Type())
			var sens []string
			for _, f := range e.p.Funcs {
				core.InstrsOf(f, func(in ssa.Instruction) {
					fa2, ok := in.(*ssa.FieldAddr)
					if !ok || core.Deref(fa2.X.Type()) != owner || core.FieldName(fa2.X.Type(), fa2.Field) != fname || fa2.Referrers() == nil {
						return
					}
					for _, ref := range *fa2.Referrers() {
						u, isLoad := ref.(*ssa.UnOp)
						if !isLoad || u.Referrers() == nil {
							continue
						}
						for _, r2 := range *u.Referrers() {
							if f == fn && s.body[r2.Block()] {
								continue
							}
							switch y := r2.(type) {
							case *ssa.Call:
								if b, isB := y.Call.Value.(*ssa.Builtin); isB && (b.Name() == "len" || b.Name() == "cap" || b.Name() == "append") {
									continue
								}
							case *ssa.IndexAddr:
								// x[0] under len(x) == 1 is the only element whatever the order
								if k, isC := core.ConstInt(y.Index); isC && k == 0 {
									ok1, n1, _ := core.MustPass(f, y.Block(), func(cond ssa.Value) (bool, bool) {
										op, a, b, neg, ok := core.Compare(cond)
										if !ok || neg {
											return false, false
										}
										if _, isLen := isBuiltinCall(a, "len"); !isLen {
											return false, false
										}
										one, isOne := core.ConstInt(b)
										return isOne && one == 1, op == token.EQL
									})
									if ok1 && n1 > 0 {
										continue
									}
								}
							case *ssa.DebugRef:
								continue
							}
							sens = append(sens, fmt.Sprintf("%s at %s", core.FuncName(f), e.p.Pos(r2.Pos())))
						}
					}
				})
			}
			if len(sens) > 0 {
				sort.Strings(sens)
				return false, "field " + fname + " is filled in iteration order and never sorted; order-sensitive readers: " + strings.Join(uniq(sens), ", ")
			}
			return true, "field " + fname + ": every reader only takes its length or its single element"
		}
		return true, "only order-insensitive uses (len) after the loop"
	}
	sort.Strings(bad)
	if why != "" {
		return false, why + "; order-sensitive uses: " + strings.Join(uniq(bad), ", ")
	}
	return false, "collection built in iteration order reaches order-sensitive uses without a total sort: " + strings.Join(uniq(bad), ", ")
}

// ---------------------------------------------------------------------------------------------
// goroutine bodies

func (e *ordEngine) classifyGoroutine(body *ssa.Function, launch *ssa.Function) (fs []ordFinding, taints []taint) {
	add := func(class, detail string, pos token.Pos) {
		fs = append(fs, ordFinding{class, detail, pos})
	}
	// per-iteration copies: captured variables whose binding is an Alloc inside the launching loop
	// that is stored exactly once with (a copy of) the loop index / element
	perIter := map[*ssa.FreeVar]bool{}
	for _, fv := range body.FreeVars {
		b := core.BindingOf(fv)
		al, ok := b.(*ssa.Alloc)
		if !ok {
			continue
		}
		if core.LoopHeaderOf(al.Block()) != nil && len(core.StoresTo(al)) == 1 {
			perIter[fv] = true
		}
	}
	isPerIterLoad := func(v ssa.Value) bool {
		u, ok := v.(*ssa.UnOp)
		if !ok || u.Op != token.MUL {
			return false
		}
		fv, ok := u.X.(*ssa.FreeVar)
		for i := 0; ok && i < 4; i++ {
			if perIter[fv] {
				return true
			}
			// a closure nested in the body captures the body's captured variable
			b := core.BindingOf(fv)
			fv, ok = b.(*ssa.FreeVar)
		}
		return false
	}
	nested := map[string]bool{}
	for _, f := range core.Nest(body)[1:] {
		nested[f.Name()] = true
	}
	for _, f := range core.Nest(body) {
		core.InstrsOf(f, func(in ssa.Instruction) {
			for _, ef := range e.instrEffects(in, 0) {
				if ef.Root.Kind != "fv" && ef.Root.Kind != "global" && ef.Root.Kind != "ext" && ef.Root.Kind != "unknown" && ef.Root.Kind != "param" {
					continue
				}
				// effects of closures nested in the body are classified where they occur, not at their call
				if i := strings.LastIndex(ef.Detail, " via "); i >= 0 && nested[ef.Detail[i+5:]] {
					continue
				}
				switch ef.Kind {
				case "store", "append", "mapset":
					st, _ := in.(*ssa.Store)
					switch {
					case ef.ValKind == "const":
						add("K1", "idempotent write of a constant to captured "+ef.Detail, ef.Pos)
					case ef.ValKind == "accumulate":
						add("K2", "commutative integer accumulation into captured "+ef.Detail, ef.Pos)
					case st != nil && slotByPerIter(st.Addr, isPerIterLoad):
						add("K3", "write to a slot addressed by this goroutine's own index", ef.Pos)
					case ef.Kind == "append":
						add("K4", "append to shared "+ef.Detail+" in completion order", ef.Pos)
						fvr, _ := ef.Root.V.(*ssa.FreeVar)
						var addr ssa.Value
						if fvr != nil {
							addr = core.BindingOf(fvr)
						}
						taints = append(taints, taint{desc: ef.Detail, addr: addr, site: &ordSite{fn: launch, kind: "goroutine", body: map[*ssa.BasicBlock]bool{}}})
					default:
						add("BAD", "write to shared "+ef.Detail+" whose final value depends on goroutine scheduling", ef.Pos)
					}
				case "orderedwrite":
					if strings.Contains(ef.Detail, "Stderr") {
						add("K1", "diagnostic on stderr (not part of any report)", ef.Pos)
					} else {
						add("BAD", "ordered output "+ef.Detail+" from concurrent goroutines", ef.Pos)
					}
				case "ext":
					if strings.Contains(ef.Detail, "os.Stderr") {
						continue
					}
					add("BAD", "unclassified effect in a goroutine: "+ef.Detail, ef.Pos)
				case "delete":
					add("K3", "delete (commutes)", ef.Pos)
				}
			}
		})
	}
	return
}

func slotByPerIter(addr ssa.Value, isPerIterLoad func(ssa.Value) bool) bool {
	for {
		switch x := addr.(type) {
		case *ssa.FieldAddr:
			addr = x.X
			continue
		case *ssa.IndexAddr:
			return isPerIterLoad(x.Index)
		}
		return false
	}
}

// ---------------------------------------------------------------------------------------------
// driver shared by C01 and C10

func runOrd(r *core.Run, rule string, scope map[*ssa.Function]bool, minSites int) {
	p := r.P
	e := newOrdEngine(p)
	n := 0
	for _, fn := range core.SortedFuncs(scope) {
		for _, s := range mapRangeSites(fn) {
			n++
			fs, taints := e.classifySite(s)
			classes := map[string]int{}
			var bads []string
			var badPos token.Pos
			for _, f := range fs {
				classes[f.class]++
				if f.class == "BAD" {
					bads = append(bads, f.detail)
					if badPos == token.NoPos {
						badPos = f.pos
					}
				}
			}
			var cs []string
			for c, k := range classes {
				cs = append(cs, fmt.Sprintf("%s×%d", c, k))
			}
			sort.Strings(cs)
			if len(bads) > 0 {
				if badPos == token.NoPos {
					badPos = s.pos
				}
				r.Fail(rule, s.name, badPos, "order-sensitive effect in a range over a map: "+strings.Join(uniq(sortedCopy(bads)), "; "))
				continue
			}
			okAll := true
			var notes []string
			for _, t := range taints {
				ok, d := e.discharge(t)
				if !ok {
					okAll = false
					r.Fail(rule, s.name+"→"+t.desc, s.pos, "range over a map: "+d)
				} else {
					notes = append(notes, t.desc+": "+d)
				}
			}
			if okAll {
				r.OK(rule, s.name, s.pos, "effects "+strings.Join(cs, " ")+"; "+strings.Join(notes, "; "))
			}
		}
	}
	r.Floor(rule, "range-over-map sites in scope", n, minSites)
}

func sortedCopy(s []string) []string {
	c := append([]string{}, s...)
	sort.Strings(c)
	return c
}

func runOrdGoroutines(r *core.Run, rule string, scope map[*ssa.Function]bool, min int) {
	p := r.P
	e := newOrdEngine(p)
	n := 0
	for _, fn := range core.SortedFuncs(scope) {
		core.InstrsOf(fn, func(in ssa.Instruction) {
			var body *ssa.Function
			if g, ok := in.(*ssa.Go); ok {
				body = closureFunc(g.Call.Value)
			} else if c := core.CallOf(in); c != nil && strings.HasSuffix(core.CalleeName(c), "errgroup.Group).Go") {
				body = closureFunc(c.Args[1])
			}
			if body == nil {
				return
			}
			n++
			name := core.FuncName(body) + "#goroutine"
			fs, taints := e.classifyGoroutine(body, fn)
			var bads []string
			classes := map[string]int{}
			for _, f := range fs {
				classes[f.class]++
				if f.class == "BAD" {
					bads = append(bads, f.detail)
				}
			}
			if len(bads) > 0 {
				r.Fail(rule, name, in.Pos(), "scheduling-sensitive effect in a goroutine body: "+strings.Join(uniq(sortedCopy(bads)), "; "))
				return
			}
			okAll := true
			for _, t := range taints {
				if t.addr == nil {
					okAll = false
					r.Fail(rule, name+"→"+t.desc, in.Pos(), "shared collection filled in completion order (cannot resolve the variable)")
					continue
				}
				ok, d := e.discharge(t)
				if !ok {
					okAll = false
					r.Fail(rule, name+"→"+t.desc, in.Pos(), "goroutines append to a shared collection: "+d)
				}
			}
			var cs []string
			for c, k := range classes {
				cs = append(cs, fmt.Sprintf("%s×%d", c, k))
			}
			sort.Strings(cs)
			if okAll {
				r.OK(rule, name, in.Pos(), "effects on shared state: "+strings.Join(cs, " "))
			}
		})
	}
	r.Floor(rule, "goroutine bodies in scope", n, min)
}

// ownedBy: v is obtained from owner by field/index/element access and type assertion only.
func ownedBy(v, owner ssa.Value, d int) bool {
	if d > 8 || v == nil {
		return false
	}
	if v == owner {
		return d > 0
	}
	switch x := v.(type) {
	case *ssa.UnOp:
		if x.Op == token.MUL {
			return x.X == owner || ownedBy(x.X, owner, d+1)
		}
	case *ssa.FieldAddr:
		return x.X == owner || ownedBy(x.X, owner, d+1)
	case *ssa.IndexAddr:
		return x.X == owner || ownedBy(x.X, owner, d+1)
	case *ssa.Field:
		return x.X == owner || ownedBy(x.X, owner, d+1)
	case *ssa.Index:
		return x.X == owner || ownedBy(x.X, owner, d+1)
	case *ssa.TypeAssert:
		return x.X == owner || ownedBy(x.X, owner, d+1)
	case *ssa.Extract:
		return ownedBy(x.Tuple, owner, d+1)
	case *ssa.MakeInterface:
		return ownedBy(x.X, owner, d+1)
	case *ssa.ChangeType:
		return ownedBy(x.X, owner, d+1)
	}
	return false
}

// ordAccepted: sites whose effect is order-insensitive for a reason the engine cannot derive.
// One line of reason per exception; the key is construct + a fragment of the effect description.
var ordAccepted = []struct{ site, effect, reason string }{
	{"cli.collectDependencies#range(param0.Imports)", "param1 via collectDependencies",
		"deps[path] receives the package go/packages resolved for path — one *packages.Package per import path within one load, so the written value is a function of the key (memo semantics); the visited set only receives the constant true"},
}

func ordAcceptedEffect(site, detail string) string {
	for _, a := range ordAccepted {
		if a.site == site && strings.Contains(detail, a.effect) {
			return a.reason
		}
	}
	return ""
}
