package rules

import (
	"fmt"
	"go/token"
	"go/types"
	"os"
	"regexp"
	"strings"

	"golang.org/x/tools/go/ssa"

	"sfwverif/internal/core"
)

func init() { register("C16", c16) }

func isFileOutput(p *core.Program, t types.Type) bool {
	return core.IsNamed(t, modelsPath(p), "FileOutput")
}

// errorValuesOf lists the error results produced by calls in fn (direct error results and the last
// element of tuple results).
func errorValuesOf(fn *ssa.Function) []ssa.Value {
	var out []ssa.Value
	core.InstrsOf(fn, func(in ssa.Instruction) {
		switch x := in.(type) {
		case *ssa.Call:
			if isErrorType(x.Type()) {
				out = append(out, x)
			}
		case *ssa.Extract:
			if isErrorType(x.Type()) {
				if _, isCall := x.Tuple.(*ssa.Call); isCall {
					out = append(out, x)
				}
			}
		}
	})
	return out
}

func c16(r *core.Run) {
	p := r.P
	r.Explain = "C16 decided structurally: (ERR) in the per-file worker a result without an error message is returned only on the path where every error-returning step succeeded and the size test passed; a recover() in a per-file goroutine of the check command records an error for that file's slot and raises the error flag, in the scan command it writes a diagnostic naming the file; (STRICT) with strict mode on and the error flag set no success return is reachable, and the flag is raised whenever a result carries an error message; (ENUM) the enumerator visits function members and all methods of named types, recurses into anonymous functions on every non-skipped path and skips synthetic functions only if they are not range-over-func bodies; (WALK) the file collector's decisions are built only from the enumerated exclusion atoms (vendor, hidden and not the root, not .go, _test.go, walk error, is-directory) — closed world; (SIZE) size tests precede reading and reads are bounded by LimitReader; (ATTR) file/line come from the function's own position. Not decided: the value of the walk predicate on every possible file name (only its atom set), files excluded by build constraints. (ENUM, sharpened) the synthetic-function skip never returns for the package initialiser before its anonymous functions are visited."
	r.Undecided = []string{"value of the walk predicate on every file name", "files dropped by go/packages because of build constraints"}

	// ---- per-file worker: returns models.FileOutput
	nWorker := 0
	for _, fn := range p.FuncsIn("internal/cli") {
		rt := resultTypes(fn)
		if len(rt) != 1 || !isFileOutput(p, rt[0]) || fn.Parent() != nil {
			continue
		}
		nWorker++
		fnm := core.FuncName(fn)
		errs := errorValuesOf(fn)
		r.Floor("C16.ERR", "error-returning steps in "+fnm, len(errs), 4)
		nOK := 0
		for _, ret := range core.Returns(fn) {
			if v, ok := core.StructLitField(ret.Results[0], "ErrorMessage"); ok && v != nil {
				if s, isC := core.ConstString(v); isC && s == "" {
					r.Fail("C16.ERR", fnm+"#error-result", ret.Pos(), "an error result carries an empty error message")
				}
				continue
			}
			nOK++
			for _, e := range errs {
				ev := e
				// scanning errors are reported on stderr and do not drop the file: exempt calls on the scanner interface
				if ex, ok := e.(*ssa.Extract); ok {
					if c, ok := ex.Tuple.(*ssa.Call); ok && c.Call.IsInvoke() && strings.Contains(c.Call.Method.Name(), "Scan") {
						continue
					}
				}
				ok1, n1, path := core.MustPass(fn, ret.Block(), core.NilGuard(func(x ssa.Value) bool { return x == ev }))
				r.Check(ok1 && n1 > 0, "C16.ERR", fnm+"#success-needs("+shape(e, 0)+")", ret.Pos(), "a result without error is returned only when this step succeeded", "a file whose "+shape(e, 0)+" failed can be returned without an error message ("+core.FmtPath(path)+"): it is silently dropped")
			}
			// size guard
			sizeAtom := func(cond ssa.Value) (bool, bool) {
				op, x, _, neg, ok := core.Compare(cond)
				if !ok || neg || op != token.GTR {
					return false, false
				}
				if c, ok := x.(*ssa.Call); ok && c.Call.IsInvoke() && c.Call.Method.Name() == "Size" {
					return true, false
				}
				return false, false
			}
			ok2, n2, p2 := core.MustPass(fn, ret.Block(), sizeAtom)
			r.Check(ok2 && n2 > 0, "C16.SIZE", fnm+"#size-test", ret.Pos(), "analysis result only for files that passed the size test", "an oversize file is analysed or dropped without an error ("+core.FmtPath(p2)+")")
		}
		r.Floor("C16.ERR", "success returns of "+fnm, nOK, 1)
		// the size test precedes reading the file
		core.InstrsOf(fn, func(in ssa.Instruction) {
			c := core.CallOf(in)
			if c != nil && c.IsInvoke() && c.Method.Name() == "ReadFile" {
				sizeAtom := func(cond ssa.Value) (bool, bool) {
					op, x, _, neg, ok := core.Compare(cond)
					if !ok || neg || op != token.GTR {
						return false, false
					}
					if cc, ok := x.(*ssa.Call); ok && cc.Call.IsInvoke() && cc.Call.Method.Name() == "Size" {
						return true, false
					}
					return false, false
				}
				ok2, n2, p2 := core.MustPass(fn, in.Block(), sizeAtom)
				r.Check(ok2 && n2 > 0, "C16.SIZE", fnm+"#size-before-read", in.Pos(), "the size test precedes reading the file", "the file is read before its size is tested ("+core.FmtPath(p2)+")")
			}
		})
	}
	r.Floor("C16.ERR", "per-file worker (returns models.FileOutput)", nWorker, 1)

	// bounded read in the real file system
	nLim := 0
	for _, fn := range p.FuncsIn("internal/cli") {
		core.InstrsOf(fn, func(in ssa.Instruction) {
			if c, ok := in.(*ssa.Call); ok && core.CalleeName(&c.Call) == "io.ReadAll" {
				nLim++
				_, lim := callTo(core.Unwrap(c.Call.Args[0]), "io.LimitReader")
				r.Check(lim, "C16.SIZE", core.FuncName(fn)+"#bounded-read", in.Pos(), "file content is read through io.LimitReader", "file content is read without a size bound")
				// the cap is wide enough to SEE an oversized file: what is read is compared with a maximum afterwards,
				// and the reader's limit lies above that maximum — a smaller limit cuts a file that passed the size
				// test short without any error, and the functions behind the cut are silently not analysed
				if lr, isLim := callTo(core.Unwrap(c.Call.Args[0]), "io.LimitReader"); isLim {
					k, isK := core.ConstInt(core.Resolve(lr.Call.Args[1]))
					var maxes []int64
					core.InstrsOf(fn, func(in2 ssa.Instruction) {
						b, ok := in2.(*ssa.BinOp)
						if !ok || (b.Op != token.GTR && b.Op != token.GEQ) {
							return
						}
						m, isM := core.ConstInt(b.Y)
						if !isM {
							return
						}
						// len(content) > max  or  info.Size() > max
						if ln, isLen := isBuiltinCall(b.X, "len"); isLen {
							if ex, isEx := ln.Call.Args[0].(*ssa.Extract); isEx && ex.Tuple == ssa.Value(c) {
								maxes = append(maxes, m)
							}
						}
						if cc, isCall := b.X.(*ssa.Call); isCall && cc.Call.IsInvoke() && cc.Call.Method.Name() == "Size" {
							maxes = append(maxes, m)
						}
					})
					okCap := isK && len(maxes) > 0
					for _, m := range maxes {
						if k <= m {
							okCap = false
						}
					}
					r.Check(okCap, "C16.SIZE", core.FuncName(fn)+"#read-cap-above-size-limit", in.Pos(), "the reader's limit lies above every size limit the file is tested against, so an oversized read is detected, never truncated", fmt.Sprintf("the reader's limit (%d) does not lie above the size limit(s) %v the file is tested against: a file that passes the size test is cut off at the reader's limit without an error — the code behind the cut is never analysed and nothing reports it", k, maxes))
				}
			}
		})
	}
	r.Floor("C16.SIZE", "io.ReadAll sites in the CLI package", nLim, 1)

	c16Recover(r)
	c16Strict(r)
	c16EnumRule(r, "C16.ENUM")
	c16Walk(r)
	c16Handle(r)
	c16Attr(r)
	c16Exit(r)
}

// goroutine bodies: closures passed to (*errgroup.Group).Go or started with go
func goroutineBodies(p *core.Program) []*ssa.Function {
	var out []*ssa.Function
	for _, fn := range p.Funcs {
		core.InstrsOf(fn, func(in ssa.Instruction) {
			if g, ok := in.(*ssa.Go); ok {
				if f := closureFunc(g.Call.Value); f != nil {
					out = append(out, f)
				}
				return
			}
			c := core.CallOf(in)
			if c == nil || !strings.HasSuffix(core.CalleeName(c), "errgroup.Group).Go") {
				return
			}
			if f := closureFunc(c.Args[1]); f != nil {
				out = append(out, f)
			}
		})
	}
	return out
}

func c16Recover(r *core.Run) {
	p := r.P
	n := 0
	for _, body := range goroutineBodies(p) {
		for _, h := range core.Nest(body) {
			var rec *ssa.Call
			core.InstrsOf(h, func(in ssa.Instruction) {
				if c, ok := isBuiltinCall(valueOf(in), "recover"); ok {
					rec = c
				}
			})
			if rec == nil {
				continue
			}
			n++
			hn := core.FuncName(h)
			outer := body.Parent()
			checkCmd := false
			if outer != nil {
				rt := resultTypes(outer)
				if len(rt) == 3 {
					if sl, ok := rt[0].Underlying().(*types.Slice); ok && isFileOutput(p, sl.Elem()) {
						checkCmd = true
					}
				}
			}
			// the panic edge
			var panicBlk *ssa.BasicBlock
			if refs := rec.Referrers(); refs != nil {
				for _, ref := range *refs {
					if b, ok := ref.(*ssa.BinOp); ok && b.Referrers() != nil {
						for _, r2 := range *b.Referrers() {
							if ifi, ok := r2.(*ssa.If); ok {
								if x, nonNilOnTrue, ok := core.NilCompare(ifi.Cond); ok && x == ssa.Value(rec) {
									if nonNilOnTrue {
										panicBlk = ifi.Block().Succs[0]
									} else {
										panicBlk = ifi.Block().Succs[1]
									}
								}
							}
						}
					}
				}
			}
			if panicBlk == nil {
				r.Fail("C16.ERR", hn+"#recover", rec.Pos(), "recover() result is not tested: a panic is swallowed without a trace")
				continue
			}
			reach := core.ReachAvoiding(panicBlk, nil)
			storesResult, raisesFlag, diagnostic := false, false, false
			for blk := range reach {
				for _, in := range blk.Instrs {
					switch x := in.(type) {
					case *ssa.Store:
						if isFileOutput(p, x.Val.Type()) {
							if v, ok := core.StructLitField(x.Val, "ErrorMessage"); ok && v != nil {
								if _, isIdx := x.Addr.(*ssa.IndexAddr); isIdx {
									storesResult = true
								}
							}
						}
						if c, ok := x.Val.(*ssa.Const); ok && c.Value != nil && c.Value.String() == "true" {
							if fv, ok := x.Addr.(*ssa.FreeVar); ok {
								_ = fv
								raisesFlag = true
							}
						}
					case *ssa.Call:
						if core.CalleeName(&x.Call) == "fmt.Fprintf" {
							diagnostic = true
						}
					}
				}
			}
			if checkCmd {
				r.Check(storesResult && raisesFlag, "C16.ERR", hn+"#recover-records-error", rec.Pos(), "a panic while analysing a file stores an error result in that file's slot and raises the error flag", "a panic while analysing a file leaves an empty result slot and no error flag: strict mode passes although a file was not analysed")
			} else {
				r.Check(diagnostic, "C16.ERR", hn+"#recover-diagnostic", rec.Pos(), "a panic while scanning a file writes a diagnostic", "a panic while scanning a file is swallowed silently")
			}
		}
	}
	r.Floor("C16.ERR", "recover() handlers in per-file goroutines", n, 2)
}

func c16Strict(r *core.Run) {
	p := r.P
	n := 0
	for _, fn := range p.FuncsIn("internal/cli") {
		// caller of a function returning ([]FileOutput, bool, error)
		core.InstrsOf(fn, func(in ssa.Instruction) {
			c, ok := in.(*ssa.Call)
			if !ok {
				return
			}
			callee := core.StaticCallee(&c.Call)
			if callee == nil {
				return
			}
			rt := resultTypes(callee)
			if len(rt) != 3 {
				return
			}
			if sl, ok := rt[0].Underlying().(*types.Slice); !ok || !isFileOutput(p, sl.Elem()) {
				return
			}
			n++
			fnm := core.FuncName(fn)
			cut := map[core.Edge]bool{}
			nStrict, nFlag := 0, 0
			for _, b := range fn.Blocks {
				if len(b.Instrs) == 0 {
					continue
				}
				ifi, ok := b.Instrs[len(b.Instrs)-1].(*ssa.If)
				if !ok {
					continue
				}
				base, neg := core.StripNot(ifi.Cond)
				idx := 1
				if neg {
					idx = 0
				}
				if pa, ok := base.(*ssa.Parameter); ok && pa.Type().String() == "bool" {
					cut[core.Edge{From: b, Idx: idx}] = true
					nStrict++
				}
				if ex, ok := base.(*ssa.Extract); ok && ex.Tuple == ssa.Value(c) && ex.Index == 1 {
					cut[core.Edge{From: b, Idx: idx}] = true
					nFlag++
				}
			}
			bad := ""
			for _, ret := range core.Returns(fn) {
				if !core.IsNilConst(ret.Results[len(ret.Results)-1]) {
					continue
				}
				if path := core.PathAvoiding(c.Block(), ret.Block(), cut); path != nil {
					bad = core.FmtPath(path)
				}
			}
			r.Check(nStrict > 0 && nFlag > 0 && bad == "", "C16.STRICT", fnm+"#strict-fails-on-errors", c.Pos(), "with strict mode on and the error flag set no success return is reachable", "strict mode can succeed although a file could not be analysed ("+bad+")")
		})
	}
	r.Floor("C16.STRICT", "callers of the parallel per-file driver", n, 1)
	// the flag is raised whenever a stored result carries an error message
	nFlag := 0
	for _, body := range goroutineBodies(p) {
		core.InstrsOf(body, func(in ssa.Instruction) {
			st, ok := in.(*ssa.Store)
			if !ok || !isFileOutput(p, st.Val.Type()) {
				return
			}
			if _, isIdx := st.Addr.(*ssa.IndexAddr); !isIdx {
				return
			}
			nFlag++
			// exists If on ErrorMessage != "" whose true edge stores true into a captured flag
			found := false
			for _, b := range body.Blocks {
				if len(b.Instrs) == 0 {
					continue
				}
				ifi, ok := b.Instrs[len(b.Instrs)-1].(*ssa.If)
				if !ok {
					continue
				}
				op, x, y, neg, ok := core.Compare(ifi.Cond)
				if !ok || neg || op != token.NEQ {
					continue
				}
				if s, isC := core.ConstString(y); !isC || s != "" {
					continue
				}
				if _, isEM := core.FieldLoad(x, "ErrorMessage"); !isEM {
					continue
				}
				for _, in2 := range b.Succs[0].Instrs {
					if s2, ok := in2.(*ssa.Store); ok {
						if c, ok := s2.Val.(*ssa.Const); ok && c.Value != nil && c.Value.String() == "true" {
							if _, isFV := s2.Addr.(*ssa.FreeVar); isFV {
								found = true
							}
						}
					}
				}
			}
			r.Check(found, "C16.STRICT", core.FuncName(body)+"#flag-raised-with-error-result", st.Pos(), "the error flag is raised whenever the stored result has an error message", "a result with an error message is stored without raising the error flag")
		})
	}
	r.Floor("C16.STRICT", "per-file result stores in goroutines", nFlag, 1)
}

func c16EnumRule(r *core.Run, rule string) {
	p := r.P
	// enumerator: recursive function that appends fingerprint results and walks AnonFuncs
	n := 0
	for _, fn := range p.FuncsIn("pkg/diff") {
		recursive := len(core.Calls(fn, func(_ string, c *ssa.CallCommon) bool { return core.StaticCallee(c) == fn })) > 0
		walksAnon := false
		core.InstrsOf(fn, func(in ssa.Instruction) {
			if _, ok := core.FieldLoad(valueOf(in), "AnonFuncs"); ok {
				walksAnon = true
			}
		})
		if !recursive || !walksAnon {
			continue
		}
		n++
		fnm := core.FuncName(fn)
		// early returns that skip: guarded by Synthetic != ""
		for _, ret := range core.Returns(fn) {
			gs := mandatoryGuards(fn, ret.Block())
			synth := false
			for _, g := range gs {
				if strings.Contains(g, ".Synthetic != \"\"") && strings.HasPrefix(g, "T:") {
					synth = true
				}
			}
			if !synth {
				continue
			}
			okRF := false
			for _, g := range gs {
				if strings.HasPrefix(g, "F:") && strings.Contains(g, "HasPrefix(") && strings.Contains(g, "range-over-func") {
					okRF = true
				}
			}
			okInit := false
			for _, g := range gs {
				if (strings.Contains(g, "\"init\"") || strings.Contains(g, "package initializer")) && ((strings.HasPrefix(g, "T:") && strings.Contains(g, "!=")) || (strings.HasPrefix(g, "F:") && (strings.Contains(g, "==") || strings.Contains(g, "HasPrefix(")))) {
					okInit = true
				}
			}
			r.Check(okInit, rule, fnm+"#synthetic-skip-not-init", ret.Pos(), "the synthetic package initializer is not skipped: function literals in package-level initialisers are its children", "the synthetic-function skip also returns for the package initializer before its anonymous functions are visited: function literals assigned to package-level variables are never fingerprinted or scanned [guards: "+strings.Join(gs, " ; ")+"]")
			r.Check(okRF, rule, fnm+"#synthetic-skip", ret.Pos(), "synthetic functions are skipped only if they are not range-over-func bodies", "every synthetic function is skipped, including range-over-func loop bodies that carry source statements: edits inside such loops are never fingerprinted [guards: "+strings.Join(gs, " ; ")+"]")
		}
		// recursion into AnonFuncs on every non-skipped path: guards of the recursive call are only the loop + the skips
		for _, ci := range core.Calls(fn, func(_ string, c *ssa.CallCommon) bool { return core.StaticCallee(c) == fn }) {
			for _, g := range mandatoryGuards(fn, ci.Block()) {
				ok := (strings.Contains(g, ".Synthetic") || strings.Contains(g, "range-over-func") || strings.Contains(g, "lookup(") || strings.Contains(g, ".AnonFuncs") || strings.Contains(g, "Name(")) && !strings.Contains(g, ".Blocks")
				r.Check(ok, rule, fnm+"#anon-recursion-unconditional", ci.Pos(), "recursion into anonymous functions is not conditioned on the function's own body", "recursion into anonymous functions is conditioned on "+g+": closures of some functions are never visited")
			}
		}
		// every function with blocks is fingerprinted: the fingerprint call is guarded only by len(Blocks) > 0 and the skips
		core.InstrsOf(fn, func(in ssa.Instruction) {
			c := core.CallOf(in)
			if c == nil {
				return
			}
			callee := core.StaticCallee(c)
			if callee == nil || !p.IsProdFunc(callee) || callee == fn {
				return
			}
			for _, g := range mandatoryGuards(fn, in.Block()) {
				ok := strings.Contains(g, ".Synthetic") || strings.Contains(g, "range-over-func") || strings.Contains(g, ".Blocks") || strings.Contains(g, "lookup(") || strings.Contains(g, "Name(")
				r.Check(ok, rule, fnm+"#fingerprint-guard", in.Pos(), "fingerprinting is conditioned only on having a body and the skip rules", "fingerprinting is additionally conditioned on "+g)
			}
		})
	}
	r.Floor(rule, "recursive function enumerator (walks AnonFuncs)", n, 1)
	// member kinds: a type switch over ssa.Member handles *ssa.Function and *ssa.Type with all methods
	nSw := 0
	for _, rel := range []string{"pkg/diff", "internal/cli"} {
		for _, fn := range p.FuncsIn(rel) {
			hasFn, hasTy, methods := false, false, false
			core.InstrsOf(fn, func(in ssa.Instruction) {
				if ta, ok := in.(*ssa.TypeAssert); ok && strings.HasSuffix(ta.X.Type().String(), "ssa.Member") {
					switch ta.AssertedType.String() {
					case "*golang.org/x/tools/go/ssa.Function":
						hasFn = true
					case "*golang.org/x/tools/go/ssa.Type":
						hasTy = true
					}
				}
				if core.IsCallTo(in, "(*go/types.Named).NumMethods") {
					methods = true
				}
			})
			if hasFn || hasTy {
				// no member, named type or method is left out for a property of its own (generic, unexported, ...):
				// the calls that hand a function to the enumerator are conditioned only on kind tests, nil tests and
				// the loops themselves
				core.InstrsOf(fn, func(in ssa.Instruction) {
					c := core.CallOf(in)
					if c == nil {
						return
					}
					g := core.StaticCallee(c)
					if g == nil || !p.IsProdFunc(g) || len(c.Args) == 0 || !isSSAFunctionPtr(c.Args[0].Type()) {
						return
					}
					for _, gd := range mandatoryGuards(fn, in.Block()) {
						okG := memberGuardOK(gd)
						if os.Getenv("SFW_DUMP") == "enum" {
							println("GUARD", core.FuncName(fn), gd)
						}
						r.Check(okG, rule, core.FuncName(fn)+"#member-skip", in.Pos(), "members, named types and methods reach the enumerator unless a kind or nil test fails", "a package member, named type or method is kept from the enumerator by "+gd+": the functions so exempted (e.g. the methods of generic types) are never fingerprinted, scanned or listed, and nothing reports it")
					}
				})
				// the method loop visits every method: it counts from 0 in steps of 1 up to NumMethods()
				core.InstrsOf(fn, func(in ssa.Instruction) {
					b, ok := in.(*ssa.BinOp)
					if !ok {
						return
					}
					var ph *ssa.Phi
					var boundOK bool
					switch {
					case b.Op == token.LSS:
						ph, _ = b.X.(*ssa.Phi)
						_, boundOK = callTo(b.Y, "(*go/types.Named).NumMethods")
					case b.Op == token.GTR:
						ph, _ = b.Y.(*ssa.Phi)
						_, boundOK = callTo(b.X, "(*go/types.Named).NumMethods")
					default:
						if _, isNM := callTo(b.Y, "(*go/types.Named).NumMethods"); isNM {
							if p2, isPhi := b.X.(*ssa.Phi); isPhi && (b.Op == token.LEQ || b.Op == token.NEQ || b.Op == token.GEQ) {
								r.Fail(rule, core.FuncName(fn)+"#method-loop-complete", in.Pos(), "the method loop is bounded by "+b.Op.String()+" NumMethods(): not the half-open range [0, NumMethods())")
								_ = p2
							}
						}
						return
					}
					if ph == nil || !boundOK {
						return
					}
					start, step := int64(-1), int64(0)
					for _, e := range ph.Edges {
						if k, isK := core.ConstInt(e); isK {
							start = k
							continue
						}
						if inc, isInc := e.(*ssa.BinOp); isInc && inc.Op == token.ADD && inc.X == ssa.Value(ph) {
							if k, isK := core.ConstInt(inc.Y); isK {
								step = k
							}
						}
					}
					r.Check(start == 0 && step == 1, rule, core.FuncName(fn)+"#method-loop-complete", in.Pos(), "the method loop runs over [0, NumMethods()) in steps of 1", fmt.Sprintf("the method loop starts at %d with step %d: some methods of every named type (and the closures inside them) are never fingerprinted, scanned or listed, and nothing reports it", start, step))
				})
				nSw++
				r.Check(hasFn && hasTy && methods, rule, core.FuncName(fn)+"#member-kinds", fn.Pos(), "package members: functions and every method of named types are enumerated", "the member enumeration does not cover functions and all methods of named types")
			}
		}
	}
	r.Floor(rule, "package-member enumerations", nSw, 2)
}

// c16Handle: every result the fingerprinter produces for a function carries that function's SSA handle, because the
// scan stage reaches a function only through it (a result without it is listed but never scanned, and no error says so).
func c16Handle(r *core.Run) {
	p := r.P
	n := 0
	for _, fn := range p.FuncsIn("pkg/diff") {
		rt := resultTypes(fn)
		if len(rt) != 1 || !core.IsNamed(rt[0], diffPath(p), "FingerprintResult") || fn.Parent() != nil {
			continue
		}
		var subject *ssa.Parameter
		for _, pa := range fn.Params {
			if isSSAFunctionPtr(pa.Type()) {
				subject = pa
			}
		}
		if subject == nil {
			continue
		}
		for _, ret := range core.Returns(fn) {
			n++
			st, _ := core.Deref(ret.Results[0].Type()).Underlying().(*types.Struct)
			handle := ""
			if st != nil {
				for i := 0; i < st.NumFields(); i++ {
					if isSSAFunctionPtr(st.Field(i).Type()) {
						handle = st.Field(i).Name()
					}
				}
			}
			v, ok := core.StructLitField(ret.Results[0], handle)
			good := handle != "" && ok && v != nil && core.Resolve(v) == ssa.Value(subject)
			r.Check(good, "C16.ENUM", core.FuncName(fn)+"#result-carries-function", ret.Pos(), "the result carries the SSA function it describes", "a fingerprint result is returned without the SSA function it describes: the scan stage cannot reach that function (it is listed, never scanned, and nothing reports it)")
		}
	}
	r.Floor("C16.ENUM", "results returned by the per-function fingerprinter", n, 2)
}

func c16Walk(r *core.Run) {
	p := r.P
	n := 0
	// the collector skips directories, never the rest of the walk
	for _, fn := range p.FuncsIn("internal/cli") {
		core.InstrsOf(fn, func(in ssa.Instruction) {
			if u, ok := in.(*ssa.UnOp); ok {
				if g, isG := u.X.(*ssa.Global); isG && g.Name() == "SkipAll" && g.Pkg != nil && (g.Pkg.Pkg.Path() == "io/fs" || g.Pkg.Pkg.Path() == "path/filepath") {
					r.Fail("C16.WALK", core.FuncName(fn)+"#SkipAll", in.Pos(), "the file collector answers SkipAll: the first skipped directory ends the whole walk, and every file that sorts after it is silently never collected")
				}
			}
		})
	}
	for _, fn := range p.FuncsIn("internal/cli") {
		if fn.Parent() == nil || len(fn.Params) != 3 || !strings.HasSuffix(fn.Params[1].Type().String(), "fs.DirEntry") {
			continue
		}
		// collector: the parent returns []string
		prt := resultTypes(fn.Parent())
		if len(prt) == 0 || prt[0].String() != "[]string" {
			continue
		}
		n++
		fnm := core.FuncName(fn)
		path, d, werr := fn.Params[0], fn.Params[1], fn.Params[2]
		isName := func(v ssa.Value) bool {
			c, ok := v.(*ssa.Call)
			return ok && c.Call.IsInvoke() && c.Call.Value == ssa.Value(d) && c.Call.Method.Name() == "Name"
		}
		var preds []*ssa.Function
		allowed := func(cond ssa.Value) (string, bool) {
			base, _ := core.StripNot(cond)
			if x, _, ok := core.NilCompare(cond); ok && x == ssa.Value(werr) {
				return "walk error", true
			}
			switch x := base.(type) {
			case *ssa.Call:
				if x.Call.IsInvoke() && x.Call.Value == ssa.Value(d) && x.Call.Method.Name() == "IsDir" {
					return "is directory", true
				}
				switch core.CalleeName(&x.Call) {
				case "strings.HasPrefix":
					if s, ok := core.ConstString(x.Call.Args[1]); ok && s == "." && isName(x.Call.Args[0]) {
						return "hidden", true
					}
				case "strings.HasSuffix":
					if s, ok := core.ConstString(x.Call.Args[1]); ok && s == ".go" && x.Call.Args[0] == ssa.Value(path) {
						return ".go suffix", true
					}
					if s, ok := core.ConstString(x.Call.Args[1]); ok && s == "_test.go" {
						return "_test.go suffix", true
					}
				}
				if callee := core.StaticCallee(&x.Call); callee != nil && p.IsProdFunc(callee) && len(x.Call.Args) == 1 && x.Call.Args[0] == ssa.Value(path) {
					preds = append(preds, callee)
					return "predicate " + callee.Name(), true
				}
			case *ssa.BinOp:
				op, a, b, _, ok := core.Compare(x)
				if !ok {
					break
				}
				if s, isC := core.ConstString(b); isC && isName(a) && (op == token.EQL || op == token.NEQ) && s == "vendor" {
					return "vendor", true
				}
				// name[0] == '.' — the hand-written form of strings.HasPrefix(name, ".")
				var ixX, ixI ssa.Value
				switch e := a.(type) {
				case *ssa.Lookup:
					ixX, ixI = e.X, e.Index
				case *ssa.Index:
					ixX, ixI = e.X, e.Index
				}
				if ixX != nil && isName(ixX) && (op == token.EQL || op == token.NEQ) {
					if i, isC := core.ConstInt(ixI); isC && i == 0 {
						if ch, isC := core.ConstInt(b); isC && ch == '.' {
							return "hidden", true
						}
					}
				}
				if ln, isLen := isBuiltinCall(a, "len"); isLen && isName(ln.Call.Args[0]) {
					if k, isC := core.ConstInt(b); isC && k == 1 && op == token.GTR {
						return "name longer than one byte", true
					}
				}
				if a == ssa.Value(path) && op == token.NEQ {
					if fvLoad, ok := b.(*ssa.UnOp); ok {
						if _, isFV := fvLoad.X.(*ssa.FreeVar); isFV {
							return "not the walk root", true
						}
					}
				}
			}
			return "", false
		}
		core.InstrsOf(fn, func(in ssa.Instruction) {
			ifi, ok := in.(*ssa.If)
			if !ok {
				return
			}
			what, ok := allowed(ifi.Cond)
			r.Check(ok, "C16.WALK", fnm+"#decision("+shape(ifi.Cond, 0)+")", ifi.Pos(), "enumerated exclusion atom: "+what, "unlisted exclusion in the file collector: "+shape(ifi.Cond, 0)+" — files can be skipped for a reason the property does not allow")
		})
		// SkipDir only for directories other than the root
		for _, ret := range core.Returns(fn) {
			if u, ok := ret.Results[0].(*ssa.UnOp); ok {
				if g, ok := u.X.(*ssa.Global); ok && g.Name() == "SkipDir" {
					gs := strings.Join(mandatoryGuards(fn, ret.Block()), " ; ")
					r.Check(strings.Contains(gs, "T:") && strings.Contains(gs, "IsDir") && strings.Contains(gs, "!="), "C16.WALK", fnm+"#skipdir-guards", ret.Pos(), "SkipDir only for a directory that is not the walk root", "SkipDir can be returned for the walk root or a non-directory: "+gs)
				}
			}
		}
		// the append exists
		app := 0
		core.InstrsOf(fn, func(in ssa.Instruction) {
			if _, ok := isBuiltinCall(valueOf(in), "append"); ok {
				app++
			}
		})
		r.Floor("C16.WALK", "append of a collected path in "+fnm, app, 1)
		// predicate bodies (isTestFile)
		for _, pf := range preds {
			pn := core.FuncName(pf)
			core.InstrsOf(pf, func(in ssa.Instruction) {
				ifi, ok := in.(*ssa.If)
				if !ok {
					return
				}
				s := shape(ifi.Cond, 0)
				ok2 := (strings.Contains(s, "len(") && strings.Contains(s, ">= 8")) || strings.Contains(s, "_test.go")
				r.Check(ok2, "C16.WALK", pn+"#decision("+s+")", ifi.Pos(), "test-file predicate atom", "unlisted condition in the test-file predicate: "+s)
			})
			for _, ret := range core.Returns(pf) {
				for _, o := range core.Origins(ret.Results[0]) {
					s := shape(o, 0)
					ok2 := strings.Contains(s, "_test.go") || s == "false" || s == "true" || strings.Contains(s, ">= 8")
					r.Check(ok2, "C16.WALK", pn+"#result("+s+")", ret.Pos(), "test-file predicate result", "the test-file predicate returns "+s)
				}
			}
		}
	}
	r.Floor("C16.WALK", "file collector callback (func(path, DirEntry, error) in a []string producer)", n, 1)
}

func c16Attr(r *core.Run) {
	p := r.P
	n := 0
	for _, fn := range p.FuncsIn("pkg/diff") {
		core.InstrsOf(fn, func(in ssa.Instruction) {
			st, ok := in.(*ssa.Store)
			if !ok {
				return
			}
			fa, ok := st.Addr.(*ssa.FieldAddr)
			if !ok || !core.IsNamed(fa.X.Type(), p.ModPath+"/pkg/diff", "FingerprintResult") {
				return
			}
			f := core.FieldName(fa.X.Type(), fa.Field)
			if f != "Line" && f != "Filename" {
				return
			}
			n++
			okAll := true
			for _, o := range core.Origins(st.Val) {
				if c, isC := o.(*ssa.Const); isC {
					_ = c
					continue
				}
				s := core.Canon(o)
				if !(strings.Contains(s, "Position(") && strings.Contains(s, ".Pos(param0)")) {
					okAll = false
				}
			}
			r.Check(okAll, "C16.ATTR", core.FuncName(fn)+"#"+f, st.Pos(), f+" derives from the function's own position", f+" of a result does not derive from the position of the fingerprinted function")
		})
	}
	r.Floor("C16.ATTR", "Line/Filename attributions", n, 2)
	// ... and the report carries that attribution on: File and Line of a reported function come from the function's
	// own result, not from the file that happens to be processed (a package has several files)
	nRep := 0
	for _, fn := range p.FuncsIn("internal/cli") {
		core.InstrsOf(fn, func(in ssa.Instruction) {
			st, ok := in.(*ssa.Store)
			if !ok {
				return
			}
			fa, ok := st.Addr.(*ssa.FieldAddr)
			if !ok || !strings.Contains(core.Deref(fa.X.Type()).String(), "/pkg/models.Function") {
				return
			}
			f := core.FieldName(fa.X.Type(), fa.Field)
			want := map[string]string{"File": "Filename", "Line": "Line"}[f]
			if want == "" {
				return
			}
			nRep++
			okAll := true
			for _, o := range core.Origins(st.Val) {
				base, name, isF := fieldLoadBy(o, func(types.Type) bool { return true })
				if !isF || name != want || !strings.HasSuffix(core.Deref(base.Type()).String(), "diff.FingerprintResult") {
					okAll = false
				}
			}
			r.Check(okAll, "C16.ATTR", core.FuncName(fn)+"#report."+f, st.Pos(), "the reported "+f+" is the fingerprint result's own "+want, "the reported "+f+" of a function is "+core.Canon(st.Val)+", not the "+want+" of its fingerprint result: functions of sibling files of the package are reported under the file being processed")
		})
	}
	r.Floor("C16.ATTR", "File/Line fields of reported functions", nRep, 2)
}

// c16Exit: the command's entry point turns a failure into a failing exit status: from the error-is-set edge of an
// error test in main (or a result-less closure of the main package), the first os.Exit reached has a non-zero
// constant argument, and the function does not simply return.
func c16Exit(r *core.Run) {
	p := r.P
	n := 0
	for _, fn := range p.FuncsIn("cmd/sfw") {
		if len(resultTypes(fn)) != 0 || fn.Blocks == nil {
			continue
		}
		// a helper that prints and exits: an os.Exit with a non-zero constant dominates all its returns
		exitHelper := func(g *ssa.Function) bool {
			if g == nil || g.Blocks == nil || !p.IsProdFunc(g) {
				return false
			}
			var eb *ssa.BasicBlock
			core.InstrsOf(g, func(in ssa.Instruction) {
				if c := core.CallOf(in); c != nil && core.CalleeName(c) == "os.Exit" {
					if k, isK := core.ConstInt(c.Args[0]); isK && k != 0 {
						eb = in.Block()
					}
				}
			})
			if eb == nil {
				return false
			}
			for _, ret := range core.Returns(g) {
				if ret.Block() != eb && !eb.Dominates(ret.Block()) {
					return false
				}
			}
			return true
		}
		exitArg := func(b *ssa.BasicBlock) (int64, bool, bool) {
			for _, in := range b.Instrs {
				if c := core.CallOf(in); c != nil && core.CalleeName(c) == "os.Exit" {
					k, isK := core.ConstInt(c.Args[0])
					return k, isK, true
				}
				if c := core.CallOf(in); c != nil && exitHelper(core.StaticCallee(c)) {
					return 1, true, true
				}
			}
			return 0, false, false
		}
		for _, b := range fn.Blocks {
			if len(b.Instrs) == 0 {
				continue
			}
			ifi, ok := b.Instrs[len(b.Instrs)-1].(*ssa.If)
			if !ok {
				continue
			}
			x, nonNilOnTrue, okN := core.NilCompare(ifi.Cond)
			if !okN || x.Type().String() != "error" {
				continue
			}
			idx := 1
			if nonNilOnTrue {
				idx = 0
			}
			n++
			bad := ""
			seen := map[*ssa.BasicBlock]bool{}
			work := []*ssa.BasicBlock{b.Succs[idx]}
			for len(work) > 0 && bad == "" {
				cur := work[len(work)-1]
				work = work[:len(work)-1]
				if seen[cur] {
					continue
				}
				seen[cur] = true
				if k, isK, has := exitArg(cur); has {
					if !isK || k == 0 {
						bad = "reaches os.Exit(0)"
					}
					continue // the process ends here
				}
				if _, isRet := cur.Instrs[len(cur.Instrs)-1].(*ssa.Return); isRet {
					bad = "returns normally (exit status 0)"
				}
				if _, isPanic := cur.Instrs[len(cur.Instrs)-1].(*ssa.Panic); isPanic {
					continue
				}
				work = append(work, cur.Succs...)
			}
			r.Check(bad == "", "C16.STRICT", core.FuncName(fn)+"#failure-exits-nonzero", ifi.Pos(), "after an error the process exits with a non-zero status", "after an error the entry point "+bad+": a strict run over an unanalysable file (reported by the sandboxed worker) ends with exit status 0")
		}
	}
	r.Floor("C16.STRICT", "error tests in the command's entry points", n, 1)
}

var memberGuardShapes = []*regexp.Regexp{
	regexp.MustCompile(`^assert\(.*\)#1$`),                     // kind test of a member / type
	regexp.MustCompile(`^extract$`),                            // range over the member map
	regexp.MustCompile(`(== nil\)|!= nil\))$`),                 // nil tests
	regexp.MustCompile(`^\(builtin\.len\(.*\) (==|!=|>) 0\)$`), // nothing to enumerate / no body
	regexp.MustCompile(`^\(+phi\(.* < .*\)$`),                  // loop index against a length or method count
}

// memberGuardOK: the guard (polarity:shape) is one of the tests that do not depend on a property of the member.
func memberGuardOK(gd string) bool {
	if i := strings.Index(gd, ":"); i >= 0 {
		gd = gd[i+1:]
	}
	for _, re := range memberGuardShapes {
		if re.MatchString(gd) {
			return true
		}
	}
	return false
}
