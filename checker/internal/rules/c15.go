package rules

import (
	"fmt"
	"go/token"
	"sort"
	"strings"

	"golang.org/x/tools/go/ssa"

	"sfwverif/internal/core"
)

const pkgPackages = "golang.org/x/tools/go/packages"

func init() { register("C15", c15) }

// requiredOverrides are the effective values the property names.
var c15Required = []string{"CGO_ENABLED=0", "GOPROXY=off", "GOFLAGS=-mod=readonly", "GOWORK=off", "GOTOOLCHAIN=local"}

func c15(r *core.Run) {
	p := r.P
	r.Explain = "C15 decided structurally: (USE) every packages.Config built in production code gets its Env from one hardening function H and every packages.Load receives such a config (followed through wrapper parameters to all callers); (FILTER) in H the returned slice is append(L, constants...) as the last step, L receives only unmodified elements of os.Environ() and only on the path where every case-insensitive prefix test fails, the set of filtered keys equals the set of override keys, and the override constants contain the five required pairs. Not decided: how the go command resolves duplicate entries (none can exist when the rule holds)."
	r.Undecided = []string{"go command's own duplicate-resolution semantics (trusted: last entry wins; the rule shows no duplicate of a guarded key survives)"}
	r.Assume = []string{"os.Environ() returns KEY=VALUE strings", "strings.ToUpper/HasPrefix behave as documented"}

	// ---- C15.USE: who sets packages.Config.Env, and with what
	hs := map[*ssa.Function]bool{}
	nEnvStores := 0
	configAllocs := map[*ssa.Alloc]bool{}
	envSet := map[*ssa.Alloc]bool{}
	for _, fn := range p.Funcs {
		core.InstrsOf(fn, func(in ssa.Instruction) {
			if al, ok := in.(*ssa.Alloc); ok && core.IsNamed(al.Type(), pkgPackages, "Config") {
				configAllocs[al] = true
			}
			st, ok := in.(*ssa.Store)
			if !ok {
				return
			}
			fa, ok := st.Addr.(*ssa.FieldAddr)
			if !ok || !core.IsNamed(fa.X.Type(), pkgPackages, "Config") || core.FieldName(fa.X.Type(), fa.Field) != "Env" {
				return
			}
			nEnvStores++
			construct := core.FuncName(fn) + "#store(packages.Config.Env)"
			good := true
			var from []string
			for _, o := range core.Origins(st.Val) {
				c, isCall := o.(*ssa.Call)
				callee := (*ssa.Function)(nil)
				if isCall {
					callee = core.StaticCallee(&c.Call)
				}
				if callee == nil || !p.IsProdFunc(callee) {
					good = false
					from = append(from, core.Canon(o))
					continue
				}
				hs[callee] = true
				from = append(from, core.FuncName(callee)+"()")
			}
			if al, ok := fa.X.(*ssa.Alloc); ok && good {
				envSet[al] = true
			}
			r.Check(good, "C15.USE", construct, st.Pos(),
				"Env is the result of "+strings.Join(from, ","),
				"packages.Config.Env is assigned from "+strings.Join(from, ",")+" instead of the hardening function: untrusted code would be loaded with the ambient environment")
		})
	}
	r.Floor("C15.USE", "stores to packages.Config.Env", nEnvStores, 2)
	for al := range configAllocs {
		if !envSet[al] {
			r.Fail("C15.USE", core.FuncName(al.Parent())+"#packages.Config{} without hardened Env", al.Pos(),
				"a packages.Config is built without Env from the hardening function (nil Env means the ambient environment)")
		}
	}

	// every packages.Load call receives a checked config
	nLoads := 0
	var checkArg func(fn *ssa.Function, v ssa.Value, site ssa.Instruction, depth int, trail string)
	checkArg = func(fn *ssa.Function, v ssa.Value, site ssa.Instruction, depth int, trail string) {
		for _, o := range core.Origins(v) {
			construct := core.FuncName(fn) + "→packages.Load(cfg)" + trail
			switch x := o.(type) {
			case *ssa.Alloc:
				r.Check(envSet[x], "C15.USE", construct, site.Pos(), "config literal with hardened Env", "config reaches packages.Load without hardened Env")
			case *ssa.Parameter:
				if depth > 3 {
					r.Fail("C15.USE", construct, site.Pos(), "config provenance deeper than 3 wrappers: undecided")
					continue
				}
				idx := -1
				for i, pp := range fn.Params {
					if pp == x {
						idx = i
					}
				}
				callers := callersOf(p, fn)
				if len(callers) == 0 {
					r.Fail("C15.USE", construct, site.Pos(), "wrapper "+core.FuncName(fn)+" passes its parameter to packages.Load but has no production caller to vouch for it: undecided")
				}
				for _, ci := range callers {
					args := core.CallArgs(ci.Common())
					if idx >= len(args) {
						r.Fail("C15.USE", construct, ci.Pos(), "cannot bind wrapper argument")
						continue
					}
					checkArg(ci.Parent(), args[idx], ci, depth+1, "←"+core.FuncName(ci.Parent()))
				}
			default:
				r.Fail("C15.USE", construct, site.Pos(), "config handed to packages.Load comes from "+core.Canon(o)+", not from a literal with hardened Env")
			}
		}
	}
	for _, fn := range p.Funcs {
		for _, ci := range core.Calls(fn, func(n string, _ *ssa.CallCommon) bool { return n == pkgPackages+".Load" }) {
			nLoads++
			checkArg(fn, ci.Common().Args[0], ci, 0, "")
		}
	}
	r.Floor("C15.USE", "packages.Load call sites", nLoads, 2)

	// ---- C15.FILTER on every hardening function found
	if !r.Floor("C15.FILTER", "hardening function (feeds packages.Config.Env)", len(hs), 1) {
		return
	}
	for _, h := range core.SortedFuncs(hs) {
		c15Filter(r, h)
	}
}

func c15Filter(r *core.Run, h *ssa.Function) {
	hn := core.FuncName(h)
	// 1. every return is append(L, consts...)
	var overrides []string
	var finalAppends []*ssa.Call
	okRet := true
	for _, ret := range core.Returns(h) {
		if len(ret.Results) != 1 {
			okRet = false
			continue
		}
		for _, o := range core.Origins(ret.Results[0]) {
			ap, isAppend := isBuiltinCall(o, "append")
			if !isAppend || len(ap.Call.Args) != 2 {
				okRet = false
				r.Fail("C15.FILTER", hn+"#return", ret.Pos(), "a return value of the hardening function is "+core.Canon(o)+", not append(filtered, overrides...): the overrides are not the last entries on this path")
				continue
			}
			strs, isConst := stringElems(ap.Call.Args[1])
			if !isConst {
				okRet = false
				r.Fail("C15.FILTER", hn+"#return", ret.Pos(), "the last append before return does not append constant overrides: something is appended after (or instead of) the overrides")
				continue
			}
			finalAppends = append(finalAppends, ap)
			overrides = strs
		}
	}
	if len(finalAppends) == 0 {
		if okRet {
			r.Fail("C15.FILTER", hn+"#return", h.Pos(), "no return of append(filtered, overrides...) found")
		}
		return
	}
	r.OK("C15.FILTER", hn+"#return", finalAppends[0].Pos(), fmt.Sprintf("every return is append(L, %d constant overrides) — overrides are last", len(overrides)))

	// 2. required pairs present
	have := map[string]bool{}
	overrideKeys := map[string]bool{}
	for _, o := range overrides {
		have[o] = true
		if i := strings.IndexByte(o, '='); i > 0 {
			overrideKeys[strings.ToUpper(o[:i+1])] = true
		} else {
			r.Fail("C15.FILTER", hn+"#override("+o+")", finalAppends[0].Pos(), "override is not KEY=VALUE")
		}
	}
	for _, req := range c15Required {
		r.Check(have[req], "C15.FILTER", hn+"#override("+req+")", finalAppends[0].Pos(), "required override present", "required override "+req+" is missing from the constants appended last")
	}

	// 3. L is built only from unmodified os.Environ() elements, under the filter
	var elemAppends []*ssa.Call
	seen := map[ssa.Value]bool{}
	var walkL func(v ssa.Value)
	walkL = func(v ssa.Value) {
		for _, o := range core.Origins(v) {
			if seen[o] {
				continue
			}
			seen[o] = true
			if ap, ok := isBuiltinCall(o, "append"); ok {
				elemAppends = append(elemAppends, ap)
				walkL(ap.Call.Args[0])
				continue
			}
			switch o.(type) {
			case *ssa.MakeSlice:
				continue
			case *ssa.Const:
				continue
			}
			r.Fail("C15.FILTER", hn+"#base", h.Pos(), "the filtered list starts from "+core.Canon(o)+" instead of an empty slice: entries bypass the filter")
		}
	}
	for _, fa := range finalAppends {
		walkL(fa.Call.Args[0])
	}
	filtered := map[string]bool{}
	nElem := 0
	for _, ap := range elemAppends {
		elems, ok := varargElems(ap.Call.Args[1])
		if !ok || len(elems) != 1 {
			if strs, isConst := stringElems(ap.Call.Args[1]); isConst {
				r.Fail("C15.FILTER", hn+"#append-before-overrides", ap.Pos(), fmt.Sprintf("constants %v are appended before the final overrides", strs))
				continue
			}
			r.Fail("C15.FILTER", hn+"#append", ap.Pos(), "an append into the filtered list is not a single pass-through element: "+core.Canon(ap.Call.Args[1]))
			continue
		}
		elem := elems[0]
		// elem must be a load of an element of os.Environ()
		isEnvElem := false
		if u, ok := elem.(*ssa.UnOp); ok && u.Op == token.MUL {
			if ia, ok := u.X.(*ssa.IndexAddr); ok {
				for _, o := range core.Origins(ia.X) {
					if _, ok := callTo(o, "os.Environ"); ok {
						isEnvElem = true
					}
				}
			}
		}
		if !isEnvElem {
			r.Fail("C15.FILTER", hn+"#passthrough", ap.Pos(), "the appended element is "+core.Canon(elem)+", not an unmodified element of os.Environ(): unrelated variables are not passed through unchanged")
			continue
		}
		nElem++
		// collect the prefix tests on ToUpper(elem)
		var tests []*ssa.Call
		core.InstrsOf(h, func(in ssa.Instruction) {
			c, ok := in.(*ssa.Call)
			if !ok {
				return
			}
			name := core.CalleeName(&c.Call)
			if name != "strings.HasPrefix" && name != "strings.EqualFold" && name != "strings.Contains" && name != "strings.HasSuffix" {
				return
			}
			tests = append(tests, c)
		})
		for _, t := range tests {
			name := core.CalleeName(&t.Call)
			key, isConst := core.ConstString(t.Call.Args[1])
			construct := hn + "#filter(" + key + ")"
			if name != "strings.HasPrefix" || !isConst {
				r.Fail("C15.FILTER", hn+"#filter-shape", t.Pos(), "unrecognised filter test "+name+"(…): only HasPrefix(ToUpper(elem), \"KEY=\") is an enumerated idiom")
				continue
			}
			up, isUpper := callTo(t.Call.Args[0], "strings.ToUpper")
			if !isUpper || up.Call.Args[0] != elem {
				r.Fail("C15.FILTER", construct, t.Pos(), "the prefix test is applied to "+core.Canon(t.Call.Args[0])+", not to strings.ToUpper(element): mixed-case spellings of "+key+" survive the filter")
				continue
			}
			if key != strings.ToUpper(key) || !strings.HasSuffix(key, "=") {
				r.Fail("C15.FILTER", construct, t.Pos(), "filter key must be an upper-case KEY= prefix")
				continue
			}
			// the pass-through append must be reachable only through the false edge of this test
			atom := func(cond ssa.Value) (bool, bool) {
				base, neg := core.StripNot(cond)
				if base == ssa.Value(t) {
					return true, neg
				}
				return false, false
			}
			ok2, n, path := core.MustPass(h, ap.Block(), atom)
			if n == 0 {
				r.Fail("C15.FILTER", construct, t.Pos(), "the result of the prefix test does not decide a branch")
				continue
			}
			if !ok2 {
				r.Fail("C15.FILTER", construct, t.Pos(), "an entry matching "+key+" can still reach the pass-through append along "+core.FmtPath(path))
				continue
			}
			filtered[key] = true
			r.OK("C15.FILTER", construct, t.Pos(), "pass-through append reachable only when HasPrefix(ToUpper(e), "+key+") is false")
		}
	}
	r.Floor("C15.FILTER", "pass-through append of os.Environ() elements", nElem, 1)

	// 4. A ⊆ F (no ambient entry for an overridden key survives) and F ⊆ A (nothing else is dropped)
	var ks []string
	for k := range overrideKeys {
		ks = append(ks, k)
	}
	sort.Strings(ks)
	for _, k := range ks {
		r.Check(filtered[k], "C15.FILTER", hn+"#covered("+k+")", finalAppends[0].Pos(), "override key is filtered case-insensitively",
			"override key "+k+" is not removed from the ambient environment: an earlier/duplicate/mixed-case entry survives next to the override")
	}
	var fs []string
	for k := range filtered {
		fs = append(fs, k)
	}
	sort.Strings(fs)
	for _, k := range fs {
		r.Check(overrideKeys[k], "C15.FILTER", hn+"#unrelated("+k+")", finalAppends[0].Pos(), "filtered key is re-added by an override",
			"key "+k+" is filtered out but never re-added: an unrelated variable is not passed through")
	}
}
