package rules

import (
	"fmt"
	"go/token"
	"go/types"
	"sort"
	"strings"

	"golang.org/x/tools/go/ssa"

	"sfwverif/internal/core"
)

func init() { register("C11", c11) }

// lock levels
const (
	lkNone = 0
	lkR    = 1
	lkW    = 2
)

// lockStates computes, for every instruction of fn, the lock level certainly held on the mutex
// field of the receiver (must-analysis; deferred unlocks keep the lock until the function ends).
func lockStates(fn *ssa.Function, isMu func(v ssa.Value) bool, entry ...int) map[ssa.Instruction]int {
	in := map[*ssa.BasicBlock]int{}
	const top = 99
	for _, b := range fn.Blocks {
		in[b] = top
	}
	if len(fn.Blocks) == 0 {
		return nil
	}
	in[fn.Blocks[0]] = lkNone
	if len(entry) > 0 {
		in[fn.Blocks[0]] = entry[0] // lock level every caller certainly holds (unexported helpers)
	}
	states := map[ssa.Instruction]int{}
	transfer := func(b *ssa.BasicBlock, s int, record bool) int {
		for _, ins := range b.Instrs {
			if record {
				states[ins] = s
			}
			if _, isDefer := ins.(*ssa.Defer); isDefer {
				continue
			}
			c := core.CallOf(ins)
			if c == nil || len(c.Args) == 0 || !isMu(c.Args[0]) {
				continue
			}
			switch core.CalleeName(c) {
			case "(*sync.RWMutex).Lock", "(*sync.Mutex).Lock":
				s = lkW
			case "(*sync.RWMutex).RLock":
				if s < lkR {
					s = lkR
				}
			case "(*sync.RWMutex).Unlock", "(*sync.Mutex).Unlock", "(*sync.RWMutex).RUnlock":
				s = lkNone
			}
		}
		return s
	}
	changed := true
	for changed {
		changed = false
		for _, b := range fn.Blocks {
			if in[b] == top {
				continue
			}
			out := transfer(b, in[b], false)
			for _, s := range b.Succs {
				nv := out
				if in[s] != top && in[s] < nv {
					nv = in[s]
				}
				if nv != in[s] {
					in[s] = nv
					changed = true
				}
			}
		}
	}
	for _, b := range fn.Blocks {
		s := in[b]
		if s == top {
			s = lkNone
		}
		transfer(b, s, true)
	}
	return states
}

type lockedType struct {
	named   *types.Named
	muField string
	guarded map[string]bool
	methods []*ssa.Function
}

// lockedTypes finds struct types of the storage packages that embed a mutex field and derives
// their guarded fields: fields stored to by some method (constructors do not count).
func lockedTypes(p *core.Program) []*lockedType {
	var out []*lockedType
	for _, rel := range []string{"pkg/storage/pebbledb", "pkg/storage/jsondb"} {
		pkg := p.Pkg(rel)
		if pkg == nil {
			continue
		}
		scope := pkg.Types.Scope()
		for _, name := range scope.Names() {
			tn, ok := scope.Lookup(name).(*types.TypeName)
			if !ok {
				continue
			}
			named, ok := tn.Type().(*types.Named)
			if !ok {
				continue
			}
			st, ok := named.Underlying().(*types.Struct)
			if !ok {
				continue
			}
			mu := ""
			for i := 0; i < st.NumFields(); i++ {
				ts := st.Field(i).Type().String()
				if ts == "sync.RWMutex" || ts == "sync.Mutex" {
					mu = st.Field(i).Name()
				}
			}
			if mu == "" {
				continue
			}
			lt := &lockedType{named: named, muField: mu, guarded: map[string]bool{}}
			for _, fn := range p.FuncsIn(rel) {
				root := fn
				for root.Parent() != nil {
					root = root.Parent()
				}
				if root.Signature.Recv() == nil || core.Deref(root.Signature.Recv().Type()) != types.Type(named) {
					continue
				}
				lt.methods = append(lt.methods, fn)
				core.InstrsOf(fn, func(in ssa.Instruction) {
					if st, ok := in.(*ssa.Store); ok {
						if fa, ok := st.Addr.(*ssa.FieldAddr); ok && core.Deref(fa.X.Type()) == types.Type(named) {
							f := core.FieldName(fa.X.Type(), fa.Field)
							if f != mu {
								lt.guarded[f] = true
							}
						}
					}
				})
			}
			out = append(out, lt)
		}
	}
	return out
}

func c11(r *core.Run) {
	p := r.P
	c11OneSnapshot(r)
	// a reader's snapshot sees a mutation all at once only if the mutation is ONE batch: the one-batch rule of C07
	// (no direct write next to the batch, a single commit) is a necessary condition here too
	defer func() {
		ex, un, as := r.Explain, r.Undecided, r.Assume
		r.Filter = func(o *core.Obligation) bool { return o.Rule == "C07.ONEBATCH" }
		r.Under("C07.ONEBATCH", "C11.ATOMIC", func() { c07(r) })
		// ... and the index entries a mutation leaves behind belong to the version it stored (the stale-entry
		// discipline of C06): an old version's entry that survives pairs with the new version's record
		r.Filter = func(o *core.Obligation) bool { return o.Rule == "C06.IDX" }
		r.Under("C06.IDX", "C11.IDX", func() { c06(r) })
		r.Filter = nil
		r.Explain, r.Undecided, r.Assume = ex+" (ATOMIC) every mutation of the embedded store is applied as one batch with a single commit (rule shared with C07): a snapshot taken by a concurrent scan contains all of it or none of it.", un, as
	}()
	r.Explain = "C11 decided structurally: (SNAP) in every function of the embedded store that produces alerts or candidates, each index iterator and each record fetch — also inside closures — uses one and the same *pebble.Snapshot value, never the live DB handle; (LOCK) for both stores, every read of a mutex-guarded field happens with at least the read lock certainly held and every write (and every durable database write) with the write lock held, computed by a forward must-lockset analysis per method with deferred unlocks; (NOESCAPE) the JSON store's getters return fresh copies, never pointers into the guarded slice. Lookups that return signatures rather than alerts (GetSignatureByTopology, ScanByEntropyRange) use the live handle and are listed as outside the statement. Not decided: absence of races inside Pebble, liveness. (SNAP, sharpened) store helpers called from a scan that read the live handle themselves count as live reads; (LOCK, sharpened) in a method that commits, every database read happens with the write lock held; unexported methods inherit the least lock level held at their call sites."
	r.Undecided = []string{"data races inside Pebble itself", "liveness / lock ordering (single mutex per store: no ordering issue by construction)"}
	r.Assume = []string{"a *pebble.Snapshot gives a consistent point-in-time view", "sync.RWMutex semantics"}

	// ---- SNAP
	nProd := 0
	for _, fn := range p.FuncsIn(storeRel) {
		if fn.Parent() != nil {
			continue
		}
		rt := resultTypes(fn)
		if len(rt) == 0 {
			continue
		}
		t0 := rt[0].String()
		producesAlerts := strings.Contains(t0, "detection.ScanResult") || (strings.Contains(t0, "detection.Signature") && strings.HasPrefix(t0, "[]*"))
		if !producesAlerts {
			continue
		}
		fnm := core.FuncName(fn)
		type access struct {
			in   ssa.Instruction
			recv ssa.Value
			kind string
		}
		var accs []access
		for _, f := range core.Nest(fn) {
			core.InstrsOf(f, func(in ssa.Instruction) {
				c := core.CallOf(in)
				if c == nil {
					return
				}
				name := core.CalleeName(c)
				switch {
				case strings.HasSuffix(name, ".NewIter") && strings.Contains(name, pebblePath):
					accs = append(accs, access{in, c.Args[0], "iterator"})
				case strings.HasSuffix(name, ").Get") && strings.Contains(name, pebblePath):
					accs = append(accs, access{in, c.Args[0], "record fetch"})
				case isLiveIterHelper(p, c):
					accs = append(accs, access{in, nil, "iterator on the live handle (" + core.StaticCallee(c).Name() + ")"})
				}
			})
		}
		// helpers of the store called from the scan that read the live handle themselves
		for _, f := range core.Nest(fn) {
			core.InstrsOf(f, func(in ssa.Instruction) {
				c := core.CallOf(in)
				if c == nil {
					return
				}
				callee := core.StaticCallee(c)
				if callee == nil || !p.IsProdFunc(callee) || callee.Pkg != fn.Pkg || callee.Parent() != nil {
					return
				}
				if via := liveAccess(p, callee, map[*ssa.Function]bool{}); via != "" {
					accs = append(accs, access{in, nil, "read of the live database through " + callee.Name() + " (" + via + ")"})
				}
			})
		}
		if len(accs) == 0 {
			continue
		}
		nProd++
		roots := map[string]bool{}
		for _, a := range accs {
			if a.recv == nil {
				r.Fail("C11.SNAP", fnm+"#"+a.kind, a.in.Pos(), "an alert-producing scan reads the live database handle instead of its snapshot ("+a.kind+"): an index entry of one version can be paired with the record of another")
				continue
			}
			rv := core.Resolve(a.recv)
			if !core.IsNamed(rv.Type(), pebblePath, "Snapshot") {
				r.Fail("C11.SNAP", fnm+"#"+a.kind, a.in.Pos(), a.kind+" on "+core.TypeName(rv.Type())+" instead of the scan's snapshot: an index entry of one version can be paired with the record of another")
				continue
			}
			roots[core.Canon(rv)] = true
			r.OK("C11.SNAP", fnm+"#"+a.kind+"@"+core.FuncName(a.in.Parent()), a.in.Pos(), a.kind+" uses snapshot "+core.Canon(rv))
		}
		var rs []string
		for k := range roots {
			rs = append(rs, k)
		}
		sort.Strings(rs)
		r.Check(len(rs) <= 1, "C11.SNAP", fnm+"#one-snapshot", fn.Pos(), "all accesses share one snapshot", "accesses use different snapshots: "+strings.Join(rs, " vs "))
	}
	r.Floor("C11.SNAP", "alert/candidate producers that touch the database", nProd, 3)
	// a fresh snapshot handed to a scan function must be the one that function uses: callers pass it straight through
	for _, fn := range p.FuncsIn(storeRel) {
		core.InstrsOf(fn, func(in ssa.Instruction) {
			c := core.CallOf(in)
			if c == nil {
				return
			}
			callee := core.StaticCallee(c)
			if callee == nil || !p.IsProdFunc(callee) {
				return
			}
			for i, a := range c.Args {
				if core.IsNamed(a.Type(), pebblePath, "Snapshot") && i < len(callee.Params) {
					rv := core.Resolve(a)
					_, fromNew := callTo(rv, "(*"+pebblePath+".DB).NewSnapshot")
					_, isParam := rv.(*ssa.Parameter)
					r.Check(fromNew || isParam, "C11.SNAP", core.FuncName(fn)+"→"+callee.Name()+"#snapshot-arg", in.Pos(), "snapshot argument is a fresh or inherited snapshot", "snapshot argument is "+core.Canon(rv))
				}
			}
		})
	}

	// ---- LOCK
	lts := lockedTypes(p)
	r.Floor("C11.LOCK", "store types with a mutex", len(lts), 2)
	for _, lt := range lts {
		tn := lt.named.Obj().Pkg().Name() + "." + lt.named.Obj().Name()
		var gs []string
		for g := range lt.guarded {
			gs = append(gs, g)
		}
		sort.Strings(gs)
		r.Note("%s: mutex field %s guards {%s}", tn, lt.muField, strings.Join(gs, ","))
		r.Floor("C11.LOCK", "guarded fields of "+tn, len(gs), 2)
		nAcc := 0
		// Unexported methods cannot be called from outside the package: the lock level at their entry is the least
		// level held at any of their call sites on the same receiver (fixpoint over helper chains). Exported methods,
		// and helpers whose value escapes, start with nothing held.
		entry := map[*ssa.Function]int{}
		muOf := func(fn *ssa.Function) (func(v ssa.Value) bool, func(v ssa.Value) bool) {
			recv := fn.Params[0]
			isRecvBase := func(v ssa.Value) bool {
				return v == ssa.Value(recv) || core.Resolve(v) == ssa.Value(recv)
			}
			isMu := func(v ssa.Value) bool {
				fa, ok := v.(*ssa.FieldAddr)
				return ok && isRecvBase(fa.X) && core.FieldName(fa.X.Type(), fa.Field) == lt.muField
			}
			return isRecvBase, isMu
		}
		isMethod := map[*ssa.Function]bool{}
		for _, fn := range lt.methods {
			if fn.Parent() == nil {
				isMethod[fn] = true
				entry[fn] = lkNone
			}
		}
		const topLevel = 99
		for fn := range isMethod {
			if fn.Object() != nil && !fn.Object().Exported() {
				entry[fn] = topLevel
			}
		}
		// helpers that are referenced other than as the callee of a static call on the caller's own receiver
		for _, caller := range p.FuncsIn(strings.TrimPrefix(lt.named.Obj().Pkg().Path(), p.ModPath+"/")) {
			core.InstrsOf(caller, func(in ssa.Instruction) {
				var ops [12]*ssa.Value
				for _, op := range in.Operands(ops[:0]) {
					if f, ok := (*op).(*ssa.Function); ok && isMethod[f] && entry[f] == topLevel {
						c := core.CallOf(in)
						if c == nil || core.StaticCallee(c) != f {
							entry[f] = lkNone // method value / closure binding: unknown callers
							continue
						}
						if !isMethod[caller] && !(caller.Parent() != nil && isMethod[caller.Parent()]) {
							entry[f] = lkNone // called from a package function: no receiver lock to inherit
						}
					}
				}
			})
		}
		for changed := true; changed; {
			changed = false
			for caller := range isMethod {
				isRecvBase, isMu := muOf(caller)
				e := entry[caller]
				if e == topLevel {
					e = lkW // optimistic start, lowered below
				}
				st := lockStates(caller, isMu, e)
				for _, nested := range core.Nest(caller) {
					core.InstrsOf(nested, func(in ssa.Instruction) {
						c := core.CallOf(in)
						if c == nil {
							return
						}
						g := core.StaticCallee(c)
						if g == nil || !isMethod[g] || g.Object() == nil || g.Object().Exported() || entry[g] == lkNone {
							return
						}
						lvl := lkNone
						if nested == caller && len(c.Args) > 0 && isRecvBase(c.Args[0]) {
							lvl = st[in]
						}
						if entry[g] == topLevel || lvl < entry[g] {
							entry[g] = lvl
							changed = true
						}
					})
				}
			}
		}
		for fn, e := range entry {
			if e == topLevel {
				entry[fn] = lkNone // never called
			} else if e > lkNone {
				r.Note("%s: helper %s is entered with the %s lock held at every call site", tn, fn.Name(), map[int]string{lkR: "read", lkW: "write"}[e])
			}
		}
		for _, fn := range lt.methods {
			if fn.Parent() != nil {
				continue // closures are analysed with their own entry state (none held): see below
			}
			isRecvBase, isMu := muOf(fn)
			states := lockStates(fn, isMu, entry[fn])
			// is this a constructor-like method? (none: constructors are package functions)
			core.InstrsOf(fn, func(in ssa.Instruction) {
				fa, ok := in.(*ssa.FieldAddr)
				if !ok || !isRecvBase(fa.X) {
					return
				}
				f := core.FieldName(fa.X.Type(), fa.Field)
				if !lt.guarded[f] {
					return
				}
				refs := fa.Referrers()
				if refs == nil {
					return
				}
				for _, ref := range *refs {
					need := lkR
					what := "read"
					if st, ok := ref.(*ssa.Store); ok && st.Addr == ssa.Value(fa) {
						need = lkW
						what = "write"
					}
					nAcc++
					have := states[ref]
					r.Check(have >= need, "C11.LOCK", fmt.Sprintf("%s#%s(%s)", core.FuncName(fn), what, f), ref.Pos(),
						what+" of guarded field under lock", fmt.Sprintf("%s of guarded field %s.%s without the %s lock held on every path", what, tn, f, map[int]string{lkR: "read", lkW: "write"}[need]))
				}
			})
			// durable writes under the write lock
			core.InstrsOf(fn, func(in ssa.Instruction) {
				c := core.CallOf(in)
				if c == nil || !pebbleDurable[core.CalleeName(c)] {
					return
				}
				r.Check(states[in] == lkW, "C11.LOCK", core.FuncName(fn)+"#durable-write-under-lock", in.Pos(), "durable write with the write lock held", "read-modify-write of the store without the writer mutex: two writers can interleave between Get and Commit")
			})
			// ... and so is the read half of a read-modify-write: in a method that commits, every read of the
			// database (old record lookup, iterators) is under the same write lock
			commits := false
			core.InstrsOf(fn, func(in ssa.Instruction) {
				if c := core.CallOf(in); c != nil && pebbleDurable[core.CalleeName(c)] {
					commits = true
				}
			})
			if commits {
				core.InstrsOf(fn, func(in ssa.Instruction) {
					c := core.CallOf(in)
					if c == nil {
						return
					}
					name := core.CalleeName(c)
					if !((strings.HasSuffix(name, ").Get") || strings.HasSuffix(name, ".NewIter")) && strings.Contains(name, pebblePath+".DB)")) && !isLiveIterHelper(p, c) {
						return
					}
					r.Check(states[in] == lkW, "C11.LOCK", core.FuncName(fn)+"#rmw-read-under-write-lock", in.Pos(), "the lookup a mutation bases its index maintenance on happens with the write lock held", "a mutating method reads the database before taking the writer mutex: another writer can commit between this read and the commit, and the stale-entry cleanup is computed from a superseded record")
				})
			}
			// a batch is one mutation: a method that is handed several signatures must not apply them one by one, each
			// under its own acquisition of the lock (a concurrent scan would observe a state that was never committed)
			batchParam := false
			for _, pa := range fn.Params[1:] {
				if sl, ok := pa.Type().Underlying().(*types.Slice); ok && core.IsNamed(sl.Elem(), detPath(p), "Signature") {
					batchParam = true
				}
			}
			if batchParam {
				core.InstrsOf(fn, func(in ssa.Instruction) {
					c := core.CallOf(in)
					if c == nil || core.LoopHeaderOf(in.Block()) == nil {
						return
					}
					g := core.StaticCallee(c)
					if g == nil || !isMethod[g] || len(c.Args) == 0 || !isRecvBase(c.Args[0]) {
						return
					}
					locksItself := false
					_, gMu := muOf(g)
					core.InstrsOf(g, func(in2 ssa.Instruction) {
						if c2 := core.CallOf(in2); c2 != nil && len(c2.Args) > 0 && gMu(c2.Args[0]) && strings.HasSuffix(core.CalleeName(c2), ".Lock") {
							locksItself = true
						}
					})
					if locksItself {
						r.Check(states[in] == lkW, "C11.LOCK", core.FuncName(fn)+"#batch-under-one-lock("+g.Name()+")", in.Pos(), "the elements of a batch are applied under one acquisition of the write lock", "the batch is applied element by element through "+g.Name()+", which takes and releases the write lock each time: a scan running in between sees a half-applied batch, a state that was never committed")
					}
				})
			}
			// closures of this method that touch guarded fields
			for _, cl := range core.Nest(fn)[1:] {
				core.InstrsOf(cl, func(in ssa.Instruction) {
					fa, ok := in.(*ssa.FieldAddr)
					if !ok || core.Deref(fa.X.Type()) != types.Type(lt.named) {
						return
					}
					if f := core.FieldName(fa.X.Type(), fa.Field); lt.guarded[f] {
						// closure called while the parent holds the lock? accept only if every call site in parent is under lock
						held := true
						core.InstrsOf(fn, func(in2 ssa.Instruction) {
							if c := core.CallOf(in2); c != nil && core.StaticCallee(c) == cl && states[in2] < lkR {
								held = false
							}
						})
						r.Check(held, "C11.LOCK", core.FuncName(cl)+"#closure-access("+f+")", in.Pos(), "closure touches guarded field only while its caller holds the lock", "closure touches guarded field "+f+" without the lock")
					}
				})
			}
		}
		r.Floor("C11.LOCK", "accesses to guarded fields of "+tn, nAcc, 3)
	}

	// ---- NOESCAPE (JSON store)
	nGet := 0
	for _, fn := range p.FuncsIn("pkg/storage/jsondb") {
		if fn.Parent() != nil || fn.Signature.Recv() == nil {
			continue
		}
		rt := resultTypes(fn)
		if len(rt) == 0 {
			continue
		}
		t0 := rt[0].String()
		if !(strings.Contains(t0, "*") && (strings.Contains(t0, "detection.Signature"))) {
			continue
		}
		fnm := core.FuncName(fn)
		check := func(v ssa.Value, pos token.Pos) {
			for _, o := range core.Origins(v) {
				switch x := o.(type) {
				case *ssa.Const:
					continue
				case *ssa.Alloc:
					continue
				case *ssa.Call:
					if callee := core.StaticCallee(&x.Call); callee != nil && p.IsProdFunc(callee) {
						fresh := true
						for _, ret := range core.Returns(callee) {
							for _, oo := range core.Origins(ret.Results[0]) {
								if _, isAlloc := oo.(*ssa.Alloc); !isAlloc {
									fresh = false
								}
							}
						}
						r.Check(fresh, "C11.NOESCAPE", fnm+"#returns-copy-via("+callee.Name()+")", pos, "returned pointer is a fresh copy", "copy helper "+callee.Name()+" returns a pointer that is not freshly allocated")
						continue
					}
					if _, isAppend := isBuiltinCall(o, "append"); isAppend {
						continue
					}
				case *ssa.IndexAddr, *ssa.FieldAddr:
					r.Fail("C11.NOESCAPE", fnm+"#returns-internal-pointer", pos, "a pointer into the guarded signature slice / database is handed out: callers read it without the lock while writers reallocate")
					continue
				case *ssa.UnOp:
					if _, _, isF := fieldLoadBy(x, func(t types.Type) bool { return strings.HasSuffix(t.String(), "SignatureDatabase") }); isF {
						r.Fail("C11.NOESCAPE", fnm+"#returns-internal-pointer", pos, "the guarded database pointer itself is returned")
						continue
					}
				}
			}
		}
		for _, ret := range core.Returns(fn) {
			nGet++
			v := ret.Results[0]
			// slices of pointers: check appended elements
			if _, isSlice := v.Type().Underlying().(*types.Slice); isSlice {
				seen := map[ssa.Value]bool{}
				var walk func(v ssa.Value)
				walk = func(v ssa.Value) {
					for _, o := range core.Origins(v) {
						if seen[o] {
							continue
						}
						seen[o] = true
						if ap, ok := isBuiltinCall(o, "append"); ok {
							if elems, ok := varargElems(ap.Call.Args[1]); ok {
								for _, e := range elems {
									check(e, ap.Pos())
								}
							}
							walk(ap.Call.Args[0])
						}
					}
				}
				walk(v)
				continue
			}
			check(v, ret.Pos())
		}
	}
	r.Floor("C11.NOESCAPE", "returns of signature pointers from the JSON store", nGet, 3)
}

// liveAccess reports (as a short description, "" if none) whether f or a store function it calls reads
// the database through the live *pebble.DB handle (Get / NewIter / the iterator helper).
func liveAccess(p *core.Program, f *ssa.Function, seen map[*ssa.Function]bool) string {
	if seen[f] {
		return ""
	}
	seen[f] = true
	out := ""
	for _, g := range core.Nest(f) {
		core.InstrsOf(g, func(in ssa.Instruction) {
			c := core.CallOf(in)
			if c == nil || out != "" {
				return
			}
			name := core.CalleeName(c)
			switch {
			case (strings.HasSuffix(name, ").Get") || strings.HasSuffix(name, ".NewIter")) && strings.Contains(name, pebblePath+".DB)"):
				out = "DB" + name[strings.LastIndex(name, ")"):] + " in " + f.Name()
				return
			case isLiveIterHelper(p, c):
				out = core.StaticCallee(c).Name() + " in " + f.Name()
				return
			}
			if callee := core.StaticCallee(c); callee != nil && p.IsProdFunc(callee) && callee.Pkg == f.Pkg && callee.Parent() == nil {
				if via := liveAccess(p, callee, seen); via != "" {
					out = via
				}
			}
		})
	}
	return out
}

// c11OneSnapshot: a function that took a snapshot does all its scanning against THAT snapshot: none of the store
// methods it calls (directly or one level down) takes a snapshot of its own — each further snapshot is another
// committed state, and the results of one call mix several.
func c11OneSnapshot(r *core.Run) {
	p := r.P
	takes := func(fn *ssa.Function) bool {
		found := false
		core.InstrsOf(fn, func(in ssa.Instruction) {
			if c := core.CallOf(in); c != nil && strings.HasSuffix(core.CalleeName(c), ".DB).NewSnapshot") {
				found = true
			}
		})
		return found
	}
	n := 0
	for _, fn := range p.FuncsIn(storeRel) {
		if fn.Parent() != nil || !takes(fn) {
			continue
		}
		n++
		bad := ""
		var badPos token.Pos
		for _, nf := range core.Nest(fn) {
			core.InstrsOf(nf, func(in ssa.Instruction) {
				c := core.CallOf(in)
				if c == nil {
					return
				}
				g := core.StaticCallee(c)
				if g == nil || !p.IsProdFunc(g) || g == fn || g.Parent() != nil {
					return
				}
				if takes(g) && bad == "" {
					bad, badPos = core.FuncName(g), in.Pos()
				}
			})
		}
		if bad == "" {
			badPos = fn.Pos()
		}
		r.Check(bad == "", "C11.SNAP", core.FuncName(fn)+"#one-snapshot", badPos, "everything the function scans is read from the one snapshot it took", "the function took a snapshot but calls "+bad+", which takes another: the parts of one result are computed against different committed states (a batch scan mixes alerts of several versions of a signature)")
	}
	r.Floor("C11.SNAP", "functions that take a snapshot", n, 2)
}
