package rules

import (
	"go/ast"
	"go/token"
	"go/types"
	"sort"
	"strings"

	"golang.org/x/tools/go/packages"
	"golang.org/x/tools/go/ssa"

	"sfwverif/internal/core"
)

// ---------------------------------------------------------------------------------------------
// E-READ: observed-attribute coverage of type-switch dispatchers over go/ssa instruction kinds.

const ssaPkgPath = "golang.org/x/tools/go/ssa"

// ssaInstrKinds returns the concrete instruction types (struct types whose pointer implements
// ssa.Instruction) of the go/ssa version the target builds against, with their exported fields.
func ssaInstrKinds(p *core.Program) map[string]*types.Struct {
	out := map[string]*types.Struct{}
	pkg := p.ByPath[ssaPkgPath]
	if pkg == nil || pkg.Types == nil {
		return out
	}
	scope := pkg.Types.Scope()
	iobj := scope.Lookup("Instruction")
	if iobj == nil {
		return out
	}
	iface, _ := iobj.Type().Underlying().(*types.Interface)
	for _, name := range scope.Names() {
		tn, ok := scope.Lookup(name).(*types.TypeName)
		if !ok || !tn.Exported() {
			continue
		}
		st, ok := tn.Type().Underlying().(*types.Struct)
		if !ok {
			continue
		}
		if iface != nil && types.Implements(types.NewPointer(tn.Type()), iface) {
			out[name] = st
		}
	}
	return out
}

// exportedFields lists the exported, non-embedded-unexported fields of a go/ssa struct, expanding
// the embedded CallCommon of Call/Go/Defer as "Call.<field>".
func exportedFields(st *types.Struct) []string {
	var out []string
	for i := 0; i < st.NumFields(); i++ {
		f := st.Field(i)
		if !f.Exported() {
			continue
		}
		if n, ok := f.Type().(*types.Named); ok && n.Obj().Name() == "CallCommon" {
			cs := n.Underlying().(*types.Struct)
			for j := 0; j < cs.NumFields(); j++ {
				if cs.Field(j).Exported() {
					out = append(out, "Call."+cs.Field(j).Name())
				}
			}
			continue
		}
		out = append(out, f.Name())
	}
	sort.Strings(out)
	return out
}

// clauseReads is what one case clause observes of its bound instruction.
type clauseReads struct {
	Kind    string
	Reads   map[string]bool // field names, "Call.<field>", and methods as "Name()"
	Pos     token.Pos
	Renders bool // clause has a body (writes something / returns a comparison)
}

type dispatcher struct {
	Fn      *ast.FuncDecl
	Pkg     *packages.Package
	Switch  *ast.TypeSwitchStmt
	Clauses map[string]*clauseReads
	Default bool
}

// findDispatchers returns the type switches over ssa instruction kinds inside the named function
// declarations of a package (rel path), matched by receiver-free function name.
func findDispatchers(p *core.Program, rel string, minKinds int) []*dispatcher {
	pkg := p.Pkg(rel)
	if pkg == nil {
		return nil
	}
	var out []*dispatcher
	for _, f := range pkg.Syntax {
		for _, d := range f.Decls {
			fd, ok := d.(*ast.FuncDecl)
			if !ok || fd.Body == nil {
				continue
			}
			ast.Inspect(fd.Body, func(n ast.Node) bool {
				ts, ok := n.(*ast.TypeSwitchStmt)
				if !ok {
					return true
				}
				disp := &dispatcher{Fn: fd, Pkg: pkg, Switch: ts, Clauses: map[string]*clauseReads{}}
				for _, s := range ts.Body.List {
					cc := s.(*ast.CaseClause)
					if cc.List == nil {
						disp.Default = true
						continue
					}
					for _, e := range cc.List {
						tv, ok := pkg.TypesInfo.Types[e]
						if !ok {
							continue
						}
						pt, ok := tv.Type.(*types.Pointer)
						if !ok {
							continue
						}
						n, ok := pt.Elem().(*types.Named)
						if !ok || n.Obj().Pkg() == nil || n.Obj().Pkg().Path() != ssaPkgPath {
							continue
						}
						cr := &clauseReads{Kind: n.Obj().Name(), Reads: map[string]bool{}, Pos: cc.Pos(), Renders: len(cc.Body) > 0}
						if obj := pkg.TypesInfo.Implicits[cc]; obj != nil && len(cc.List) == 1 {
							collectReads(p, pkg, cc.Body, obj, "", cr.Reads, 0)
						}
						disp.Clauses[cr.Kind] = cr
					}
				}
				if len(disp.Clauses) >= minKinds {
					out = append(out, disp)
				}
				return true
			})
		}
	}
	return out
}

// collectReads records selections on obj (prefix "" for the instruction itself, "Call." when obj
// denotes its CallCommon) inside nodes, following calls that receive obj, &obj.Call or obj.Call.
func collectReads(p *core.Program, pkg *packages.Package, nodes []ast.Stmt, obj types.Object, prefix string, reads map[string]bool, depth int) {
	for _, s := range nodes {
		ast.Inspect(s, func(n ast.Node) bool {
			switch x := n.(type) {
			case *ast.SelectorExpr:
				if id, ok := ast.Unparen(x.X).(*ast.Ident); ok && pkg.TypesInfo.Uses[id] == obj {
					name := x.Sel.Name
					if sel := pkg.TypesInfo.Selections[x]; sel != nil && sel.Kind() == types.MethodVal {
						reads[prefix+name+"()"] = true
					} else {
						reads[prefix+name] = true
					}
				}
				// obj.Call.Field
				if inner, ok := ast.Unparen(x.X).(*ast.SelectorExpr); ok && prefix == "" {
					if id, ok := ast.Unparen(inner.X).(*ast.Ident); ok && pkg.TypesInfo.Uses[id] == obj && inner.Sel.Name == "Call" {
						name := x.Sel.Name
						if sel := pkg.TypesInfo.Selections[x]; sel != nil && sel.Kind() == types.MethodVal {
							reads["Call."+name+"()"] = true
						} else {
							reads["Call."+name] = true
						}
					}
				}
			case *ast.CallExpr:
				if depth >= 2 {
					return true
				}
				fnObj := calleeObj(pkg.TypesInfo, x)
				if fnObj == nil || fnObj.Pkg() == nil || !p.InModule(fnObj.Pkg().Path()) {
					return true
				}
				for i, a := range x.Args {
					np := ""
					matched := false
					switch e := ast.Unparen(a).(type) {
					case *ast.Ident:
						if pkg.TypesInfo.Uses[e] == obj {
							matched, np = true, prefix
						}
					case *ast.UnaryExpr:
						if sel, ok := ast.Unparen(e.X).(*ast.SelectorExpr); ok && e.Op == token.AND {
							if id, ok := ast.Unparen(sel.X).(*ast.Ident); ok && pkg.TypesInfo.Uses[id] == obj && sel.Sel.Name == "Call" {
								matched, np = true, "Call."
							}
						}
					case *ast.SelectorExpr:
						if id, ok := ast.Unparen(e.X).(*ast.Ident); ok && pkg.TypesInfo.Uses[id] == obj && e.Sel.Name == "Call" {
							matched, np = true, "Call."
						}
					}
					if !matched {
						continue
					}
					decl, dpkg := funcDeclOf(p, fnObj)
					if decl == nil || decl.Body == nil {
						continue
					}
					// parameter object at position i (receiver excluded)
					var params []*ast.Ident
					for _, f := range decl.Type.Params.List {
						params = append(params, f.Names...)
					}
					if i < len(params) {
						pobj := dpkg.TypesInfo.Defs[params[i]]
						if pobj != nil {
							collectReads(p, dpkg, decl.Body.List, pobj, np, reads, depth+1)
						}
					}
				}
			}
			return true
		})
	}
}

// funcDeclOf finds the declaration of a module function object.
func funcDeclOf(p *core.Program, fn *types.Func) (*ast.FuncDecl, *packages.Package) {
	pkg := p.ByPath[fn.Pkg().Path()]
	if pkg == nil {
		return nil, nil
	}
	for _, f := range pkg.Syntax {
		for _, d := range f.Decls {
			if fd, ok := d.(*ast.FuncDecl); ok && pkg.TypesInfo.Defs[fd.Name] == types.Object(fn) {
				return fd, pkg
			}
		}
	}
	return nil, nil
}

// ---------------------------------------------------------------------------------------------
// name-freedom of the topology extraction (C05.NAMEFREE / C19.NAMEFREE)

func nameFree(r *core.Run, rule string, rels []string) {
	p := r.P
	topoPkg := p.ModPath + "/pkg/analysis/topology"
	var entries []*ssa.Function
	for _, name := range []string{"ExtractTopology", "GenerateFuzzyHash", "TopologySimilarity"} {
		if fn := p.Func("pkg/analysis/topology", name); fn != nil {
			entries = append(entries, fn)
		}
	}
	for _, name := range []string{"GenerateTopologyHash", "ExtractStringPatterns", "IndexFunction"} {
		if fn := p.Func("pkg/detection", name); fn != nil {
			entries = append(entries, fn)
		}
	}
	if !r.Floor(rule, "topology / hash entry points", len(entries), 4) {
		return
	}
	reach := p.Reach(entries...)
	// the subject: *ssa.Function parameters of the extraction entry points
	subjects := map[ssa.Value]bool{}
	for _, e := range entries {
		for _, pa := range e.Params {
			if strings.HasSuffix(pa.Type().String(), "ssa.Function") {
				subjects[pa] = true
			}
		}
	}
	nReads := 0
	for _, fn := range core.SortedFuncs(reach) {
		root := fn
		for root.Parent() != nil {
			root = root.Parent()
		}
		if root.Pkg == nil || (root.Pkg.Pkg.Path() != topoPkg && root.Pkg.Pkg.Path() != detPath(p)) {
			continue
		}
		fnm := core.FuncName(fn)
		core.InstrsOf(fn, func(in ssa.Instruction) {
			c := core.CallOf(in)
			if c == nil {
				return
			}
			name := core.CalleeName(c)
			switch {
			case name == "(*go/types.Signature).String":
				nReads++
				r.Fail(rule, fnm+"#Signature.String()", in.Pos(), "(*types.Signature).String() includes parameter names: renaming a parameter changes the topology")
			case strings.HasPrefix(name, "(*"+ssaPkgPath+".Parameter).Name"), strings.HasPrefix(name, "(*"+ssaPkgPath+".FreeVar).Name"),
				strings.HasPrefix(name, "(*"+ssaPkgPath+".Alloc).Name"), strings.HasPrefix(name, "(*"+ssaPkgPath+".Phi).Name"),
				name == "invoke:("+ssaPkgPath+".Value).Name", strings.HasSuffix(name, ").Pos") && strings.Contains(name, ssaPkgPath):
				nReads++
				r.Fail(rule, fnm+"#"+name[strings.LastIndex(name, "/")+1:], in.Pos(), "a cosmetic attribute (local name / position) is read on the topology path")
			case name == "(*"+ssaPkgPath+".Function).Name" || name == "(*"+ssaPkgPath+".Function).String" || name == "(*"+ssaPkgPath+".Function).RelString":
				nReads++
				// receiver must be a callee, never the subject: follow parameters to call sites (depth 3)
				bad := ""
				var walk func(f *ssa.Function, v ssa.Value, d int)
				walk = func(f *ssa.Function, v ssa.Value, d int) {
					for _, o := range core.Origins(v) {
						if subjects[o] {
							bad = "the subject function itself"
							return
						}
						if u, ok := o.(*ssa.UnOp); ok {
							if fa, ok := u.X.(*ssa.FieldAddr); ok && strings.HasSuffix(core.TypeName(fa.X.Type()), "FunctionTopology") {
								bad = "the analysed function (kept in the topology record)"
								return
							}
						}
						if pa, ok := o.(*ssa.Parameter); ok && d < 3 {
							idx := -1
							for i, q := range f.Params {
								if q == pa {
									idx = i
								}
							}
							for _, ci := range callersOf(p, f) {
								args := core.CallArgs(ci.Common())
								if idx >= 0 && idx < len(args) {
									walk(ci.Parent(), args[idx], d+1)
								}
							}
						}
					}
				}
				walk(fn, c.Args[0], 0)
				r.Check(bad == "", rule, fnm+"#Function.Name()", in.Pos(), "function names are read only for callees, never for the analysed function", "the name of "+bad+" is read on the topology path")
			}
		})
	}
	r.Floor(rule, "name reads examined on the topology path", nReads, 1)

	// self references: every key written into the call profile passes through a function that
	// replaces the callee's signature when the callee is the subject
	nKeys := 0
	for _, e := range entries {
		core.InstrsOf(e, func(in ssa.Instruction) {
			mu, ok := in.(*ssa.MapUpdate)
			if !ok {
				return
			}
			if _, isCS := core.FieldLoad(mu.Map, "CallSignatures"); !isCS {
				return
			}
			nKeys++
			okAll := true
			why := ""
			var check func(v ssa.Value)
			check = func(v ssa.Value) {
				for _, o := range core.Origins(v) {
					if b, ok := o.(*ssa.BinOp); ok && b.Op == token.ADD {
						if _, isC := core.ConstString(b.X); isC {
							check(b.Y)
							continue
						}
					}
					c, ok := o.(*ssa.Call)
					callee := (*ssa.Function)(nil)
					if ok {
						callee = core.StaticCallee(&c.Call)
					}
					if callee == nil || !selfReplacing(callee, c, subjects) {
						okAll = false
						why = core.Canon(o)
					}
				}
			}
			check(mu.Key)
			r.Check(okAll, rule, core.FuncName(e)+"#call-profile-key", mu.Pos(), "call-profile keys pass through the self-reference replacement", "a call-profile key ("+why+") can contain the analysed function's own name: a renamed recursive function gets a different topology")
		})
	}
	r.Floor(rule, "writes into the call profile", nKeys, 3)
}

// selfReplacing reports whether callee(subject, calleeValue, raw) returns raw only when
// calleeValue is not the subject.
func selfReplacing(callee *ssa.Function, call *ssa.Call, subjects map[ssa.Value]bool) bool {
	subjIdx, rawIdx := -1, -1
	for i, a := range call.Call.Args {
		if subjects[a] {
			subjIdx = i
		}
		if b, ok := a.Type().Underlying().(*types.Basic); ok && b.Kind() == types.String {
			rawIdx = i
		}
	}
	if subjIdx < 0 || rawIdx < 0 || subjIdx >= len(callee.Params) {
		return false
	}
	subj := callee.Params[subjIdx]
	raw := callee.Params[rawIdx]
	// an identity test against the subject whose true edge cannot reach a return of raw
	for _, b := range callee.Blocks {
		if len(b.Instrs) == 0 {
			continue
		}
		ifi, ok := b.Instrs[len(b.Instrs)-1].(*ssa.If)
		if !ok {
			continue
		}
		op, x, y, neg, ok := core.Compare(ifi.Cond)
		if !ok || neg || op != token.EQL || (x != ssa.Value(subj) && y != ssa.Value(subj)) {
			continue
		}
		reach := core.ReachAvoiding(b.Succs[0], nil)
		good := true
		for _, ret := range core.Returns(callee) {
			if reach[ret.Block()] && ret.Results[0] == ssa.Value(raw) {
				good = false
			}
		}
		if good {
			return true
		}
	}
	return false
}
