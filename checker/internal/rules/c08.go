package rules

import (
	"fmt"
	"go/token"
	"go/types"
	"sort"
	"strings"

	"golang.org/x/tools/go/ssa"

	"sfwverif/internal/core"
)

func init() { register("C08", c08) }

func detPath(p *core.Program) string { return p.ModPath + "/pkg/detection" }

// matchers returns the functions that compute a ScanResult for one signature.
func matchers(p *core.Program) map[*ssa.Function]bool {
	out := map[*ssa.Function]bool{}
	for _, fn := range p.FuncsIn("pkg/detection") {
		rt := resultTypes(fn)
		if len(rt) == 1 && core.IsNamed(rt[0], detPath(p), "ScanResult") && fn.Parent() == nil {
			out[fn] = true
		}
	}
	return out
}

// scannerFuncs returns all production functions of the two storage backends.
func scannerFuncs(p *core.Program) []*ssa.Function {
	return append(p.FuncsIn("pkg/storage/pebbledb"), p.FuncsIn("pkg/storage/jsondb")...)
}

// thresholdKind classifies the bound operand of an admission comparison.
func thresholdKind(p *core.Program, v ssa.Value) string {
	v = core.Resolve(v)
	if f, ok := core.ConstFloat(v); ok {
		return fmt.Sprintf("const:%g", f)
	}
	if base, name, ok := fieldLoadBy(v, isFloat64); ok && scannerFloatRoles(p)[core.Deref(base.Type()).String()].thr == name {
		return "field:matchThreshold"
	}
	return "other:" + core.Canon(v)
}

func isFloat64(t types.Type) bool {
	b, ok := t.Underlying().(*types.Basic)
	return ok && b.Kind() == types.Float64
}

// scanFields: the current names of a scanner's two float64 settings — the threshold is the field that the exported
// SetThreshold method stores its argument into, the entropy tolerance is the other one.
type scanFields struct{ thr, tol string }

var scanFieldCache map[string]scanFields

func scannerFloatRoles(p *core.Program) map[string]scanFields {
	if scanFieldCache != nil {
		return scanFieldCache
	}
	scanFieldCache = map[string]scanFields{}
	for _, fn := range scannerFuncs(p) {
		if fn.Name() != "SetThreshold" || fn.Signature.Recv() == nil || len(fn.Params) < 2 {
			continue
		}
		core.InstrsOf(fn, func(in ssa.Instruction) {
			st, ok := in.(*ssa.Store)
			if !ok {
				return
			}
			fa, ok := st.Addr.(*ssa.FieldAddr)
			if !ok || !isFloat64(deref1(fa.Type())) {
				return
			}
			for _, o := range core.Origins(st.Val) {
				if o == ssa.Value(fn.Params[1]) {
					sf := scanFields{thr: core.FieldName(fa.X.Type(), fa.Field)}
					for _, f := range structFieldsBy(fa.X.Type(), isFloat64) {
						if f != sf.thr {
							sf.tol = f
						}
					}
					scanFieldCache[core.Deref(fa.X.Type()).String()] = sf
				}
			}
		})
	}
	return scanFieldCache
}

// confidenceOf reports whether v reads the Confidence of the ScanResult held in alloc/value res.
func confidenceOf(v ssa.Value, res ssa.Value, resAlloc *ssa.Alloc) bool {
	base, ok := core.FieldLoad(v, "Confidence")
	if !ok {
		return false
	}
	if resAlloc != nil && base == ssa.Value(resAlloc) {
		return true
	}
	return base == res
}

type admission struct {
	fn       *ssa.Function
	match    *ssa.Call
	resAlloc *ssa.Alloc
	sinks    []ssa.Instruction
}

// admissions finds, per call of a matcher in the scanner packages, where its result is admitted
// into a returned collection / best result.
func admissions(p *core.Program) []admission {
	ms := matchers(p)
	var out []admission
	for _, fn := range scannerFuncs(p) {
		core.InstrsOf(fn, func(in ssa.Instruction) {
			c, ok := in.(*ssa.Call)
			if !ok || !ms[core.StaticCallee(&c.Call)] {
				return
			}
			a := admission{fn: fn, match: c}
			// the result variable
			if refs := c.Referrers(); refs != nil {
				for _, ref := range *refs {
					if st, ok := ref.(*ssa.Store); ok && st.Val == ssa.Value(c) {
						if al, ok := st.Addr.(*ssa.Alloc); ok {
							a.resAlloc = al
						}
					}
				}
			}
			whole := []ssa.Value{c}
			if a.resAlloc != nil {
				if refs := a.resAlloc.Referrers(); refs != nil {
					for _, ref := range *refs {
						switch x := ref.(type) {
						case *ssa.UnOp:
							if x.Op == token.MUL {
								whole = append(whole, x)
							}
						case *ssa.Return, *ssa.MakeInterface, *ssa.Store:
							if st, isSt := x.(*ssa.Store); isSt && st.Addr == ssa.Value(a.resAlloc) {
								continue
							}
							a.sinks = append(a.sinks, x.(ssa.Instruction)) // &res escapes
						}
					}
				}
			}
			for _, w := range whole {
				if refs := w.Referrers(); refs != nil {
					for _, ref := range *refs {
						if st, ok := ref.(*ssa.Store); ok && a.resAlloc != nil && st.Addr == ssa.Value(a.resAlloc) {
							continue
						}
						switch ref.(type) {
						case *ssa.Store, *ssa.Return, *ssa.MakeInterface, *ssa.Call, *ssa.MapUpdate, *ssa.Phi:
							a.sinks = append(a.sinks, ref)
						}
					}
				}
			}
			out = append(out, a)
		})
	}
	return out
}

func admissionAtom(a admission, wantInclusive bool, gotT *[]ssa.Value) core.Atom {
	return func(cond ssa.Value) (bool, bool) {
		op, x, y, neg, ok := core.Compare(cond)
		if !ok || neg {
			return false, false // a negated ordered comparison is not NaN-safe
		}
		switch {
		case confidenceOf(x, a.match, a.resAlloc) && (op == token.GEQ || (!wantInclusive && op == token.GTR)):
			*gotT = append(*gotT, y)
			return true, true
		case confidenceOf(y, a.match, a.resAlloc) && (op == token.LEQ || (!wantInclusive && op == token.LSS)):
			*gotT = append(*gotT, x)
			return true, true
		}
		return false, false
	}
}

func c08(r *core.Run) {
	p := r.P
	r.Explain = "C08 decided structurally: (VETO) in the matcher, the edge 'some required call is missing' leads only to returns whose Confidence was set to the constant 0; (FILTER) in both storage backends every use that admits a matcher result into a returned collection / best result is dominated by the NaN-safe comparison Confidence >= T with T the scanner's threshold field or, in the JSON exact mode, a constant >= 0.99; (MONO) the threshold value has no use other than as the bound of such comparisons; (SORT) every returned []ScanResult passed through a sort by Confidence descending (or is delegated / returned with an error); (SUBSET) per backend, exact and full mode guard admission with the same entropy pre-filter and threshold shapes, differing only as the property states for JSON; (RANGE) every term appended to the score list is one of the enumerated [0,1]-bounded shapes (constant, 1-d/t under d<=t, min(r,1/r), len/len, mean of such). Not decided: numeric equality of confidences between modes, the arithmetic itself. (VETO, sharpened) every path to a computed confidence passed the missing-call test unless the signature requires no calls; (MONO, sharpened) no branch on the size/emptiness of the already filtered alerts decides whether further candidates are evaluated."
	r.Undecided = []string{"numeric equality of exact-mode and full-mode confidence", "that the mean of bounded terms is computed without NaN for degenerate tolerances (0/0 cannot pass the >= filter, which FILTER protects)"}

	c08Veto(r)
	adms := admissions(p)
	nSinks := 0
	for _, a := range adms {
		fnm := core.FuncName(a.fn)
		for _, s := range a.sinks {
			nSinks++
			var ts []ssa.Value
			ok, n, path := core.MustPass(a.fn, s.Block(), admissionAtom(a, false, &ts))
			if !(ok && n > 0) {
				r.Fail("C08.FILTER", fnm+"#admit", s.Pos(), "a match result is admitted without the NaN-safe test Confidence >= threshold ("+core.FmtPath(path)+")")
				continue
			}
			kinds := map[string]bool{}
			for _, t := range ts {
				if _, isConf := core.FieldLoad(core.Resolve(t), "Confidence"); isConf {
					continue // best-so-far comparison between two results, not the admission bound
				}
				kinds[thresholdKind(p, t)] = true
			}
			if len(kinds) == 0 {
				r.Fail("C08.FILTER", fnm+"#admit", s.Pos(), "a match result is admitted without a comparison against the threshold")
				continue
			}
			var ks []string
			for k := range kinds {
				ks = append(ks, k)
			}
			sort.Strings(ks)
			good := true
			for _, k := range ks {
				switch {
				case k == "field:matchThreshold":
				case strings.HasPrefix(k, "const:"):
					var f float64
					fmt.Sscanf(k, "const:%g", &f)
					if f < 0.99 {
						good = false
					}
				default:
					good = false
				}
			}
			r.Check(good, "C08.FILTER", fnm+"#admit", s.Pos(), "admitted only under Confidence >= "+strings.Join(ks, "|"), "admission bound is "+strings.Join(ks, "|")+": not the configured threshold (or a constant >= 0.99)")
		}
	}
	r.Floor("C08.FILTER", "matcher call sites in the storage backends", len(adms), 4)
	r.Floor("C08.FILTER", "admission sites", nSinks, 4)

	c08Mono(r)
	c08Sort(r)
	c08Subset(r, adms)
	c08Range(r)
	c08Configured(r)
	c08Needle(r)
	c08Prefilter(r)
	c08OncePerItem(r)
}

func c08Veto(r *core.Run) {
	p := r.P
	n := 0
	for m := range matchers(p) {
		mn := core.FuncName(m)
		for _, b := range m.Blocks {
			if len(b.Instrs) == 0 {
				continue
			}
			ifi, ok := b.Instrs[len(b.Instrs)-1].(*ssa.If)
			if !ok {
				continue
			}
			op, x, y, neg, ok := core.Compare(ifi.Cond)
			if !ok || neg {
				continue
			}
			ln, isLen := isBuiltinCall(x, "len")
			z, isZ := core.ConstInt(y)
			if !isLen || !isZ || z != 0 || (op != token.GTR && op != token.NEQ) {
				continue
			}
			ex, isEx := ln.Call.Args[0].(*ssa.Extract)
			if !isEx {
				continue
			}
			call, isCall := ex.Tuple.(*ssa.Call)
			if !isCall || core.StaticCallee(&call.Call) == nil {
				continue
			}
			callee := core.StaticCallee(&call.Call)
			res := callee.Signature.Results()
			if ex.Index >= res.Len() || res.At(ex.Index).Name() == "" || !strings.Contains(strings.ToLower(res.At(ex.Index).Name()), "missing") {
				// role by position: the last []string result of the required-calls matcher
				if !(res.Len() == 3 && ex.Index == 2) {
					continue
				}
			}
			n++
			// from the true edge: every reachable return has Confidence == const 0 set on the way, no other store
			reach := core.ReachAvoiding(ifi.Block().Succs[0], nil)
			okAll := true
			detail := ""
			nRet := 0
			for _, ret := range core.Returns(m) {
				if !reach[ret.Block()] {
					continue
				}
				nRet++
			}
			zeroStore := false
			for blk := range reach {
				for _, in := range blk.Instrs {
					st, isSt := in.(*ssa.Store)
					if !isSt {
						continue
					}
					fa, isFA := st.Addr.(*ssa.FieldAddr)
					if !isFA || core.FieldName(fa.X.Type(), fa.Field) != "Confidence" {
						continue
					}
					if f, isC := core.ConstFloat(st.Val); isC && f == 0 {
						zeroStore = true
					} else {
						okAll = false
						detail = "Confidence is assigned " + core.Canon(st.Val) + " after a required call was found missing"
					}
				}
			}
			if nRet == 0 {
				okAll = false
				detail = "no return is reachable from the missing-call edge"
			}
			if okAll && !zeroStore {
				// confidence left at its zero value is fine only if nothing stored it before
				stored := false
				core.InstrsOf(m, func(in ssa.Instruction) {
					if st, ok := in.(*ssa.Store); ok {
						if fa, ok := st.Addr.(*ssa.FieldAddr); ok && core.FieldName(fa.X.Type(), fa.Field) == "Confidence" && !reach[st.Block()] && st.Block().Dominates(ifi.Block()) {
							stored = true
						}
					}
				})
				if stored {
					okAll = false
					detail = "Confidence keeps an earlier value on the missing-call edge"
				}
			}
			// the veto edge must return without reaching the averaging code: no path from it to the mean store
			r.Check(okAll, "C08.VETO", mn+"#missing-required-call", ifi.Pos(), "a missing required call forces Confidence 0 at every return reachable from that edge", "a signature whose required call is missing can still yield a confidence: "+detail)
			// and the averaging store must not be reachable when missing: the false edge is the only way on
			core.InstrsOf(m, func(in ssa.Instruction) {
				st, ok := in.(*ssa.Store)
				if !ok {
					return
				}
				fa, ok := st.Addr.(*ssa.FieldAddr)
				if !ok || core.FieldName(fa.X.Type(), fa.Field) != "Confidence" {
					return
				}
				if _, isC := core.ConstFloat(st.Val); isC {
					return
				}
				// computed confidence: must be unreachable from the veto edge
				r.Check(!reach[st.Block()], "C08.VETO", mn+"#computed-confidence-after-veto", st.Pos(), "the computed confidence is not reachable once a required call is missing", "the mean score is stored even when a required call is missing")
			})
		}
	}
	r.Floor("C08.VETO", "missing-required-call test in the matcher", n, 1)
	// the veto cannot be walked around: every path to a computed confidence passed the test on its
	// 'nothing missing' edge, unless the signature has no required calls at all
	for m := range matchers(p) {
		mn := core.FuncName(m)
		isMissing := func(v ssa.Value) bool {
			ln, isLen := isBuiltinCall(v, "len")
			if !isLen {
				return false
			}
			ex, isEx := ln.Call.Args[0].(*ssa.Extract)
			if !isEx {
				return false
			}
			call, isCall := ex.Tuple.(*ssa.Call)
			if !isCall || core.StaticCallee(&call.Call) == nil {
				return false
			}
			res := core.StaticCallee(&call.Call).Signature.Results()
			return res.Len() == 3 && ex.Index == 2
		}
		veto := func(cond ssa.Value) (bool, bool) {
			op, x, y, neg, ok := core.Compare(cond)
			if !ok || neg || !isMissing(x) {
				return false, false
			}
			if z, isZ := core.ConstInt(y); !isZ || z != 0 {
				return false, false
			}
			switch op {
			case token.GTR, token.NEQ:
				return true, false
			case token.EQL:
				return true, true
			}
			return false, false
		}
		bypass := map[core.Edge]bool{}
		for _, b := range m.Blocks {
			if len(b.Instrs) == 0 {
				continue
			}
			ifi, ok := b.Instrs[len(b.Instrs)-1].(*ssa.If)
			if !ok {
				continue
			}
			op, x, y, neg, ok := core.Compare(ifi.Cond)
			if !ok || neg || (op != token.GTR && op != token.NEQ) {
				continue
			}
			ln, isLen := isBuiltinCall(x, "len")
			if z, isZ := core.ConstInt(y); !isLen || !isZ || z != 0 {
				continue
			}
			if strings.HasSuffix(core.Canon(ln.Call.Args[0]), ".RequiredCalls") {
				bypass[core.Edge{From: b, Idx: 1}] = true
			}
		}
		core.InstrsOf(m, func(in ssa.Instruction) {
			st, ok := in.(*ssa.Store)
			if !ok {
				return
			}
			fa, ok := st.Addr.(*ssa.FieldAddr)
			if !ok || core.FieldName(fa.X.Type(), fa.Field) != "Confidence" {
				return
			}
			if _, isC := core.ConstFloat(st.Val); isC {
				return
			}
			ok1, n1, path := core.MustPassFrom(m, m.Blocks[0], st.Block(), veto, bypass)
			r.Check(ok1 && n1 > 0, "C08.VETO", mn+"#veto-on-every-path", st.Pos(), "every path to the computed confidence passed the missing-required-call test (or the signature requires no calls)", "a confidence can be computed for a signature with required calls without the missing-call test ("+core.FmtPath(path)+"): an alert is raised although a required call does not occur")
		})
	}
}

func c08Mono(r *core.Run) {
	p := r.P
	n := 0
	for _, fn := range scannerFuncs(p) {
		core.InstrsOf(fn, func(in ssa.Instruction) {
			u, ok := in.(*ssa.UnOp)
			if !ok || u.Op != token.MUL {
				return
			}
			fa, ok := u.X.(*ssa.FieldAddr)
			if !ok || !isFloat64(deref1(fa.Type())) || scannerFloatRoles(p)[core.Deref(fa.X.Type()).String()].thr != core.FieldName(fa.X.Type(), fa.Field) {
				return
			}
			n++
			fnm := core.FuncName(fn)
			seen := map[ssa.Value]bool{}
			var follow func(v ssa.Value, d int)
			follow = func(v ssa.Value, d int) {
				if seen[v] || d > 8 {
					return
				}
				seen[v] = true
				refs := v.Referrers()
				if refs == nil {
					return
				}
				for _, ref := range *refs {
					switch x := ref.(type) {
					case *ssa.BinOp:
						switch x.Op {
						case token.GEQ, token.GTR, token.LEQ, token.LSS:
							continue
						}
						r.Fail("C08.MONO", fnm+"#threshold-use", x.Pos(), "the threshold is used in arithmetic ("+x.Op.String()+"): raising it no longer only removes alerts")
					case *ssa.Store:
						if x.Val != v {
							continue
						}
						if al, ok := x.Addr.(*ssa.Alloc); ok {
							// loads of the local, here and in closures capturing it
							if arefs := al.Referrers(); arefs != nil {
								for _, ar := range *arefs {
									switch y := ar.(type) {
									case *ssa.UnOp:
										follow(y, d+1)
									case *ssa.MakeClosure:
										cf, _ := y.Fn.(*ssa.Function)
										for i, b := range y.Bindings {
											if b == ssa.Value(al) && cf != nil && i < len(cf.FreeVars) {
												if frefs := cf.FreeVars[i].Referrers(); frefs != nil {
													for _, fr := range *frefs {
														if lu, ok := fr.(*ssa.UnOp); ok {
															follow(lu, d+1)
														}
													}
												}
											}
										}
									}
								}
							}
							continue
						}
						r.Fail("C08.MONO", fnm+"#threshold-use", x.Pos(), "the threshold is stored into "+core.Canon(x.Addr))
					case *ssa.Phi:
						follow(x, d+1)
					case *ssa.DebugRef:
					default:
						if c := core.CallOf(ref); c != nil {
							r.Fail("C08.MONO", fnm+"#threshold-use", ref.Pos(), "the threshold is passed to "+core.CalleeName(c)+": it influences more than the admission comparison")
							continue
						}
						r.Fail("C08.MONO", fnm+"#threshold-use", ref.Pos(), fmt.Sprintf("unexpected use of the threshold (%T)", ref))
					}
				}
			}
			follow(u, 0)
			r.OK("C08.MONO", fnm+"#threshold-load", u.Pos(), "threshold value flows only into ordering comparisons")
		})
	}
	r.Floor("C08.MONO", "loads of the scanners' threshold field", n, 3)
	// the collection of admitted alerts is already filtered by the threshold: its size or emptiness must
	// not steer the scan (an early exit that skips further candidates makes a higher threshold add alerts)
	m := 0
	roots := map[*ssa.Function]bool{}
	for _, a := range admissions(p) {
		root := a.fn
		for root.Parent() != nil {
			root = root.Parent()
		}
		roots[root] = true
	}
	isAlerts := func(t types.Type) bool {
		sl, ok := t.Underlying().(*types.Slice)
		return ok && core.IsNamed(sl.Elem(), detPath(p), "ScanResult")
	}
	ms := matchers(p)
	var hasMatcher func(f *ssa.Function, d int) bool
	hasMatcher = func(f *ssa.Function, d int) bool {
		found := false
		core.InstrsOf(f, func(in ssa.Instruction) {
			if c := core.CallOf(in); c != nil {
				if callee := core.StaticCallee(c); callee != nil && (ms[callee] || (d < 2 && p.IsProdFunc(callee) && callee.Pkg == f.Pkg && hasMatcher(callee, d+1))) {
					found = true
				}
			}
		})
		return found
	}
	// evaluates: some block of the set calls a matcher, a function (closure) that does, or opens an iterator
	evaluates := func(blocks map[*ssa.BasicBlock]bool) bool {
		for b := range blocks {
			for _, in := range b.Instrs {
				c := core.CallOf(in)
				if c == nil {
					continue
				}
				if strings.HasSuffix(core.CalleeName(c), ".NewIter") {
					return true
				}
				if callee := core.StaticCallee(c); callee != nil && (ms[callee] || (p.IsProdFunc(callee) && hasMatcher(callee, 0))) {
					return true
				}
				if mc, ok := c.Value.(*ssa.MakeClosure); ok {
					if f, ok := mc.Fn.(*ssa.Function); ok && hasMatcher(f, 0) {
						return true
					}
				}
				if _, isBuiltin := c.Value.(*ssa.Builtin); !isBuiltin && core.StaticCallee(c) == nil && !c.IsInvoke() {
					// call of a closure value held in a local: resolve through its binding
					if f := closureFunc(core.Resolve(c.Value)); f != nil && hasMatcher(f, 0) {
						return true
					}
				}
			}
		}
		return false
	}
	for _, root := range core.SortedFuncs(roots) {
		for _, fn := range core.Nest(root) {
			m++
			core.InstrsOf(fn, func(in ssa.Instruction) {
				var arg ssa.Value
				what := ""
				switch x := in.(type) {
				case *ssa.Call:
					if b, ok := x.Call.Value.(*ssa.Builtin); ok && (b.Name() == "len" || b.Name() == "cap") && len(x.Call.Args) == 1 {
						arg, what = x.Call.Args[0], b.Name()+"()"
					}
				case *ssa.BinOp:
					if (x.Op == token.EQL || x.Op == token.NEQ) && (core.IsNilConst(x.X) || core.IsNilConst(x.Y)) {
						arg, what = x.X, "nil test"
						if core.IsNilConst(x.X) {
							arg = x.Y
						}
					}
				case *ssa.Range:
					arg, what = x.X, "range"
				}
				if arg == nil || !isAlerts(arg.Type()) {
					return
				}
				// parameters (alerts handed in from outside) are not this scan's filtered collection
				for _, o := range core.Origins(arg) {
					if _, isParam := o.(*ssa.Parameter); isParam {
						return
					}
				}
				v, isV := in.(ssa.Value)
				if !isV {
					return
				}
				// does it decide a branch one arm of which still evaluates candidates while the other does not?
				for _, ifi := range branchesOn(v) {
					r0 := evaluates(core.ReachAvoiding(ifi.Block().Succs[0], nil))
					r1 := evaluates(core.ReachAvoiding(ifi.Block().Succs[1], nil))
					r.Check(r0 == r1, "C08.MONO", core.FuncName(fn)+"#admitted-alerts-steer-scan("+what+")", in.Pos(), "a branch on the alerts admitted so far does not decide whether further candidates are evaluated", "the scan branches on the "+what+" of the alerts admitted so far (which depends on the threshold) and one arm skips candidates the other evaluates: a higher threshold can add alerts")
				}
			})
		}
	}
	r.Floor("C08.MONO", "functions (with closures) that admit alerts", m, 4)
}

// confidenceDescending reports whether less is `s[i].Confidence > s[j].Confidence`.
// branchesOn lists the Ifs whose condition is computed from v (through comparisons, negations and phis).
func branchesOn(v ssa.Value) []*ssa.If {
	var out []*ssa.If
	seen := map[ssa.Value]bool{}
	var walk func(v ssa.Value, d int)
	walk = func(v ssa.Value, d int) {
		if seen[v] || d > 5 || v.Referrers() == nil {
			return
		}
		seen[v] = true
		for _, ref := range *v.Referrers() {
			switch x := ref.(type) {
			case *ssa.If:
				out = append(out, x)
			case *ssa.BinOp:
				walk(x, d+1)
			case *ssa.UnOp:
				walk(x, d+1)
			case *ssa.Phi:
				walk(x, d+1)
			}
		}
	}
	if _, isRange := v.(*ssa.Range); isRange {
		return nil
	}
	walk(v, 0)
	return out
}

func confidenceDescending(less *ssa.Function) bool {
	// a method value (sort.Slice(xs, ranked(xs).less)) arrives as go/ssa's bound-method wrapper: look at the method
	if less != nil && strings.Contains(less.Synthetic, "bound method wrapper") {
		core.InstrsOf(less, func(in ssa.Instruction) {
			if c := core.CallOf(in); c != nil {
				if m := core.StaticCallee(c); m != nil && m.Blocks != nil && len(m.Params) == 3 {
					less = m
				}
			}
		})
	}
	if less == nil || len(less.Params) < 2 || len(less.Params) > 3 {
		return false
	}
	pi, pj := ssa.Value(less.Params[len(less.Params)-2]), ssa.Value(less.Params[len(less.Params)-1])
	for _, ret := range core.Returns(less) {
		b, ok := ret.Results[0].(*ssa.BinOp)
		if !ok || b.Op != token.GTR {
			return false
		}
		lx, okx := core.FieldLoad(b.X, "Confidence")
		ly, oky := core.FieldLoad(b.Y, "Confidence")
		if !okx || !oky {
			return false
		}
		ix, isIx := lx.(*ssa.IndexAddr)
		iy, isIy := ly.(*ssa.IndexAddr)
		if !isIx || !isIy || ix.Index != pi || iy.Index != pj {
			return false
		}
	}
	return true
}

func closureFunc(v ssa.Value) *ssa.Function {
	switch f := v.(type) {
	case *ssa.MakeClosure:
		fn, _ := f.Fn.(*ssa.Function)
		return fn
	case *ssa.Function:
		return f
	}
	return nil
}

func c08Sort(r *core.Run) {
	p := r.P
	n := 0
	for _, fn := range scannerFuncs(p) {
		rt := resultTypes(fn)
		if fn.Parent() != nil || len(rt) == 0 {
			continue
		}
		sl, ok := rt[0].Underlying().(*types.Slice)
		if !ok || !core.IsNamed(sl.Elem(), detPath(p), "ScanResult") {
			continue
		}
		fnm := core.FuncName(fn)
		for _, ret := range core.Returns(fn) {
			if len(ret.Results) == 2 && !core.IsNilConst(ret.Results[1]) {
				continue // returned together with a non-nil error
			}
			v := ret.Results[0]
			if core.IsNilConst(v) {
				continue
			}
			// delegation to another scanner method
			if ex, ok := v.(*ssa.Extract); ok {
				if c, ok := ex.Tuple.(*ssa.Call); ok {
					if callee := core.StaticCallee(&c.Call); callee != nil && p.IsProdFunc(callee) {
						r.OK("C08.SORT", fnm+"#return(delegated)", ret.Pos(), "returns the sorted result of "+core.FuncName(callee))
						continue
					}
				}
			}
			n++
			sorted := false
			why := "the returned alerts never pass through a sort"
			core.InstrsOf(fn, func(in ssa.Instruction) {
				c, ok := in.(*ssa.Call)
				if !ok {
					return
				}
				name := core.CalleeName(&c.Call)
				if name != "sort.Slice" && name != "sort.SliceStable" {
					return
				}
				if !sameSliceAfter(core.Unwrap(c.Call.Args[0]), v, c) {
					why = "the sorted slice is not the returned one"
					return
				}
				if !confidenceDescending(closureFunc(c.Call.Args[1])) {
					why = "the comparator is not Confidence[i] > Confidence[j]"
					return
				}
				if c.Block() != ret.Block() && !c.Block().Dominates(ret.Block()) {
					why = "the sort does not dominate the return"
					return
				}
				sorted = true
			})
			r.Check(sorted, "C08.SORT", fnm+"#return(alerts)", ret.Pos(), "alerts are sorted by descending confidence before they are returned", why)
		}
	}
	r.Floor("C08.SORT", "returns of freshly collected alerts", n, 2)
}

// shape renders a guard condition over backend-independent roots.
func shape(v ssa.Value, d int) string {
	v = core.Resolve(v)
	if d > 8 {
		return "…"
	}
	switch x := v.(type) {
	case *ssa.Const:
		return core.Canon(x)
	case *ssa.BinOp:
		return "(" + shape(x.X, d+1) + " " + x.Op.String() + " " + shape(x.Y, d+1) + ")"
	case *ssa.UnOp:
		if x.Op == token.MUL {
			if fa, ok := x.X.(*ssa.FieldAddr); ok {
				return shapeBase(fa.X, d+1) + "." + core.FieldName(fa.X.Type(), fa.Field)
			}
			return "*" + shape(x.X, d+1)
		}
		return x.Op.String() + shape(x.X, d+1)
	case *ssa.Field:
		return shapeBase(x.X, d+1) + "." + core.FieldName(x.X.Type(), x.Field)
	case *ssa.Extract:
		if c, ok := x.Tuple.(*ssa.Call); ok {
			if callee := core.StaticCallee(&c.Call); callee != nil {
				return fmt.Sprintf("%s#%d", callee.Name(), x.Index)
			}
		}
		if lk, ok := x.Tuple.(*ssa.Lookup); ok {
			return fmt.Sprintf("lookup(%s,%s)#%d", shape(lk.X, d+1), shape(lk.Index, d+1), x.Index)
		}
		if ta, ok := x.Tuple.(*ssa.TypeAssert); ok {
			return fmt.Sprintf("assert(%s,%s)#%d", shape(ta.X, d+1), core.TypeName(ta.AssertedType), x.Index)
		}
		return "extract"
	case *ssa.Call:
		name := core.CalleeName(&x.Call)
		var args []string
		for _, a := range core.CallArgs(&x.Call) {
			args = append(args, shape(a, d+1))
		}
		return name[strings.LastIndex(name, "/")+1:] + "(" + strings.Join(args, ",") + ")"
	case *ssa.Phi:
		var es []string
		for _, e := range x.Edges {
			es = append(es, shape(e, d+2))
		}
		sort.Strings(es)
		return "phi(" + strings.Join(es, "|") + ")"
	case *ssa.Parameter:
		return "<" + core.TypeName(x.Type()) + ">"
	case *ssa.FreeVar:
		return "<" + core.TypeName(x.Type()) + ">"
	case *ssa.Lookup:
		return "lookup(" + shape(x.X, d+1) + "," + shape(x.Index, d+1) + ")"
	case *ssa.Slice:
		return "slice(" + shape(x.X, d+1) + ")"
	case *ssa.Convert:
		return shape(x.X, d+1)
	}
	return "<" + core.TypeName(v.Type()) + ">"
}

func shapeBase(v ssa.Value, d int) string {
	v = core.Resolve(v)
	switch v.(type) {
	case *ssa.Parameter, *ssa.FreeVar, *ssa.Alloc:
		return "<" + core.TypeName(v.Type()) + ">"
	}
	return shape(v, d)
}

// mandatoryGuards lists shape+polarity of every If that can reject on the way to sink: the If lies
// on a path to the sink and one of its edges cannot reach the sink within the same loop iteration
// (back edges are not followed, so a `continue` counts as rejecting).
func mandatoryGuards(fn *ssa.Function, sink *ssa.BasicBlock) []string {
	back := map[core.Edge]bool{}
	for _, b := range fn.Blocks {
		for i, s := range b.Succs {
			if s.Dominates(b) {
				back[core.Edge{From: b, Idx: i}] = true
			}
		}
	}
	var out []string
	fromEntry := core.ReachAvoiding(fn.Blocks[0], nil)
	for _, b := range fn.Blocks {
		if len(b.Instrs) == 0 || !fromEntry[b] {
			continue
		}
		ifi, ok := b.Instrs[len(b.Instrs)-1].(*ssa.If)
		if !ok || b == sink {
			continue
		}
		r0 := !back[core.Edge{From: b, Idx: 0}] && core.ReachAvoiding(b.Succs[0], back)[sink]
		r1 := !back[core.Edge{From: b, Idx: 1}] && core.ReachAvoiding(b.Succs[1], back)[sink]
		if r0 == r1 {
			continue
		}
		pol := "T"
		if r1 {
			pol = "F"
		}
		out = append(out, pol+":"+shape(ifi.Cond, 0))
	}
	sort.Strings(out)
	return out
}

func c08Subset(r *core.Run, adms []admission) {
	// group admissions by backend package and mode (exact: enclosing top-level function returns a single *ScanResult)
	type key struct{ pkg, mode string }
	groups := map[key][]string{}
	pos := map[key]token.Pos{}
	for _, a := range adms {
		root := a.fn
		for root.Parent() != nil {
			root = root.Parent()
		}
		mode := "full"
		rt := resultTypes(root)
		if len(rt) > 0 {
			if _, isPtr := rt[0].Underlying().(*types.Pointer); isPtr {
				mode = "exact"
			}
		}
		k := key{root.Pkg.Pkg.Name(), mode}
		var gs []string
		for _, s := range a.sinks {
			for _, g := range mandatoryGuards(a.fn, s.Block()) {
				if strings.Count(g, ".Confidence") >= 2 {
					continue // best-so-far comparison between two results
				}
				if strings.Contains(g, "Confidence") || strings.Contains(g, "EntropyScore") || strings.Contains(g, "math.Abs") || strings.Contains(g, "Abs(") {
					gs = append(gs, g)
				}
			}
		}
		// matcher arguments
		var args []string
		for _, arg := range a.match.Call.Args {
			args = append(args, shape(arg, 0))
		}
		gs = append(gs, "match("+strings.Join(args, ",")+")")
		sort.Strings(gs)
		gs = uniq(gs)
		groups[k] = append(groups[k], strings.Join(gs, " ; "))
		pos[k] = a.match.Pos()
	}
	for _, pkg := range []string{"pebbledb", "jsondb"} {
		ex, fu := groups[key{pkg, "exact"}], groups[key{pkg, "full"}]
		if len(ex) == 0 || len(fu) == 0 {
			r.Fail("C08.SUBSET", pkg+"#modes", token.NoPos, fmt.Sprintf("cannot find both scan modes (exact=%d full=%d)", len(ex), len(fu)))
			continue
		}
		for _, e := range ex {
			matched := false
			for _, f := range fu {
				if pkg == "pebbledb" {
					if e == f {
						matched = true
					}
				} else {
					// JSON: stated differences — tolerance argument 0 and cut-off 0.99
					ne := strings.ReplaceAll(e, "0.99", "<T>")
					var jf scanFields
					for tn, sf := range scannerFloatRoles(r.P) {
						if strings.HasSuffix(tn, "jsondb.Scanner") {
							jf = sf
						}
					}
					nf := strings.ReplaceAll(f, "<jsondb.Scanner>."+jf.thr, "<T>")
					ne = strings.ReplaceAll(ne, ",0)", ",<tol>)")
					nf = strings.ReplaceAll(nf, ",<jsondb.Scanner>."+jf.tol+")", ",<tol>)")
					if ne == nf {
						matched = true
					}
				}
			}
			r.Check(matched, "C08.SUBSET", pkg+"#exact-vs-full", pos[key{pkg, "exact"}], "exact mode admits under the same guards as full mode: "+e, "exact mode and full mode of "+pkg+" admit alerts under different conditions — exact: ["+e+"] full: ["+strings.Join(fu, " | ")+"]")
		}
	}
}

func uniq(s []string) []string {
	var out []string
	for i, x := range s {
		if i == 0 || x != s[i-1] {
			out = append(out, x)
		}
	}
	return out
}

// ---- RANGE

func c08Range(r *core.Run) {
	p := r.P
	n := 0
	type resKey struct {
		fn  *ssa.Function
		idx int
	}
	bounded := map[resKey]string{} // module functions whose idx-th (float) result is in [0,1], with reason ("" = not)
	var isBoundedRes func(fn *ssa.Function, idx int, depth int) (bool, string)
	isBoundedFn := func(fn *ssa.Function, depth int) (bool, string) { return isBoundedRes(fn, 0, depth) }
	var termOK func(fn *ssa.Function, v ssa.Value, at *ssa.BasicBlock, depth int) (bool, string)

	termOK = func(fn *ssa.Function, v ssa.Value, at *ssa.BasicBlock, depth int) (bool, string) {
		v = core.Resolve(v) // a term parked in a local (or a field of a local struct) before it is appended
		if f, ok := core.ConstFloat(v); ok {
			return f >= 0 && f <= 1, fmt.Sprintf("constant %g", f)
		}
		switch x := v.(type) {
		case *ssa.BinOp:
			// 1 - d/t under d <= t
			if x.Op == token.SUB {
				if one, ok := core.ConstFloat(x.X); ok && one == 1 {
					if q, ok := x.Y.(*ssa.BinOp); ok && q.Op == token.QUO {
						d, t := q.X, q.Y
						atom := func(cond ssa.Value) (bool, bool) {
							cond = resolveBoolField(cond)
							op, a, b, neg, ok := core.Compare(cond)
							if !ok || neg {
								return false, false
							}
							if op == token.LEQ && a == d && b == t {
								return true, true
							}
							if op == token.GEQ && a == t && b == d {
								return true, true
							}
							return false, false
						}
						ok2, n2, _ := core.MustPass(fn, at, atom)
						if ok2 && n2 > 0 {
							return true, "1 - d/t under the dominating guard d <= t"
						}
						return false, "1 - d/t without a dominating d <= t guard"
					}
				}
				return false, "unbounded difference " + core.Canon(v)
			}
			if x.Op == token.QUO {
				// float(len(a)) / float(len(b))
				if isLenConv(x.X) && isLenConv(x.Y) {
					return true, "len(matched)/len(required)"
				}
			}
			return false, "unbounded arithmetic " + core.Canon(v)
		case *ssa.Phi:
			// ratio / inverted ratio
			if len(x.Edges) == 2 {
				for i := 0; i < 2; i++ {
					q, inv := x.Edges[i], x.Edges[1-i]
					if b, ok := inv.(*ssa.BinOp); ok && b.Op == token.QUO && b.Y == q {
						if one, ok := core.ConstFloat(b.X); ok && one == 1 {
							if qq, ok := q.(*ssa.BinOp); ok && qq.Op == token.QUO {
								// ... and the inverted value is the one taken when the ratio exceeds 1: the block that
								// supplies 1/r is entered through the true edge of r > 1 (or 1 < r), the plain r
								// comes straight from that test
								pInv, pPlain := x.Block().Preds[1-i], x.Block().Preds[i]
								guarded := false
								if len(pPlain.Instrs) > 0 {
									if ifi, isIf := pPlain.Instrs[len(pPlain.Instrs)-1].(*ssa.If); isIf {
										op, cx, cy, neg, okC := core.Compare(ifi.Cond)
										if okC && !neg {
											k, isK := core.ConstFloat(cy)
											k2, isK2 := core.ConstFloat(cx)
											switch {
											case (op == token.GTR || op == token.GEQ) && cx == q && isK && k == 1:
												guarded = pPlain.Succs[0] == pInv
											case (op == token.LSS || op == token.LEQ) && cy == q && isK2 && k2 == 1:
												guarded = pPlain.Succs[0] == pInv
											case (op == token.LEQ || op == token.LSS) && cx == q && isK && k == 1:
												guarded = pPlain.Succs[1] == pInv
											}
										}
									}
								}
								if guarded {
									return true, "min(r, 1/r) ratio (inverted exactly when r exceeds 1)"
								}
								return false, "ratio r / inverse 1/r chosen without the test r > 1 selecting the inverse: the term exceeds 1 for every ratio on the wrong side"
							}
						}
					}
				}
			}
			for i, e := range x.Edges {
				if ok, why := termOK(fn, e, x.Block().Preds[i], depth+1); !ok {
					return false, why
				}
			}
			return true, "merge of bounded terms"
		case *ssa.Call:
			if callee := core.StaticCallee(&x.Call); callee != nil && p.IsProdFunc(callee) {
				return isBoundedFn(callee, depth+1)
			}
		case *ssa.Extract:
			if c, ok := x.Tuple.(*ssa.Call); ok {
				if callee := core.StaticCallee(&c.Call); callee != nil && p.IsProdFunc(callee) {
					return isBoundedRes(callee, x.Index, depth+1)
				}
			}
		}
		return false, "unbounded score term " + core.Canon(v)
	}

	isBoundedRes = func(fn *ssa.Function, idx int, depth int) (bool, string) {
		key := resKey{fn, idx}
		if why, ok := bounded[key]; ok {
			return why != "", why
		}
		if depth > 3 {
			return false, "too deep"
		}
		bounded[key] = "(in progress)"
		res := "bounded results of " + core.FuncName(fn)
		for _, ret := range core.Returns(fn) {
			if idx >= len(ret.Results) {
				bounded[key] = ""
				return false, "no such result"
			}
			v := ret.Results[idx]
			// mean of own bounded scores: total / float(len(scores))
			if b, ok := v.(*ssa.BinOp); ok && b.Op == token.QUO && isLenConv(b.Y) {
				if ok2, why := scoresBounded(fn, lenArg(b.Y), termOK); ok2 {
					continue
				} else {
					bounded[key] = ""
					return false, why
				}
			}
			// ... or the mean of a running tally whose every added term (in this function) is bounded
			if mc, isCall := v.(*ssa.Call); isCall {
				if ta, tm := tallyRoles(p); tm != nil && core.StaticCallee(&mc.Call) == tm {
					okT, whyT := true, ""
					core.InstrsOf(fn, func(in ssa.Instruction) {
						if c := core.CallOf(in); c != nil && core.StaticCallee(c) == ta && len(c.Args) >= 2 {
							if ok3, w := termOK(fn, c.Args[1], in.Block(), depth+1); !ok3 {
								okT, whyT = false, w
							}
						}
					})
					if okT {
						continue
					}
					bounded[key] = ""
					return false, whyT
				}
			}
			// named result accumulated: score = float(len)/float(len) or zero
			okAll := true
			why := ""
			for _, o := range core.Origins(v) {
				if ok3, w := termOK(fn, o, ret.Block(), depth+1); !ok3 {
					okAll, why = false, w
				}
			}
			if !okAll {
				bounded[key] = ""
				return false, why
			}
		}
		bounded[key] = res
		return true, res
	}

	for _, fn := range p.FuncsIn("pkg/detection") {
		// appends into a []float64
		core.InstrsOf(fn, func(in ssa.Instruction) {
			ap, ok := isBuiltinCall(valueOf(in), "append")
			if !ok {
				return
			}
			sl, ok := ap.Type().Underlying().(*types.Slice)
			if !ok {
				return
			}
			if b, ok := sl.Elem().Underlying().(*types.Basic); !ok || b.Kind() != types.Float64 {
				return
			}
			elems, ok := varargElems(ap.Call.Args[1])
			if !ok {
				r.Fail("C08.RANGE", core.FuncName(fn)+"#score-term", ap.Pos(), "cannot resolve appended score terms")
				return
			}
			for _, e := range elems {
				n++
				ok2, why := termOK(fn, e, ap.Block(), 0)
				r.Check(ok2, "C08.RANGE", core.FuncName(fn)+"#score-term("+shape(e, 0)+")", ap.Pos(), "score term is bounded in [0,1]: "+why, "score term may leave [0,1]: "+why)
			}
		})
	}
	// the same list kept as a running (sum, count) pair: terms are the arguments of the accumulator's add method
	tAdd, tMean := tallyRoles(p)
	if tAdd != nil && tMean != nil {
		for _, fn := range p.FuncsIn("pkg/detection") {
			core.InstrsOf(fn, func(in ssa.Instruction) {
				c := core.CallOf(in)
				if c == nil || core.StaticCallee(c) != tAdd || len(c.Args) < 2 {
					return
				}
				n++
				ok2, why := termOK(fn, c.Args[1], in.Block(), 0)
				r.Check(ok2, "C08.RANGE", core.FuncName(fn)+"#score-term("+shape(c.Args[1], 0)+")", in.Pos(), "score term is bounded in [0,1]: "+why, "score term may leave [0,1]: "+why)
			})
		}
	}
	r.Floor("C08.RANGE", "score terms appended in the detection package", n, 6)

	// Confidence itself: stored value is const 0 or mean of the score list
	for m := range matchers(p) {
		core.InstrsOf(m, func(in ssa.Instruction) {
			st, ok := in.(*ssa.Store)
			if !ok {
				return
			}
			fa, ok := st.Addr.(*ssa.FieldAddr)
			if !ok || core.FieldName(fa.X.Type(), fa.Field) != "Confidence" {
				return
			}
			if f, isC := core.ConstFloat(st.Val); isC {
				r.Check(f >= 0 && f <= 1, "C08.RANGE", core.FuncName(m)+"#confidence-const", st.Pos(), "constant confidence in [0,1]", "constant confidence outside [0,1]")
				return
			}
			if mc, isCall := st.Val.(*ssa.Call); isCall {
				if _, tm := tallyRoles(p); tm != nil && core.StaticCallee(&mc.Call) == tm {
					r.OK("C08.RANGE", core.FuncName(m)+"#confidence-mean", st.Pos(), "confidence is the mean of the running score tally")
					return
				}
			}
			b, isQ := st.Val.(*ssa.BinOp)
			r.Check(isQ && b.Op == token.QUO && isLenConv(b.Y) && isSumOf(b.X, lenArg(b.Y)), "C08.RANGE", core.FuncName(m)+"#confidence-mean", st.Pos(), "confidence is the mean of the score list", "confidence is "+core.Canon(st.Val)+", not the mean of the bounded score list")
		})
	}
}

func valueOf(in ssa.Instruction) ssa.Value {
	v, _ := in.(ssa.Value)
	return v
}

func isLenConv(v ssa.Value) bool { return lenArg(v) != nil }

// lenArg returns x for float64(len(x)).
func lenArg(v ssa.Value) ssa.Value {
	cv, ok := v.(*ssa.Convert)
	if !ok {
		return nil
	}
	ln, ok := isBuiltinCall(cv.X, "len")
	if !ok {
		return nil
	}
	return ln.Call.Args[0]
}

// isSumOf reports whether v is a loop accumulation total += s[i] over slice s.
func isSumOf(v ssa.Value, s ssa.Value) bool {
	ph, ok := v.(*ssa.Phi)
	if !ok {
		return false
	}
	for _, e := range ph.Edges {
		if f, isC := core.ConstFloat(e); isC && f == 0 {
			continue
		}
		b, ok := e.(*ssa.BinOp)
		if !ok || b.Op != token.ADD || b.X != ssa.Value(ph) {
			return false
		}
		u, ok := b.Y.(*ssa.UnOp)
		if !ok {
			return false
		}
		ia, ok := u.X.(*ssa.IndexAddr)
		if !ok || ia.X != s {
			return false
		}
	}
	return true
}

// scoresBounded checks that every term appended into the slice whose length divides the sum is bounded.
func scoresBounded(fn *ssa.Function, scores ssa.Value, termOK func(*ssa.Function, ssa.Value, *ssa.BasicBlock, int) (bool, string)) (bool, string) {
	seen := map[ssa.Value]bool{}
	var walk func(v ssa.Value) (bool, string)
	walk = func(v ssa.Value) (bool, string) {
		for _, o := range core.Origins(v) {
			if seen[o] {
				continue
			}
			seen[o] = true
			if core.IsNilConst(o) {
				continue
			}
			ap, ok := isBuiltinCall(o, "append")
			if !ok {
				return false, "score list comes from " + core.Canon(o)
			}
			elems, ok := varargElems(ap.Call.Args[1])
			if !ok {
				return false, "cannot resolve score terms"
			}
			for _, e := range elems {
				if ok2, why := termOK(fn, e, ap.Block(), 1); !ok2 {
					return false, why
				}
			}
			if ok2, why := walk(ap.Call.Args[0]); !ok2 {
				return false, why
			}
		}
		return true, ""
	}
	return walk(scores)
}

// resolveBoolField turns a load of a bool struct field that is assigned exactly once (on this
// struct variable) into the assigned expression.
func resolveBoolField(cond ssa.Value) ssa.Value {
	u, ok := cond.(*ssa.UnOp)
	if !ok || u.Op != token.MUL {
		return cond
	}
	fa, ok := u.X.(*ssa.FieldAddr)
	if !ok {
		return cond
	}
	al, ok := fa.X.(*ssa.Alloc)
	if !ok || al.Referrers() == nil {
		return cond
	}
	var vals []ssa.Value
	for _, ref := range *al.Referrers() {
		fa2, ok := ref.(*ssa.FieldAddr)
		if !ok || fa2.Field != fa.Field {
			continue
		}
		for _, st := range core.StoresTo(fa2) {
			vals = append(vals, st.Val)
		}
	}
	if len(vals) == 1 {
		return vals[0]
	}
	return cond
}

// c08Configured: "no lower than the configured threshold" presupposes that the threshold the scanner compares
// with IS the configured one. A configured value may be replaced by a constant (a default, a clamp) only where a
// test has established that it lies outside (0,1]: == 0 (unset), <= 0, < 0, > 1. Replacing 1.0 — or any value
// inside the range — makes the scanner report alerts below the threshold the user asked for.
func c08Configured(r *core.Run) {
	p := r.P
	r.Explain += " (CONFIG) the threshold the scanner compares with is the configured one: a configured value is replaced by a constant only under a test that found it outside (0,1]."
	roles := scannerFloatRoles(p)
	// fields (Type.Field) that hold the configured threshold: the scanner's own field and every options field
	// whose load is stored into it
	thrFields := map[string]bool{}
	for tn, sf := range roles {
		if sf.thr != "" {
			thrFields[tn+"."+sf.thr] = true
		}
	}
	fieldKey := func(fa *ssa.FieldAddr) string {
		return core.Deref(fa.X.Type()).String() + "." + core.FieldName(fa.X.Type(), fa.Field)
	}
	for _, fn := range scannerFuncs(p) {
		core.InstrsOf(fn, func(in ssa.Instruction) {
			st, ok := in.(*ssa.Store)
			if !ok {
				return
			}
			fa, ok := st.Addr.(*ssa.FieldAddr)
			if !ok || !thrFields[fieldKey(fa)] {
				return
			}
			for _, o := range core.Origins(st.Val) {
				if u, isLoad := o.(*ssa.UnOp); isLoad && u.Op == token.MUL {
					if fa2, isFA := u.X.(*ssa.FieldAddr); isFA && isFloat64(u.Type()) {
						thrFields[fieldKey(fa2)] = true
					}
				}
			}
		})
	}
	isConfigured := func(fn *ssa.Function, v ssa.Value) bool {
		v = core.Unwrap(v)
		if u, isLoad := v.(*ssa.UnOp); isLoad && u.Op == token.MUL {
			if fa, isFA := u.X.(*ssa.FieldAddr); isFA && thrFields[fieldKey(fa)] {
				return true
			}
		}
		if prm, isP := v.(*ssa.Parameter); isP && isFloat64(prm.Type()) && fn.Name() == "SetThreshold" {
			return true
		}
		return false
	}
	n, nTests := 0, 0
	funcs := append(scannerFuncs(p), p.FuncsIn("internal/cli")...)
	for _, fn := range funcs {
		fn := fn
		outside := func(cond ssa.Value) (bool, bool) {
			op, x, y, neg, ok := core.Compare(cond)
			if !ok || neg || !isConfigured(fn, x) {
				return false, false
			}
			k, isC := core.ConstFloat(y)
			if !isC {
				return false, false
			}
			switch {
			case op == token.EQL && k == 0:
				return true, true
			case op == token.NEQ && k == 0:
				return true, false
			case (op == token.LEQ || op == token.LSS) && k <= 0:
				return true, true
			case op == token.GTR && k >= 1:
				return true, true
			case op == token.GEQ && k > 1:
				return true, true
			}
			return false, false
		}
		tests := 0
		for _, b := range fn.Blocks {
			if len(b.Instrs) == 0 {
				continue
			}
			if ifi, ok := b.Instrs[len(b.Instrs)-1].(*ssa.If); ok {
				if _, x, y, _, ok := core.Compare(ifi.Cond); ok && (isConfigured(fn, x) || isConfigured(fn, y)) {
					tests++
				}
			}
		}
		if tests == 0 {
			continue // an unconditional default (constructor literal): nothing configured is replaced
		}
		nTests += tests
		core.InstrsOf(fn, func(in ssa.Instruction) {
			st, ok := in.(*ssa.Store)
			if !ok {
				return
			}
			fa, ok := st.Addr.(*ssa.FieldAddr)
			if !ok || !thrFields[fieldKey(fa)] {
				return
			}
			k, isC := core.ConstFloat(st.Val)
			if !isC {
				// a merge of the configured value with a constant (t = default on one arm): the arm that brings the
				// constant is entered only through a test that found the value outside the range
				seenPhi := map[*ssa.Phi]bool{}
				var walk func(v ssa.Value)
				walk = func(v ssa.Value) {
					ph, isPhi := v.(*ssa.Phi)
					if !isPhi || seenPhi[ph] {
						return
					}
					seenPhi[ph] = true
					hasConf := false
					for _, e := range ph.Edges {
						for _, o := range core.Origins(e) {
							if isConfigured(fn, o) {
								hasConf = true
							}
						}
					}
					for i, e := range ph.Edges {
						walk(e)
						kc, isK := core.ConstFloat(e)
						if !isK || !hasConf {
							continue
						}
						n++
						cut, _ := core.GuardEdges(fn, outside)
						for j, pb := range ph.Block().Preds {
							if j == i {
								continue
							}
							for si, sb := range pb.Succs {
								if sb == ph.Block() {
									cut[core.Edge{From: pb, Idx: si}] = true
								}
							}
						}
						path := core.PathAvoiding(fn.Blocks[0], ph.Block(), cut)
						r.Check(path == nil, "C08.CONFIG", core.FuncName(fn)+"#replaces-configured-threshold", st.Pos(),
							fmt.Sprintf("the configured threshold is replaced by %g only after a test found it outside (0,1]", kc),
							fmt.Sprintf("the configured threshold is replaced by the constant %g on a path (%s) where it may lie inside (0,1] — e.g. exactly 1.0: alerts below the threshold the user configured are reported", kc, core.FmtPath(path)))
					}
				}
				walk(st.Val)
				return
			}
			n++
			ok1, n1, path := core.MustPass(fn, st.Block(), outside)
			r.Check(ok1 && n1 > 0, "C08.CONFIG", core.FuncName(fn)+"#replaces-configured-threshold", st.Pos(),
				fmt.Sprintf("the configured threshold is replaced by %g only after a test found it outside (0,1]", k),
				fmt.Sprintf("the configured threshold is replaced by the constant %g on a path (%s) where it may lie inside (0,1] — e.g. exactly 1.0: alerts below the threshold the user configured are reported", k, core.FmtPath(path)))
		})
	}
	r.Floor("C08.CONFIG", "fields holding the configured threshold", len(thrFields), 3)
	r.Floor("C08.CONFIG", "conditional replacements of the configured threshold", n, 1)
}

// tallyRoles finds a running-mean accumulator in the detection package by its shape: a struct with a float64 sum
// and an integer count, a method that adds its float64 argument to the sum and increments the count (and stores
// nothing else), and a method that returns sum / float64(count).
func tallyRoles(p *core.Program) (add, mean *ssa.Function) {
	for _, fn := range p.FuncsIn("pkg/detection") {
		if fn.Signature.Recv() == nil || fn.Blocks == nil {
			continue
		}
		st, ok := core.Deref(fn.Signature.Recv().Type()).Underlying().(*types.Struct)
		if !ok || st.NumFields() != 2 {
			continue
		}
		sumF, cntF := "", ""
		for i := 0; i < st.NumFields(); i++ {
			if isFloat64(st.Field(i).Type()) {
				sumF = st.Field(i).Name()
			} else if isIntegerType(st.Field(i).Type()) {
				cntF = st.Field(i).Name()
			}
		}
		if sumF == "" || cntF == "" {
			continue
		}
		rt := resultTypes(fn)
		switch {
		case len(fn.Params) == 2 && isFloat64(fn.Params[1].Type()) && len(rt) == 0:
			addsSum, incCnt, other := false, false, false
			core.InstrsOf(fn, func(in ssa.Instruction) {
				sto, ok := in.(*ssa.Store)
				if !ok {
					return
				}
				fa, isFA := sto.Addr.(*ssa.FieldAddr)
				b, isB := sto.Val.(*ssa.BinOp)
				if !isFA || !isB || b.Op != token.ADD || fa.X != ssa.Value(fn.Params[0]) {
					other = true
					return
				}
				_, loadsSame := core.FieldLoad(b.X, core.FieldName(fa.X.Type(), fa.Field))
				switch core.FieldName(fa.X.Type(), fa.Field) {
				case sumF:
					addsSum = loadsSame && b.Y == ssa.Value(fn.Params[1])
				case cntF:
					k, isK := core.ConstInt(b.Y)
					incCnt = loadsSame && isK && k == 1
				default:
					other = true
				}
			})
			if addsSum && incCnt && !other {
				add = fn
			}
		case len(fn.Params) == 1 && len(rt) == 1 && isFloat64(rt[0]):
			okM := true
			for _, ret := range core.Returns(fn) {
				b, isB := ret.Results[0].(*ssa.BinOp)
				if !isB || b.Op != token.QUO {
					okM = false
					continue
				}
				_, ls := core.FieldLoad(b.X, sumF)
				cv, isCv := b.Y.(*ssa.Convert)
				lc := false
				if isCv {
					_, lc = core.FieldLoad(cv.X, cntF)
				}
				if !ls || !lc {
					okM = false
				}
			}
			if okM && len(core.Returns(fn)) > 0 {
				mean = fn
			}
		}
	}
	return
}

// c08Needle: "all of whose required calls occur in the scanned function" — a required call occurs when a call
// signature of the scanned function CONTAINS (or equals) the required string. In every function of the detection
// package that receives the scanned topology and a list of required strings, a substring/prefix test between the
// two has the scanned function's string as the text searched and the required string as the text looked for;
// the other way round, a function calling only `net` satisfies the requirement `net.Dial`.
func c08Needle(r *core.Run) {
	p := r.P
	r.Explain += " (NEEDLE) in the requirement matchers a containment test searches the scanned function's string for the required string, never the reverse."
	n := 0
	for _, fn := range p.FuncsIn("pkg/detection") {
		var topo, req *ssa.Parameter
		for _, pa := range fn.Params {
			if strings.HasSuffix(core.Deref(pa.Type()).String(), "topology.FunctionTopology") {
				topo = pa
			}
			if pa.Type().String() == "[]string" {
				req = pa
			}
		}
		if topo == nil || req == nil {
			continue
		}
		origin := func(v ssa.Value) string {
			seen := map[ssa.Value]bool{}
			res := ""
			var walk func(v ssa.Value, d int)
			walk = func(v ssa.Value, d int) {
				if v == nil || seen[v] || d > 12 || res != "" {
					return
				}
				seen[v] = true
				if v == ssa.Value(topo) {
					res = "scanned"
					return
				}
				if v == ssa.Value(req) {
					res = "required"
					return
				}
				switch x := v.(type) {
				case *ssa.Call:
					// a pure string transformation of its first argument (ToLower, TrimSpace …)
					if len(x.Call.Args) > 0 && strings.HasPrefix(core.CalleeName(&x.Call), "strings.") {
						walk(x.Call.Args[0], d+1)
					}
					return
				}
				if in, ok := v.(ssa.Instruction); ok {
					for _, op := range in.Operands(nil) {
						if op != nil && *op != nil {
							walk(*op, d+1)
						}
					}
				}
			}
			walk(v, 0)
			return res
		}
		core.InstrsOf(fn, func(in ssa.Instruction) {
			c := core.CallOf(in)
			if c == nil || len(c.Args) != 2 {
				return
			}
			switch core.CalleeName(c) {
			case "strings.Contains", "strings.HasPrefix", "strings.HasSuffix", "strings.Index":
			default:
				return
			}
			a, b := origin(c.Args[0]), origin(c.Args[1])
			if a == "" || b == "" || a == b {
				return
			}
			n++
			r.Check(a == "scanned" && b == "required", "C08.NEEDLE", core.FuncName(fn)+"#"+strings.TrimPrefix(core.CalleeName(c), "strings."), in.Pos(),
				"the scanned function's string is searched for the required string",
				"the REQUIRED string is searched for the scanned function's string: a function whose call is merely a fragment of a requirement (`net` for `net.Dial`) satisfies it and is alerted on with full confidence, while a decorated real call no longer does")
		})
	}
	r.Floor("C08.NEEDLE", "containment tests between scanned and required strings", n, 1)
}

// c08Prefilter: every entropy pre-filter of the embedded store has the one shape that agrees with the matcher and the
// other backend: a candidate is dropped iff |score − figure| is STRICTLY greater than the tolerance, and the
// tolerance is the signature's own unless that is 0, in which case the scanner's default is used. A pre-filter that
// drops at equality, or swaps the fallback, makes one mode (or one index) lose alerts the other reports.
func c08Prefilter(r *core.Run) {
	p := r.P
	r.Explain += " (PREFILTER) every entropy pre-filter of the embedded store drops a candidate iff |score − figure| > tolerance, with the signature's own tolerance unless it is 0 (then the scanner's default)."
	n := 0
	for _, fn := range p.FuncsIn("pkg/storage/pebbledb") {
		for _, nf := range []*ssa.Function{fn} {
			var cmpInstrs []*ssa.BinOp
			core.InstrsOf(nf, func(in ssa.Instruction) {
				if bo, isB := in.(*ssa.BinOp); isB {
					switch bo.Op {
					case token.LSS, token.LEQ, token.GTR, token.GEQ:
						cmpInstrs = append(cmpInstrs, bo)
					}
				}
			})
			for _, ifi := range cmpInstrs {
				op, x, y, neg, okC := core.Compare(ifi)
				if !okC {
					continue
				}
				abs, isAbs := callTo(x, "math.Abs")
				tol := y
				mirrored := false
				if !isAbs {
					abs, isAbs = callTo(y, "math.Abs")
					tol = x
					mirrored = true
				}
				if !isAbs {
					continue
				}
				sub, isSub := abs.Call.Args[0].(*ssa.BinOp)
				if !isSub || sub.Op != token.SUB {
					continue
				}
				isFigure := func(v ssa.Value) bool {
					if _, ok := topoFieldPath(v); ok {
						return true
					}
					// inside a helper: the operand is a parameter that every caller feeds with the topology's figure
					prm, isP := core.Unwrap(v).(*ssa.Parameter)
					if !isP {
						return false
					}
					sites := callersOf(p, nf)
					for i, q := range nf.Params {
						if q != prm {
							continue
						}
						for _, site := range sites {
							args := core.CallArgs(site.Common())
							if i >= len(args) {
								return false
							}
							if _, ok := topoFieldPath(args[i]); !ok {
								return false
							}
						}
						return len(sites) > 0
					}
					return false
				}
				if !isFigure(sub.X) && !isFigure(sub.Y) {
					continue
				}
				n++
				fnm := core.FuncName(nf)
				if mirrored {
					op = map[token.Token]token.Token{token.LSS: token.GTR, token.GTR: token.LSS, token.LEQ: token.GEQ, token.GEQ: token.LEQ}[op]
				}
				// normalised: |d| op tol
				okOp := !neg && (op == token.GTR || op == token.LEQ)
				r.Check(okOp, "C08.PREFILTER", fnm+"#boundary", ifi.Pos(), "a candidate at exactly the tolerance is kept (dropped only when the distance is strictly greater)", "the pre-filter compares the entropy distance with the tolerance by "+op.String()+": a signature whose distance equals its tolerance is dropped here but matched by the matcher, the JSON backend and the sibling scans")
				// the tolerance: own value, default when own == 0
				ph, isPhi := tol.(*ssa.Phi)
				if !isPhi || len(ph.Edges) != 2 {
					r.Fail("C08.PREFILTER", fnm+"#fallback", ifi.Pos(), "the tolerance compared with is not 'own tolerance, or the default when that is 0' ("+core.Canon(tol)+")")
					continue
				}
				okFb := false
				for i := 0; i < 2; i++ {
					own, def := ph.Edges[i], ph.Edges[1-i]
					predOwn, predDef := ph.Block().Preds[i], ph.Block().Preds[1-i]
					_ = def
					// the default's predecessor is entered from the own-edge block through `own == 0`
					if len(predOwn.Instrs) == 0 {
						continue
					}
					tif, isIf := predOwn.Instrs[len(predOwn.Instrs)-1].(*ssa.If)
					if !isIf {
						continue
					}
					op2, a2, b2, neg2, ok2 := core.Compare(tif.Cond)
					if !ok2 || neg2 || a2 != own {
						continue
					}
					if z, isZ := core.ConstFloat(b2); !isZ || z != 0 {
						continue
					}
					switch {
					case op2 == token.EQL && predOwn.Succs[0] == predDef:
						okFb = true
					case op2 == token.NEQ && predOwn.Succs[1] == predDef:
						okFb = true
					}
				}
				r.Check(okFb, "C08.PREFILTER", fnm+"#fallback", ifi.Pos(), "the scanner's default tolerance replaces the signature's own only when that is 0", "the fallback of the pre-filter tolerance is not 'default when the signature's own tolerance is 0': signatures that rely on the default are filtered with tolerance 0 (or signatures with their own tolerance get the default), so this scan mode drops alerts its sibling reports")
			}
		}
	}
	r.Floor("C08.PREFILTER", "entropy pre-filters of the embedded store", n, 1)
}

// c08OncePerItem: a score of the form len(matched)/len(required) lies in [0,1] only if every required item puts at
// most ONE element into `matched`. Where the element is appended inside a search loop nested in the loop over the
// required items, the search loop is left right after the append (break / found flag): no path leads from the append
// back to the inner loop's header without passing the outer loop's header first.
func c08OncePerItem(r *core.Run) {
	p := r.P
	r.Explain += " (ONCE) in the requirement matchers a required item contributes at most one element to the list whose length is the score's numerator."
	n := 0
	for _, fn := range p.FuncsIn("pkg/detection") {
		// numerators: x in float(len(x)) / float(len(y)) among the function's values
		nums := map[string]bool{}
		core.InstrsOf(fn, func(in ssa.Instruction) {
			if b, ok := in.(*ssa.BinOp); ok && b.Op == token.QUO && isLenConv(b.X) && isLenConv(b.Y) {
				for _, o := range core.Origins(lenArg(b.X)) {
					nums[fmt.Sprintf("%p", o)] = true
				}
				nums[fmt.Sprintf("%p", lenArg(b.X))] = true
			}
		})
		if len(nums) == 0 {
			continue
		}
		core.InstrsOf(fn, func(in ssa.Instruction) {
			ap, ok := isBuiltinCall(valueOf(in), "append")
			if !ok {
				return
			}
			// does this append feed a numerator? (it is one of its origins, through the loop phis)
			feeds := nums[fmt.Sprintf("%p", ssa.Value(ap))]
			if !feeds {
				return
			}
			// the innermost loop whose header dominates the append (the append may sit on the loop's way out)
			var h *ssa.BasicBlock
			for d := ap.Block(); d != nil && h == nil; d = d.Idom() {
				for _, pr := range d.Preds {
					if d.Dominates(pr) {
						h = d
					}
				}
			}
			if h == nil {
				return
			}
			ho := outerLoopHeader(h)
			if ho == nil {
				return // a single loop over the required items: one element per iteration by construction
			}
			n++
			cut := map[core.Edge]bool{}
			for _, pb := range ho.Preds {
				for i, sb := range pb.Succs {
					if sb == ho {
						cut[core.Edge{From: pb, Idx: i}] = true
					}
				}
			}
			var wit []int
			for si, sb := range ap.Block().Succs {
				if cut[core.Edge{From: ap.Block(), Idx: si}] {
					continue // straight on to the next required item
				}
				if sb == h {
					wit = []int{ap.Block().Index, h.Index}
				} else if pth := core.PathAvoiding(sb, h, cut); pth != nil && wit == nil {
					wit = append([]int{ap.Block().Index}, pth...)
				}
			}
			r.Check(wit == nil, "C08.RANGE", core.FuncName(fn)+"#one-element-per-required-item", ap.Pos(), "the search loop is left after the element was appended", "after the append the search loop goes on ("+core.FmtPath(wit)+"): one required item is counted once per place it is found in, the score len(matched)/len(required) exceeds 1 and the confidence leaves [0,1]")
		})
	}
	r.Floor("C08.RANGE", "appends to a score numerator inside a search loop", n, 1)
}
