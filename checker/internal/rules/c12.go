package rules

import (
	"fmt"
	"go/token"
	"go/types"
	"strings"

	"golang.org/x/tools/go/ssa"

	"sfwverif/internal/core"
)

func init() { register("C12", c12) }

// opEquals matches `x.Op == <token>` for one of the given tokens.
func opEquals(cond ssa.Value, toks ...token.Token) (bool, bool) {
	op, x, y, neg, ok := core.Compare(cond)
	if !ok || neg || (op != token.EQL && op != token.NEQ) {
		return false, false
	}
	if _, isOp := core.FieldLoad(x, "Op"); !isOp {
		return false, false
	}
	k, isC := core.ConstInt(y)
	if !isC {
		return false, false
	}
	for _, t := range toks {
		if int64(t) == k {
			return true, op == token.EQL
		}
	}
	return false, false
}

// rule names of the induction-variable gate: C12 runs it as C12.IV, C03 as C03.GATE.iv (the same conditions are what
// keeps the {start,+,step} rewriting from merging two different loops)
var c12IVRule, c12NegRule = "C12.IV", "C12.NEG"

// c12IVGate runs the classifier rules (and the closed-form substitution rule) under other rule names.
func c12IVGate(r *core.Run, ivRule, negRule string) {
	saveIV, saveNeg := c12IVRule, c12NegRule
	c12IVRule, c12NegRule = ivRule, negRule
	defer func() { c12IVRule, c12NegRule = saveIV, saveNeg }()
	c12Classifier(r, false)
}

func c12(r *core.Run) {

	r.Explain = "C12 decided structurally: (IV) an induction variable is recorded only after: integer result type; the recognised update is the value on every in-loop phi edge (checked for every predecessor, bail-out on the first mismatch); all out-of-loop edges agree on one start value; the step is loop-invariant; a start value exists; the operator is ADD/SUB/MUL with 'phi on the right of SUB' rejected; only ADD/SUB yield a basic IV and only basic IVs are rewritten to {start,+,step} in the canonical IR; SUB negates the step; (TRIP) a computed trip count (a max(0,…) expression or the constant 0) is stored only after: exactly one exiting block; that block is the loop header and exactly one of its successors stays in the loop, the comparison being used as written when the true edge stays and complemented when it leaves; the compared IV is basic; the limit is loop-invariant. Not decided: the ceiling-division arithmetic, integer wrap-around, agreement with concrete executions. (IV, sharpened) the back-edge verification is reached for every in-loop predecessor; (CONST) an SSA constant becomes a symbolic constant only through a literal or the exact decimal text (no fixed-width accessor)."
	r.Undecided = []string{"arithmetic of the trip-count formula ((limit-start+step-1)/step etc.)", "integer wrap-around of narrow induction variables", "agreement on concrete argument vectors (runtime)"}

	c12Classifier(r, true)
	// the summary that reaches the IR is the one that was derived: start before step, operands through the renamer
	r.Under("C02.NONAME", "C12.RENDER", func() { c02RenamerThreaded(r) })
	c12Invariant(r)
	c12StepOperand(r)
}

// c12StepOperand: the update of an induction variable is `phi op step` (or `step + phi`): the step is the operand
// that is NOT the variable itself. Where the classifier picks the step out of a binary operation, operand Y is
// taken on the path that established X == phi, and operand X on the path that established Y == phi.
func c12StepOperand(r *core.Run) {
	p := r.P
	n := 0
	for _, fn := range p.FuncsIn("pkg/analysis/loop") {
		// the classifier: the function that builds the InductionVariable
		isClassifier := false
		core.InstrsOf(fn, func(in ssa.Instruction) {
			if al, ok := in.(*ssa.Alloc); ok && strings.HasSuffix(core.Deref(al.Type()).String(), "loop.InductionVariable") {
				isClassifier = true
			}
		})
		if !isClassifier {
			continue
		}
		core.InstrsOf(fn, func(in ssa.Instruction) {
			ph, ok := in.(*ssa.Phi)
			if !ok || !strings.HasSuffix(ph.Type().String(), "ssa.Value") {
				return
			}
			for i, e := range ph.Edges {
				base, name, isF := fieldLoadBy(core.Unwrap(e), func(types.Type) bool { return true })
				if !isF || (name != "X" && name != "Y") || !strings.HasSuffix(core.Deref(base.Type()).String(), "ssa.BinOp") || i >= len(ph.Block().Preds) {
					continue
				}
				other := map[string]string{"X": "Y", "Y": "X"}[name]
				n++
				ok1, n1, _ := core.MustPassUse(fn, core.Use{At: ph.Block(), Via: ph.Block().Preds[i]}, func(cond ssa.Value) (bool, bool) {
					op, x, y, neg, okC := core.Compare(cond)
					if !okC || neg || (op != token.EQL && op != token.NEQ) {
						return false, false
					}
					for _, pair := range [][2]ssa.Value{{x, y}, {y, x}} {
						b2, n2, isF2 := fieldLoadBy(core.Unwrap(pair[0]), func(types.Type) bool { return true })
						if isF2 && n2 == other && core.Canon(b2) == core.Canon(base) {
							if _, isPhiT := core.Deref(pair[1].Type()).(*types.Named); isPhiT || strings.HasSuffix(pair[1].Type().String(), "ssa.Phi") {
								return true, op == token.EQL
							}
						}
					}
					return false, false
				})
				r.Check(ok1 && n1 > 0, "C12.IV", core.FuncName(fn)+"#step-is-the-other-operand("+name+")", e.Pos(), "operand "+name+" is taken as the step where operand "+other+" was found to be the variable", "operand "+name+" of the update is taken as the step on a path that did not establish that operand "+other+" is the variable: `i = 1 + i` yields the variable itself as its step, the update is no longer recognised (or is summarised with the wrong step)")
			}
		})
	}
	r.Floor("C12.IV", "step operands picked out of an update", n, 2)
}

// c12Invariant: a composite symbolic expression is loop-invariant only if ALL its operands are: in every
// IsLoopInvariant method that asks its operands, the answer cannot be true once one operand answered false. With
// "or" a step like a[c]+1 (one varying operand) counts as invariant, and a non-linear variable is summarised as a
// basic induction variable.
func c12Invariant(r *core.Run) {
	p := r.P
	n := 0
	for _, fn := range p.FuncsIn("pkg/analysis/loop") {
		if fn.Name() != "IsLoopInvariant" || fn.Signature.Recv() == nil {
			continue
		}
		var asks []*ssa.Call
		core.InstrsOf(fn, func(in ssa.Instruction) {
			if c, ok := in.(*ssa.Call); ok && c.Call.IsInvoke() && c.Call.Method.Name() == "IsLoopInvariant" {
				asks = append(asks, c)
			}
		})
		if len(asks) < 2 {
			continue
		}
		for _, c := range asks {
			n++
			bad := conjWitness(fn, c, true)
			r.Check(bad == "", "C12.IV", core.FuncName(fn)+"#invariant-only-if-every-operand-is("+core.Canon(c.Call.Value)+")", c.Pos(), "with this operand varying the expression is not reported invariant", "with this operand varying the composite expression can still be reported loop-invariant ("+bad+"): a step or limit with one varying operand passes the invariance tests, so a non-linear variable is summarised as {start,+,step} and given a trip count")
		}
	}
	r.Floor("C12.IV", "operand invariance queries of composite expressions", n, 2)
}

func c12Classifier(r *core.Run, withTrip bool) {
	p := r.P
	var classifier, tripper *ssa.Function
	for _, fn := range p.FuncsIn("pkg/analysis/loop") {
		core.InstrsOf(fn, func(in ssa.Instruction) {
			switch x := in.(type) {
			case *ssa.Alloc:
				// the classifier is the function that builds the InductionVariable (it records it itself or
				// returns it to a caller that does)
				if strings.HasSuffix(core.Deref(x.Type()).String(), "loop.InductionVariable") {
					classifier = fn
				}
			case *ssa.Store:
				if fa, ok := x.Addr.(*ssa.FieldAddr); ok && core.FieldName(fa.X.Type(), fa.Field) == "TripCount" {
					tripper = fn
				}
			}
		})
	}
	if classifier == nil {
		r.Floor(c12IVRule, "induction-variable classifier (writes Loop.Inductions)", 0, 1)
	} else {
		c12IV(r, classifier)
	}
	if withTrip {
		c12Eval(r)
		if tripper == nil {
			r.Floor("C12.TRIP", "trip-count derivation (writes Loop.TripCount)", 0, 1)
		} else {
			c12Trip(r, tripper)
		}
		c12Const(r)
	}
	// only basic IVs become {start,+,step} in the IR
	n := 0
	for _, fn := range p.FuncsIn("pkg/analysis/ir") {
		core.InstrsOf(fn, func(in ssa.Instruction) {
			mu, ok := in.(*ssa.MapUpdate)
			if !ok {
				return
			}
			if !isValueValueMap(mu.Map.Type()) {
				return
			}
			// value built from an InductionVariable's Start/Step
			al, isAlloc := core.Unwrap(mu.Value).(*ssa.Alloc)
			if !isAlloc {
				return
			}
			sv, okS := core.StructLitField(al, "Start")
			if !okS {
				return
			}
			if _, isIVStart := core.FieldLoad(sv, "Start"); !isIVStart {
				return
			}
			n++
			atom := func(cond ssa.Value) (bool, bool) {
				op, x, y, neg, ok := core.Compare(cond)
				if !ok || neg {
					return false, false
				}
				if _, isT := core.FieldLoad(x, "Type"); !isT {
					return false, false
				}
				if k, isC := core.ConstInt(y); !isC || k != 1 {
					return false, false
				}
				return true, op == token.EQL
			}
			ok1, n1, path := core.MustPass(fn, mu.Block(), atom)
			r.Check(ok1 && n1 > 0, c12IVRule, core.FuncName(fn)+"#closed-form-only-for-basic-IV", mu.Pos(), "a phi is replaced by {start,+,step} only if the IV is basic (additive)", "a non-additive (e.g. geometric) induction variable is rendered as start + k*step ("+core.FmtPath(path)+")")
		})
	}
	r.Floor(c12IVRule, "closed-form substitutions of induction phis in the canonicaliser", n, 1)
}

func c12IV(r *core.Run, fn *ssa.Function) {
	fnm := core.FuncName(fn)
	// the sink: where the induction variable is recorded — the store into Loop.Inductions, or, if the classifier
	// hands the variable back to its caller, the return of a non-nil *InductionVariable
	var sink ssa.Instruction
	core.InstrsOf(fn, func(in ssa.Instruction) {
		if mu, ok := in.(*ssa.MapUpdate); ok {
			if _, ok := core.FieldLoad(mu.Map, "Inductions"); ok {
				sink = mu
			}
		}
	})
	if sink == nil {
		for _, ret := range core.Returns(fn) {
			for _, res := range ret.Results {
				if strings.HasSuffix(core.Deref(res.Type()).String(), "loop.InductionVariable") && !core.IsNilConst(res) {
					sink = ret.Instr
				}
			}
		}
	}
	if sink == nil {
		r.Floor(c12IVRule, "recording of an induction variable in "+fnm, 0, 1)
		return
	}
	sb := sink.Block()
	chk := func(name string, atom core.Atom, okMsg, failMsg string) {
		ok1, n1, path := core.MustPass(fn, sb, atom)
		r.Check(ok1 && n1 > 0, c12IVRule, fnm+"#"+name, sink.Pos(), okMsg, failMsg+" ("+core.FmtPath(path)+")")
	}
	// (a) integer type
	chk("integer-only", func(cond ssa.Value) (bool, bool) {
		b, nonZeroOnTrue, ok := maskTest(cond)
		if !ok {
			return false, false
		}
		if _, isInfo := callTo(b.X, "(*go/types.Basic).Info"); !isInfo {
			return false, false
		}
		k, _ := core.ConstInt(b.Y)
		return k == int64(types.IsInteger), nonZeroOnTrue
	}, "recorded only for integer-typed updates", "an induction variable is recorded without the integer type test: float counters would be treated as exact")
	// (d) invariant step
	chk("step-invariant", core.BoolGuard(func(x ssa.Value) bool {
		c, ok := x.(*ssa.Call)
		return ok && c.Call.IsInvoke() && c.Call.Method.Name() == "IsLoopInvariant"
	}, true), "recorded only if the step is loop-invariant", "an induction variable is recorded although its step may vary inside the loop")
	// (e) start exists
	chk("start-exists", func(cond ssa.Value) (bool, bool) {
		x, nonNilOnTrue, ok := core.NilCompare(cond)
		if !ok {
			return false, false
		}
		if ph, isPhi := x.(*ssa.Phi); isPhi && strings.HasSuffix(ph.Type().String(), "ssa.Value") {
			return true, nonNilOnTrue
		}
		return false, false
	}, "recorded only if a start value was found", "an induction variable is recorded without a start value")
	// (g) operator set
	chk("operator-set", func(cond ssa.Value) (bool, bool) {
		m, onTrue := opEquals(cond, token.ADD, token.SUB, token.MUL)
		return m && onTrue, true
	}, "recorded only for ADD/SUB/MUL updates", "an induction variable is recorded for an operator other than ADD/SUB/MUL")
	// basic type only for ADD/SUB
	nBasic := 0
	core.InstrsOf(fn, func(in ssa.Instruction) {
		st, ok := in.(*ssa.Store)
		if !ok {
			return
		}
		fa, ok := st.Addr.(*ssa.FieldAddr)
		if !ok || core.FieldName(fa.X.Type(), fa.Field) != "Type" {
			return
		}
		k, isC := core.ConstInt(st.Val)
		if !isC || k != 1 {
			return
		}
		nBasic++
		ok1, n1, path := core.MustPass(fn, st.Block(), func(cond ssa.Value) (bool, bool) {
			m, onTrue := opEquals(cond, token.ADD, token.SUB)
			return m && onTrue, true
		})
		r.Check(ok1 && n1 > 0, c12IVRule, fnm+"#basic-only-for-add-sub", st.Pos(), "IVTypeBasic is assigned only for ADD/SUB", "a multiplicative (or other) update is classified as a basic additive IV ("+core.FmtPath(path)+")")
	})
	r.Floor(c12IVRule, "assignments of IVTypeBasic", nBasic, 2)

	// (b)/(c) per-predecessor verification loops
	nBack, nStart := 0, 0
	for _, b := range fn.Blocks {
		if len(b.Instrs) == 0 {
			continue
		}
		ifi, ok := b.Instrs[len(b.Instrs)-1].(*ssa.If)
		if !ok {
			continue
		}
		op, x, y, neg, ok := core.Compare(ifi.Cond)
		if !ok || neg || op != token.NEQ {
			continue
		}
		isEdge := func(v ssa.Value) bool {
			u, ok := v.(*ssa.UnOp)
			if !ok {
				return false
			}
			ia, ok := u.X.(*ssa.IndexAddr)
			if !ok {
				return false
			}
			_, isEdges := core.FieldLoad(ia.X, "Edges")
			return isEdges
		}
		var other ssa.Value
		switch {
		case isEdge(x):
			other = y
		case isEdge(y):
			other = x
		default:
			continue
		}
		other = core.Unwrap(other)
		inLoop := func(want bool) bool {
			ok1, n1, _ := core.MustPass(fn, b, core.BoolGuard(func(v ssa.Value) bool {
				lk, ok := v.(*ssa.Lookup)
				if !ok {
					return false
				}
				_, isBlocks := core.FieldLoad(lk.X, "Blocks")
				return isBlocks
			}, want))
			return ok1 && n1 > 0
		}
		okFA, why := core.ForAllGuard(ifi, 0, sb)
		if strings.HasSuffix(other.Type().String(), "ssa.BinOp") && inLoop(true) {
			nBack++
			r.Check(okFA, c12IVRule, fnm+"#back-edge-verification", ifi.Pos(), "every in-loop phi edge must be the recognised update, first mismatch bails out", "the in-loop phi edges are not verified against the recognised update: "+why)
			// ... and the test is reached for every in-loop predecessor, not only for some of them
			covered, path := true, []int(nil)
			for _, lb := range fn.Blocks {
				if len(lb.Instrs) == 0 {
					continue
				}
				li, ok := lb.Instrs[len(lb.Instrs)-1].(*ssa.If)
				if !ok {
					continue
				}
				base, negL := core.StripNot(li.Cond)
				lk, ok := base.(*ssa.Lookup)
				if !ok {
					continue
				}
				if _, isBlocks := core.FieldLoad(lk.X, "Blocks"); !isBlocks || !core.ReachAvoiding(lb, backEdges(fn))[b] {
					continue
				}
				in := lb.Succs[0]
				if negL {
					in = lb.Succs[1]
				}
				h := core.LoopHeaderOf(lb)
				if in == b || h == nil {
					continue
				}
				cut := map[core.Edge]bool{}
				for _, pr := range b.Preds {
					for i, sc := range pr.Succs {
						if sc == b {
							cut[core.Edge{From: pr, Idx: i}] = true
						}
					}
				}
				if pth := core.PathAvoiding(in, h, cut); pth != nil {
					covered, path = false, pth
				}
			}
			r.Check(covered, c12IVRule, fnm+"#back-edge-verification-every-in-loop-edge", ifi.Pos(), "the verification is reached for every in-loop predecessor of the header", "some in-loop phi edges skip the verification ("+core.FmtPath(path)+"): with two latches (a continue in a post-less loop) the other latch's different update goes unchecked and the variable is still described as start + k*step")
		} else if _, isPhi := other.(*ssa.Phi); isPhi && inLoop(false) {
			nStart++
			r.Check(okFA, c12IVRule, fnm+"#single-start-value", ifi.Pos(), "all out-of-loop edges must agree on one start value", "out-of-loop phi edges with different start values are accepted: "+why)
		}
	}
	r.Floor(c12IVRule, "in-loop edge verification", nBack, 1)
	r.Floor(c12IVRule, "start-value agreement test", nStart, 1)

	// (f) phi on the right of SUB is rejected: from the edge 'Y == phi' the sink needs Op != SUB
	nSub := 0
	for _, b := range fn.Blocks {
		if len(b.Instrs) == 0 {
			continue
		}
		ifi, ok := b.Instrs[len(b.Instrs)-1].(*ssa.If)
		if !ok {
			continue
		}
		if m, _ := opEquals(ifi.Cond, token.SUB); !m {
			continue
		}
		// is this the rejection (true edge cannot reach sink)?
		if core.ReachAvoiding(b.Succs[0], nil)[sb] {
			continue
		}
		// it must be inside the 'phi is the right operand' branch: guarded by EQL(load Y, phi)
		ok1, n1, _ := core.MustPass(fn, b, func(cond ssa.Value) (bool, bool) {
			op, x, _, neg, ok := core.Compare(cond)
			if !ok || neg || op != token.EQL {
				return false, false
			}
			_, isY := core.FieldLoad(x, "Y")
			return isY, true
		})
		if ok1 && n1 > 0 {
			nSub++
		}
	}
	r.Check(nSub > 0, c12IVRule, fnm+"#sub-phi-on-left-only", sink.Pos(), "c - i is rejected (subtraction with the phi as right operand)", "subtraction with the phi on the right (i = c - i) is accepted as an induction variable")

	// NEG: the SUB case negates the step
	neg := false
	core.InstrsOf(fn, func(in ssa.Instruction) {
		if core.IsCallTo(in, "(*math/big.Int).Neg") {
			ok1, n1, _ := core.MustPass(fn, in.Block(), func(cond ssa.Value) (bool, bool) {
				m, onTrue := opEquals(cond, token.SUB)
				return m && onTrue, true
			})
			if ok1 && n1 > 0 {
				neg = true
			}
		}
	})
	r.Check(neg, c12NegRule, fnm+"#sub-negates-step", sink.Pos(), "for i -= c the recorded step is the negated constant", "the SUB case does not negate the step: i -= c is described as start + k*c")
}

func c12Trip(r *core.Run, fn *ssa.Function) {
	fnm := core.FuncName(fn)
	n := 0
	core.InstrsOf(fn, func(in ssa.Instruction) {
		st, ok := in.(*ssa.Store)
		if !ok {
			return
		}
		fa, ok := st.Addr.(*ssa.FieldAddr)
		if !ok || core.FieldName(fa.X.Type(), fa.Field) != "TripCount" {
			return
		}
		v := core.Unwrap(st.Val)
		kind := core.TypeName(v.Type())
		if strings.HasSuffix(kind, "SCEVUnknown") {
			return // "unknown" may be stored anywhere
		}
		n++
		sb := st.Block()
		construct := fmt.Sprintf("%s#store(%s)", fnm, kind)
		chk := func(name string, atom core.Atom, okMsg, failMsg string) {
			ok1, n1, path := core.MustPass(fn, sb, atom)
			r.Check(ok1 && n1 > 0, "C12.TRIP", construct+"/"+name, st.Pos(), okMsg, failMsg+" ("+core.FmtPath(path)+")")
		}
		chk("single-exit", func(cond ssa.Value) (bool, bool) {
			op, x, y, neg, ok := core.Compare(cond)
			if !ok || neg {
				return false, false
			}
			ln, isLen := isBuiltinCall(x, "len")
			if !isLen {
				return false, false
			}
			if _, isExits := core.FieldLoad(ln.Call.Args[0], "Exits"); !isExits {
				return false, false
			}
			if k, isC := core.ConstInt(y); !isC || k != 1 {
				return false, false
			}
			// exactly one: == 1 (or != 1 rejecting); an order test such as < 1 lets two exits through
			if op != token.EQL && op != token.NEQ {
				return false, false
			}
			return true, op == token.EQL
		}, "count only for loops with exactly one exiting block", "a trip count is derived for a loop with several exits")
		chk("exit-is-header", func(cond ssa.Value) (bool, bool) {
			op, x, y, neg, ok := core.Compare(cond)
			if !ok || neg {
				return false, false
			}
			_, hx := core.FieldLoad(x, "Header")
			_, hy := core.FieldLoad(y, "Header")
			if !hx && !hy {
				return false, false
			}
			return true, op == token.EQL
		}, "count only for top-tested loops (the exiting block is the header)", "a trip count is derived for a bottom-tested / break-style loop: the formula counts header evaluations of a top-tested loop")
		succLookup := func(idx int64, want bool) core.Atom {
			return core.BoolGuard(func(v ssa.Value) bool {
				lk, ok := v.(*ssa.Lookup)
				if !ok {
					return false
				}
				if _, isBlocks := core.FieldLoad(lk.X, "Blocks"); !isBlocks {
					return false
				}
				u, ok := lk.Index.(*ssa.UnOp)
				if !ok {
					return false
				}
				ia, ok := u.X.(*ssa.IndexAddr)
				if !ok {
					return false
				}
				if _, isSuccs := core.FieldLoad(ia.X, "Succs"); !isSuccs {
					return false
				}
				k, isC := core.ConstInt(ia.Index)
				return isC && k == idx
			}, want)
		}
		// polarity of the header test. Either the count is derived only for "true edge stays, false edge leaves",
		// or both orientations are handled and the comparison operator is complemented when the true edge is the exit.
		var opPhi *ssa.Phi
		core.InstrsOf(fn, func(in ssa.Instruction) {
			b, ok := in.(*ssa.BinOp)
			if !ok || b.Op != token.EQL {
				return
			}
			if ph, isPhi := b.X.(*ssa.Phi); isPhi && strings.HasSuffix(ph.Type().String(), "token.Token") {
				if _, isC := core.ConstInt(b.Y); isC {
					opPhi = ph
				}
			}
		})
		if opPhi == nil {
			chk("true-edge-stays", succLookup(0, true), "count only if the true successor of the test stays in the loop", "the polarity of the exit test is ignored: 'if cond { break }' is counted like 'for cond { }'")
			chk("false-edge-leaves", succLookup(1, false), "count only if the false successor leaves the loop", "the false successor of the exit test is not required to leave the loop")
		} else {
			chk("exactly-one-successor-stays", func(cond ssa.Value) (bool, bool) {
				op, x, y, neg, ok := core.Compare(cond)
				if !ok || neg || (op != token.EQL && op != token.NEQ) {
					return false, false
				}
				m0, _ := succLookup(0, true)(x)
				m1, _ := succLookup(1, true)(y)
				if !(m0 && m1) {
					m0, _ = succLookup(1, true)(x)
					m1, _ = succLookup(0, true)(y)
				}
				return m0 && m1, op == token.NEQ
			}, "count only if exactly one successor of the header test stays in the loop", "a trip count is derived although both (or neither) successors of the test stay in the loop")
			complement := map[token.Token]token.Token{token.LSS: token.GEQ, token.LEQ: token.GTR, token.GTR: token.LEQ, token.GEQ: token.LSS, token.EQL: token.NEQ}
			okPol, whyPol := true, ""
			nEdges := 0
			for i, e := range opPhi.Edges {
				pred := opPhi.Block().Preds[i]
				if _, isOp := core.FieldLoad(e, "Op"); isOp {
					// the operator as written: only when the true edge stays in the loop
					nEdges++
					ok1, n1, _ := core.MustPassUse(fn, core.Use{At: opPhi.Block(), Via: pred}, succLookup(0, true))
					if !(ok1 && n1 > 0) {
						okPol, whyPol = false, "the operator is used as written although the true edge may leave the loop"
					}
					continue
				}
				k, isC := core.ConstInt(e)
				if !isC {
					okPol, whyPol = false, "the operator is "+core.Canon(e)
					continue
				}
				nEdges++
				gate, ungated := tokensGating(fn, pred, "Op")
				if ungated || len(gate) != 1 || complement[gate[0]] != token.Token(k) {
					okPol, whyPol = false, fmt.Sprintf("under {%s} the operator becomes %s, which is not the complement", tokNames(gate), token.Token(k))
				}
				ok1, n1, _ := core.MustPass(fn, pred, succLookup(0, false))
				if !(ok1 && n1 > 0) {
					okPol, whyPol = false, "the operator is complemented although the true edge stays in the loop"
				}
			}
			r.Check(okPol && nEdges >= 2, "C12.TRIP", construct+"/operator-follows-polarity", st.Pos(), "the comparison is used as written when the true edge stays in the loop and complemented (< ↔ >=, <= ↔ >, == ↔ !=) when it leaves", "the header test's polarity is not reflected in the operator: "+whyPol+" — 'for !(i >= n)' or 'if i < n { break }' would be counted like 'for i < n'")
		}
		// the division-based formulas (SCEVMax of a quotient) need a step of known sign that moves towards the limit;
		// the NEQ form (a plain difference) has its own ±1 test
		isQuotient := false
		if strings.HasSuffix(kind, "SCEVMax") {
			if y, ok := core.StructLitField(v, "Y"); ok && y != nil {
				if op, ok := core.StructLitField(core.Unwrap(y), "Op"); ok && op != nil {
					if k, isC := core.ConstInt(op); isC && token.Token(k) == token.QUO {
						isQuotient = true
					}
				}
			}
		}
		if isQuotient {
			isStepVal := func(x ssa.Value) bool {
				for _, o := range core.Origins(x) {
					c, ok := o.(*ssa.Call)
					if !ok || !c.Call.IsInvoke() || c.Call.Method.Name() != "EvaluateAt" {
						return false
					}
					if _, isStep := core.FieldLoad(c.Call.Value, "Step"); !isStep {
						return false
					}
				}
				return true
			}
			chk("step-known", func(cond ssa.Value) (bool, bool) {
				x, nonNilOnTrue, ok := core.NilCompare(cond)
				if !ok || !isStepVal(x) {
					return false, false
				}
				return true, nonNilOnTrue
			}, "count only when the step evaluates to a constant", "a quotient formula is stored although the step is not a known constant: its sign is unknown")
			chk("step-sign-tested", func(cond ssa.Value) (bool, bool) {
				op, x, y, neg, ok := core.Compare(cond)
				if !ok || neg {
					return false, false
				}
				sc, isSign := callTo(x, "(*math/big.Int).Sign")
				z, isZ := core.ConstInt(y)
				if !isSign || !isZ || z != 0 || !isStepVal(sc.Call.Args[0]) {
					return false, false
				}
				switch op {
				case token.LEQ, token.GEQ, token.EQL:
					return true, false // leaves only a strictly positive / strictly negative / non-zero step
				case token.GTR, token.LSS, token.NEQ:
					return true, true
				}
				return false, false
			}, "count only after the sign of the step was tested", "a quotient formula is stored without a test of the step's sign: for a step that moves away from the limit (for i := 0; i < n; i--) the formula still evaluates to a number, which is not the iteration count")
		}
		chk("limit-invariant", core.BoolGuard(func(x ssa.Value) bool {
			c, ok := x.(*ssa.Call)
			return ok && c.Call.IsInvoke() && c.Call.Method.Name() == "IsLoopInvariant"
		}, true), "count only against a loop-invariant limit", "a trip count is derived against a limit that changes inside the loop")
		chk("iv-basic", func(cond ssa.Value) (bool, bool) {
			op, x, y, neg, ok := core.Compare(cond)
			if !ok || neg {
				return false, false
			}
			if _, isT := core.FieldLoad(x, "Type"); !isT {
				return false, false
			}
			if k, isC := core.ConstInt(y); !isC || k != 1 {
				return false, false
			}
			return true, op == token.EQL
		}, "count only for a basic (additive) induction variable", "a trip count is derived from a non-additive induction variable")
	})
	r.Floor("C12.TRIP", "stores of a computed trip count", n, 3)
	// the "test fails at once" shortcut: a loop is declared dead only for start strictly beyond the limit, or equal to
	// it when the comparison is not inclusive (for i := 10; i <= 10; i++ runs once)
	var inclusive *ssa.Phi
	core.InstrsOf(fn, func(in ssa.Instruction) {
		ph, ok := in.(*ssa.Phi)
		if !ok || ph.Type().String() != "bool" {
			return
		}
		trueUnder := map[token.Token]bool{}
		for i, e := range ph.Edges {
			if c, isC := e.(*ssa.Const); isC && c.Value != nil && c.Value.String() == "true" {
				var gate []token.Token
				if op := tripOperatorPhi(fn); op != nil {
					gate = phiTokensGating(fn, ph.Block().Preds[i], op)
				} else {
					gate, _ = tokensGating(fn, ph.Block().Preds[i], "Op")
				}
				for _, g := range gate {
					trueUnder[g] = true
				}
			}
		}
		if len(trueUnder) == 2 && trueUnder[token.LEQ] && trueUnder[token.GEQ] {
			inclusive = ph
		}
	})
	// the same flag kept in a field of a local struct: stores of true exactly under <= and >=
	inclusiveField := ""
	{
		under := map[string]map[token.Token]bool{}
		core.InstrsOf(fn, func(in ssa.Instruction) {
			st, ok := in.(*ssa.Store)
			if !ok {
				return
			}
			c, isC := st.Val.(*ssa.Const)
			if !isC || c.Value == nil || c.Value.String() != "true" {
				return
			}
			key, ok := core.LocalFieldAddrKey(st.Addr)
			if !ok {
				return
			}
			var gate []token.Token
			if op := tripOperatorPhi(fn); op != nil {
				gate = phiTokensGating(fn, st.Block(), op)
			} else {
				gate, _ = tokensGating(fn, st.Block(), "Op")
			}
			if under[key] == nil {
				under[key] = map[token.Token]bool{}
			}
			for _, g := range gate {
				under[key][g] = true
			}
		})
		for key, ts := range under {
			if len(ts) == 2 && ts[token.LEQ] && ts[token.GEQ] {
				inclusiveField = key
			}
		}
	}
	nDead := 0
	core.InstrsOf(fn, func(in ssa.Instruction) {
		ph, ok := in.(*ssa.Phi)
		if !ok || ph.Type().String() != "bool" || ph == inclusive {
			return
		}
		// the dead flag: a bool phi whose true value leads to storing the constant 0 as trip count
		leadsToZero := false
		if refs := ph.Referrers(); refs != nil {
			for _, ref := range *refs {
				if ifi, ok := ref.(*ssa.If); ok {
					for _, in2 := range ifi.Block().Succs[0].Instrs {
						if st, ok := in2.(*ssa.Store); ok {
							if fa, ok := st.Addr.(*ssa.FieldAddr); ok && core.FieldName(fa.X.Type(), fa.Field) == "TripCount" && strings.HasSuffix(core.TypeName(core.Unwrap(st.Val).Type()), "SCEVConstant") {
								leadsToZero = true
							}
						}
					}
				}
			}
		}
		if !leadsToZero {
			return
		}
		for i, e := range ph.Edges {
			c, isC := e.(*ssa.Const)
			if !isC || c.Value == nil || c.Value.String() != "true" {
				continue
			}
			nDead++
			pred := ph.Block().Preds[i]
			ok1, n1, path := core.MustPassUse(fn, core.Use{At: ph.Block(), Via: pred}, func(cond ssa.Value) (bool, bool) {
				// strictly beyond the limit
				if op, x, y, neg, ok := core.Compare(cond); ok && !neg {
					if _, isCmp := callTo(x, "(*math/big.Int).Cmp"); isCmp {
						if z, isZ := core.ConstInt(y); isZ && z == 0 && (op == token.GTR || op == token.LSS) {
							return true, true
						}
					}
				}
				// ... or equal and not inclusive
				base, negI := core.StripNot(cond)
				if inclusive != nil && base == ssa.Value(inclusive) {
					return true, negI
				}
				if inclusiveField != "" {
					if k, ok := core.LocalFieldKey(base); ok && k == inclusiveField {
						return true, negI
					}
				}
				return false, false
			})
			r.Check(ok1 && n1 > 0, "C12.TRIP", fnm+"#dead-shortcut-respects-inclusive", ph.Pos(), "a loop is declared dead only for start strictly beyond the limit, or equal to it under a strict comparison", "the dead-loop shortcut fires for start == limit without looking at whether the comparison is inclusive ("+core.FmtPath(path)+"): for i := 10; i <= 10; i++ is annotated with trip count 0 although the body runs once")
		}
	})
	r.Floor("C12.TRIP", "dead-loop shortcut sites", nDead, 2)
}

// phiTokensGating: the token constants k for which block sink is reachable from the edge `ph == k`.
func phiTokensGating(fn *ssa.Function, sink *ssa.BasicBlock, ph *ssa.Phi) []token.Token {
	var out []token.Token
	for _, b := range fn.Blocks {
		if len(b.Instrs) == 0 {
			continue
		}
		ifi, ok := b.Instrs[len(b.Instrs)-1].(*ssa.If)
		if !ok {
			continue
		}
		op, x, y, neg, ok := core.Compare(ifi.Cond)
		if !ok || neg || op != token.EQL || x != ssa.Value(ph) {
			continue
		}
		k, isC := core.ConstInt(y)
		if !isC {
			continue
		}
		if b.Succs[0] == sink || core.ReachAvoiding(b.Succs[0], backEdges(fn))[sink] {
			// not through another case of the same switch
			direct := true
			for _, in := range b.Succs[0].Instrs {
				if i2, ok := in.(*ssa.If); ok {
					if _, x2, _, _, ok2 := core.Compare(i2.Cond); ok2 && x2 == ssa.Value(ph) {
						direct = false
					}
				}
			}
			if direct {
				out = append(out, token.Token(k))
			}
		}
	}
	return out
}

// c12Const: start, bound and step constants enter the symbolic arithmetic exactly. The converter
// func(*ssa.Const) SCEV may build a constant node only from a literal or from the exact decimal text of
// the constant (big.Int.SetString of ExactString/String under ok); fixed-width accessors are lossy
// (Const.Uint64 is 0 for negative values, Const.Int64 wraps above MaxInt64).
func c12Const(r *core.Run) {
	p := r.P
	n := 0
	for _, fn := range p.FuncsIn("pkg/analysis/loop") {
		if len(fn.Params) != 1 || !strings.HasSuffix(fn.Params[0].Type().String(), "ssa.Const") || len(resultTypes(fn)) != 1 || !strings.HasSuffix(resultTypes(fn)[0].String(), "loop.SCEV") {
			continue
		}
		fnm := core.FuncName(fn)
		core.InstrsOf(fn, func(in ssa.Instruction) {
			st, ok := in.(*ssa.Store)
			if !ok {
				return
			}
			fa, ok := st.Addr.(*ssa.FieldAddr)
			if !ok || core.FieldName(fa.X.Type(), fa.Field) != "Value" || !strings.HasSuffix(core.Deref(fa.X.Type()).String(), "SCEVConstant") {
				return
			}
			n++
			good, why := false, core.Canon(st.Val)
			for _, o := range core.Origins(st.Val) {
				if c, ok := callTo(o, "math/big.NewInt"); ok {
					if _, isC := core.ConstInt(c.Call.Args[0]); isC {
						good = true
						continue
					}
				}
				if ex, ok := o.(*ssa.Extract); ok && ex.Index == 0 {
					if c, ok := callTo(ex.Tuple, "(*math/big.Int).SetString"); ok {
						src := core.Canon(c.Call.Args[1])
						if (strings.Contains(src, "ExactString(") || strings.Contains(src, ".String(")) && strings.Contains(src, "param0.Value") {
							ok1, n1, _ := core.MustPass(fn, st.Block(), core.BoolGuard(func(v ssa.Value) bool {
								e2, ok := v.(*ssa.Extract)
								return ok && e2.Tuple == ex.Tuple && e2.Index == 1
							}, true))
							if ok1 && n1 > 0 {
								good = true
								continue
							}
							why = "SetString result used without its ok flag"
						}
					}
				}
				good = false
				break
			}
			r.Check(good, "C12.CONST", fnm+"#exact-constant", st.Pos(), "constant node is a literal or the exact decimal text of the SSA constant", "an SSA constant enters the loop arithmetic through a lossy conversion ("+why+"): negative or large start/bound/step values are misrepresented, so the closed form and trip count do not match the loop")
		})
	}
	r.Floor("C12.CONST", "constant nodes built by the SSA-constant converter", n, 2)
}

// c12Eval: evaluating a symbolic expression never changes it. Every EvaluateAt returns a value the caller may
// keep (fresh, nil, cached, or what a sub-expression's EvaluateAt returned), and big.Int methods that write their
// receiver are only applied to values allocated in the same call — never to a sub-expression's result or a node's
// own constant, which would corrupt the trip-count tree for every later evaluation.
func c12Eval(r *core.Run) {
	p := r.P
	n := 0
	mutators := map[string]bool{"Add": true, "Sub": true, "Mul": true, "Quo": true, "Rem": true, "Div": true, "Mod": true, "Neg": true, "Set": true, "SetInt64": true, "SetUint64": true, "Exp": true, "Abs": true, "Lsh": true, "Rsh": true, "And": true, "Or": true, "Xor": true, "Not": true}
	var fresh func(v ssa.Value, d int) bool
	fresh = func(v ssa.Value, d int) bool {
		if d > 6 {
			return false
		}
		switch x := v.(type) {
		case *ssa.Alloc:
			return strings.HasSuffix(core.Deref(x.Type()).String(), "big.Int")
		case *ssa.Call:
			name := core.CalleeName(&x.Call)
			if name == "math/big.NewInt" {
				return true
			}
			if strings.HasPrefix(name, "(*math/big.Int).") && mutators[strings.TrimPrefix(name, "(*math/big.Int).")] {
				return fresh(x.Call.Args[0], d+1) // returns its receiver
			}
		case *ssa.Phi:
			for _, e := range x.Edges {
				if !fresh(e, d+1) {
					return false
				}
			}
			return true
		}
		return false
	}
	for _, fn := range p.FuncsIn("pkg/analysis/loop") {
		if fn.Name() != "EvaluateAt" || fn.Signature.Recv() == nil {
			continue
		}
		fnm := core.FuncName(fn)
		core.InstrsOf(fn, func(in ssa.Instruction) {
			c := core.CallOf(in)
			if c == nil {
				return
			}
			name := core.CalleeName(c)
			if !strings.HasPrefix(name, "(*math/big.Int).") || !mutators[strings.TrimPrefix(name, "(*math/big.Int).")] {
				return
			}
			n++
			r.Check(fresh(c.Args[0], 0), "C12.EVAL", fnm+"#writes-only-fresh("+strings.TrimPrefix(name, "(*math/big.Int).")+")", in.Pos(), "the big.Int that is written was allocated in this call", "a big.Int that was not allocated in this call ("+core.Canon(c.Args[0])+") is overwritten: it may be a sub-expression's value or a node's own constant, so evaluating a trip count changes it for every later evaluation")
		})
		for _, ret := range core.Returns(fn) {
			for _, o := range core.Origins(ret.Results[0]) {
				n++
				ok := core.IsNilConst(o) || fresh(o, 0)
				if c, isCall := o.(*ssa.Call); isCall && c.Call.IsInvoke() && c.Call.Method.Name() == "EvaluateAt" {
					ok = true
				}
				if ex, isEx := o.(*ssa.Extract); isEx {
					if _, isLk := ex.Tuple.(*ssa.Lookup); isLk {
						ok = true // a cached result
					}
					// ... or what a cache helper of the package found (it returns lookups of the cache only)
					if hc, isCall := ex.Tuple.(*ssa.Call); isCall {
						if g := core.StaticCallee(&hc.Call); g != nil && p.IsProdFunc(g) && g.Blocks != nil {
							all := true
							for _, gret := range core.Returns(g) {
								if ex.Index >= len(gret.Results) {
									all = false
									continue
								}
								for _, go2 := range core.Origins(gret.Results[ex.Index]) {
									e2, isE2 := go2.(*ssa.Extract)
									_, isLk2 := ssa.Value(nil).(*ssa.Lookup)
									if isE2 {
										_, isLk2 = e2.Tuple.(*ssa.Lookup)
									}
									if !core.IsNilConst(go2) && !isLk2 {
										all = false
									}
								}
							}
							if all {
								ok = true
							}
						}
					}
				}
				r.Check(ok, "C12.EVAL", fnm+"#returns-owned-value", ret.Pos(), "EvaluateAt returns a fresh, cached or sub-expression value", "EvaluateAt hands out "+core.Canon(o)+", a value owned by the expression node: a caller that accumulates into it rewrites the expression")
			}
		}
	}
	r.Floor("C12.EVAL", "writes and returns of the symbolic evaluator", n, 6)
	c12Build(r)
}

// c12Build: the summary of a value and the arithmetic done on summaries agree with Go's integer semantics.
// (kinds) The builder looks into a value only for the reviewed kinds — constants, header phis and binary
// operations; any other kind it opens (a conversion, a unary operation, a field load) is summarised as something it
// is not unless the rule below knows why that is exact. (division) Go's integer division truncates towards zero:
// big.Int's Quo/Rem, never the Euclidean Div/Mod/DivMod, anywhere in the package.
func c12Build(r *core.Run) {
	p := r.P
	r.Explain += " (BUILD) the summary builder opens only constants, header phis and binary operations, and big-integer division in the loop package is the truncated one (Quo/Rem), as Go's."
	allowed := map[string]string{
		"ssa.Const": "literal value",
		"ssa.Phi":   "a header phi recorded as induction variable becomes {start,+,step}; any other phi stays unknown",
		"ssa.BinOp": "summarised operand-wise; the evaluator returns 'unknown' for operators it does not implement",
	}
	n := 0
	for _, fn := range p.FuncsIn("pkg/analysis/loop") {
		rt := resultTypes(fn)
		if len(rt) != 1 || !strings.HasSuffix(rt[0].String(), "loop.SCEV") {
			continue
		}
		takesValue := false
		for _, pa := range fn.Params {
			if strings.HasSuffix(pa.Type().String(), "ssa.Value") {
				takesValue = true
			}
		}
		if !takesValue {
			continue
		}
		core.InstrsOf(fn, func(in ssa.Instruction) {
			ta, ok := in.(*ssa.TypeAssert)
			if !ok || !strings.HasSuffix(ta.X.Type().String(), "ssa.Value") {
				return
			}
			if _, isIface := ta.AssertedType.Underlying().(*types.Interface); isIface {
				return
			}
			kind := core.TypeName(ta.AssertedType)
			n++
			why, isOK := allowed[kind]
			r.Check(isOK, "C12.BUILD", core.FuncName(fn)+"#opens("+kind+")", ta.Pos(), "summarised kind: "+why,
				"the symbolic summary looks into a value of kind "+kind+", which is not among the reviewed kinds (constant, header phi, binary operation): e.g. an integer conversion narrows or reinterprets its operand, so summarising the operand instead gives start values, limits and trip counts that concrete execution does not have")
		})
	}
	r.Floor("C12.BUILD", "value kinds opened by the summary builder", n, 3)
	nDiv := 0
	for _, fn := range p.FuncsIn("pkg/analysis/loop") {
		core.InstrsOf(fn, func(in ssa.Instruction) {
			c := core.CallOf(in)
			if c == nil {
				return
			}
			switch name := core.CalleeName(c); name {
			case "(*math/big.Int).Quo", "(*math/big.Int).Rem", "(*math/big.Int).QuoRem":
				nDiv++
				r.OK("C12.BUILD", core.FuncName(fn)+"#division("+strings.TrimPrefix(name, "(*math/big.Int).")+")", in.Pos(), "truncated division, as Go's / and %")
			case "(*math/big.Int).Div", "(*math/big.Int).Mod", "(*math/big.Int).DivMod":
				nDiv++
				r.Fail("C12.BUILD", core.FuncName(fn)+"#division("+strings.TrimPrefix(name, "(*math/big.Int).")+")", in.Pos(), "Euclidean division ("+name+") where Go's integer division truncates towards zero: -7/2 is -3 in the program and -4 in the summary")
			}
		})
	}
	r.Floor("C12.BUILD", "big-integer divisions in the loop package", nDiv, 1)
}
