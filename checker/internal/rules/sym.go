package rules

import (
	"fmt"
	"go/token"
	"go/types"
	"strings"

	"golang.org/x/tools/go/ssa"

	"sfwverif/internal/core"
)

// Swap-invariance prover: decides, by structural induction over the SSA value graph, that a function
// f(a, b) with two parameters of the same type computes the same result for (a, b) and (b, a).
//
// The judgement eq(x, y) reads "x, evaluated on (a, b), equals y evaluated on (b, a)". It is derived only by
// rules that are sound for every input: identical leaves, mirrored parameters, same operator with pairwise
// related operands, commutative operators with crosswise related operands, mirrored comparisons, calls of the
// same function with pairwise related arguments, calls of a function already shown symmetric with crosswise
// related arguments, even functions applied to a mirrored difference, and phis of the same block with pairwise
// related edges (coinductively for loops). Control conditions must be invariant themselves, or form a
// short-circuit chain whose set of conditions is invariant. The procedure is incomplete: "not proved" does
// not mean asymmetric, and the report names the first construct that could not be related.
type symProver struct {
	p       *core.Program
	fn      *ssa.Function
	a, b    *ssa.Parameter
	state   map[[2]ssa.Value]int // 1 = assumed (in progress), 2 = proved, 3 = failed
	why     string
	assumed map[*ssa.Function]string // symmetric by assumption (table), reported as such
	used    map[string]bool          // which lemmas/assumptions were used
	depth   int
	lastTry string                   // why the most recent failed alternative failed
	subWhy  string                   // why a callee could not be shown symmetric
	mirror  map[ssa.Value]ssa.Value  // additional mirrored leaves (x evaluated on (a,b) equals mirror[x] on (b,a))
	skip    map[*ssa.BasicBlock]bool // blocks whose branch conditions are accounted for elsewhere
}

var symCommutative = map[token.Token]bool{token.ADD: true, token.MUL: true, token.EQL: true, token.NEQ: true, token.AND: true, token.OR: true, token.XOR: true}
var symMirror = map[token.Token]token.Token{token.LSS: token.GTR, token.GTR: token.LSS, token.LEQ: token.GEQ, token.GEQ: token.LEQ}

func (s *symProver) fail(format string, args ...interface{}) bool {
	if s.why == "" {
		s.why = fmt.Sprintf(format, args...)
	}
	return false
}

func (s *symProver) eq(x, y ssa.Value) bool {
	key := [2]ssa.Value{x, y}
	switch s.state[key] {
	case 1, 2:
		return true
	case 3:
		return false
	}
	s.state[key] = 1
	ok := s.eq1(x, y)
	if ok {
		s.state[key] = 2
	} else {
		s.state[key] = 3
	}
	return ok
}

func isStringType(t types.Type) bool {
	b, ok := t.Underlying().(*types.Basic)
	return ok && b.Info()&types.IsString != 0
}

func (s *symProver) eq1(x, y ssa.Value) bool {
	if m, ok := s.mirror[x]; ok {
		if m == y {
			return true
		}
		return s.fail("%s meets %s where %s is needed", core.Canon(x), core.Canon(y), core.Canon(m))
	}
	switch xv := x.(type) {
	case *ssa.Parameter:
		yv, ok := y.(*ssa.Parameter)
		if !ok {
			return s.fail("%s is not mirrored by %s", core.Canon(x), core.Canon(y))
		}
		if (xv == s.a && yv == s.b) || (xv == s.b && yv == s.a) {
			return true
		}
		if xv == yv && xv != s.a && xv != s.b {
			return true
		}
		return s.fail("parameter %s meets %s where its mirror image is needed", xv.Name(), yv.Name())
	case *ssa.Const:
		yv, ok := y.(*ssa.Const)
		if !ok || !types.Identical(xv.Type(), yv.Type()) {
			return s.fail("constant %s vs %s", core.Canon(x), core.Canon(y))
		}
		if xv.Value == nil || yv.Value == nil {
			return xv.Value == nil && yv.Value == nil
		}
		if xv.Value.ExactString() != yv.Value.ExactString() {
			return s.fail("constants differ: %s vs %s", xv.Value.ExactString(), yv.Value.ExactString())
		}
		return true
	case *ssa.Global, *ssa.Function, *ssa.Builtin:
		if x == y {
			return true
		}
		return s.fail("%s vs %s", core.Canon(x), core.Canon(y))
	case *ssa.UnOp:
		yv, ok := y.(*ssa.UnOp)
		if !ok || xv.Op != yv.Op || xv.CommaOk != yv.CommaOk {
			return s.fail("%s is not mirrored by %s", core.Canon(x), core.Canon(y))
		}
		return s.eq(xv.X, yv.X)
	case *ssa.FieldAddr:
		yv, ok := y.(*ssa.FieldAddr)
		if !ok || xv.Field != yv.Field {
			return s.fail("field %s is paired with %s: the two sides read different fields", core.Canon(x), core.Canon(y))
		}
		return s.eq(xv.X, yv.X)
	case *ssa.Field:
		yv, ok := y.(*ssa.Field)
		if !ok || xv.Field != yv.Field {
			return s.fail("field %s is paired with %s", core.Canon(x), core.Canon(y))
		}
		return s.eq(xv.X, yv.X)
	case *ssa.IndexAddr:
		yv, ok := y.(*ssa.IndexAddr)
		return ok && s.eq(xv.X, yv.X) && s.eq(xv.Index, yv.Index) || s.fail("%s vs %s", core.Canon(x), core.Canon(y))
	case *ssa.Index:
		yv, ok := y.(*ssa.Index)
		return ok && s.eq(xv.X, yv.X) && s.eq(xv.Index, yv.Index) || s.fail("%s vs %s", core.Canon(x), core.Canon(y))
	case *ssa.Lookup:
		yv, ok := y.(*ssa.Lookup)
		return ok && xv.CommaOk == yv.CommaOk && s.eq(xv.X, yv.X) && s.eq(xv.Index, yv.Index) || s.fail("%s vs %s", core.Canon(x), core.Canon(y))
	case *ssa.Slice:
		yv, ok := y.(*ssa.Slice)
		if !ok || !s.eq(xv.X, yv.X) {
			return s.fail("%s vs %s", core.Canon(x), core.Canon(y))
		}
		for _, pr := range [][2]ssa.Value{{xv.Low, yv.Low}, {xv.High, yv.High}, {xv.Max, yv.Max}} {
			if (pr[0] == nil) != (pr[1] == nil) || (pr[0] != nil && !s.eq(pr[0], pr[1])) {
				return s.fail("slice bounds of %s vs %s", core.Canon(x), core.Canon(y))
			}
		}
		return true
	case *ssa.Convert:
		yv, ok := y.(*ssa.Convert)
		return ok && types.Identical(xv.Type(), yv.Type()) && s.eq(xv.X, yv.X) || s.fail("%s vs %s", core.Canon(x), core.Canon(y))
	case *ssa.ChangeType:
		yv, ok := y.(*ssa.ChangeType)
		return ok && types.Identical(xv.Type(), yv.Type()) && s.eq(xv.X, yv.X) || s.fail("%s vs %s", core.Canon(x), core.Canon(y))
	case *ssa.Extract:
		yv, ok := y.(*ssa.Extract)
		return ok && xv.Index == yv.Index && s.eq(xv.Tuple, yv.Tuple) || s.fail("%s vs %s", core.Canon(x), core.Canon(y))
	case *ssa.Range:
		yv, ok := y.(*ssa.Range)
		return ok && s.eq(xv.X, yv.X) || s.fail("%s vs %s", core.Canon(x), core.Canon(y))
	case *ssa.Next:
		yv, ok := y.(*ssa.Next)
		return ok && s.eq(xv.Iter, yv.Iter) || s.fail("%s vs %s", core.Canon(x), core.Canon(y))
	case *ssa.BinOp:
		yv, ok := y.(*ssa.BinOp)
		if !ok {
			return s.fail("%s is not mirrored by %s", core.Canon(x), core.Canon(y))
		}
		if xv.Op == yv.Op {
			if s.try(func() bool { return s.eq(xv.X, yv.X) && s.eq(xv.Y, yv.Y) }) {
				return true
			}
			straight := s.lastTry
			comm := symCommutative[xv.Op] && !(xv.Op == token.ADD && isStringType(xv.Type()))
			if comm && s.try(func() bool { return s.eq(xv.X, yv.Y) && s.eq(xv.Y, yv.X) }) {
				s.used["commutativity of "+xv.Op.String()] = true
				return true
			}
			return s.fail("%s ⇒ operands of %s at %s are not mirrored", straight, xv.Op, s.p.Pos(xv.Pos()))
		}
		if symMirror[xv.Op] == yv.Op && s.try(func() bool { return s.eq(xv.X, yv.Y) && s.eq(xv.Y, yv.X) }) {
			return true
		}
		return s.fail("%s vs %s", core.Canon(x), core.Canon(y))
	case *ssa.Phi:
		yv, ok := y.(*ssa.Phi)
		if !ok || xv.Block() != yv.Block() || len(xv.Edges) != len(yv.Edges) {
			return s.fail("%s is merged differently from %s", core.Canon(x), core.Canon(y))
		}
		for i := range xv.Edges {
			if !s.eq(xv.Edges[i], yv.Edges[i]) {
				return false
			}
		}
		return true
	case *ssa.Call:
		yv, ok := y.(*ssa.Call)
		if !ok {
			return s.fail("%s is not mirrored by %s", core.Canon(x), core.Canon(y))
		}
		return s.eqCall(xv, yv)
	case *ssa.MakeInterface:
		yv, ok := y.(*ssa.MakeInterface)
		return ok && s.eq(xv.X, yv.X) || s.fail("%s vs %s", core.Canon(x), core.Canon(y))
	}
	if x == y {
		if _, isAlloc := x.(*ssa.Alloc); !isAlloc {
			return true
		}
	}
	return s.fail("no rule relates %s (%T) and %s", core.Canon(x), x, core.Canon(y))
}

// try evaluates an alternative without letting its failure message stick.
func (s *symProver) try(f func() bool) bool {
	saved := s.why
	snapshot := map[[2]ssa.Value]int{}
	for k, v := range s.state {
		snapshot[k] = v
	}
	s.why = ""
	if f() {
		s.why = saved
		return true
	}
	// roll back verdicts derived under the failed alternative (they may depend on assumptions made in it)
	s.state = snapshot
	s.lastTry = s.why
	s.why = saved
	return false
}

func (s *symProver) eqCall(x, y *ssa.Call) bool {
	if x.Call.IsInvoke() || y.Call.IsInvoke() {
		return s.fail("dynamic call %s", core.Canon(x))
	}
	if bx, ok := x.Call.Value.(*ssa.Builtin); ok {
		by, ok := y.Call.Value.(*ssa.Builtin)
		if !ok || bx.Name() != by.Name() || len(x.Call.Args) != len(y.Call.Args) {
			return s.fail("%s vs %s", core.Canon(x), core.Canon(y))
		}
		pair := func() bool {
			for i := range x.Call.Args {
				if !s.eq(x.Call.Args[i], y.Call.Args[i]) {
					return false
				}
			}
			return true
		}
		if s.try(pair) {
			return true
		}
		if (bx.Name() == "min" || bx.Name() == "max") && len(x.Call.Args) == 2 && s.try(func() bool { return s.eq(x.Call.Args[0], y.Call.Args[1]) && s.eq(x.Call.Args[1], y.Call.Args[0]) }) {
			return true
		}
		return s.fail("arguments of %s(...) at %s are not mirrored", bx.Name(), s.p.Pos(x.Pos()))
	}
	gx, gy := core.StaticCallee(&x.Call), core.StaticCallee(&y.Call)
	if gx == nil || gx != gy || len(x.Call.Args) != len(y.Call.Args) {
		return s.fail("%s vs %s", core.Canon(x), core.Canon(y))
	}
	if !pureFunc(s.p, gx, 0) {
		return s.fail("%s is not a pure function", gx.Name())
	}
	if s.try(func() bool {
		for i := range x.Call.Args {
			if !s.eq(x.Call.Args[i], y.Call.Args[i]) {
				return false
			}
		}
		return true
	}) {
		return true
	}
	ax, ay := x.Call.Args, y.Call.Args
	if len(ax) == 2 && types.Identical(ax[0].Type(), ax[1].Type()) {
		if lemma := s.symmetricFn(gx); lemma != "" {
			if s.try(func() bool { return s.eq(ax[0], ay[1]) && s.eq(ax[1], ay[0]) }) {
				s.used[lemma] = true
				return true
			}
		}
	}
	if len(ax) == 1 && isEvenFn(gx) {
		dx, okx := ax[0].(*ssa.BinOp)
		dy, oky := ay[0].(*ssa.BinOp)
		if okx && oky && dx.Op == token.SUB && dy.Op == token.SUB && s.try(func() bool { return s.eq(dx.X, dy.Y) && s.eq(dx.Y, dy.X) }) {
			s.used[gx.Name()+" is even (|x| of a mirrored difference)"] = true
			return true
		}
	}
	if s.subWhy != "" && strings.HasPrefix(s.subWhy, gx.Name()+" ") {
		return s.fail("%s ⇒ arguments of %s at %s are mirrored but the function is not known to be symmetric", s.subWhy, gx.Name(), s.p.Pos(x.Pos()))
	}
	return s.fail("%s ⇒ arguments of %s at %s are not mirrored", s.lastTry, gx.Name(), s.p.Pos(x.Pos()))
}

// symmetricFn returns a non-empty lemma name if g(x, y) == g(y, x) is established.
func (s *symProver) symmetricFn(g *ssa.Function) string {
	if isMinMaxFn(g) {
		return g.Name() + " selects one of its two arguments by comparing them (min/max)"
	}
	if why, ok := s.assumed[g]; ok {
		return "ASSUMED: " + g.Name() + " — " + why
	}
	// a sum over the union of the keys of two maps, computed in two passes
	if len(g.Params) == 2 {
		if _, isMap := g.Params[0].Type().Underlying().(*types.Map); isMap {
			if ok, why := s.proveTwoPassUnionSum(g); ok {
				return g.Name() + " proved symmetric as a two-pass sum over the union of keys"
			} else {
				s.used["!"+g.Name()] = true
				s.subWhy = g.Name() + " is not shown swap-invariant (" + why + ")"
				return ""
			}
		}
	}
	if s.depth > 3 || len(g.Params) != 2 || g.Blocks == nil {
		return ""
	}
	sub := &symProver{p: s.p, fn: g, a: g.Params[0], b: g.Params[1], state: map[[2]ssa.Value]int{}, assumed: s.assumed, used: s.used, depth: s.depth + 1}
	if sub.prove() {
		return g.Name() + " proved swap-invariant"
	}
	s.used["!"+g.Name()] = true
	s.subWhy = g.Name() + " is not shown swap-invariant (" + sub.why + ")"
	return ""
}

// prove: every result and every control condition of fn is swap-invariant.
func (s *symProver) prove() bool {
	if s.fn.Blocks == nil || !pureFunc(s.p, s.fn, 0) {
		return s.fail("%s has side effects or no body", s.fn.Name())
	}
	// control: every If is invariant by itself or a member of a short-circuit chain whose condition set is invariant
	var ifs []*ssa.If
	for _, b := range s.fn.Blocks {
		if len(b.Instrs) > 0 {
			if ifi, ok := b.Instrs[len(b.Instrs)-1].(*ssa.If); ok && !s.skip[b] {
				ifs = append(ifs, ifi)
			}
		}
	}
	for _, ifi := range ifs {
		if s.try(func() bool { return s.eq(ifi.Cond, ifi.Cond) }) {
			continue
		}
		// partner in a chain: another If with the mirrored condition, adjacent through one arm and sharing the other
		found := false
		for _, o := range ifs {
			if o == ifi {
				continue
			}
			for arm := 0; arm < 2; arm++ {
				shared, next := ifi.Block().Succs[arm], ifi.Block().Succs[1-arm]
				adjacent := (next == o.Block() && o.Block().Succs[arm] == shared) || (o.Block().Succs[1-arm] == ifi.Block() && o.Block().Succs[arm] == shared)
				if !adjacent || !onlyPure(o.Block()) || !onlyPure(ifi.Block()) && next == o.Block() {
					continue
				}
				if !samePhiInputs(shared, ifi.Block(), o.Block()) {
					continue
				}
				if s.try(func() bool { return s.eq(ifi.Cond, o.Cond) && s.eq(o.Cond, ifi.Cond) }) {
					found = true
				}
			}
		}
		if !found {
			return s.fail("branch condition %s at %s is neither swap-invariant nor mirrored by its neighbour in a short-circuit chain", core.Canon(ifi.Cond), s.p.Pos(ifi.Cond.Pos()))
		}
	}
	for _, ret := range core.Returns(s.fn) {
		for _, res := range ret.Results {
			if !s.eq(res, res) {
				return false
			}
		}
	}
	return true
}

// onlyPure: the block holds nothing but value computations and its terminator.
func onlyPure(b *ssa.BasicBlock) bool {
	for _, in := range b.Instrs {
		switch x := in.(type) {
		case *ssa.Store, *ssa.MapUpdate, *ssa.Send, *ssa.Go, *ssa.Defer, *ssa.Panic, *ssa.RunDefers:
			return false
		case *ssa.Call:
			if _, isB := x.Call.Value.(*ssa.Builtin); !isB {
				return false
			}
		}
	}
	return true
}

// samePhiInputs: phis of blk receive the same value from predecessors p1 and p2.
func samePhiInputs(blk, p1, p2 *ssa.BasicBlock) bool {
	i1, i2 := -1, -1
	for i, pr := range blk.Preds {
		if pr == p1 {
			i1 = i
		}
		if pr == p2 {
			i2 = i
		}
	}
	if i1 < 0 || i2 < 0 {
		return false
	}
	for _, in := range blk.Instrs {
		ph, ok := in.(*ssa.Phi)
		if !ok {
			break
		}
		if ph.Edges[i1] != ph.Edges[i2] {
			c1, ok1 := ph.Edges[i1].(*ssa.Const)
			c2, ok2 := ph.Edges[i2].(*ssa.Const)
			if !(ok1 && ok2 && c1.Value != nil && c2.Value != nil && c1.Value.ExactString() == c2.Value.ExactString()) {
				return false
			}
		}
	}
	return true
}

// pureFunc: no stores to non-local memory, no map updates, sends, goroutines, defers or calls to impure functions.
func pureFunc(p *core.Program, fn *ssa.Function, d int) bool {
	if fn.Blocks == nil {
		switch fn.String() {
		case "math.Abs", "math.Max", "math.Min", "math.Sqrt", "math.Floor", "math.Ceil":
			return true
		}
		return false
	}
	if d > 4 {
		return false
	}
	pure := true
	core.InstrsOf(fn, func(in ssa.Instruction) {
		switch x := in.(type) {
		case *ssa.Store:
			if _, local := x.Addr.(*ssa.Alloc); !local {
				if ia, ok := x.Addr.(*ssa.IndexAddr); ok {
					if _, local := ia.X.(*ssa.Alloc); local {
						return
					}
				}
				pure = false
			}
		case *ssa.MapUpdate, *ssa.Send, *ssa.Go, *ssa.Defer, *ssa.Panic:
			pure = false
		case *ssa.Call:
			if _, isB := x.Call.Value.(*ssa.Builtin); isB {
				return
			}
			g := core.StaticCallee(&x.Call)
			if g == nil || !pureFunc(p, g, d+1) {
				pure = false
			}
		}
	})
	return pure
}

// isMinMaxFn: func(x, y T) T for an integer or string T with one comparison of x and y whose arms return the two
// different parameters.
func isMinMaxFn(g *ssa.Function) bool { return minMaxKind(g) != "" }

// minMaxKind returns "min" or "max" for such a selector function, "" otherwise.
func minMaxKind(g *ssa.Function) string {
	if !isMinMaxShape(g) {
		return ""
	}
	var ifi *ssa.If
	for _, b := range g.Blocks {
		if x, ok := b.Instrs[len(b.Instrs)-1].(*ssa.If); ok {
			ifi = x
		}
	}
	c := ifi.Cond.(*ssa.BinOp)
	// which operand is returned when the condition holds
	t := minMaxArm(ifi, 0)
	smallerFirst := c.Op == token.LSS || c.Op == token.LEQ // c.X < c.Y
	if (t == c.X) == smallerFirst {
		return "min"
	}
	return "max"
}

func minMaxArm(ifi *ssa.If, arm int) ssa.Value {
	blk, from := ifi.Block().Succs[arm], ifi.Block()
	for d := 0; d < 3; d++ {
		last := blk.Instrs[len(blk.Instrs)-1]
		if r, ok := last.(*ssa.Return); ok && len(r.Results) == 1 {
			if ph, ok := r.Results[0].(*ssa.Phi); ok && ph.Block() == blk {
				for i, pr := range blk.Preds {
					if pr == from {
						return ph.Edges[i]
					}
				}
				return nil
			}
			return r.Results[0]
		}
		if _, ok := last.(*ssa.Jump); ok {
			from, blk = blk, blk.Succs[0]
			continue
		}
		return nil
	}
	return nil
}

func isMinMaxShape(g *ssa.Function) bool {
	if len(g.Params) != 2 || g.Blocks == nil || !types.Identical(g.Params[0].Type(), g.Params[1].Type()) {
		return false
	}
	bt, ok := g.Params[0].Type().Underlying().(*types.Basic)
	if !ok || bt.Info()&(types.IsInteger|types.IsString) == 0 {
		return false
	}
	nIf := 0
	var ifi *ssa.If
	for _, b := range g.Blocks {
		for _, in := range b.Instrs {
			switch x := in.(type) {
			case *ssa.If:
				nIf++
				ifi = x
			case *ssa.BinOp, *ssa.Return, *ssa.Jump, *ssa.Phi, *ssa.DebugRef:
			default:
				return false
			}
		}
	}
	if nIf != 1 {
		return false
	}
	c, ok := ifi.Cond.(*ssa.BinOp)
	if !ok || symMirror[c.Op] == 0 {
		return false
	}
	x, y := ssa.Value(g.Params[0]), ssa.Value(g.Params[1])
	if !((c.X == x && c.Y == y) || (c.X == y && c.Y == x)) {
		return false
	}
	t, f := minMaxArm(ifi, 0), minMaxArm(ifi, 1)
	return t != nil && f != nil && t != f && (t == x || t == y) && (f == x || f == y)
}

// isEvenFn: func(x T) T returning x or -x depending on a comparison of x with 0.
func isEvenFn(g *ssa.Function) bool {
	if g.String() == "math.Abs" {
		return true
	}
	if len(g.Params) != 1 || g.Blocks == nil {
		return false
	}
	x := ssa.Value(g.Params[0])
	okShape := true
	sawNeg, sawPos, sawCmp := false, false, false
	core.InstrsOf(g, func(in ssa.Instruction) {
		switch v := in.(type) {
		case *ssa.If, *ssa.Jump, *ssa.DebugRef, *ssa.Phi:
		case *ssa.BinOp:
			z, isZ := core.ConstInt(v.Y)
			zf, isZF := core.ConstFloat(v.Y)
			if v.X == x && symMirror[v.Op] != 0 && ((isZ && z == 0) || (isZF && zf == 0)) {
				sawCmp = true
			} else {
				okShape = false
			}
		case *ssa.UnOp:
			if v.Op == token.SUB && v.X == x {
				sawNeg = true
			} else {
				okShape = false
			}
		case *ssa.Return:
			for _, res := range v.Results {
				for _, o := range core.Origins(res) {
					if o == x {
						sawPos = true
					} else if u, ok := o.(*ssa.UnOp); ok && u.Op == token.SUB && u.X == x {
						sawNeg = true
					} else {
						okShape = false
					}
				}
			}
		default:
			okShape = false
		}
	})
	return okShape && sawNeg && sawPos && sawCmp
}

// c19Sym: the structural similarity used for rename detection is symmetric in its two arguments.
func c19Sym(r *core.Run) {
	p := r.P
	sim := p.Func("pkg/analysis/topology", "TopologySimilarity")
	if sim == nil || len(sim.Params) != 2 {
		r.Floor("C19.SYM", "structural similarity function (two topologies → float64)", 0, 1)
		return
	}
	assumed := map[*ssa.Function]string{}
	s := &symProver{p: p, fn: sim, a: sim.Params[0], b: sim.Params[1], state: map[[2]ssa.Value]int{}, assumed: assumed, used: map[string]bool{}}
	ok := s.prove()
	var lemmas []string
	for l := range s.used {
		if !strings.HasPrefix(l, "!") {
			lemmas = append(lemmas, l)
		}
	}
	sortStrings(lemmas)
	r.Check(ok, "C19.SYM", core.FuncName(sim)+"#swap-invariant", sim.Pos(), "sim(a,b) = sim(b,a) by structural induction; lemmas: "+strings.Join(lemmas, "; "), "cannot establish sim(a,b) = sim(b,a): "+s.why+" — a rename can be detected in one direction of the diff and missed in the other")
	for _, l := range lemmas {
		if strings.HasPrefix(l, "ASSUMED:") {
			r.Note("C19.SYM relies on an undecided lemma — %s", l)
		}
	}
	r.Floor("C19.SYM", "structural similarity function (two topologies → float64)", 1, 1)
}

func sortStrings(s []string) {
	for i := 1; i < len(s); i++ {
		for j := i; j > 0 && s[j] < s[j-1]; j-- {
			s[j], s[j-1] = s[j-1], s[j]
		}
	}
}

// ---- two-pass union sums: f(X, Y) = R(Σ_{k∈X} e(X[k], Y[k] or 0) + Σ_{k∈Y, k∉X} h(Y[k]), …)
//
// Such a function is symmetric if (O1) every per-key term e is symmetric in its two counts, (O2) the second pass adds
// for a key that only Y has exactly what the first pass would add for a key that only X has — h(c) = e(c, 0) — and
// (O3) the final expression R treats the accumulated sums (and anything else) symmetrically. e(c, 0) is simplified
// with min(c,0) = 0 and max(c,0) = c, which holds for non-negative counts (a stated assumption).

func (s *symProver) proveTwoPassUnionSum(g *ssa.Function) (bool, string) {
	if len(g.Params) != 2 || g.Blocks == nil {
		return false, "not a two-parameter function"
	}
	type pass struct {
		over, other ssa.Value
		header      *ssa.BasicBlock
		body        map[*ssa.BasicBlock]bool
		key, val    ssa.Value
	}
	var passes []pass
	core.InstrsOf(g, func(in ssa.Instruction) {
		rg, ok := in.(*ssa.Range)
		if !ok {
			return
		}
		var other ssa.Value
		switch rg.X {
		case ssa.Value(g.Params[0]):
			other = g.Params[1]
		case ssa.Value(g.Params[1]):
			other = g.Params[0]
		default:
			return
		}
		if rg.Referrers() == nil {
			return
		}
		for _, ref := range *rg.Referrers() {
			nx, ok := ref.(*ssa.Next)
			if !ok || nx.Referrers() == nil {
				continue
			}
			p := pass{over: rg.X, other: other, header: nx.Block(), body: loopBody(nx.Block())}
			for _, r2 := range *nx.Referrers() {
				if ex, ok := r2.(*ssa.Extract); ok {
					switch ex.Index {
					case 1:
						p.key = ex
					case 2:
						p.val = ex
					}
				}
			}
			passes = append(passes, p)
		}
	})
	if len(passes) != 2 || passes[0].over == passes[1].over {
		return false, fmt.Sprintf("expected one pass over each of the two maps, found %d", len(passes))
	}
	p1, p2 := passes[0], passes[1]
	if p2.header.Dominates(p1.header) {
		p1, p2 = p2, p1
	}
	if p1.val == nil || p2.val == nil || p2.key == nil {
		return false, "a pass does not use both key and value"
	}
	// value-or-zero lookups of the other map under the first pass's key
	isOtherCount := func(v ssa.Value) bool {
		switch x := v.(type) {
		case *ssa.Lookup:
			return !x.CommaOk && x.X == p1.other && x.Index == p1.key
		case *ssa.Extract:
			lk, ok := x.Tuple.(*ssa.Lookup)
			return ok && x.Index == 0 && lk.X == p1.other && lk.Index == p1.key
		}
		return false
	}
	// accumulators of pass 1
	type acc struct {
		ph1   *ssa.Phi
		e     ssa.Value // per-key term of pass 1 (nil = none)
		ph2   *ssa.Phi
		h     ssa.Value // per-key term of pass 2 (nil = none)
		final ssa.Value
	}
	var accs []*acc
	termOf := func(ph *ssa.Phi, body map[*ssa.BasicBlock]bool) (terms []ssa.Value, ok bool) {
		for i, e := range ph.Edges {
			if !body[ph.Block().Preds[i]] {
				continue // initial value
			}
			if e == ssa.Value(ph) {
				continue // unchanged on this path
			}
			b, isAdd := e.(*ssa.BinOp)
			if !isAdd || b.Op != token.ADD {
				return nil, false
			}
			switch {
			case b.X == ssa.Value(ph):
				terms = append(terms, b.Y)
			case b.Y == ssa.Value(ph):
				terms = append(terms, b.X)
			default:
				return nil, false
			}
		}
		return terms, true
	}
	for _, in := range p1.header.Instrs {
		ph, ok := in.(*ssa.Phi)
		if !ok {
			break
		}
		ts, ok := termOf(ph, p1.body)
		if !ok || len(ts) > 1 {
			return false, "accumulator " + ph.Comment + " is not updated as acc += term in the first pass"
		}
		a := &acc{ph1: ph, final: ph}
		if len(ts) == 1 {
			a.e = ts[0]
		}
		accs = append(accs, a)
	}
	notInFirst := func(cond ssa.Value) (bool, bool) {
		base, neg := core.StripNot(cond)
		ex, ok := base.(*ssa.Extract)
		if !ok || ex.Index != 1 {
			return false, false
		}
		lk, ok := ex.Tuple.(*ssa.Lookup)
		if !ok || !lk.CommaOk || lk.X != p2.other || lk.Index != p2.key {
			return false, false
		}
		return true, neg // pass when "present" is false
	}
	for _, in := range p2.header.Instrs {
		ph, ok := in.(*ssa.Phi)
		if !ok {
			break
		}
		ts, ok := termOf(ph, p2.body)
		if !ok || len(ts) > 1 {
			return false, "accumulator " + ph.Comment + " is not updated as acc += term in the second pass"
		}
		var init ssa.Value
		for i, e := range ph.Edges {
			if !p2.body[ph.Block().Preds[i]] {
				init = e
			}
		}
		var a *acc
		for _, c := range accs {
			if init == ssa.Value(c.ph1) {
				a = c
			}
		}
		if a == nil {
			a = &acc{}
			accs = append(accs, a)
		}
		a.ph2, a.final = ph, ph
		if len(ts) == 1 {
			a.h = ts[0]
			// the update happens only for keys the first map does not have
			add := ts[0]
			var addBlock *ssa.BasicBlock
			for _, e := range ph.Edges {
				if b, ok := e.(*ssa.BinOp); ok && (b.X == add || b.Y == add) {
					addBlock = b.Block()
				}
			}
			if addBlock == nil {
				return false, "cannot locate the second pass's update"
			}
			ok1, n1, _ := core.MustPassFrom(g, p2.header, addBlock, notInFirst, nil)
			if !(ok1 && n1 > 0) {
				return false, "the second pass adds for keys that the first map has as well (double counting for shared keys on one side only)"
			}
		}
	}
	// simplification of e(c, 0)
	var simp func(v ssa.Value, cnt ssa.Value, zero func(ssa.Value) bool, d int) string
	simp = func(v ssa.Value, cnt ssa.Value, zero func(ssa.Value) bool, d int) string {
		if d > 8 {
			return "?"
		}
		if v == cnt {
			return "c"
		}
		if zero != nil && zero(v) {
			return "0"
		}
		switch x := v.(type) {
		case *ssa.Const:
			if k, ok := core.ConstInt(x); ok {
				return fmt.Sprint(k)
			}
		case *ssa.Convert:
			return simp(x.X, cnt, zero, d+1)
		case *ssa.BinOp:
			a, b := simp(x.X, cnt, zero, d+1), simp(x.Y, cnt, zero, d+1)
			switch x.Op {
			case token.ADD:
				if a == "0" {
					return b
				}
				if b == "0" {
					return a
				}
			case token.MUL:
				if a == "0" || b == "0" {
					return "0"
				}
			}
			return "(" + a + x.Op.String() + b + ")"
		case *ssa.Call:
			kind := ""
			if bi, ok := x.Call.Value.(*ssa.Builtin); ok && (bi.Name() == "min" || bi.Name() == "max") {
				kind = bi.Name()
			} else if callee := core.StaticCallee(&x.Call); callee != nil {
				kind = minMaxKind(callee)
			}
			if kind != "" && len(x.Call.Args) == 2 {
				a, b := simp(x.Call.Args[0], cnt, zero, d+1), simp(x.Call.Args[1], cnt, zero, d+1)
				other := ""
				switch {
				case a == "0":
					other = b
				case b == "0":
					other = a
				}
				if other == "c" { // counts are non-negative
					if kind == "min" {
						return "0"
					}
					return "c"
				}
				return kind + "(" + a + "," + b + ")"
			}
		}
		return "?" + core.Canon(v)
	}
	for _, a := range accs {
		name := "accumulator"
		if a.ph1 != nil {
			name = a.ph1.Comment
		} else if a.ph2 != nil {
			name = a.ph2.Comment
		}
		// (O1)
		if a.e != nil {
			sub := &symProver{p: s.p, fn: g, a: g.Params[0], b: g.Params[1], state: map[[2]ssa.Value]int{}, assumed: s.assumed, used: s.used, depth: s.depth + 1, mirror: map[ssa.Value]ssa.Value{}}
			core.InstrsOf(g, func(in ssa.Instruction) {
				if v, ok := in.(ssa.Value); ok && isOtherCount(v) {
					sub.mirror[v] = p1.val
					sub.mirror[p1.val] = v
				}
			})
			if len(sub.mirror) == 0 {
				return false, "the first pass does not consult the other map under the same key"
			}
			if !sub.eq(a.e, a.e) {
				return false, "the per-key term of " + name + " is not symmetric in the two counts: " + sub.why
			}
		}
		// (O2)
		want := "0"
		if a.e != nil {
			want = simp(a.e, p1.val, isOtherCount, 0)
		}
		got := "0"
		if a.h != nil {
			got = simp(a.h, p2.val, nil, 0)
		}
		if want != got {
			return false, fmt.Sprintf("for a key that only one map has, %s receives %s when it is in the first map but %s when it is in the second", name, want, got)
		}
	}
	// (O3)
	fin := &symProver{p: s.p, fn: g, a: g.Params[0], b: g.Params[1], state: map[[2]ssa.Value]int{}, assumed: s.assumed, used: s.used, depth: s.depth + 1, mirror: map[ssa.Value]ssa.Value{}, skip: map[*ssa.BasicBlock]bool{}}
	for _, a := range accs {
		if a.final != nil {
			fin.mirror[a.final] = a.final
		}
		if a.ph1 != nil {
			fin.mirror[a.ph1] = a.ph1
		}
	}
	for b := range p1.body {
		fin.skip[b] = true
	}
	for b := range p2.body {
		fin.skip[b] = true
	}
	if !fin.prove() {
		return false, "the result is not a symmetric function of the accumulated sums: " + fin.why
	}
	s.used["ASSUMED: the counts stored in a frequency map are non-negative (min(c,0)=0, max(c,0)=c)"] = true
	return true, ""
}
