package rules

import (
	"fmt"
	"go/ast"
	"go/constant"
	"go/token"
	"go/types"
	"reflect"
	"sort"
	"strings"

	"golang.org/x/tools/go/packages"
	"golang.org/x/tools/go/ssa"

	"sfwverif/internal/core"
)

func init() { register("C14", c14) }

func sandboxPath(p *core.Program) string { return p.ModPath + "/internal/sandbox" }

// unAddr strips &( ... ) and parentheses.
func unAddr(e ast.Expr) ast.Expr {
	for {
		switch x := e.(type) {
		case *ast.ParenExpr:
			e = x.X
		case *ast.UnaryExpr:
			if x.Op == token.AND {
				e = x.X
				continue
			}
			return e
		default:
			return e
		}
	}
}

func litField(cl *ast.CompositeLit, name string) ast.Expr {
	if cl == nil {
		return nil
	}
	for _, e := range cl.Elts {
		if kv, ok := e.(*ast.KeyValueExpr); ok {
			if id, ok := kv.Key.(*ast.Ident); ok && id.Name == name {
				return kv.Value
			}
		}
	}
	return nil
}

func asLit(e ast.Expr) *ast.CompositeLit {
	if e == nil {
		return nil
	}
	cl, _ := unAddr(e).(*ast.CompositeLit)
	return cl
}

func constOf(pkg *packages.Package, e ast.Expr) constant.Value {
	if e == nil {
		return nil
	}
	if tv, ok := pkg.TypesInfo.Types[e]; ok {
		return tv.Value
	}
	return nil
}

func c14(r *core.Run) {
	p := r.P
	sp := sandboxPath(p)
	r.Explain = "C14 decided structurally: (SPEC) production code builds a sandbox.Spec at exactly one place, whose security fields are constants that do not depend on the request — read-only root, NoNewPrivileges, every listed capability set an empty literal, namespaces ⊇ {pid,network,ipc,uts,mount,user}, positive memory/pid limits, GOPROXY=off in the environment — no other function stores to a field of the spec's types, and the runtime is invoked with --network=none; (RO) every Mount literal with a host source is a bind mount whose options contain ro; (RESERVED) a user mount is appended only after Abs succeeded, the reserved-path lookup failed and EvalSymlinks succeeded, with destination = Abs result and source = resolved path, and every fixed mount destination is in the reserved set; (ORDER) the mounts placed in the spec are the very slice that was stably sorted by Destination with <; (ESCAPE) mount points are created only after the Rel-based escape check passed. Not decided: whether paths *under* a reserved path should be refused (only equality is enforced), runsc's own enforcement."
	r.Undecided = []string{"paths under (not equal to) a reserved path", "the container runtime's enforcement of the specification"}
	r.Assume = []string{"lexicographic order of destinations mounts a parent before its children (a parent path is a strict prefix of its children)"}

	lits := compositeLits(p, sp, "Spec")
	if len(lits) != 1 {
		r.Fail("C14.SPEC", "sandbox.Spec#construction-sites", token.NoPos, fmt.Sprintf("%d construction sites of sandbox.Spec in production code (expected exactly 1)", len(lits)))
		if len(lits) == 0 {
			return
		}
	} else {
		r.OK("C14.SPEC", "sandbox.Spec#construction-sites", lits[0].Lit.Pos(), "exactly one construction site")
	}
	for _, l := range lits {
		c14Spec(r, l)
	}
	// who may store to fields of the spec types
	specTypes := map[string]bool{"Spec": true, "Process": true, "Root": true, "Capabilities": true, "Linux": true, "Resources": true, "Memory": true, "Pids": true, "Namespace": true, "Mount": true}
	allowed := map[*ssa.Function]bool{}
	for _, l := range lits {
		name := enclosingFuncName(l.Pkg, l.File, l.Lit.Pos())
		for _, fn := range p.Funcs {
			if core.FuncName(fn) == name {
				allowed[fn] = true
			}
		}
	}
	constructors := map[*ssa.Function]bool{}
	for fn := range allowed {
		constructors[fn] = true
	}
	// ... and the helpers it calls (same package, statically, to depth 3): their results flow into the same literal
	for d := 0; d < 3; d++ {
		for fn := range allowed {
			for _, nf := range core.Nest(fn) {
				core.InstrsOf(nf, func(in ssa.Instruction) {
					if c := core.CallOf(in); c != nil {
						if g := core.StaticCallee(c); g != nil && p.IsProdFunc(g) && g.Pkg == fn.Pkg && g.Blocks != nil {
							allowed[g] = true
						}
					}
				})
			}
		}
	}
	nStores := 0
	for _, fn := range p.Funcs {
		core.InstrsOf(fn, func(in ssa.Instruction) {
			st, ok := in.(*ssa.Store)
			if !ok {
				return
			}
			fa, ok := st.Addr.(*ssa.FieldAddr)
			if !ok {
				return
			}
			n, isNamed := core.Deref(fa.X.Type()).(*types.Named)
			if !isNamed || n.Obj().Pkg() == nil || n.Obj().Pkg().Path() != sp || !specTypes[n.Obj().Name()] {
				return
			}
			nStores++
			root := fn
			for root.Parent() != nil {
				root = root.Parent()
			}
			if !allowed[root] {
				r.Fail("C14.SPEC", core.FuncName(fn)+"#store("+n.Obj().Name()+"."+core.FieldName(fa.X.Type(), fa.Field)+")", st.Pos(), "a field of the container specification is written outside the single construction site")
			}
		})
	}
	r.Floor("C14.SPEC", "field stores building the specification", nStores, 10)

	c14Mounts(r)
	c14Runtime(r)
	c14Reserved(r, constructors)
	c14Escape(r)
	c14Adapter(r)
	c14Tags(r)
}

func c14Spec(r *core.Run, l litSite) {
	pkg := l.Pkg
	pos := l.Lit.Pos()
	isTrue := func(e ast.Expr) bool {
		v := constOf(pkg, e)
		return v != nil && v.Kind() == constant.Bool && constant.BoolVal(v)
	}
	positive := func(e ast.Expr) (string, bool) {
		v := constOf(pkg, e)
		if v == nil || v.Kind() != constant.Int {
			return "non-constant", false
		}
		return v.ExactString(), constant.Sign(v) > 0
	}
	root := asLit(l.field("Root"))
	r.Check(root != nil && isTrue(litField(root, "Readonly")), "C14.SPEC", "sandbox.Spec.Root.Readonly", pos, "root file system is read-only (constant true)", "Root.Readonly is not the constant true")
	proc := asLit(l.field("Process"))
	r.Check(proc != nil && isTrue(litField(proc, "NoNewPrivileges")), "C14.SPEC", "sandbox.Spec.Process.NoNewPrivileges", pos, "no-new-privileges is constant true", "Process.NoNewPrivileges is not the constant true")
	caps := asLit(litField(proc, "Capabilities"))
	if caps == nil {
		r.Fail("C14.SPEC", "sandbox.Spec.Process.Capabilities", pos, "capabilities are not an in-place literal")
	} else {
		n := 0
		for _, e := range caps.Elts {
			kv, ok := e.(*ast.KeyValueExpr)
			if !ok {
				r.Fail("C14.SPEC", "sandbox.Spec.Process.Capabilities", pos, "unkeyed capability literal")
				continue
			}
			n++
			name := kv.Key.(*ast.Ident).Name
			set := asLit(kv.Value)
			r.Check(set != nil && len(set.Elts) == 0, "C14.SPEC", "sandbox.Spec.Process.Capabilities."+name, kv.Pos(), "capability set is an empty literal", "capability set "+name+" is not empty: the sandboxed process keeps capabilities")
		}
		r.Floor("C14.SPEC", "explicit (empty) capability sets", n, 2)
	}
	lin := asLit(l.field("Linux"))
	ns := asLit(litField(lin, "Namespaces"))
	have := map[string]bool{}
	if ns != nil {
		for _, e := range ns.Elts {
			if v := constOf(pkg, litField(asLit(e), "Type")); v != nil && v.Kind() == constant.String {
				have[constant.StringVal(v)] = true
			}
		}
	}
	for _, want := range []string{"network", "pid", "ipc", "uts", "mount", "user"} {
		r.Check(have[want], "C14.SPEC", "sandbox.Spec.Linux.Namespaces("+want+")", pos, "own "+want+" namespace", "the "+want+" namespace is not unshared"+map[bool]string{true: ": the sandbox shares the host network", false: ""}[want == "network"])
	}
	res := asLit(litField(lin, "Resources"))
	mem, okM := positive(litField(asLit(litField(res, "Memory")), "Limit"))
	r.Check(okM, "C14.SPEC", "sandbox.Spec.Linux.Resources.Memory.Limit", pos, "memory limit is the positive constant "+mem, "memory limit is "+mem+", not a positive constant")
	pids, okP := positive(litField(asLit(litField(res, "Pids")), "Limit"))
	r.Check(okP, "C14.SPEC", "sandbox.Spec.Linux.Resources.Pids.Limit", pos, "pid limit is the positive constant "+pids, "pid limit is "+pids+", not a positive constant")
	// every resource limit has a constant of its own: a constant that feeds two different limits means one of them
	// carries another resource's number (the PID limit set from the CPU-share constant)
	used := map[types.Object][]string{}
	var walkRes func(lit *ast.CompositeLit, path string)
	walkRes = func(lit *ast.CompositeLit, path string) {
		if lit == nil {
			return
		}
		for _, e := range lit.Elts {
			kv, ok := e.(*ast.KeyValueExpr)
			if !ok {
				continue
			}
			k, _ := kv.Key.(*ast.Ident)
			if k == nil {
				continue
			}
			v := ast.Unparen(kv.Value)
			if u, isU := v.(*ast.UnaryExpr); isU {
				v = u.X
			}
			if sub := asLit(v); sub != nil {
				walkRes(sub, path+"."+k.Name)
				continue
			}
			ast.Inspect(kv.Value, func(nd ast.Node) bool {
				if id, isID := nd.(*ast.Ident); isID {
					if obj, isC := pkg.TypesInfo.Uses[id].(*types.Const); isC {
						used[obj] = append(used[obj], path+"."+k.Name)
					}
				}
				return true
			})
		}
	}
	walkRes(res, "Resources")
	nConst := 0
	for obj, where := range used {
		nConst++
		sort.Strings(where)
		r.Check(len(where) == 1, "C14.SPEC", "sandbox.Spec.Linux.Resources#one-constant-per-limit("+obj.Name()+")", pos, obj.Name()+" feeds "+where[0], "the constant "+obj.Name()+" feeds "+strings.Join(where, " and ")+": one of these limits carries another resource's number")
	}
	r.Floor("C14.SPEC", "named constants feeding the resource limits", nConst, 2)
}

func c14Runtime(r *core.Run) {
	p := r.P
	// GOPROXY=off in the Process.Env value; --network=none in the runtime argv
	envOK, netOK := 0, 0
	for _, fn := range p.FuncsIn("internal/sandbox") {
		core.InstrsOf(fn, func(in ssa.Instruction) {
			if st, ok := in.(*ssa.Store); ok {
				if fa, ok := st.Addr.(*ssa.FieldAddr); ok && core.IsNamed(fa.X.Type(), sandboxPath(p), "Process") && core.FieldName(fa.X.Type(), fa.Field) == "Env" {
					found := false
					var walk func(v ssa.Value, d int)
					walk = func(v ssa.Value, d int) {
						if d > 6 {
							return
						}
						for _, o := range core.Origins(v) {
							if ap, ok := isBuiltinCall(o, "append"); ok {
								walk(ap.Call.Args[0], d+1)
								continue
							}
							if elems, ok := varargElems(o); ok {
								for _, e := range elems {
									if s, ok := core.ConstString(e); ok && s == "GOPROXY=off" {
										found = true
									}
								}
							}
						}
					}
					walk(st.Val, 0)
					envOK++
					r.Check(found, "C14.SPEC", "sandbox.Spec.Process.Env(GOPROXY=off)", st.Pos(), "the sandbox environment literal contains GOPROXY=off", "GOPROXY=off is missing from the sandbox environment: the module proxy is reachable by name")
				}
			}
			c, ok := in.(*ssa.Call)
			if !ok || len(c.Call.Args) == 0 {
				return
			}
			last := c.Call.Args[len(c.Call.Args)-1]
			elems, ok := varargElems(last)
			if !ok {
				return
			}
			var strs []string
			for _, e := range elems {
				if s, ok := core.ConstString(e); ok {
					strs = append(strs, s)
				}
			}
			joined := " " + strings.Join(strs, " ") + " "
			if strings.Contains(joined, " run ") && strings.Contains(joined, " --bundle ") {
				netOK++
				r.Check(strings.Contains(joined, " --network=none "), "C14.SPEC", core.FuncName(fn)+"#runtime-argv(--network=none)", c.Pos(), "the container runtime is started with --network=none", "the container runtime is started without --network=none")
			}
		})
	}
	r.Floor("C14.SPEC", "store of Process.Env", envOK, 1)
	r.Floor("C14.SPEC", "container runtime invocation (argv with run --bundle)", netOK, 1)
}

func c14Mounts(r *core.Run) {
	p := r.P
	lits := compositeLits(p, sandboxPath(p), "Mount")
	n := 0
	for _, l := range lits {
		if len(l.Lit.Elts) == 0 {
			continue // Mount{}: the zero value returned next to an error, mounts nothing
		}
		src := l.field("Source")
		sv := constOf(l.Pkg, src)
		where := enclosingFuncName(l.Pkg, l.File, l.Lit.Pos())
		if sv != nil && sv.Kind() == constant.String {
			s := constant.StringVal(sv)
			if s == "proc" || s == "tmpfs" || s == "sysfs" || s == "devpts" {
				continue // pseudo file system, not a host path
			}
		}
		n++
		key := where + "#Mount{Source:" + types.ExprString(src) + "}"
		tv := constOf(l.Pkg, l.field("Type"))
		isBind := tv != nil && tv.Kind() == constant.String && constant.StringVal(tv) == "bind"
		hasRO := false
		if opts := asLit(l.field("Options")); opts != nil {
			for _, e := range opts.Elts {
				if v := constOf(l.Pkg, e); v != nil && v.Kind() == constant.String && constant.StringVal(v) == "ro" {
					hasRO = true
				}
			}
		}
		r.Check(isBind && hasRO, "C14.RO", key, l.Lit.Pos(), "host path is bind-mounted with ro", "a host path is mounted without \"ro\" (or not as a bind mount): the sandbox can write to the host")
	}
	r.Floor("C14.RO", "Mount literals with a host source", n, 4)
	// no Mount is built or modified by field stores outside literals with non-literal Options
	for _, fn := range p.Funcs {
		core.InstrsOf(fn, func(in ssa.Instruction) {
			st, ok := in.(*ssa.Store)
			if !ok {
				return
			}
			if fa, ok := st.Addr.(*ssa.FieldAddr); ok && core.IsNamed(fa.X.Type(), sandboxPath(p), "Mount") && core.FieldName(fa.X.Type(), fa.Field) == "Options" {
				if _, isLit := varargElems(st.Val); !isLit {
					r.Fail("C14.RO", core.FuncName(fn)+"#Mount.Options", st.Pos(), "mount options are not a literal: "+core.Canon(st.Val))
				}
			}
		})
	}
}

func c14Reserved(r *core.Run, specFuncs map[*ssa.Function]bool) {
	p := r.P
	for _, fn := range core.SortedFuncs(specFuncs) {
		fnm := core.FuncName(fn)
		// reserved set: MapUpdates with constant true into a map[string]bool
		reserved := map[string]bool{}
		var reservedMap ssa.Value
		core.InstrsOf(fn, func(in ssa.Instruction) {
			if mu, ok := in.(*ssa.MapUpdate); ok {
				if k, ok := core.ConstString(mu.Key); ok {
					reserved[k] = true
					reservedMap = mu.Map
				}
			}
		})
		r.Floor("C14.RESERVED", "reserved sandbox paths in "+fnm, len(reserved), 4)
		// fixed destinations must be reserved; user mounts are built here or in a helper that is handed the
		// reserved set (the helper's parameter then stands for it)
		type mctx struct {
			f    *ssa.Function
			rmap ssa.Value
		}
		ctxs := []mctx{{fn, reservedMap}}
		core.InstrsOf(fn, func(in ssa.Instruction) {
			c := core.CallOf(in)
			if c == nil {
				return
			}
			g := core.StaticCallee(c)
			if g == nil || !p.IsProdFunc(g) || g.Pkg != fn.Pkg || g.Blocks == nil || g == fn {
				return
			}
			for i, a := range c.Args {
				if reservedMap != nil && i < len(g.Params) && (a == reservedMap || slotOf(a) == slotOf(reservedMap)) {
					ctxs = append(ctxs, mctx{g, g.Params[i]})
				}
			}
		})
		var fixed []string
		type userMount struct {
			st   *ssa.Store
			f    *ssa.Function
			rmap ssa.Value
		}
		var userDest []userMount
		for _, cx := range ctxs {
			cx := cx
			core.InstrsOf(cx.f, func(in ssa.Instruction) {
				st, ok := in.(*ssa.Store)
				if !ok {
					return
				}
				fa, ok := st.Addr.(*ssa.FieldAddr)
				if !ok || !core.IsNamed(fa.X.Type(), sandboxPath(p), "Mount") || core.FieldName(fa.X.Type(), fa.Field) != "Destination" {
					return
				}
				if s, ok := core.ConstString(st.Val); ok {
					fixed = append(fixed, s)
					return
				}
				// destination from filepath.Abs of a requested mount → user mount
				for _, o := range core.Origins(st.Val) {
					if ex, ok := o.(*ssa.Extract); ok {
						if _, isAbs := callTo(ex.Tuple, "path/filepath.Abs"); isAbs {
							userDest = append(userDest, userMount{st, cx.f, cx.rmap})
						}
					}
				}
			})
		}
		sort.Strings(fixed)
		for _, d := range fixed {
			r.Check(reserved[d], "C14.RESERVED", fnm+"#fixed-destination("+d+")", fn.Pos(), "fixed sandbox mount point is reserved", "fixed sandbox mount point "+d+" is not in the reserved set: a requested path can shadow it")
		}
		if !r.Floor("C14.RESERVED", "user-mount construction (Destination from filepath.Abs) in "+fnm, len(userDest), 1) {
			continue
		}
		for _, um := range userDest {
			st, fn, reservedMap := um.st, um.f, um.rmap
			ex := core.Origins(st.Val)[0].(*ssa.Extract)
			absCall := ex.Tuple
			sink := st.Block()
			ok1, n1, p1 := core.MustPass(fn, sink, core.NilGuard(func(x ssa.Value) bool {
				e, ok := x.(*ssa.Extract)
				return ok && e.Tuple == absCall && e.Index == 1
			}))
			r.Check(ok1 && n1 > 0, "C14.RESERVED", fnm+"#user-mount/abs-ok", st.Pos(), "user mount only after filepath.Abs succeeded", "user mount appended although filepath.Abs failed ("+core.FmtPath(p1)+")")
			ok2, n2, p2 := core.MustPass(fn, sink, core.BoolGuard(func(x ssa.Value) bool {
				lk, ok := x.(*ssa.Lookup)
				return ok && lk.X == reservedMap && lk.Index == ssa.Value(ex)
			}, false))
			r.Check(ok2 && n2 > 0, "C14.RESERVED", fnm+"#user-mount/not-reserved", st.Pos(), "user mount only when its absolute path is not reserved", "a requested path equal to a reserved sandbox path is mounted ("+core.FmtPath(p2)+")")
			// source: EvalSymlinks(abs) succeeded
			var srcStore *ssa.Store
			if fa, ok := st.Addr.(*ssa.FieldAddr); ok {
				if refs := fa.X.Referrers(); refs != nil {
					for _, ref := range *refs {
						if fa2, ok := ref.(*ssa.FieldAddr); ok && core.FieldName(fa2.X.Type(), fa2.Field) == "Source" {
							for _, s2 := range core.StoresTo(fa2) {
								srcStore = s2
							}
						}
					}
				}
			}
			if srcStore == nil {
				r.Fail("C14.RESERVED", fnm+"#user-mount/source", st.Pos(), "cannot find the Source of the user mount")
				continue
			}
			sex, isEx := srcStore.Val.(*ssa.Extract)
			var evalCall *ssa.Call
			if isEx {
				evalCall, _ = callTo(sex.Tuple, "path/filepath.EvalSymlinks")
			}
			if evalCall == nil || evalCall.Call.Args[0] != ssa.Value(ex) {
				r.Fail("C14.RESERVED", fnm+"#user-mount/source", srcStore.Pos(), "the user mount's source is "+core.Canon(srcStore.Val)+", not EvalSymlinks(abs)")
				continue
			}
			ok3, n3, p3 := core.MustPass(fn, sink, core.NilGuard(func(x ssa.Value) bool {
				e, ok := x.(*ssa.Extract)
				return ok && e.Tuple == ssa.Value(evalCall) && e.Index == 1
			}))
			r.Check(ok3 && n3 > 0, "C14.RESERVED", fnm+"#user-mount/symlinks-resolved", srcStore.Pos(), "user mount source is the successfully resolved path", "user mount appended although EvalSymlinks failed ("+core.FmtPath(p3)+")")
		}

		// ORDER: the value stored into Spec.Mounts was sorted by Destination
		core.InstrsOf(fn, func(in ssa.Instruction) {
			st, ok := in.(*ssa.Store)
			if !ok {
				return
			}
			fa, ok := st.Addr.(*ssa.FieldAddr)
			if !ok || !core.IsNamed(fa.X.Type(), sandboxPath(p), "Spec") || core.FieldName(fa.X.Type(), fa.Field) != "Mounts" {
				return
			}
			sorted := false
			why := "the mounts placed in the specification never pass through a sort"
			core.InstrsOf(fn, func(in2 ssa.Instruction) {
				c, ok := in2.(*ssa.Call)
				if !ok {
					return
				}
				name := core.CalleeName(&c.Call)
				threeWay := strings.HasPrefix(name, "slices.SortStableFunc") || strings.HasPrefix(name, "slices.SortFunc")
				if name != "sort.SliceStable" && name != "sort.Slice" && !threeWay {
					return
				}
				if !sameSliceAfter(core.Unwrap(c.Call.Args[0]), st.Val, c) {
					why = "the sorted slice is not the value stored into Spec.Mounts (something is appended after the sort)"
					return
				}
				if !core.Precedes(c, st) {
					why = "the sort does not precede the construction of the specification"
					return
				}
				// comparator: Destination(i) < Destination(j)
				var less *ssa.Function
				switch f := c.Call.Args[1].(type) {
				case *ssa.MakeClosure:
					less, _ = f.Fn.(*ssa.Function)
				case *ssa.Function:
					less = f
				}
				if less == nil {
					why = "cannot resolve the comparator"
					return
				}
				good := false
				for _, ret := range core.Returns(less) {
					if threeWay {
						// func(a, b Mount) int { return strings.Compare(a.Destination, b.Destination) }
						if cmpc, ok := ret.Results[0].(*ssa.Call); ok && len(less.Params) == 2 && len(cmpc.Call.Args) == 2 {
							cn := core.CalleeName(&cmpc.Call)
							bx, okx := core.FieldLoad(cmpc.Call.Args[0], "Destination")
							by, oky := core.FieldLoad(cmpc.Call.Args[1], "Destination")
							if (cn == "strings.Compare" || strings.HasPrefix(cn, "cmp.Compare")) && okx && oky && spilledParam(bx) == ssa.Value(less.Params[0]) && spilledParam(by) == ssa.Value(less.Params[1]) {
								good = true
							}
						}
						continue
					}
					b, ok := ret.Results[0].(*ssa.BinOp)
					if !ok || b.Op != token.LSS {
						continue
					}
					lx, okx := core.FieldLoad(b.X, "Destination")
					ly, oky := core.FieldLoad(b.Y, "Destination")
					if okx && oky {
						ix, isIx := lx.(*ssa.IndexAddr)
						iy, isIy := ly.(*ssa.IndexAddr)
						if isIx && isIy && len(less.Params) == 2 && ix.Index == ssa.Value(less.Params[0]) && iy.Index == ssa.Value(less.Params[1]) {
							good = true
						}
					}
				}
				if good {
					sorted = true
				} else {
					why = "the comparator is not Destination[i] < Destination[j]"
				}
			})
			r.Check(sorted, "C14.ORDER", fnm+"#Spec.Mounts-sorted", st.Pos(), "Spec.Mounts is the slice that was sorted by Destination (<) after the last append", why)
		})
	}
}

func c14Escape(r *core.Run) {
	p := r.P
	n := 0
	for _, fn := range p.FuncsIn("internal/sandbox") {
		rels := core.Calls(fn, func(nm string, _ *ssa.CallCommon) bool { return nm == "path/filepath.Rel" })
		if len(rels) == 0 {
			continue
		}
		fnm := core.FuncName(fn)
		rel := rels[0].(*ssa.Call)
		dest := rel.Call.Args[1]
		core.InstrsOf(fn, func(in ssa.Instruction) {
			if !core.IsCallTo(in, "os.MkdirAll", "os.WriteFile", "os.Mkdir", "os.Create") {
				return
			}
			c := core.CallOf(in)
			arg := c.Args[0]
			derives := arg == dest
			if dc, ok := callTo(arg, "path/filepath.Dir"); ok && dc.Call.Args[0] == dest {
				derives = true
			}
			if !derives {
				return
			}
			n++
			name := core.CalleeName(c)
			ok1, n1, p1 := core.MustPass(fn, in.Block(), core.NilGuard(func(x ssa.Value) bool {
				e, ok := x.(*ssa.Extract)
				return ok && e.Tuple == ssa.Value(rel) && e.Index == 1
			}))
			ok2, n2, p2 := core.MustPass(fn, in.Block(), core.BoolGuard(func(x ssa.Value) bool {
				hc, ok := callTo(x, "strings.HasPrefix")
				if !ok {
					return false
				}
				s, isC := core.ConstString(hc.Call.Args[1])
				e, isEx := hc.Call.Args[0].(*ssa.Extract)
				return isC && s == ".." && isEx && e.Tuple == ssa.Value(rel) && e.Index == 0
			}, false))
			r.Check(ok1 && n1 > 0 && ok2 && n2 > 0, "C14.ESCAPE", fnm+"#"+name+"-after-escape-check", in.Pos(), "mount point is created only after the Rel-based escape check passed", "a mount point is created without the escape check ("+core.FmtPath(p1)+core.FmtPath(p2)+")")
		})
		// dest must be Join(rootfs, destination) and Rel's base the same rootfs
		if jc, ok := callTo(dest, "path/filepath.Join"); ok {
			if elems, ok := varargElems(jc.Call.Args[0]); ok && len(elems) >= 1 {
				r.Check(elems[0] == rel.Call.Args[0], "C14.ESCAPE", fnm+"#rel-base", rel.Pos(), "escape check is relative to the rootfs the mount point is joined to", "escape check uses a different base than the join")
			}
		}
	}
	r.Floor("C14.ESCAPE", "mount-point creations guarded by the escape check", n, 2)
}

// sameSliceAfter reports whether `later` denotes the slice that was passed as `sorted` to the call
// `at`, unchanged: the same SSA value, or two loads of one variable that is not assigned again
// on any path after the call.
func sameSliceAfter(sorted, later ssa.Value, at *ssa.Call) bool {
	if sorted == later {
		return true
	}
	u1, ok1 := sorted.(*ssa.UnOp)
	u2, ok2 := later.(*ssa.UnOp)
	if !ok1 || !ok2 || u1.Op != token.MUL || u2.Op != token.MUL || u1.X != u2.X {
		return false
	}
	after := map[*ssa.BasicBlock]bool{}
	for _, s := range at.Block().Succs {
		for b := range core.ReachAvoiding(s, nil) {
			after[b] = true
		}
	}
	for _, st := range core.StoresTo(u1.X) {
		if after[st.Block()] {
			return false
		}
		if st.Block() == at.Block() && core.Precedes(at, st) {
			return false
		}
	}
	// closures that capture the variable and write it (appending callbacks): none may run after the sort
	if al, ok := u1.X.(*ssa.Alloc); ok && al.Referrers() != nil {
		for _, ref := range *al.Referrers() {
			mc, ok := ref.(*ssa.MakeClosure)
			if !ok {
				continue
			}
			cf, _ := mc.Fn.(*ssa.Function)
			if cf == nil {
				continue
			}
			writes := false
			for i, b := range mc.Bindings {
				if b == ssa.Value(al) && i < len(cf.FreeVars) {
					for _, nf := range core.Nest(cf) {
						core.InstrsOf(nf, func(in ssa.Instruction) {
							if st, ok := in.(*ssa.Store); ok && (st.Addr == ssa.Value(cf.FreeVars[i]) || freeVarBinding(st.Addr) == ssa.Value(al)) {
								writes = true
							}
						})
					}
				}
			}
			if !writes {
				continue
			}
			// is the closure invoked (or handed to someone) after the sort?
			ranLater := false
			core.InstrsOf(at.Parent(), func(in ssa.Instruction) {
				c := core.CallOf(in)
				if c == nil {
					return
				}
				later := after[in.Block()] || (in.Block() == at.Block() && core.Precedes(at, in))
				if !later {
					return
				}
				if core.Resolve(c.Value) == ssa.Value(mc) || c.Value == ssa.Value(mc) {
					ranLater = true
				}
				for _, a := range c.Args {
					if core.Resolve(a) == ssa.Value(mc) || a == ssa.Value(mc) {
						ranLater = true
					}
				}
			})
			if ranLater {
				return false
			}
		}
	}
	return true
}

// spilledParam: v is a parameter, or the local copy go/ssa makes of a struct parameter whose fields are addressed.
func spilledParam(v ssa.Value) ssa.Value {
	if al, ok := v.(*ssa.Alloc); ok {
		if sts := core.StoresTo(al); len(sts) == 1 {
			if pa, ok := sts[0].Val.(*ssa.Parameter); ok {
				return pa
			}
		}
	}
	return v
}

// freeVarBinding: for a (possibly nested) closure's free variable, the variable of the enclosing function it is bound to.
func freeVarBinding(v ssa.Value) ssa.Value {
	for i := 0; i < 4; i++ {
		fv, ok := v.(*ssa.FreeVar)
		if !ok {
			return v
		}
		b := core.BindingOf(fv)
		if b == nil {
			return nil
		}
		v = b
	}
	return v
}

// c14Adapter: "reserved requests are rejected" is enforced by the manager, on the mount list it is handed. The CLI
// adapter that builds this list from the user's inputs must therefore hand on every requested path: a request may
// be left out only if it is empty, cannot be made absolute, or is an exact duplicate of a path already listed.
// Any other omission ("already visible through a parent") keeps a request for /proc or /dev from ever being judged.
func c14Adapter(r *core.Run) {
	p := r.P
	r.Explain += " (ADAPTER) the CLI adapter hands every requested path to the manager (whose reserved-path check is decided above): a request is left out only if empty, unresolvable or an exact duplicate."
	sp := sandboxPath(p)
	n := 0
	for _, top := range p.FuncsIn("internal/cli") {
		if top.Parent() != nil {
			continue
		}
		// the mount list variable: what is stored into Config.Mounts
		var list ssa.Value
		core.InstrsOf(top, func(in ssa.Instruction) {
			st, ok := in.(*ssa.Store)
			if !ok {
				return
			}
			fa, ok := st.Addr.(*ssa.FieldAddr)
			if !ok || !core.IsNamed(fa.X.Type(), sp, "Config") || core.FieldName(fa.X.Type(), fa.Field) != "Mounts" {
				return
			}
			if u, isLoad := core.Unwrap(st.Val).(*ssa.UnOp); isLoad && u.Op == token.MUL {
				list = u.X
			}
		})
		if list == nil {
			continue
		}
		// the list is a local variable (appended to by the function or its closures) or a field of a collector
		// struct (appended to by the struct's methods)
		listField := ""
		scope := core.Nest(top)
		if fa, isFA := list.(*ssa.FieldAddr); isFA {
			listField = core.Deref(fa.X.Type()).String() + "." + core.FieldName(fa.X.Type(), fa.Field)
			scope = p.FuncsIn("internal/cli")
		}
		for _, g := range scope {
			g := g
			core.InstrsOf(g, func(in ssa.Instruction) {
				st, ok := in.(*ssa.Store)
				if !ok {
					return
				}
				target := st.Addr
				if fv, isFV := target.(*ssa.FreeVar); isFV {
					target = core.BindingOf(fv)
				}
				if listField != "" {
					fa, isFA := target.(*ssa.FieldAddr)
					if !isFA || core.Deref(fa.X.Type()).String()+"."+core.FieldName(fa.X.Type(), fa.Field) != listField {
						return
					}
				} else if target != list {
					return
				}
				app, isApp := isBuiltinCall(st.Val, "append")
				if !isApp {
					return
				}
				n++
				elems, _ := varargElems(app.Call.Args[1])
				isElem := func(v ssa.Value) bool {
					for _, e := range elems {
						if core.Unwrap(e) == core.Unwrap(v) || core.Canon(e) == core.Canon(v) {
							return true
						}
					}
					return false
				}
				excuse := func(cond ssa.Value) (bool, bool) {
					// the path could not be made absolute
					if x, nonNilOnTrue, ok := core.NilCompare(cond); ok && x.Type().String() == "error" {
						if ex, isEx := core.Unwrap(x).(*ssa.Extract); isEx {
							if _, isAbs := callTo(ex.Tuple, "path/filepath.Abs"); isAbs {
								return true, nonNilOnTrue
							}
						}
					}
					op, x, y, neg, ok := core.Compare(cond)
					if ok && !neg && (op == token.EQL || op == token.NEQ) {
						// the request is empty
						for _, pair := range [][2]ssa.Value{{x, y}, {y, x}} {
							if sv, isC := core.ConstString(pair[1]); isC && sv == "" {
								if _, isP := core.Unwrap(pair[0]).(*ssa.Parameter); isP || isElem(pair[0]) {
									return true, op == token.EQL
								}
							}
						}
						// an exact duplicate of a listed path
						if (isElem(x) || isElem(y)) && x.Type().Underlying().String() == "string" {
							if _, isC := core.ConstString(x); !isC {
								if _, isC2 := core.ConstString(y); !isC2 {
									return true, op == token.EQL
								}
							}
						}
					}
					// ... as recorded in a set keyed by the path
					base, negB := core.StripNot(cond)
					if lk, isLk := core.Unwrap(base).(*ssa.Lookup); isLk && isElem(lk.Index) {
						return true, !negB
					}
					if ex, isEx := base.(*ssa.Extract); isEx {
						if lk, isLk := ex.Tuple.(*ssa.Lookup); isLk && isElem(lk.Index) && ex.Index == 1 {
							return true, !negB
						}
					}
					return false, false
				}
				cut, _ := core.GuardEdges(g, excuse)
				for _, pb := range st.Block().Preds {
					for i, sb := range pb.Succs {
						if sb == st.Block() {
							cut[core.Edge{From: pb, Idx: i}] = true
						}
					}
				}
				var wit []int
				if h := core.LoopHeaderOf(st.Block()); h != nil && g == top {
					// requests handled inline in a loop: one iteration, from the body's entry back to the header
					body := loopBody(h)
					for _, s0 := range h.Succs {
						if body[s0] && s0 != h {
							if pth := core.PathAvoiding(s0, h, cut); pth != nil {
								wit = pth
							}
						}
					}
				} else {
					for _, ret := range core.Returns(g) {
						if ret.Block() == st.Block() {
							continue
						}
						if pth := core.PathAvoiding(g.Blocks[0], ret.Block(), cut); pth != nil {
							wit = pth
							break
						}
					}
					if len(core.Returns(g)) == 0 {
						for _, b := range g.Blocks {
							if _, isRet := b.Instrs[len(b.Instrs)-1].(*ssa.Return); isRet && b != st.Block() {
								if pth := core.PathAvoiding(g.Blocks[0], b, cut); pth != nil {
									wit = pth
								}
							}
						}
					}
				}
				r.Check(wit == nil, "C14.ADAPTER", core.FuncName(g)+"#every-request-reaches-the-manager", st.Pos(),
					"a requested path is left out of the mount list only if it is empty, cannot be made absolute or is an exact duplicate",
					"a requested path can be left out of the mount list handed to the sandbox manager for another reason (path "+core.FmtPath(wit)+"): the manager's reserved-path check never sees it, so a request for /proc, /dev or /tmp below an already listed directory is accepted instead of rejected")
			})
		}
	}
	r.Floor("C14.ADAPTER", "appends to the mount list handed to the sandbox manager", n, 1)
}

// c14Tags: the specification reaches the runtime as JSON; a field the runtime never sees is a restriction that is
// not applied. The OCI runtime specification names every member by the lower-camel form of the Go field name, and
// the types of the sandbox package follow it: every exported field of a spec type carries the json tag
// lowerFirst(FieldName) (acronym fields such as UID/GID/CPU/ID are lower-cased as a whole).
func c14Tags(r *core.Run) {
	p := r.P
	sp := sandboxPath(p)
	n := 0
	for _, pkg := range p.Prod {
		if pkg.PkgPath != sp {
			continue
		}
		scope := pkg.Types.Scope()
		for _, name := range scope.Names() {
			tn, ok := scope.Lookup(name).(*types.TypeName)
			if !ok {
				continue
			}
			st, ok := tn.Type().Underlying().(*types.Struct)
			if !ok {
				continue
			}
			tagged := false
			for i := 0; i < st.NumFields(); i++ {
				if strings.Contains(st.Tag(i), "json:") {
					tagged = true
				}
			}
			if !tagged || name == "Config" {
				continue
			}
			for i := 0; i < st.NumFields(); i++ {
				f := st.Field(i)
				if !f.Exported() {
					continue
				}
				tag := reflect.StructTag(st.Tag(i)).Get("json")
				tag = strings.Split(tag, ",")[0]
				want := lowerCamel(f.Name())
				if name == "Spec" && f.Name() == "Version" {
					want = "ociVersion" // the one member the runtime specification does not name after its Go field
				}
				n++
				r.Check(tag == want, "C14.TAGS", "sandbox."+name+"."+f.Name()+"#json-name", f.Pos(), "serialised as "+want, "field "+name+"."+f.Name()+" is serialised as \""+tag+"\" but the runtime specification calls it \""+want+"\": the runtime never sees the member, so the restriction it carries (no new privileges, read-only root, limits …) is not applied")
			}
		}
	}
	r.Floor("C14.TAGS", "tagged fields of the specification types", n, 20)
}

func lowerCamel(s string) string {
	// leading run of capitals: lower all of it if the whole word is capitals (UID), otherwise all but the last
	// capital (CPUShares → cpuShares, NoNewPrivileges → noNewPrivileges)
	i := 0
	for i < len(s) && s[i] >= 'A' && s[i] <= 'Z' {
		i++
	}
	switch {
	case i == 0:
		return s
	case i == len(s):
		return strings.ToLower(s)
	case i == 1:
		return strings.ToLower(s[:1]) + s[1:]
	default:
		return strings.ToLower(s[:i-1]) + s[i-1:]
	}
}
