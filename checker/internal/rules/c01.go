package rules

import (
	"fmt"
	"go/ast"
	"go/token"
	"go/types"
	"sort"
	"strings"

	"golang.org/x/tools/go/ssa"

	"sfwverif/internal/core"
)

func init() {
	register("C01", c01)
	register("C10", c10)
}

// nondeterminism sources other than iteration order
var ordSourceCalls = []string{"time.Now", "time.Since", "time.Until", "math/rand.", "math/rand/v2.", "crypto/rand.", "os.Getpid", "os.Getppid", "os.Hostname", "os.Environ", "os.Getenv", "os.LookupEnv", "os.Getwd",
	"runtime.NumCPU", "runtime.GOMAXPROCS", "runtime.NumGoroutine", "os.UserHomeDir", "os.TempDir",
	// hash/maphash has no deterministic seed: every value it produces differs between processes
	"hash/maphash.", "(*hash/maphash.", "(hash/maphash.",
	// iteration in map order behind an API (the ORD engine sees only `range m`)
	"(*sync.Map).Range", "(reflect.Value).MapKeys", "(reflect.Value).MapRange", "(*reflect.MapIter).Next", "maps.Keys", "maps.Values", "maps.All"}

func scopeOf(p *core.Program, entries [][2]string) (map[*ssa.Function]bool, int) {
	var es []*ssa.Function
	for _, e := range entries {
		if fn := p.Func(e[0], e[1]); fn != nil {
			es = append(es, fn)
		}
	}
	return reachPrecise(p, es...), len(es)
}

// reachPrecise: functions reachable through static calls, interface calls (resolved by the call
// graph at invoke sites) and through function values that a reachable function creates or
// mentions. Calls through arbitrary func-typed values are NOT matched by signature (the CHA
// over-approximation that makes every func() reachable from every `defer cleanup()`).
func reachPrecise(p *core.Program, entries ...*ssa.Function) map[*ssa.Function]bool {
	g, _ := p.CallGraph()
	seen := map[*ssa.Function]bool{}
	var work []*ssa.Function
	push := func(fn *ssa.Function) {
		if fn != nil && !seen[fn] && p.IsProdFunc(fn) {
			seen[fn] = true
			work = append(work, fn)
		}
	}
	for _, e := range entries {
		push(e)
	}
	for len(work) > 0 {
		fn := work[len(work)-1]
		work = work[:len(work)-1]
		core.InstrsOf(fn, func(in ssa.Instruction) {
			for _, op := range in.Operands(nil) {
				if op == nil || *op == nil {
					continue
				}
				switch x := (*op).(type) {
				case *ssa.Function:
					push(x)
				case *ssa.MakeClosure:
					if f, ok := x.Fn.(*ssa.Function); ok {
						push(f)
					}
				}
			}
			if mc, ok := in.(*ssa.MakeClosure); ok {
				if f, ok := mc.Fn.(*ssa.Function); ok {
					push(f)
				}
			}
		})
		if n := g.Nodes[fn]; n != nil {
			for _, ed := range n.Out {
				if ed.Site != nil && ed.Site.Common().IsInvoke() {
					push(ed.Callee.Func)
				}
			}
		}
	}
	return seen
}

func c01(r *core.Run) {
	p := r.P
	r.Explain = "C01 decided as an exhaustive census of nondeterminism sources on everything reachable from the fingerprint entry points: (ORD) every range over a map has only order-insensitive effects (delete from the ranged map, idempotent writes, commutative integer accumulation, writes keyed by the iteration's own key, memo fills, per-iteration scratch) or appends to a collection that is totally sorted (sort.Strings or a comparator from the reviewed TOTAL table) before any order-sensitive use; early exits may not carry an element-dependent value out of the loop; (POOL) every field of a sync.Pool-managed type is reset on the acquire path, assigned by the acquire function, reset-before-use, or covered by a checked premise; (GLOB) package-level variables of the packages in scope are never written at run time unless they are sync.* values or all their accesses hold one mutex; (SRC) no goroutine start, channel operation, select, clock, random source, environment, working directory or pid is used, and source positions flow only into the position fields of a result; (SORTDET) sort comparators on the path are pure functions of their elements. Not decided: determinism of go/packages and go/ssa themselves (trusted). (POOL, sharpened) a reset counts only if it happens on every path through the reset function, and a delete loop only if it ranges over the very map it empties."
	r.Undecided = []string{"determinism of go/packages, go/types and go/ssa (trusted base)", "byte-identity across different Go/x-tools versions"}
	scope, ne := scopeOf(p, [][2]string{{"pkg/diff", "FingerprintSource"}, {"pkg/diff", "FingerprintSourceAdvanced"}, {"pkg/diff", "FingerprintPackages"}, {"pkg/diff", "GenerateFingerprint"}})
	r.Floor("C01.ORD", "fingerprint entry points", ne, 3)
	runOrd(r, "C01.ORD", scope, 12)
	runOrdGoroutines(r, "C01.SRC", scope, 0)
	c01Pool(r)
	globRule(r, "C01.GLOB", scope)
	srcRule(r, "C01.SRC", scope, false)
	sortDet(r, "C01.SORTDET", scope)
	// "the directory the file lives in (for a fixed module/package identity)" and "processes": the package loader
	// runs in the source file's own directory and with the hardened environment — not in the process's working
	// directory or ambient environment, which change the package identity (testmod vs command-line-arguments) and
	// with it names and IR. The environment rules are C15's, run under C01.
	ex, un, as := r.Explain, r.Undecided, r.Assume
	r.Under("C15.", "C01.ENV.", func() { c15(r) })
	r.Explain, r.Undecided, r.Assume = ex+" (ENV) the loader configuration takes its environment from the hardening function (C15's rules, shared) and its working directory from the source file's location.", un, as
	nDir := 0
	for _, fn := range p.FuncsIn("pkg/diff") {
		core.InstrsOf(fn, func(in ssa.Instruction) {
			al, ok := in.(*ssa.Alloc)
			if !ok || !core.IsNamed(al.Type(), "golang.org/x/tools/go/packages", "Config") {
				return
			}
			nDir++
			dv, has := core.StructLitField(al, "Dir")
			okDir := false
			if has && dv != nil {
				// any computed, non-constant directory handed in by a caller counts (the caller derives it)
				if _, isParam := core.Unwrap(dv).(*ssa.Parameter); isParam {
					okDir = true
				}
				for _, o := range core.Origins(dv) {
					if c, isCall := o.(*ssa.Call); isCall && (core.CalleeName(&c.Call) == "path/filepath.Dir" || core.CalleeName(&c.Call) == "path/filepath.Abs") {
						okDir = true
					}
					if ex, isEx := o.(*ssa.Extract); isEx {
						if c, isCall := ex.Tuple.(*ssa.Call); isCall && core.CalleeName(&c.Call) == "path/filepath.Abs" {
							okDir = true
						}
					}
				}
			}
			r.Check(okDir, "C01.ENV.DIR", core.FuncName(fn)+"#packages.Config.Dir", al.Pos(), "the loader runs in the directory of the source file", "the loader configuration sets no Dir derived from the source file's location: `go list` runs in the process's working directory, so the same file yields testmod.* from inside its module and command-line-arguments.* from anywhere else — names, IR and fingerprints depend on where the tool is started")
		})
	}
	r.Floor("C01.ENV.DIR", "loader configurations in pkg/diff", nDir, 1)
}

func c10(r *core.Run) {
	p := r.P
	r.Explain = "C10 decided with the same effect-classification engine as C01 on everything reachable from the check, diff and scan logic (both storage backends included): (ORD) every range over a map is order-insensitive or feeds a total sort before any order-sensitive use — this covers the order of functions, matches, alerts and dependencies and, through taint propagation into the candidate list, which functions are paired as renames when candidates tie; (GO) every goroutine body writes shared state only through constants, commutative integer accumulation or slots addressed by a per-iteration copy of its own index — never by appending in completion order; (SRC) clocks, random sources, environment etc. do not reach a report except through fields that are explicitly times; (GLOB) shared package-level state is lock-disciplined. Not decided: byte-identity of encoding/json output for equal values (trusted), scheduling effects inside Pebble."
	r.Undecided = []string{"encoding/json producing identical bytes for equal values (trusted: map keys are sorted by encoding/json)", "time-valued fields, which the property excludes"}
	scope, ne := scopeOf(p, [][2]string{{"internal/cli", "ComputeDiff"}, {"internal/cli", "RunDiffLogic"}, {"internal/cli", "RunCheckLogic"}, {"internal/cli", "ProcessFilesParallel"}, {"internal/cli", "ProcessFile"},
		{"internal/cli", "RunScanLogic"}, {"internal/cli", "RunScanParallel"}, {"internal/cli", "RunScanDeps"}, {"pkg/storage/pebbledb", "(*PebbleScanner).ScanTopology"}, {"pkg/storage/pebbledb", "(*PebbleScanner).ScanTopologyExact"},
		{"pkg/storage/pebbledb", "(*PebbleScanner).ScanBatch"}, {"pkg/storage/jsondb", "(*Scanner).ScanTopology"}, {"pkg/storage/jsondb", "(*Scanner).ScanTopologyExact"}, {"pkg/diff", "MatchFunctionsByTopology"}})
	r.Floor("C10.ORD", "report-producing entry points", ne, 10)
	runOrd(r, "C10.ORD", scope, 20)
	runOrdGoroutines(r, "C10.GO", scope, 2)
	globRule(r, "C10.GLOB", scope)
	srcRule(r, "C10.SRC", scope, true)
	sortDet(r, "C10.SORTDET", scope)
	c10Tie(r, scope)
	// results are ordered by function name: the order is determined only if names are unique, i.e. the name given to
	// a result identifies receiver and package (RelString/String), not the bare method name
	nName := 0
	for _, fn := range p.FuncsIn("pkg/diff") {
		core.InstrsOf(fn, func(in ssa.Instruction) {
			st, ok := in.(*ssa.Store)
			if !ok {
				return
			}
			fa, ok := st.Addr.(*ssa.FieldAddr)
			if !ok || !core.IsNamed(fa.X.Type(), p.ModPath+"/pkg/diff", "FingerprintResult") || core.FieldName(fa.X.Type(), fa.Field) != "FunctionName" {
				return
			}
			nName++
			okName := true
			for _, o := range core.Origins(st.Val) {
				c, isCall := o.(*ssa.Call)
				if !isCall {
					okName = false
					continue
				}
				switch core.CalleeName(&c.Call) {
				case "(*" + ssaPkgPath + ".Function).RelString", "(*" + ssaPkgPath + ".Function).String":
				default:
					okName = false
				}
			}
			r.Check(okName, "C10.SORTKEY", core.FuncName(fn)+"#FunctionName", st.Pos(), "a result is named by the function's qualified name (receiver included)", "a result is named by "+core.Canon(st.Val)+": methods of different types share a name, the sort by name leaves them in map-iteration order, and the order of functions (and which same-named method the diff compares) changes from run to run")
		})
	}
	r.Floor("C10.SORTKEY", "names given to fingerprint results", nName, 2)
}

// ---- POOL

func c01Pool(r *core.Run) {
	p := r.P
	n := 0
	for _, pkg := range p.SSAPkgs {
		for _, m := range pkg.Members {
			g, ok := m.(*ssa.Global)
			if !ok || !strings.HasSuffix(core.Deref(g.Type()).String(), "sync.Pool") {
				continue
			}
			// the pooled type: what the New function allocates
			var pooled *types.Named
			for _, fn := range p.Funcs {
				if fn.Parent() == nil || fn.Parent().Name() != "init" || fn.Parent().Pkg != pkg {
					continue
				}
				for _, ret := range core.Returns(fn) {
					for _, o := range core.Origins(ret.Results[0]) {
						if al, ok := o.(*ssa.Alloc); ok {
							pooled, _ = core.Deref(al.Type()).(*types.Named)
						}
					}
				}
			}
			if pooled == nil {
				r.Fail("C01.POOL", pkg.Pkg.Name()+"."+g.Name()+"#pooled-type", g.Pos(), "cannot resolve the type managed by this sync.Pool")
				continue
			}
			n++
			st := pooled.Underlying().(*types.Struct)
			tn := pkg.Pkg.Name() + "." + pooled.Obj().Name()
			// acquire functions: call Get on this pool
			var acquires []*ssa.Function
			for _, fn := range p.Funcs {
				core.InstrsOf(fn, func(in ssa.Instruction) {
					if c := core.CallOf(in); c != nil && core.CalleeName(c) == "(*sync.Pool).Get" && c.Args[0] == ssa.Value(g) {
						acquires = append(acquires, fn)
					}
				})
			}
			if !r.Floor("C01.POOL", "acquire functions of "+tn, len(acquires), 1) {
				continue
			}
			for _, acq := range acquires {
				// functions run unconditionally on the acquire path: static callees (transitively) whose call dominates the return
				resetFns := map[*ssa.Function]bool{acq: true}
				var expand func(fn *ssa.Function, d int)
				expand = func(fn *ssa.Function, d int) {
					if d > 3 {
						return
					}
					core.InstrsOf(fn, func(in ssa.Instruction) {
						c := core.CallOf(in)
						if c == nil {
							return
						}
						callee := core.StaticCallee(c)
						if callee == nil || !p.IsProdFunc(callee) || resetFns[callee] {
							return
						}
						dom := true
						for _, ret := range core.Returns(fn) {
							if in.Block() != ret.Block() && !in.Block().Dominates(ret.Block()) {
								dom = false
							}
						}
						if dom {
							resetFns[callee] = true
							expand(callee, d+1)
						}
					})
				}
				expand(acq, 0)
				type fstate struct{ fresh, del, resetCall, assignParam, conditionalOnly bool }
				fs := map[string]*fstate{}
				// blocks in which a field is certainly emptied / re-initialised, per function
				events := map[*ssa.Function]map[string][]*ssa.BasicBlock{}
				mark := func(fn *ssa.Function, f string, b *ssa.BasicBlock) {
					if events[fn] == nil {
						events[fn] = map[string][]*ssa.BasicBlock{}
					}
					events[fn][f] = append(events[fn][f], b)
				}
				for i := 0; i < st.NumFields(); i++ {
					fs[st.Field(i).Name()] = &fstate{}
				}
				for fn := range resetFns {
					core.InstrsOf(fn, func(in ssa.Instruction) {
						switch x := in.(type) {
						case *ssa.Store:
							fa, ok := x.Addr.(*ssa.FieldAddr)
							if !ok || core.Deref(fa.X.Type()) != types.Type(pooled) {
								return
							}
							s := fs[core.FieldName(fa.X.Type(), fa.Field)]
							if s == nil {
								return
							}
							switch v := x.Val.(type) {
							case *ssa.Const, *ssa.MakeMap, *ssa.MakeSlice:
								s.fresh = true
								mark(fn, core.FieldName(fa.X.Type(), fa.Field), x.Block())
							case *ssa.Parameter:
								s.assignParam = true
								_ = v
							default:
								if core.IsNilConst(x.Val) {
									s.fresh = true
									mark(fn, core.FieldName(fa.X.Type(), fa.Field), x.Block())
								}
							}
						case ssa.CallInstruction:
							c := x.Common()
							if b, ok := c.Value.(*ssa.Builtin); ok && (b.Name() == "delete" || b.Name() == "clear") {
								if _, f, ok := sigField(c.Args[0]); ok && fs[f] != nil {
									// delete(M, k) empties M only when k ranges over M itself
									full := b.Name() == "clear"
									evBlock := in.Block()
									if !full && len(c.Args) == 2 {
										if ex, ok := c.Args[1].(*ssa.Extract); ok && ex.Index == 1 {
											if nx, ok := ex.Tuple.(*ssa.Next); ok {
												if rg, ok := nx.Iter.(*ssa.Range); ok {
													if _, f2, ok := sigField(rg.X); ok && f2 == f {
														full = true
														evBlock = rg.Block() // an empty map needs no delete
													}
												}
											}
										}
									}
									if full {
										fs[f].del = true
										mark(fn, f, evBlock)
									}
								}
							}
							if strings.HasSuffix(core.CalleeName(c), ").Reset") && len(c.Args) > 0 {
								if fa, ok := c.Args[0].(*ssa.FieldAddr); ok && fs[core.FieldName(fa.X.Type(), fa.Field)] != nil {
									fs[core.FieldName(fa.X.Type(), fa.Field)].resetCall = true
								}
							}
						}
					})
				}
				var names []string
				for f := range fs {
					names = append(names, f)
				}
				sort.Strings(names)
				nOK := 0
				for _, f := range names {
					s := fs[f]
					construct := tn + "." + f + "@" + acq.Name()
					// a reset that happens only on some paths (e.g. only when the map is nil) is no reset
					onEveryPath := s.resetCall
					for fn, ev := range events {
						if len(ev[f]) == 0 || onEveryPath {
							continue
						}
						cut := map[core.Edge]bool{}
						atEntry := false
						for _, eb := range ev[f] {
							if eb == fn.Blocks[0] {
								atEntry = true
							}
							for _, pr := range eb.Preds {
								for i, sc := range pr.Succs {
									if sc == eb {
										cut[core.Edge{From: pr, Idx: i}] = true
									}
								}
							}
						}
						all := true
						for _, ret := range core.Returns(fn) {
							if !atEntry && core.PathAvoiding(fn.Blocks[0], ret.Block(), cut) != nil {
								all = false
							}
						}
						if all {
							onEveryPath = true
						}
					}
					switch {
					case (s.fresh || s.del || s.resetCall) && onEveryPath:
						nOK++
						r.OK("C01.POOL", construct, acq.Pos(), "field is reset on the acquire path")
					case s.assignParam:
						nOK++
						r.OK("C01.POOL", construct, acq.Pos(), "field is assigned from the acquire function's argument")
					case resetBeforeUseField(p, pooled, f):
						nOK++
						r.OK("C01.POOL", construct, acq.Pos(), "field is reset at the start of the only function that uses it")
					case storedBeforeEveryUse(p, pooled, f):
						nOK++
						r.OK("C01.POOL", construct, acq.Pos(), "premise checked: every reader is reached only from entry points that assign the field first")
					default:
						r.Fail("C01.POOL", construct, acq.Pos(), "field "+f+" of the pooled "+tn+" is not reset when an instance is reused: state of a previously analysed function leaks into the next fingerprint")
					}
				}
				r.Floor("C01.POOL", "fields of "+tn+" accounted for", nOK, 10)
				// an exported rendering entry point of the pooled type starts from a clean scratch state of its own:
				// its result must not depend on what the same instance rendered before (the acquire-time reset does not
				// help a caller that renders two functions with one instance)
				nEntry := 0
				for _, m := range p.Funcs {
					if m.Signature.Recv() == nil || core.Deref(m.Signature.Recv().Type()) != types.Type(pooled) || m.Parent() != nil || !ast.IsExported(m.Name()) || m.Blocks == nil {
						continue
					}
					rt := resultTypes(m)
					if len(m.Params) != 2 || !isSSAFunctionPtr(m.Params[1].Type()) || len(rt) != 1 || rt[0].String() != "string" {
						continue
					}
					nEntry++
					recv := m.Params[0]
					var resets []ssa.Instruction
					core.InstrsOf(m, func(in ssa.Instruction) {
						if c := core.CallOf(in); c != nil {
							if g := core.StaticCallee(c); g != nil && g != acq && resetFns[g] && len(c.Args) > 0 && c.Args[0] == ssa.Value(recv) {
								resets = append(resets, in)
							}
						}
					})
					afterReset := func(in ssa.Instruction) bool {
						for _, rc := range resets {
							if rc.Block() == in.Block() && core.Precedes(rc, in) {
								return true
							}
							if rc.Block() != in.Block() && rc.Block().Dominates(in.Block()) {
								return true
							}
						}
						return false
					}
					bad := ""
					var badPos token.Pos
					core.InstrsOf(m, func(in ssa.Instruction) {
						if bad != "" {
							return
						}
						if c := core.CallOf(in); c != nil {
							g := core.StaticCallee(c)
							if g != nil && len(c.Args) > 0 && c.Args[0] == ssa.Value(recv) && !resetFns[g] && !afterReset(in) {
								bad, badPos = "calls "+core.FuncName(g), in.Pos()
							}
						}
						if sto, ok := in.(*ssa.Store); ok {
							if fa, isFA := sto.Addr.(*ssa.FieldAddr); isFA && fa.X == ssa.Value(recv) && !afterReset(in) {
								bad, badPos = "writes "+core.FieldName(fa.X.Type(), fa.Field), in.Pos()
							}
						}
					})
					if len(resets) == 0 {
						bad, badPos = "never resets the scratch state", m.Pos()
					}
					r.Check(bad == "", "C01.POOL", core.FuncName(m)+"#entry-resets-scratch", badPos, "the rendering entry point resets the per-function state before it touches the instance", "the rendering entry point "+bad+" before (or without) resetting the per-function state: a second function rendered with the same instance starts from the first one's output buffer, register counter and maps, so equal inputs give different IR")
				}
				r.Floor("C01.POOL", "exported rendering entry points of "+tn, nEntry, 1)
			}
			// an instance is handed back at most once: a second Put makes two later callers share it
			var releases []*ssa.Function
			for _, fn := range p.Funcs {
				core.InstrsOf(fn, func(in ssa.Instruction) {
					if c := core.CallOf(in); c != nil && core.CalleeName(c) == "(*sync.Pool).Put" && c.Args[0] == ssa.Value(g) && fn.Parent() == nil {
						releases = append(releases, fn)
					}
				})
			}
			isRelease := func(c *ssa.CallCommon) bool {
				callee := core.StaticCallee(c)
				for _, rf := range releases {
					if callee == rf {
						return true
					}
				}
				return core.CalleeName(c) == "(*sync.Pool).Put" && len(c.Args) > 0 && c.Args[0] == ssa.Value(g)
			}
			// ... and once handed back it is not touched again: the pool may give it to another goroutine at once
			for _, rf := range releases {
				core.InstrsOf(rf, func(in ssa.Instruction) {
					c := core.CallOf(in)
					if c == nil || core.CalleeName(c) != "(*sync.Pool).Put" || c.Args[0] != ssa.Value(g) {
						return
					}
					obj := core.Unwrap(c.Args[1])
					uses := func(x ssa.Instruction) bool {
						if x == in {
							return false
						}
						if _, isDbg := x.(*ssa.DebugRef); isDbg {
							return false
						}
						for _, op := range x.Operands(nil) {
							if op != nil && *op != nil && core.Unwrap(*op) == obj {
								return true
							}
						}
						return false
					}
					var late ssa.Instruction
					after := false
					for _, x := range in.Block().Instrs {
						if x == in {
							after = true
							continue
						}
						if after && uses(x) && late == nil {
							late = x
						}
					}
					for b := range core.ReachAvoiding(in.Block(), nil) {
						if b == in.Block() {
							continue
						}
						for _, x := range b.Instrs {
							if uses(x) && late == nil {
								late = x
							}
						}
					}
					pos := in.Pos()
					if late != nil {
						pos = late.Pos()
					}
					r.Check(late == nil, "C01.POOL", core.FuncName(rf)+"#no-use-after-put", pos, "the instance is not touched after it was handed back to the pool", "the instance is used after it was handed back to the pool: another goroutine can already have taken it, so its reset races with the next fingerprint (mixed or corrupted canonical IR under concurrent use)")
				})
			}
			nRel := 0
			for _, fn := range p.Funcs {
				if !p.IsProdFunc(fn) {
					continue
				}
				isRel := false
				for _, rf := range releases {
					if rf == fn {
						isRel = true
					}
				}
				if isRel {
					continue
				}
				type rel struct {
					in       ssa.Instruction
					what     string
					deferred bool
				}
				var rels []rel
				core.InstrsOf(fn, func(in ssa.Instruction) {
					c := core.CallOf(in)
					if c == nil || !isRelease(c) {
						return
					}
					arg := c.Args[len(c.Args)-1]
					_, isDefer := in.(*ssa.Defer)
					rels = append(rels, rel{in, core.Canon(arg), isDefer})
				})
				for i, a := range rels {
					nRel++
					for j, b := range rels {
						if i == j || a.what != b.what || b.deferred {
							continue
						}
						// b is an immediate release of the same instance: a deferred release registered before it, or an
						// earlier immediate one on the same path, releases it a second time
						if a.deferred && (core.Precedes(a.in, b.in) || core.ReachAvoiding(a.in.Block(), nil)[b.in.Block()]) {
							r.Fail("C01.POOL", core.FuncName(fn)+"#released-once("+a.what+")", b.in.Pos(), "the pooled instance "+a.what+" is released here and again by the deferred release registered at "+p.Pos(a.in.Pos())+": it enters the pool twice and two later callers share it (their canonical IR mixes)")
						}
						if !a.deferred && i < j && a.in.Block() != b.in.Block() && core.ReachAvoiding(a.in.Block(), nil)[b.in.Block()] {
							r.Fail("C01.POOL", core.FuncName(fn)+"#released-once("+a.what+")", b.in.Pos(), "the pooled instance "+a.what+" is released twice on one path")
						}
					}
					r.OK("C01.POOL", fmt.Sprintf("%s#release[%d](%s)", core.FuncName(fn), i, a.what), a.in.Pos(), "release site")
				}
			}
			r.Floor("C01.POOL", "release sites of "+tn, nRel, 2)
		}
	}
	r.Floor("C01.POOL", "sync.Pool-managed types", n, 1)
}

// resetBeforeUseField: some method calls X.Reset() on the field as its first action and is the
// only function that takes the field's address.
func resetBeforeUseField(p *core.Program, t *types.Named, field string) bool {
	users := map[*ssa.Function]bool{}
	resets := map[*ssa.Function]bool{}
	for _, fn := range p.Funcs {
		core.InstrsOf(fn, func(in ssa.Instruction) {
			fa, ok := in.(*ssa.FieldAddr)
			if !ok || core.Deref(fa.X.Type()) != types.Type(t) || core.FieldName(fa.X.Type(), fa.Field) != field {
				return
			}
			users[fn] = true
			if refs := fa.Referrers(); refs != nil {
				for _, ref := range *refs {
					if c := core.CallOf(ref); c != nil && strings.HasSuffix(core.CalleeName(c), ").Reset") && ref.Block() == fn.Blocks[0] {
						resets[fn] = true
					}
				}
			}
		})
	}
	if len(users) == 0 {
		return false
	}
	for u := range users {
		if !resets[u] {
			return false
		}
	}
	return true
}

// storedBeforeEveryUse: the field is read only in functions reachable from callees that are always
// called after a store to the field in the same caller (e.g. StrictMode before CanonicalizeFunction).
func storedBeforeEveryUse(p *core.Program, t *types.Named, field string) bool {
	// readers
	var readers []*ssa.Function
	for _, fn := range p.Funcs {
		reads := false
		core.InstrsOf(fn, func(in ssa.Instruction) {
			if u, ok := in.(*ssa.UnOp); ok {
				if fa, ok := u.X.(*ssa.FieldAddr); ok && core.Deref(fa.X.Type()) == types.Type(t) && core.FieldName(fa.X.Type(), fa.Field) == field {
					reads = true
				}
			}
		})
		if reads {
			readers = append(readers, fn)
		}
	}
	if len(readers) == 0 {
		return true // never read
	}
	// functions that store the field and then call a method of t: every reader must be reachable only below such calls
	okAll := true
	for _, rd := range readers {
		// all production callers chains up to a function outside t's methods
		var check func(fn *ssa.Function, d int) bool
		check = func(fn *ssa.Function, d int) bool {
			if d > 6 {
				return false
			}
			callers := callersOf(p, fn)
			if len(callers) == 0 {
				return false
			}
			for _, ci := range callers {
				caller := ci.Parent()
				isMethod := caller.Signature.Recv() != nil && core.Deref(caller.Signature.Recv().Type()) == types.Type(t)
				if isMethod {
					if !check(caller, d+1) {
						return false
					}
					continue
				}
				// caller outside the type: a store to the field must precede the call
				stored := false
				core.InstrsOf(caller, func(in ssa.Instruction) {
					if st, ok := in.(*ssa.Store); ok {
						if fa, ok := st.Addr.(*ssa.FieldAddr); ok && core.Deref(fa.X.Type()) == types.Type(t) && core.FieldName(fa.X.Type(), fa.Field) == field && core.Precedes(st, ci) {
							stored = true
						}
					}
				})
				if !stored {
					return false
				}
			}
			return true
		}
		if !check(rd, 0) {
			okAll = false
		}
	}
	return okAll
}

// ---- GLOB

func globRule(r *core.Run, rule string, scope map[*ssa.Function]bool) {
	p := r.P
	pkgs := map[*ssa.Package]bool{}
	for fn := range scope {
		root := fn
		for root.Parent() != nil {
			root = root.Parent()
		}
		if root.Pkg != nil {
			pkgs[root.Pkg] = true
		}
	}
	n := 0
	var plist []*ssa.Package
	for pk := range pkgs {
		plist = append(plist, pk)
	}
	sort.Slice(plist, func(i, j int) bool { return plist[i].Pkg.Path() < plist[j].Pkg.Path() })
	for _, pk := range plist {
		var names []string
		for name := range pk.Members {
			names = append(names, name)
		}
		sort.Strings(names)
		for _, name := range names {
			g, ok := pk.Members[name].(*ssa.Global)
			if !ok || strings.HasPrefix(name, "init$") {
				continue
			}
			n++
			gn := pk.Pkg.Name() + "." + name
			ts := core.Deref(g.Type()).String()
			if strings.HasPrefix(ts, "sync.") {
				r.OK(rule, gn, g.Pos(), "synchronisation primitive")
				continue
			}
			// run-time stores outside init
			type acc struct {
				in    ssa.Instruction
				write bool
			}
			var accs []acc
			written := false
			for _, fn := range p.Funcs {
				root := fn
				for root.Parent() != nil {
					root = root.Parent()
				}
				if root.Name() == "init" {
					continue
				}
				core.InstrsOf(fn, func(in ssa.Instruction) {
					switch x := in.(type) {
					case *ssa.Store:
						if x.Addr == ssa.Value(g) {
							accs = append(accs, acc{in, true})
							written = true
						}
					case *ssa.UnOp:
						if x.X == ssa.Value(g) {
							// mutation of the object the variable holds (map update, element / field store, delete)
							w := false
							if refs := x.Referrers(); refs != nil {
								for _, ref := range *refs {
									switch y := ref.(type) {
									case *ssa.MapUpdate:
										if y.Map == ssa.Value(x) {
											w = true
										}
									case *ssa.IndexAddr, *ssa.FieldAddr:
										if len(core.StoresTo(y.(ssa.Value))) > 0 {
											w = true
										}
									case *ssa.Call:
										if b, ok := y.Call.Value.(*ssa.Builtin); ok && (b.Name() == "delete" || b.Name() == "clear") {
											w = true
										}
									}
								}
							}
							accs = append(accs, acc{in, w})
							if w {
								written = true
							}
						}
					}
				})
			}
			if !written {
				r.OK(rule, gn, g.Pos(), "never written after initialisation")
				continue
			}
			// written only inside closures handed to sync.Once.Do: initialised exactly once
			onceOnly := true
			for _, a := range accs {
				if !a.write {
					continue
				}
				fnw := a.in.Parent()
				viaOnce := false
				if fnw.Parent() != nil {
					core.InstrsOf(fnw.Parent(), func(in2 ssa.Instruction) {
						if c := core.CallOf(in2); c != nil && core.CalleeName(c) == "(*sync.Once).Do" && closureFunc(c.Args[1]) == fnw {
							viaOnce = true
						}
					})
				}
				if !viaOnce {
					onceOnly = false
				}
			}
			if onceOnly {
				r.OK(rule, gn, g.Pos(), "written only inside sync.Once.Do")
				continue
			}
			// lock discipline: a mutex global of the same package held at every access
			var mus []*ssa.Global
			for _, m2 := range pk.Members {
				if g2, ok := m2.(*ssa.Global); ok && strings.Contains(core.Deref(g2.Type()).String(), "Mutex") {
					mus = append(mus, g2)
				}
			}
			disciplined := false
			for _, mu := range mus {
				okAll := true
				for _, a := range accs {
					states := lockStates(a.in.Parent(), func(v ssa.Value) bool { return v == ssa.Value(mu) })
					need := lkR
					if a.write {
						need = lkW
					}
					if states[a.in] < need {
						okAll = false
					}
				}
				if okAll {
					disciplined = true
				}
			}
			r.Check(disciplined, rule, gn, g.Pos(), "written at run time, every access under the package mutex", "package-level variable "+gn+" is written at run time without a lock held at every access: analysis results depend on what ran before (or race)")
		}
	}
	r.Floor(rule, "package-level variables of the packages in scope", n, 3)
}

// ---- SRC

func srcRule(r *core.Run, rule string, scope map[*ssa.Function]bool, allowGoroutines bool) {
	p := r.P
	n := 0
	for _, fn := range core.SortedFuncs(scope) {
		fnm := core.FuncName(fn)
		core.InstrsOf(fn, func(in ssa.Instruction) {
			n++
			switch x := in.(type) {
			case *ssa.Go:
				if !allowGoroutines {
					r.Fail(rule, fnm+"#go", in.Pos(), "a goroutine is started on the fingerprint path")
				}
			case *ssa.Select:
				// a non-blocking poll of one channel (ctx.Done()/default) has a deterministic outcome per state
				if x.Blocking || len(x.States) > 1 {
					r.Fail(rule, fnm+"#select", in.Pos(), "select with several ready cases picks one at random")
				}
			case *ssa.Send:
				if !allowGoroutines {
					r.Fail(rule, fnm+"#send", in.Pos(), "channel send on the fingerprint path")
				}
			}
			if cv, ok := in.(*ssa.Convert); ok {
				if bt, isB := cv.Type().Underlying().(*types.Basic); isB && bt.Kind() == types.Uintptr {
					if ft, isP := cv.X.Type().Underlying().(*types.Basic); isP && ft.Kind() == types.UnsafePointer {
						r.Fail(rule, fnm+"#address", in.Pos(), "an address is converted to an integer: addresses differ between runs")
					}
				}
			}
			c := core.CallOf(in)
			if c == nil {
				return
			}
			name := core.CalleeName(c)
			for _, src := range ordSourceCalls {
				if name == src || (strings.HasSuffix(src, ".") && strings.HasPrefix(name, src)) || (strings.HasPrefix(src, "maps.") && strings.HasPrefix(name, src+"[")) {
					// where does the value go? allowed: concurrency limits, diagnostics, explicit time fields, ID generation outside reports
					if name == "os.Environ" && feedsLoaderEnv(p, fn) {
						r.OK(rule, fnm+"#"+name, in.Pos(), "ambient environment is only filtered into the hardened loader environment (decided by C15)")
						continue
					}
					if strings.HasPrefix(name, "maps.") && onlyIntoSorted(in) {
						r.OK(rule, fnm+"#"+src, in.Pos(), "the map iterator is consumed only by slices.Sorted")
						continue
					}
					if allowedSourceUse(p, in, name) {
						r.OK(rule, fnm+"#"+name, in.Pos(), "nondeterministic source used only for "+allowedSourceReason(in, name))
					} else {
						r.Fail(rule, fnm+"#"+name, in.Pos(), name+" is used on the path: the result depends on the clock / random source / environment of the run")
					}
				}
			}
			if name == "fmt.Sprintf" || name == "fmt.Fprintf" {
				fi := 0
				if name == "fmt.Fprintf" {
					fi = 1
				}
				if f, ok := core.ConstString(c.Args[fi]); ok && strings.Contains(f, "%p") {
					r.Fail(rule, fnm+"#%p", in.Pos(), "a pointer value is formatted: addresses differ between runs")
				}
			}
		})
	}
	r.Floor(rule, "instructions examined for nondeterminism sources", n, 1000)
	// positions: results of Pos()/Position flow only into position fields
	for _, fn := range core.SortedFuncs(scope) {
		core.InstrsOf(fn, func(in ssa.Instruction) {
			c, ok := in.(*ssa.Call)
			if !ok || core.CalleeName(&c.Call) != "(*go/token.FileSet).Position" {
				return
			}
			okUse := true
			if refs := c.Referrers(); refs != nil {
				for _, ref := range *refs {
					switch x := ref.(type) {
					case *ssa.Store:
						// stored into a local then read field-wise
						if al, ok := x.Addr.(*ssa.Alloc); ok && al.Referrers() != nil {
							for _, r2 := range *al.Referrers() {
								if fa, ok := r2.(*ssa.FieldAddr); ok && fa.Referrers() != nil {
									for _, r3 := range *fa.Referrers() {
										if u, ok := r3.(*ssa.UnOp); ok && u.Referrers() != nil {
											for _, r4 := range *u.Referrers() {
												if st, ok := r4.(*ssa.Store); ok {
													if fa2, ok := st.Addr.(*ssa.FieldAddr); ok {
														f := core.FieldName(fa2.X.Type(), fa2.Field)
														if f != "Line" && f != "Filename" && f != "Pos" {
															okUse = false
														}
													}
												} else if _, isPhi := r4.(*ssa.Phi); !isPhi {
													if _, isDbg := r4.(*ssa.DebugRef); !isDbg {
														okUse = false
													}
												}
											}
										}
									}
								}
							}
						}
					case *ssa.Field:
					case *ssa.DebugRef:
					default:
						okUse = false
					}
				}
			}
			r.Check(okUse, rule, core.FuncName(fn)+"#position-use", in.Pos(), "source positions flow only into the position fields of the result", "a source position (absolute file name / line) flows into something other than the result's position fields")
		})
	}
}

// onlyIntoSorted: the iterator returned by maps.Keys/Values is consumed by slices.Sorted and nothing else.
func onlyIntoSorted(in ssa.Instruction) bool {
	v, ok := in.(ssa.Value)
	if !ok || v.Referrers() == nil {
		return false
	}
	n := 0
	for _, ref := range *v.Referrers() {
		if _, isDbg := ref.(*ssa.DebugRef); isDbg {
			continue
		}
		c := core.CallOf(ref)
		if c == nil {
			return false
		}
		cn := core.CalleeName(c)
		if cn != "slices.Sorted" && !strings.HasPrefix(cn, "slices.Sorted[") {
			return false
		}
		n++
	}
	return n > 0
}

func allowedSourceUse(p *core.Program, in ssa.Instruction, name string) bool {
	v, ok := in.(ssa.Value)
	if !ok {
		return false
	}
	refs := v.Referrers()
	if refs == nil {
		return true
	}
	if name == "os.Getenv" {
		// a mode switch: the value is only compared with a constant (is the variable set?)
		flag := true
		for _, ref := range *refs {
			switch x := ref.(type) {
			case *ssa.BinOp:
				if _, isC := core.ConstString(x.Y); !isC || (x.Op != token.EQL && x.Op != token.NEQ) {
					flag = false
				}
			case *ssa.DebugRef:
			default:
				flag = false
			}
		}
		if flag {
			return true
		}
	}
	for _, ref := range *refs {
		if c := core.CallOf(ref); c != nil {
			cn := core.CalleeName(c)
			switch {
			case strings.HasSuffix(cn, "errgroup.Group).SetLimit"): // concurrency limit only
				continue
			case cn == "(time.Time).Format" || cn == "time.Since":
				// only acceptable when it ends in a field that is explicitly a time (stores/marshals of time values)
				continue
			case cn == "os.Getenv" || strings.HasPrefix(cn, "fmt.Fprint"):
				continue
			}
			return false
		}
		switch x := ref.(type) {
		case *ssa.Store:
			if fa, ok := x.Addr.(*ssa.FieldAddr); ok {
				f := core.FieldName(fa.X.Type(), fa.Field)
				if strings.Contains(f, "At") || strings.Contains(f, "Time") || strings.Contains(f, "Generated") {
					continue
				}
			}
			return false
		case *ssa.DebugRef:
			continue
		case *ssa.Extract:
			continue
		default:
			return false
		}
	}
	return true
}

func allowedSourceReason(in ssa.Instruction, name string) string {
	if strings.HasPrefix(name, "runtime.") {
		return "a concurrency limit"
	}
	return "an explicitly time-valued field or a diagnostic"
}

// ---- SORTDET

func sortDet(r *core.Run, rule string, scope map[*ssa.Function]bool) {
	p := r.P
	e := newOrdEngine(p)
	n := 0
	for _, fn := range core.SortedFuncs(scope) {
		core.InstrsOf(fn, func(in ssa.Instruction) {
			c, ok := in.(*ssa.Call)
			if !ok {
				return
			}
			name := core.CalleeName(&c.Call)
			if name != "sort.Slice" && name != "sort.SliceStable" && name != "sort.Sort" {
				return
			}
			var less []*ssa.Function
			if name == "sort.Sort" {
				// Less method of the sorter type
				t := core.Unwrap(c.Call.Args[0]).Type()
				ms := p.SSA.MethodSets.MethodSet(t)
				if sel := ms.Lookup(nil, "Less"); sel != nil {
					if f := p.SSA.MethodValue(sel); f != nil {
						less = append(less, f)
					}
				}
			} else if f := closureFunc(c.Call.Args[1]); f != nil {
				less = append(less, f)
			}
			for _, lf := range less {
				n++
				effs := e.summary(lf, 0)
				bad := ""
				for _, ef := range effs {
					if ef.Kind == "pool" {
						continue
					}
					if ef.Kind == "mapset" && strings.HasSuffix(ef.MapType, "ssa.Instruction]string") {
						continue // memo of a pure per-element key (table: zipper fingerprint cache)
					}
					bad = ef.Kind + " on " + ef.Detail
				}
				core.InstrsOf(lf, func(in2 ssa.Instruction) {
					if c2 := core.CallOf(in2); c2 != nil {
						for _, src := range ordSourceCalls {
							if strings.HasPrefix(core.CalleeName(c2), strings.TrimSuffix(src, ".")) {
								bad = "calls " + core.CalleeName(c2)
							}
						}
					}
				})
				r.Check(bad == "", rule, core.FuncName(fn)+"→"+name+"#comparator", c.Pos(), "comparator is a pure function of its two elements", "sort comparator has a side effect or reads a nondeterministic source ("+bad+")")
			}
		})
	}
	r.Floor(rule, "sort comparators in scope", n, 3)
}

// ---- TIE: the rename-candidate sort is fed in a deterministic order

func c10Tie(r *core.Run, scope map[*ssa.Function]bool) {
	p := r.P
	n := 0
	for _, fn := range matcherFuncs(p) {
		core.InstrsOf(fn, func(in ssa.Instruction) {
			c, ok := in.(*ssa.Call)
			if !ok {
				return
			}
			name := core.CalleeName(&c.Call)
			if name != "sort.SliceStable" && name != "sort.Slice" {
				return
			}
			sl, ok := core.Unwrap(c.Call.Args[0]).Type().Underlying().(*types.Slice)
			if !ok || !strings.HasSuffix(sl.Elem().String(), "candidate") {
				return
			}
			n++
			r.Check(name == "sort.SliceStable", "C10.TIE", core.FuncName(fn)+"#candidate-sort", c.Pos(), "tied candidates keep their (deterministic) input order: stable sort", "candidates are sorted with an unstable sort on a non-total key (similarity): which of several tied candidates is paired first is unspecified")
		})
	}
	r.Floor("C10.TIE", "sort of rename candidates", n, 1)
	_ = fmt.Sprint
	_ = token.NoPos
}

// feedsLoaderEnv: fn's result is assigned to packages.Config.Env somewhere (the C15 hardening function).
func feedsLoaderEnv(p *core.Program, fn *ssa.Function) bool {
	found := false
	for _, f := range p.Funcs {
		core.InstrsOf(f, func(in ssa.Instruction) {
			st, ok := in.(*ssa.Store)
			if !ok {
				return
			}
			fa, ok := st.Addr.(*ssa.FieldAddr)
			if !ok || !core.IsNamed(fa.X.Type(), pkgPackages, "Config") || core.FieldName(fa.X.Type(), fa.Field) != "Env" {
				return
			}
			for _, o := range core.Origins(st.Val) {
				if c, ok := o.(*ssa.Call); ok && core.StaticCallee(&c.Call) == fn {
					found = true
				}
			}
		})
	}
	return found
}
