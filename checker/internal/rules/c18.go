package rules

import (
	"fmt"
	"go/token"
	"go/types"
	"reflect"
	"strings"

	"golang.org/x/tools/go/ssa"

	"sfwverif/internal/core"
)

func init() { register("C18", c18) }

func c18(r *core.Run) {
	p := r.P
	r.Explain = "C18 decided structurally: (SLOT) in the JSON store every append to the signature slice is followed, on every path to the next iteration or return, by an update of the ID→slot map (or the map is rebuilt after the database is replaced); (MIGRATE) in the streaming migration every Token/Decode error on the signatures path leads to an error return, the closing bracket is read, a missing array is an error, and the only unchecked decode skips foreign keys; (CODEC) the value gob-encoded for a record and the value decoded from it have the same static type, and the array key the export writes, the key the JSON store writes and the key the migration looks for agree; (ATOMICSAVE) = C07.JSONSAVE. Not decided: field-for-field equality through gob/JSON (round trip) — a runtime property. (FRESH) a signature decoded inside a loop is decoded into a variable allocated in that iteration."
	r.Undecided = []string{"field-for-field round-trip equality through gob and JSON", "last-one-wins for repeated IDs across batch boundaries (follows from C06.DEDUP + stale-entry cleanup, checked there)"}

	// ---- SLOT
	nApp := 0
	for _, fn := range p.FuncsIn("pkg/storage/jsondb") {
		if fn.Signature.Recv() == nil {
			continue
		}
		fnm := core.FuncName(fn)
		var mapUpdates []*ssa.MapUpdate
		var mapRebuild []*ssa.Store
		core.InstrsOf(fn, func(in ssa.Instruction) {
			switch x := in.(type) {
			case *ssa.MapUpdate:
				if _, _, ok := fieldLoadBy(x.Map, isStringIntMap); ok {
					mapUpdates = append(mapUpdates, x)
				}
			case *ssa.Store:
				if fa, ok := x.Addr.(*ssa.FieldAddr); ok && isStringIntMap(deref1(fa.Type())) {
					if _, isMake := x.Val.(*ssa.MakeMap); isMake {
						mapRebuild = append(mapRebuild, x)
					}
				}
			}
		})
		core.InstrsOf(fn, func(in ssa.Instruction) {
			st, ok := in.(*ssa.Store)
			if !ok {
				return
			}
			fa, ok := st.Addr.(*ssa.FieldAddr)
			if !ok {
				return
			}
			role := core.FieldName(fa.X.Type(), fa.Field)
			if strings.HasSuffix(deref1(fa.Type()).String(), "SignatureDatabase") {
				role = "db" // the scanner's database pointer, whatever the field is called
			}
			switch role {
			case "Signatures":
				if _, isAppend := isBuiltinCall(st.Val, "append"); !isAppend {
					return
				}
				nApp++
				// every path from here to a return or back to this block passes a map update
				cut := map[core.Edge]bool{}
				sameBlockAfter := false
				for _, mu := range mapUpdates {
					if mu.Block() == st.Block() && core.Precedes(st, mu) {
						sameBlockAfter = true
					}
					for i := range mu.Block().Succs {
						cut[core.Edge{From: mu.Block(), Idx: i}] = true
					}
				}
				bad := ""
				if !sameBlockAfter {
					for _, ret := range core.Returns(fn) {
						if core.IsNilConst(ret.Results[len(ret.Results)-1]) || len(ret.Results) == 0 {
							if path := core.PathAvoiding(st.Block(), ret.Block(), cut); path != nil && !blockHasUpdateBefore(ret.Block(), mapUpdates) {
								bad = "success return reachable without updating the ID index (" + core.FmtPath(path) + ")"
							}
						}
					}
					if h := core.LoopHeaderOf(st.Block()); h != nil {
						if path := core.PathAvoiding(st.Block(), h, cut); path != nil {
							bad = "next loop iteration reachable without updating the ID index (" + core.FmtPath(path) + ")"
						}
					}
				}
				r.Check(bad == "", "C18.SLOT", fnm+"#append(Signatures)", st.Pos(), "appended signature is registered in the ID→slot map on every path", "a signature is appended without being registered in the ID→slot map: "+bad+" — GetSignature cannot find it")
				// the registered slot is len-1 of the slice and the key the element's ID
				for _, mu := range mapUpdates {
					b, isSub := mu.Value.(*ssa.BinOp)
					okSlot := false
					if isSub && b.Op.String() == "-" {
						if ln, isLen := isBuiltinCall(b.X, "len"); isLen {
							if _, isSig := core.FieldLoad(ln.Call.Args[0], "Signatures"); isSig {
								if one, isC := core.ConstInt(b.Y); isC && one == 1 {
									okSlot = true
								}
							}
						}
					}
					_, f, okKey := sigField(mu.Key)
					r.Check(okSlot && okKey && f == "ID", "C18.SLOT", fnm+"#slot-value", mu.Pos(), "slot = len(Signatures)-1 keyed by the element's ID", "ID→slot entry is "+core.Canon(mu.Key)+" → "+core.Canon(mu.Value))
				}
			case "db":
				// database replaced: map must be rebuilt afterwards unless the new database is an empty literal
				if v, ok := core.StructLitField(st.Val, "Signatures"); ok && v != nil {
					return
				}
				if al, isAlloc := st.Val.(*ssa.Alloc); isAlloc {
					if _, has := core.StructLitField(al, "Signatures"); !has {
						// fresh literal without signatures: decide by whether a decoder filled it
						filled := false
						if refs := al.Referrers(); refs != nil {
							for _, ref := range *refs {
								if c := core.CallOf(ref); c != nil && strings.Contains(core.CalleeName(c), "Decode") {
									filled = true
								}
								if mi, ok := ref.(*ssa.MakeInterface); ok && mi.Referrers() != nil {
									for _, r2 := range *mi.Referrers() {
										if c := core.CallOf(r2); c != nil && strings.Contains(core.CalleeName(c), "Decode") {
											filled = true
										}
									}
								}
							}
						}
						if !filled {
							return
						}
					}
				}
				nApp++
				rebuilt := false
				for _, rb := range mapRebuild {
					if core.Precedes(st, rb) {
						rebuilt = true
					}
				}
				r.Check(rebuilt, "C18.SLOT", fnm+"#replace(db)", st.Pos(), "ID→slot map is rebuilt after the database is replaced", "the database is replaced without rebuilding the ID→slot map")
			}
		})
	}
	r.Floor("C18.SLOT", "appends to / replacements of the JSON store's signature list", nApp, 3)

	c18Migrate(r)
	c18ErrProp(r)
	c18Store(r)
	c18Bounds(r)
	c18Codec(r)
	c18FreshTarget(r, "C18.FRESH")
	c07JSONSave(r, "C18.ATOMICSAVE")
}

func blockHasUpdateBefore(b *ssa.BasicBlock, mus []*ssa.MapUpdate) bool {
	for _, mu := range mus {
		if mu.Block() == b {
			return true
		}
	}
	return false
}

func c18Migrate(r *core.Run) {
	p := r.P
	n := 0
	for _, fn := range p.FuncsIn(storeRel) {
		toks := core.Calls(fn, func(nm string, _ *ssa.CallCommon) bool { return nm == "(*encoding/json.Decoder).Token" })
		if len(toks) == 0 {
			continue
		}
		n++
		fnm := core.FuncName(fn)
		// every Token / Decode(&Signature) error must lead to an error return
		type errSite struct {
			in  ssa.Instruction
			err ssa.Value
			lbl string
		}
		var sites []errSite
		core.InstrsOf(fn, func(in ssa.Instruction) {
			c, ok := in.(*ssa.Call)
			if !ok {
				return
			}
			switch core.CalleeName(&c.Call) {
			case "(*encoding/json.Decoder).Token":
				sites = append(sites, errSite{in, nil, "Token"})
			case "(*encoding/json.Decoder).Decode":
				arg := core.Unwrap(c.Call.Args[1])
				if core.IsNamed(arg.Type(), detPath(p), "Signature") {
					sites = append(sites, errSite{in, c, "Decode(signature)"})
				} else {
					// exception: skipping foreign keys into an empty interface
					elem := core.Deref(arg.Type())
					_, isIface := elem.Underlying().(*types.Interface)
					r.Check(isIface, "C18.MIGRATE", fnm+"#unchecked-decode", in.Pos(), "the only unchecked decode skips a foreign key into interface{}", "a decode into "+core.TypeName(arg.Type())+" is not error-checked")
				}
			default:
				if callee := core.StaticCallee(&c.Call); callee != nil && p.IsProdFunc(callee) {
					rt := resultTypes(callee)
					if len(rt) == 1 && isErrorType(rt[0]) && strings.HasPrefix(callee.Name(), "Add") {
						sites = append(sites, errSite{in, c, "batch import"})
					}
				}
			}
		})
		for i, s := range sites {
			var errVal ssa.Value = s.err
			if errVal == nil {
				// Token returns (Token, error)
				if refs := s.in.(*ssa.Call).Referrers(); refs != nil {
					for _, ref := range *refs {
						if ex, ok := ref.(*ssa.Extract); ok && ex.Index == 1 {
							errVal = ex
						}
					}
				}
			}
			construct := fnm + "#" + s.lbl + "-error"
			_ = i
			if errVal == nil {
				r.Fail("C18.MIGRATE", construct, s.in.Pos(), "the error of "+s.lbl+" is discarded: a truncated file is reported as a short success")
				continue
			}
			// find the If on errVal; from its non-nil edge only error returns are reachable before any further decoding
			handled := false
			if refs := errVal.Referrers(); refs != nil {
				for _, ref := range *refs {
					b, ok := ref.(*ssa.BinOp)
					if !ok || b.Referrers() == nil {
						continue
					}
					for _, r2 := range *b.Referrers() {
						ifi, ok := r2.(*ssa.If)
						if !ok {
							continue
						}
						x, nonNilOnTrue, ok := core.NilCompare(ifi.Cond)
						if !ok || x != errVal {
							continue
						}
						idx := 1
						if nonNilOnTrue {
							idx = 0
						}
						good := true
						nRet := 0
						// direct successors until a return: must not be able to reach a success return without passing another error check
						reach := core.ReachAvoiding(ifi.Block().Succs[idx], nil)
						for _, ret := range core.Returns(fn) {
							if reach[ret.Block()] {
								nRet++
								if core.IsNilConst(ret.Results[len(ret.Results)-1]) {
									good = false
								}
							}
						}
						// after an error nothing may be decoded or imported any more
						for blk := range reach {
							for _, in2 := range blk.Instrs {
								if c2 := core.CallOf(in2); c2 != nil {
									nm := core.CalleeName(c2)
									if strings.HasPrefix(nm, "(*encoding/json.Decoder).") {
										good = false
									}
								}
							}
						}
						if good && nRet > 0 {
							handled = true
						}
					}
				}
			}
			r.Check(handled, "C18.MIGRATE", construct, s.in.Pos(), "a failing "+s.lbl+" ends in an error return", "a failing "+s.lbl+" does not end in an error return: a truncated or malformed file is reported as success")
		}
		r.Floor("C18.MIGRATE", "error-checked decode steps in "+fnm, len(sites), 5)
		// a success return requires that the signatures array was seen: dominated by a true bool flag
		for _, ret := range core.Returns(fn) {
			if !core.IsNilConst(ret.Results[len(ret.Results)-1]) {
				continue
			}
			atom := func(cond ssa.Value) (bool, bool) {
				base, neg := core.StripNot(cond)
				ph, ok := base.(*ssa.Phi)
				if !ok {
					return false, false
				}
				if b, ok := ph.Type().Underlying().(*types.Basic); !ok || b.Kind() != types.Bool {
					return false, false
				}
				return true, !neg
			}
			ok1, n1, path := core.MustPass(fn, ret.Block(), atom)
			r.Check(ok1 && n1 > 0, "C18.MIGRATE", fnm+"#missing-array-is-error", ret.Pos(), "success only if the signatures array was found", "success is returned although no signatures array was seen ("+core.FmtPath(path)+")")
		}
	}
	r.Floor("C18.MIGRATE", "streaming JSON migration (uses Decoder.Token)", n, 1)
}

func backEdges(fn *ssa.Function) map[core.Edge]bool {
	back := map[core.Edge]bool{}
	for _, b := range fn.Blocks {
		for i, s := range b.Succs {
			if s.Dominates(b) {
				back[core.Edge{From: b, Idx: i}] = true
			}
		}
	}
	return back
}

func c18Codec(r *core.Run) {
	p := r.P
	nEnc, nDec := 0, 0
	for _, fn := range p.FuncsIn(storeRel) {
		core.InstrsOf(fn, func(in ssa.Instruction) {
			c := core.CallOf(in)
			if c == nil {
				return
			}
			switch core.CalleeName(c) {
			case "(*encoding/gob.Encoder).Encode":
				nEnc++
				t := core.Deref(core.Unwrap(c.Args[1]).Type())
				r.Check(core.IsNamed(t, detPath(p), "Signature"), "C18.CODEC", core.FuncName(fn)+"#gob-encode", in.Pos(), "record is encoded from a detection.Signature", "record is encoded from "+core.TypeName(t)+", but decoded into detection.Signature")
			case "(*encoding/gob.Decoder).Decode":
				nDec++
				t := core.Deref(core.Unwrap(c.Args[1]).Type())
				r.Check(core.IsNamed(t, detPath(p), "Signature"), "C18.CODEC", core.FuncName(fn)+"#gob-decode", in.Pos(), "record is decoded into a detection.Signature", "record is decoded into "+core.TypeName(t))
			}
		})
	}
	r.Floor("C18.CODEC", "gob encode sites", nEnc, 3)
	r.Floor("C18.CODEC", "gob decode sites", nDec, 1)

	// JSON array key agreement: migration's compared key == tag of the export struct's []Signature field == tag of SignatureDatabase.Signatures
	var migKeys []string
	for _, fn := range p.FuncsIn(storeRel) {
		if len(core.Calls(fn, func(nm string, _ *ssa.CallCommon) bool { return nm == "(*encoding/json.Decoder).Token" })) == 0 {
			continue
		}
		core.InstrsOf(fn, func(in ssa.Instruction) {
			b, ok := in.(*ssa.BinOp)
			if !ok || (b.Op.String() != "==" && b.Op.String() != "!=") {
				return
			}
			if s, ok := core.ConstString(b.Y); ok {
				if _, isTA := b.X.(*ssa.Extract); isTA || true {
					migKeys = append(migKeys, s)
				}
			}
		})
	}
	tagOfSigSlice := func(st *types.Struct) (string, bool) {
		for i := 0; i < st.NumFields(); i++ {
			if sl, ok := st.Field(i).Type().Underlying().(*types.Slice); ok && core.IsNamed(sl.Elem(), detPath(p), "Signature") {
				tag := reflect.StructTag(st.Tag(i)).Get("json")
				if j := strings.IndexByte(tag, ','); j >= 0 {
					tag = tag[:j]
				}
				if tag == "" {
					tag = st.Field(i).Name()
				}
				return tag, true
			}
		}
		return "", false
	}
	var tags []string
	if db := p.NamedType(detPath(p), "SignatureDatabase"); db != nil {
		if st, ok := db.Underlying().(*types.Struct); ok {
			if t, ok := tagOfSigSlice(st); ok {
				tags = append(tags, "SignatureDatabase:"+t)
			}
		}
	}
	for _, fn := range p.FuncsIn(storeRel) {
		core.InstrsOf(fn, func(in ssa.Instruction) {
			if al, ok := in.(*ssa.Alloc); ok {
				if st, ok := core.Deref(al.Type()).(*types.Struct); ok {
					if t, ok := tagOfSigSlice(st); ok {
						tags = append(tags, core.FuncName(fn)+":"+t)
					}
				}
			}
		})
	}
	r.Floor("C18.CODEC", "JSON structs carrying the signature array", len(tags), 2)
	for _, t := range tags {
		name := t[strings.LastIndex(t, ":")+1:]
		found := false
		for _, k := range migKeys {
			if k == name {
				found = true
			}
		}
		r.Check(found, "C18.CODEC", "json-array-key("+t[:strings.LastIndex(t, ":")]+")", 0, "array key \""+name+"\" is the key the migration looks for", "the signature array is written under key \""+name+"\" but the migration looks for "+strings.Join(migKeys, "/"))
	}
}

// c18FreshTarget: a decoder merges into its target — fields absent from the input keep their previous value and
// slices reuse the previous backing array. A signature decoded inside a loop therefore needs a target that is
// allocated in that iteration; a variable declared outside the loop carries the previous element's content
// into the next one (and into every shallow copy taken of it).
func c18FreshTarget(r *core.Run, rule string) {
	p := r.P
	n := 0
	for _, rel := range []string{storeRel, "pkg/storage/jsondb"} {
		for _, fn := range p.FuncsIn(rel) {
			core.InstrsOf(fn, func(in ssa.Instruction) {
				c := core.CallOf(in)
				if c == nil {
					return
				}
				var target ssa.Value
				switch name := core.CalleeName(c); {
				case name == "(*encoding/json.Decoder).Decode" || name == "(*encoding/gob.Decoder).Decode":
					target = c.Args[1]
				case name == "encoding/json.Unmarshal":
					target = c.Args[1]
				default:
					if callee := core.StaticCallee(c); callee != nil && p.IsProdFunc(callee) && len(c.Args) == 2 && c.Args[0].Type().String() == "[]byte" {
						target = c.Args[1]
					}
				}
				if target == nil {
					// a decoder that returns the signature by value yields a fresh value by construction
					if callee := core.StaticCallee(c); callee != nil && p.IsProdFunc(callee) && len(c.Args) == 1 && c.Args[0].Type().String() == "[]byte" {
						if rt := resultTypes(callee); len(rt) == 2 && core.IsNamed(rt[0], detPath(p), "Signature") && core.LoopHeaderOf(in.Block()) != nil {
							n++
							r.OK(rule, core.FuncName(fn)+"#decode-returns-value", in.Pos(), "the decoder returns a new signature value for every element")
						}
					}
					return
				}
				target = core.Unwrap(target)
				if !core.IsNamed(core.Deref(target.Type()), detPath(p), "Signature") {
					return
				}
				h := core.LoopHeaderOf(in.Block())
				if h == nil {
					return
				}
				n++
				al, isAlloc := target.(*ssa.Alloc)
				fresh := isAlloc && al.Block() != nil && h.Dominates(al.Block()) && core.LoopHeaderOf(al.Block()) != nil && al.Block() != h
				if isAlloc && al.Block() == h {
					fresh = true // allocated in the header: once per iteration as well
				}
				r.Check(fresh, rule, core.FuncName(fn)+"#decode-target-per-iteration", in.Pos(), "the signature decoded in this loop is a variable allocated in the same iteration", "a signature is decoded inside a loop into a variable that outlives the iteration: optional fields missing in one entry keep the previous entry's values and slices share a backing array, so the stored signatures are not field for field what the file says")
			})
		}
	}
	r.Floor(rule, "signature decodes inside loops", n, 3)
}

// c18ErrProp: "reported as an error rather than a short success" — the commands that load, migrate, add to or save
// a signature store end in failure whenever the storage call failed: from the error-is-set edge of the test that
// follows the call, no return that reports success (a nil error) is reachable, and the error is tested or returned.
func c18ErrProp(r *core.Run) {
	p := r.P
	r.Explain += " (ERRPROP) after a load / migrate / add / save call of the storage layer failed, no return of the command that can report success is reachable."
	table := map[string]bool{"MigrateFromJSON": true, "ExportToJSON": true, "LoadDatabase": true, "SaveDatabase": true, "AddSignature": true, "AddSignatures": true}
	n := 0
	for _, fn := range p.FuncsIn("internal/cli") {
		rt := resultTypes(fn)
		if len(rt) == 0 || rt[len(rt)-1].String() != "error" {
			continue
		}
		core.InstrsOf(fn, func(in ssa.Instruction) {
			c, ok := in.(*ssa.Call)
			if !ok {
				return
			}
			g := core.StaticCallee(&c.Call)
			name := ""
			if g != nil && g.Signature.Recv() != nil && strings.Contains(core.Deref(g.Signature.Recv().Type()).String(), "/pkg/storage/") {
				name = g.Name()
			} else if c.Call.IsInvoke() {
				name = c.Call.Method.Name()
			}
			if !table[name] {
				return
			}
			// the error result
			var errVals []ssa.Value
			if tup, isTuple := c.Type().(*types.Tuple); isTuple {
				if refs := c.Referrers(); refs != nil {
					for _, ref := range *refs {
						if ex, isEx := ref.(*ssa.Extract); isEx && ex.Index == tup.Len()-1 && ex.Type().String() == "error" {
							errVals = append(errVals, ex)
						}
					}
				}
			} else if c.Type().String() == "error" {
				errVals = append(errVals, c)
			}
			n++
			construct := core.FuncName(fn) + "#error-of(" + name + ")"
			if len(errVals) == 0 {
				r.Fail("C18.ERRPROP", construct, c.Pos(), "the error of "+name+" is discarded: a failed load / migration / save ends as a success")
				return
			}
			isErr := func(x ssa.Value) bool {
				x = core.Unwrap(x)
				for _, e := range errVals {
					if x == e {
						return true
					}
				}
				return false
			}
			var success []*ssa.BasicBlock
			returned := false
			for _, ret := range core.Returns(fn) {
				last := ret.Results[len(ret.Results)-1]
				for _, o := range core.Origins(last) {
					if isErr(o) {
						returned = true
						continue
					}
					// a freshly made or wrapping error is a failure too; anything else (nil, the result of a later
					// step) can be nil
					if oc, isCall := o.(*ssa.Call); isCall {
						cn := core.CalleeName(&oc.Call)
						if cn == "fmt.Errorf" || cn == "errors.New" || cn == "errors.Join" {
							continue
						}
					}
					success = append(success, ret.Block())
				}
			}
			tested := false
			var wit []int
			for _, b := range fn.Blocks {
				if len(b.Instrs) == 0 {
					continue
				}
				ifi, isIf := b.Instrs[len(b.Instrs)-1].(*ssa.If)
				if !isIf {
					continue
				}
				x, nonNilOnTrue, okN := core.NilCompare(ifi.Cond)
				if !okN || !isErr(x) {
					continue
				}
				tested = true
				idx := 1
				if nonNilOnTrue {
					idx = 0
				}
				// leave b through the error-is-set edge only
				cut := map[core.Edge]bool{{From: b, Idx: 1 - idx}: true}
				for _, sb := range success {
					if pth := core.PathAvoiding(b, sb, cut); pth != nil && wit == nil {
						wit = pth
					}
				}
			}
			switch {
			case wit != nil:
				r.Fail("C18.ERRPROP", construct, c.Pos(), "after "+name+" failed a return that reports success is reachable (path "+core.FmtPath(wit)+"): a truncated or malformed file, or a failed write, ends as a (short) success")
			case !tested && !returned:
				r.Fail("C18.ERRPROP", construct, c.Pos(), "the error of "+name+" is neither tested nor returned")
			default:
				r.OK("C18.ERRPROP", construct, c.Pos(), "a failure of "+name+" ends the command in failure on every path")
			}
		})
	}
	r.Floor("C18.ERRPROP", "storage calls of the commands whose failure must fail the command", n, 6)
}

// c18Store: "a signature that was added can be fetched back by its ID with identical content" — in the embedded
// store a function that writes signature records reports success only after it wrote the record: no success return
// is reachable around the record write (a shortcut that skips the write because "nothing changed" judges that from a
// few fields and drops every other update), and in a batch every iteration writes its record unless the element is nil.
func c18Store(r *core.Run) {
	p := r.P
	r.Explain += " (STORE) in the embedded store success is reported only after the record write, and every non-nil, non-superseded element of a batch has its record written."
	n := 0
	for _, fn := range p.FuncsIn("pkg/storage/pebbledb") {
		if fn.Parent() != nil || fn.Signature.Recv() == nil {
			continue
		}
		var writes []ssa.Instruction
		core.InstrsOf(fn, func(in ssa.Instruction) {
			c := core.CallOf(in)
			if c == nil {
				return
			}
			nm := core.CalleeName(c)
			if !strings.HasSuffix(nm, ".Batch).Set") && !strings.HasSuffix(nm, ".DB).Set") && nm != "invoke:(github.com/cockroachdb/pebble.Writer).Set" {
				return
			}
			args := core.CallArgs(c)
			for _, o := range core.Origins(args[2]) {
				if cc, ok := o.(*ssa.Call); ok && core.CalleeName(&cc.Call) == "(*bytes.Buffer).Bytes" {
					writes = append(writes, in)
				}
			}
		})
		if len(writes) == 0 {
			continue
		}
		// only functions that take the signature(s) to store
		takesSig := false
		for _, pa := range fn.Params[1:] {
			if strings.Contains(pa.Type().String(), "detection.Signature") {
				takesSig = true
			}
		}
		if !takesSig {
			continue
		}
		fnm := core.FuncName(fn)
		for _, w := range writes {
			n++
			cut := map[core.Edge]bool{}
			for _, pb := range w.Block().Preds {
				for i, sb := range pb.Succs {
					if sb == w.Block() {
						cut[core.Edge{From: pb, Idx: i}] = true
					}
				}
			}
			if h := core.LoopHeaderOf(w.Block()); h != nil {
				// a batch: one iteration, from the body's entry back to the header, without the write
				nilElem, _ := core.GuardEdges(fn, core.NilGuard(func(x ssa.Value) bool {
					return strings.Contains(x.Type().String(), "detection.Signature")
				}))
				for e := range nilElem {
					cut[e] = true
				}
				// "only the last element with this ID" (decided by C06.DEDUP): the position recorded for the ID is
				// not this iteration's
				notLast, _ := core.GuardEdges(fn, func(cond ssa.Value) (bool, bool) {
					op, x, y, neg, ok := core.Compare(cond)
					if !ok || neg || (op != token.NEQ && op != token.EQL) {
						return false, false
					}
					for _, pair := range [][2]ssa.Value{{x, y}, {y, x}} {
						if lk, isLk := core.Unwrap(pair[0]).(*ssa.Lookup); isLk && isStringIntMap(lk.X.Type()) && (isLoopCounter(pair[1]) || isCounterPlus(pair[1])) {
							return true, op == token.NEQ
						}
					}
					return false, false
				})
				for e := range notLast {
					cut[e] = true
				}
				body := loopBody(h)
				var wit []int
				for _, s0 := range h.Succs {
					if body[s0] && s0 != h {
						if pth := core.PathAvoiding(s0, h, cut); pth != nil {
							wit = pth
						}
					}
				}
				r.Check(wit == nil, "C18.STORE", fnm+"#every-element-written", w.Pos(), "every non-nil signature of the batch has its record written before the next one is taken up", "an iteration of the batch can end without writing the signature's record (path "+core.FmtPath(wit)+"): the function reports success but the signature cannot be fetched back with the content that was added")
				continue
			}
			var wit []int
			for _, ret := range core.Returns(fn) {
				if len(ret.Results) == 0 || !core.IsNilConst(ret.Results[len(ret.Results)-1]) {
					continue
				}
				if pth := core.PathAvoiding(fn.Blocks[0], ret.Block(), cut); pth != nil {
					wit = pth
				}
			}
			r.Check(wit == nil, "C18.STORE", fnm+"#success-only-after-write", w.Pos(), "success is reported only after the record was written", "success can be reported without writing the record (path "+core.FmtPath(wit)+"): an update that is judged redundant from a few fields is dropped, and GetSignature / export keep the old content")
		}
	}
	r.Floor("C18.STORE", "record writes of the functions that add signatures", n, 2)
}

// isCounterPlus: the current index of a range loop as go/ssa computes it (hidden counter + 1).
func isCounterPlus(v ssa.Value) bool {
	b, ok := v.(*ssa.BinOp)
	return ok && b.Op == token.ADD && isLoopCounter(b.X)
}

// c18Bounds: two boundary tests on the way of a signature. (flush) A batch handed to the batch add under a test of
// its length against 0 or 1 is handed over whenever it is NON-EMPTY — `len(batch) > 1` silently drops a final batch
// of one. (slot) A slot number looked up in the ID→slot map is valid from 0: the test that admits it must admit 0.
func c18Bounds(r *core.Run) {
	p := r.P
	n := 0
	for _, fn := range p.FuncsIn("pkg/storage/pebbledb") {
		// batches handed to a batch adder
		var batches []ssa.Value
		core.InstrsOf(fn, func(in ssa.Instruction) {
			if c := core.CallOf(in); c != nil {
				if g := core.StaticCallee(c); g != nil && g.Name() == "AddSignatures" && len(c.Args) >= 2 {
					batches = append(batches, c.Args[len(c.Args)-1])
				}
			}
		})
		if len(batches) == 0 {
			continue
		}
		for _, nf := range core.Nest(fn) {
			for _, b := range nf.Blocks {
				if len(b.Instrs) == 0 {
					continue
				}
				ifi, ok := b.Instrs[len(b.Instrs)-1].(*ssa.If)
				if !ok {
					continue
				}
				op, x, y, neg, okC := core.Compare(ifi.Cond)
				if !okC || neg {
					continue
				}
				ln, isLen := isBuiltinCall(x, "len")
				k, isK := core.ConstInt(y)
				if !isLen || !isK || k > 1 {
					continue
				}
				isBatch := false
				for _, bt := range batches {
					if core.Canon(core.Resolve(ln.Call.Args[0])) == core.Canon(core.Resolve(bt)) {
						isBatch = true
					}
				}
				if !isBatch {
					continue
				}
				n++
				nonEmpty := (op == token.GTR && k == 0) || (op == token.NEQ && k == 0) || (op == token.GEQ && k == 1) || (op == token.EQL && k == 0) || (op == token.LEQ && k == 0) || (op == token.LSS && k == 1)
				r.Check(nonEmpty, "C18.BOUNDS", core.FuncName(nf)+"#flush-when-non-empty", ifi.Pos(), "a pending batch is handed over whenever it is non-empty", fmt.Sprintf("a pending batch is tested with len %s %d: a final batch of exactly one signature is dropped, the migration returns success with a short count", op, k))
			}
		}
	}
	for _, fn := range p.FuncsIn("pkg/storage/jsondb") {
		for _, b := range fn.Blocks {
			if len(b.Instrs) == 0 {
				continue
			}
			ifi, ok := b.Instrs[len(b.Instrs)-1].(*ssa.If)
			if !ok {
				continue
			}
			op, x, y, neg, okC := core.Compare(ifi.Cond)
			if !okC || neg {
				continue
			}
			k, isK := core.ConstInt(y)
			ex, isEx := core.Unwrap(x).(*ssa.Extract)
			if !isK || k != 0 || !isEx || ex.Index != 0 {
				continue
			}
			lk, isLk := ex.Tuple.(*ssa.Lookup)
			if !isLk || !isStringIntMap(lk.X.Type()) {
				continue
			}
			n++
			r.Check(op == token.GEQ || op == token.LSS, "C18.BOUNDS", core.FuncName(fn)+"#slot-zero-is-valid", ifi.Pos(), "the slot test admits slot 0", "the slot number from the ID→slot map is tested with "+op.String()+" 0: the signature stored in slot 0 cannot be fetched back although it was added successfully")
		}
	}
	r.Floor("C18.BOUNDS", "boundary tests on batches and slots", n, 2)
}
