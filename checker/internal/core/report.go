package core

import (
	"encoding/json"
	"fmt"
	"go/token"
	"os"
	"path/filepath"
	"regexp"
	"sort"
	"strconv"
	"strings"
	"time"
)

// Obligation is one rule instance examined by a run.
type Obligation struct {
	Rule      string `json:"rule"`
	Construct string `json:"construct"`
	Pos       string `json:"pos,omitempty"`
	Status    string `json:"status"` // ok | violation | known
	Detail    string `json:"detail,omitempty"`
}

func (o Obligation) Key() string { return o.Rule + ":" + o.Construct }

// Run collects the obligations of one property check.
type Run struct {
	Prop      string
	Tier      string
	VerifDir  string
	P         *Program
	Obls      []Obligation
	Notes     []string
	Undecided []string
	Assume    []string
	Explain   string
	Extra     map[string]interface{}
	// Rename, when set, rewrites the rule name of every obligation recorded: a rule family of one property that is
	// a necessary condition of another is run under the other's name (and decided against the other's known findings).
	Rename func(rule string) string
	// Filter, when set, drops obligations it returns false for (used with Rename to import part of a rule family).
	Filter func(o *Obligation) bool
	start  time.Time
	seen   map[string]bool
}

// Under runs f with rule names starting with from rewritten to start with to.
func (r *Run) Under(from, to string, f func()) {
	old := r.Rename
	r.Rename = func(rule string) string {
		if strings.HasPrefix(rule, from) {
			rule = to + strings.TrimPrefix(rule, from)
		}
		if old != nil {
			rule = old(rule)
		}
		return rule
	}
	defer func() { r.Rename = old }()
	f()
}

func NewRun(prop, tier, verifDir string, p *Program) *Run {
	return &Run{Prop: prop, Tier: tier, VerifDir: verifDir, P: p, start: time.Now(), seen: map[string]bool{}, Extra: map[string]interface{}{}}
}

func (r *Run) add(o Obligation) {
	if r.Filter != nil && !r.Filter(&o) {
		return
	}
	if r.Rename != nil {
		o.Rule = r.Rename(o.Rule)
	}
	k := o.Key() + "|" + o.Status + "|" + o.Detail
	if r.seen[k] {
		return
	}
	r.seen[k] = true
	r.Obls = append(r.Obls, o)
}

func (r *Run) pos(pos token.Pos) string {
	if r.P == nil {
		return "-"
	}
	return r.P.Pos(pos)
}

// OK records a discharged obligation.
func (r *Run) OK(rule, construct string, pos token.Pos, detail string) {
	r.add(Obligation{Rule: rule, Construct: construct, Pos: r.pos(pos), Status: "ok", Detail: detail})
}

// Fail records a violated obligation.
func (r *Run) Fail(rule, construct string, pos token.Pos, detail string) {
	r.add(Obligation{Rule: rule, Construct: construct, Pos: r.pos(pos), Status: "violation", Detail: detail})
}

// Check records ok or violation depending on cond.
func (r *Run) Check(cond bool, rule, construct string, pos token.Pos, okDetail, failDetail string) bool {
	if cond {
		r.OK(rule, construct, pos, okDetail)
	} else {
		r.Fail(rule, construct, pos, failDetail)
	}
	return cond
}

// Floor fails the run as vacuous when a role resolved to fewer constructs than confirmed by hand.
// Floor guards against vacuity: a rule whose role resolves to (almost) nothing has stopped checking anything.
// `confirmed` is the number of constructs confirmed by hand on the pinned tree; the floor is half of it (rounded
// up), so that merging duplicated sites into a shared helper — a behaviour-preserving clean-up — does not trip it,
// while the disappearance of the mechanism does.
func (r *Run) Floor(rule, role string, got, confirmed int) bool {
	min := (confirmed + 1) / 2 // 0 stays 0: a census whose expected count is zero
	if got < min {
		r.add(Obligation{Rule: rule, Construct: "floor(" + role + ")", Status: "violation",
			Detail: fmt.Sprintf("vacuous: role %q resolved to %d construct(s), need >= %d — the mechanism this rule checks is gone or unrecognisable", role, got, min)})
		return false
	}
	r.add(Obligation{Rule: rule, Construct: "floor(" + role + ")", Status: "ok", Detail: fmt.Sprintf("role %q: %d construct(s) (floor %d)", role, got, min)})
	return true
}

func (r *Run) Note(format string, a ...interface{}) {
	r.Notes = append(r.Notes, fmt.Sprintf(format, a...))
}

// KnownFindings is the committed file of genuine defects that are recorded rather than repaired.
type KnownFindings struct {
	Findings []struct {
		Property string `json:"property"`
		Key      string `json:"key"`
		Status   string `json:"status"`
		What     string `json:"what"`
		Demo     string `json:"demo"`
	} `json:"findings"`
	Fixed []struct {
		Property string `json:"property"`
		Key      string `json:"key"`
		Commit   string `json:"commit"`
		What     string `json:"what"`
	} `json:"fixed"`
}

func loadKnown(verifDir string) (*KnownFindings, error) {
	kf := &KnownFindings{}
	b, err := os.ReadFile(filepath.Join(verifDir, "known_findings.json"))
	if err != nil {
		if os.IsNotExist(err) {
			return kf, nil
		}
		return nil, err
	}
	if err := json.Unmarshal(b, kf); err != nil {
		return nil, fmt.Errorf("known_findings.json: %w", err)
	}
	return kf, nil
}

var unsafeFile = regexp.MustCompile(`[^A-Za-z0-9._-]+`)

// Finish prints the verdict lines, writes evidence and replay files and returns the exit code.
func (r *Run) Finish() int {
	kf, err := loadKnown(r.VerifDir)
	if err != nil {
		r.Fail("INTERNAL", "known_findings.json", token.NoPos, err.Error())
		kf = &KnownFindings{}
	}
	known := map[string]string{}
	for _, f := range kf.Findings {
		if f.Property == r.Prop && (f.Status == "" || f.Status == "known") {
			known[f.Key] = f.What
		}
	}
	sort.SliceStable(r.Obls, func(i, j int) bool {
		if r.Obls[i].Rule != r.Obls[j].Rule {
			return r.Obls[i].Rule < r.Obls[j].Rule
		}
		return r.Obls[i].Construct < r.Obls[j].Construct
	})
	viol, knownHit, ok := 0, 0, 0
	replayDir := filepath.Join(r.VerifDir, "evidence", "replay")
	// stale replay files of this property are removed so that the directory reflects this run
	if ents, err := os.ReadDir(replayDir); err == nil {
		for _, e := range ents {
			if strings.HasPrefix(e.Name(), r.Prop+"-") {
				os.Remove(filepath.Join(replayDir, e.Name()))
			}
		}
	}
	var knownLines []string
	for i := range r.Obls {
		o := &r.Obls[i]
		switch o.Status {
		case "ok":
			ok++
		case "violation":
			if what, isKnown := known[o.Key()]; isKnown {
				o.Status = "known"
				knownHit++
				line := fmt.Sprintf("KNOWN-FINDING: property=%s %s [%s at %s]", r.Prop, what, o.Key(), o.Pos)
				knownLines = append(knownLines, line)
				fmt.Println(line)
				continue
			}
			viol++
			os.MkdirAll(replayDir, 0o755)
			name := r.Prop + "-" + unsafeFile.ReplaceAllString(o.Key(), "_")
			if len(name) > 150 {
				name = name[:150]
			}
			path := filepath.Join(replayDir, name+".json")
			b, _ := json.MarshalIndent(map[string]interface{}{
				"property": r.Prop, "rule": o.Rule, "construct": o.Construct, "key": o.Key(), "pos": o.Pos, "detail": o.Detail,
				"how_to_replay": fmt.Sprintf("cd %s && ./check %s %s   # static check: re-analyses /repo's working tree and re-derives this obligation", r.VerifDir, r.Prop, r.Tier),
			}, "", " ")
			os.WriteFile(path, append(b, '\n'), 0o644)
			fmt.Printf("%s: %s: %s — %s\n", o.Pos, o.Rule, o.Construct, o.Detail)
			fmt.Printf("VIOLATION property=%s replay=%s\n", r.Prop, path)
		}
	}
	r.writeEvidence(ok, viol, knownHit, knownLines)
	fmt.Printf("%s %s: obligations=%d ok=%d known=%d violations=%d wall=%.1fs\n", r.Prop, r.Tier, len(r.Obls), ok, knownHit, viol, time.Since(r.start).Seconds())
	if viol > 0 {
		return 1
	}
	return 0
}

func (r *Run) writeEvidence(ok, viol, knownHit int, knownLines []string) {
	seed := 0
	if s := os.Getenv("VERIF_SEED"); s != "" {
		if n, err := strconv.Atoi(s); err == nil {
			seed = n
		}
	}
	rules := map[string]int{}
	constructs := map[string]bool{}
	var samples []interface{}
	perRule := map[string]int{}
	for _, o := range r.Obls {
		rules[o.Rule]++
		constructs[o.Key()] = true
		if perRule[o.Rule] < 3 && len(samples) < 40 {
			perRule[o.Rule]++
			samples = append(samples, o)
		}
	}
	var nonOK []Obligation
	for _, o := range r.Obls {
		if o.Status != "ok" {
			nonOK = append(nonOK, o)
		}
	}
	cov := map[string]interface{}{
		"explanation":         r.Explain,
		"obligations":         len(r.Obls),
		"discharged":          ok,
		"evaluations":         len(r.Obls),
		"distinct_nontrivial": len(constructs),
		"rule":                "one obligation per (rule, construct) pair found by role in the type-checked SSA/AST of /repo's working tree; distinct = distinct rule:construct keys; every obligation is non-trivial in the sense that it names a concrete construct of the target and the structural condition decided for it",
		"samples":             samples,
		"all_obligations":     r.Obls,
		"rules":               rules,
		"not_ok":              nonOK,
		"known_findings":      knownLines,
		"undecided_clauses":   r.Undecided,
		"notes":               r.Notes,
		"checker_cmd":         fmt.Sprintf("./check %s %s", r.Prop, r.Tier),
		"trusted_base":        []string{"go/types and go/ssa of golang.org/x/tools v0.29.0 as used by the checker", "the rule tables in /verif/checker/internal/rules"},
	}
	if r.P != nil {
		_, kind := "", ""
		if r.P.cg != nil {
			kind = r.P.cgKind
		}
		_ = kind
		cov["packages_loaded"] = r.P.TotalPkg
		cov["module_packages_in_production_scope"] = len(r.P.Prod)
		cov["module_functions_with_bodies"] = len(r.P.Funcs)
		cov["callgraph"] = r.P.cgKind
		cov["whole_program_ssa"] = r.P.Whole
	}
	for k, v := range r.Extra {
		cov[k] = v
	}
	assume := append([]string{"go/types and go/ssa (golang.org/x/tools v0.29.0) model the target's source faithfully; only linux/amd64, cgo off, non-test files are analysed"}, r.Assume...)
	ev := map[string]interface{}{
		"property_id": r.Prop,
		"tier":        r.Tier,
		"seed":        seed,
		"level":       "other",
		"coverage":    cov,
		"assumptions": assume,
		"wall_s":      time.Since(r.start).Seconds(),
		"violations":  viol,
	}
	b, _ := json.MarshalIndent(ev, "", " ")
	dir := filepath.Join(r.VerifDir, "evidence")
	os.MkdirAll(dir, 0o755)
	os.WriteFile(filepath.Join(dir, r.Prop+".json"), append(b, '\n'), 0o644)
}
