// Package core holds the program model shared by all rules: the type-checked packages of the
// target repository, their SSA form, call graph and small helpers to resolve anchors by role.
package core

import (
	"fmt"
	"go/ast"
	"go/token"
	"go/types"
	"os"
	"path/filepath"
	"sort"
	"strings"

	"golang.org/x/tools/go/callgraph"
	"golang.org/x/tools/go/callgraph/cha"
	"golang.org/x/tools/go/callgraph/vta"
	"golang.org/x/tools/go/packages"
	"golang.org/x/tools/go/ssa"
	"golang.org/x/tools/go/ssa/ssautil"
)

// Program is the resolved model of the repository under analysis.
type Program struct {
	RepoDir string
	ModPath string
	Fset    *token.FileSet
	// Initial are the module's own packages (everything matched by ./...).
	Initial []*packages.Package
	// Prod are the module packages in the import closure of the main package (production scope).
	Prod    map[string]*packages.Package
	ByPath  map[string]*packages.Package // every loaded package incl. dependencies
	SSA     *ssa.Program
	SSAPkgs map[string]*ssa.Package // production module packages by import path
	// Funcs are all functions with bodies that belong to production module packages
	// (package-level functions, methods, anonymous functions, range-over-func bodies).
	Funcs    []*ssa.Function
	funcSet  map[*ssa.Function]bool
	Whole    bool // SSA built for dependencies too (thorough tier)
	cg       *callgraph.Graph
	cgKind   string
	TotalPkg int
}

// Load type-checks ./... in dir and builds SSA. whole=true also builds dependency bodies.
func Load(dir string, whole bool) (*Program, error) {
	abs, err := filepath.Abs(dir)
	if err != nil {
		return nil, err
	}
	env := []string{}
	for _, e := range os.Environ() {
		if strings.HasPrefix(e, "GOWORK=") || strings.HasPrefix(e, "GOFLAGS=") || strings.HasPrefix(e, "GOPROXY=") ||
			strings.HasPrefix(e, "GOOS=") || strings.HasPrefix(e, "GOARCH=") || strings.HasPrefix(e, "CGO_ENABLED=") {
			continue
		}
		env = append(env, e)
	}
	env = append(env, "GOWORK=off", "GOFLAGS=-mod=mod", "GOPROXY=off", "GOOS=linux", "GOARCH=amd64", "CGO_ENABLED=0")
	fset := token.NewFileSet()
	cfg := &packages.Config{
		Mode:  packages.LoadAllSyntax | packages.NeedModule,
		Dir:   abs,
		Fset:  fset,
		Tests: false,
		Env:   env,
	}
	pkgs, err := packages.Load(cfg, "./...")
	if err != nil {
		return nil, fmt.Errorf("packages.Load: %w", err)
	}
	if len(pkgs) == 0 {
		return nil, fmt.Errorf("no packages loaded from %s", abs)
	}
	p := &Program{RepoDir: abs, Fset: fset, Initial: pkgs, ByPath: map[string]*packages.Package{},
		Prod: map[string]*packages.Package{}, SSAPkgs: map[string]*ssa.Package{}, funcSet: map[*ssa.Function]bool{}, Whole: whole}
	var errs []string
	packages.Visit(pkgs, nil, func(pkg *packages.Package) {
		p.ByPath[pkg.PkgPath] = pkg
		for _, e := range pkg.Errors {
			errs = append(errs, pkg.PkgPath+": "+e.Error())
		}
	})
	p.TotalPkg = len(p.ByPath)
	if len(errs) > 0 {
		if len(errs) > 8 {
			errs = errs[:8]
		}
		return nil, fmt.Errorf("type-check errors in target tree:\n  %s", strings.Join(errs, "\n  "))
	}
	for _, pkg := range pkgs {
		if pkg.Module != nil && pkg.Module.Main {
			p.ModPath = pkg.Module.Path
			break
		}
	}
	if p.ModPath == "" {
		return nil, fmt.Errorf("cannot determine module path")
	}
	// Production scope: module packages reachable from main packages.
	var visit func(pkg *packages.Package)
	visit = func(pkg *packages.Package) {
		if !p.InModule(pkg.PkgPath) || p.Prod[pkg.PkgPath] != nil {
			return
		}
		p.Prod[pkg.PkgPath] = pkg
		for _, imp := range pkg.Imports {
			visit(imp)
		}
	}
	nmain := 0
	for _, pkg := range pkgs {
		if pkg.Name == "main" {
			nmain++
			visit(pkg)
		}
	}
	if nmain == 0 {
		return nil, fmt.Errorf("no main package in module")
	}

	var prog *ssa.Program
	var spkgs []*ssa.Package
	if whole {
		prog, spkgs = ssautil.AllPackages(pkgs, ssa.InstantiateGenerics)
	} else {
		prog, spkgs = ssautil.Packages(pkgs, ssa.InstantiateGenerics)
	}
	prog.Build()
	p.SSA = prog
	for i, sp := range spkgs {
		if sp == nil {
			return nil, fmt.Errorf("no SSA package for %s", pkgs[i].PkgPath)
		}
		if p.Prod[sp.Pkg.Path()] != nil {
			p.SSAPkgs[sp.Pkg.Path()] = sp
		}
	}
	for fn := range ssautil.AllFunctions(prog) {
		if fn.Blocks == nil {
			continue
		}
		root := fn
		for root.Parent() != nil {
			root = root.Parent()
		}
		if root.Pkg == nil || p.SSAPkgs[root.Pkg.Pkg.Path()] == nil {
			continue
		}
		if root.Synthetic != "" && root.Name() != "init" {
			// wrappers, bound-method thunks and generic instantiations are derived code
			continue
		}
		p.Funcs = append(p.Funcs, fn)
		p.funcSet[fn] = true
	}
	sort.Slice(p.Funcs, func(i, j int) bool { return p.Funcs[i].String() < p.Funcs[j].String() })
	return p, nil
}

func (p *Program) InModule(path string) bool {
	return path == p.ModPath || strings.HasPrefix(path, p.ModPath+"/")
}

// IsProdFunc reports whether fn is a production function of the module.
func (p *Program) IsProdFunc(fn *ssa.Function) bool { return p.funcSet[fn] }

// Rel returns a module-relative path for a package path.
func (p *Program) Rel(path string) string {
	if path == p.ModPath {
		return "."
	}
	return strings.TrimPrefix(path, p.ModPath+"/")
}

// Pkg returns the production package whose module-relative path is rel (e.g. "pkg/diff").
func (p *Program) Pkg(rel string) *packages.Package {
	return p.Prod[p.ModPath+"/"+rel]
}

// SSAPkg returns the SSA package for a module-relative path.
func (p *Program) SSAPkg(rel string) *ssa.Package {
	return p.SSAPkgs[p.ModPath+"/"+rel]
}

// Pos renders a position relative to the repository root.
func (p *Program) Pos(pos token.Pos) string {
	if !pos.IsValid() {
		return "-"
	}
	pp := p.Fset.Position(pos)
	f := pp.Filename
	if r, err := filepath.Rel(p.RepoDir, f); err == nil && !strings.HasPrefix(r, "..") {
		f = r
	}
	return fmt.Sprintf("%s:%d", f, pp.Line)
}

// FuncName is the short, line-free name used in obligation keys: pkgname.Func, pkgname.(*T).M, pkgname.F$1.
func FuncName(fn *ssa.Function) string {
	if fn == nil {
		return "<nil>"
	}
	root := fn
	for root.Parent() != nil {
		root = root.Parent()
	}
	if root.Pkg != nil {
		return root.Pkg.Pkg.Name() + "." + fn.RelString(root.Pkg.Pkg)
	}
	return fn.String()
}

// Func finds a production function by module-relative package path and its name relative to
// that package ("GenerateFingerprint", "(*Canonicalizer).processInstruction", "F$1").
func (p *Program) Func(rel, name string) *ssa.Function {
	sp := p.SSAPkg(rel)
	if sp == nil {
		return nil
	}
	for _, fn := range p.Funcs {
		root := fn
		for root.Parent() != nil {
			root = root.Parent()
		}
		if root.Pkg == sp && fn.RelString(sp.Pkg) == name {
			return fn
		}
	}
	return nil
}

// FuncsIn returns the production functions (incl. anonymous) of a module-relative package path.
func (p *Program) FuncsIn(rel string) []*ssa.Function {
	sp := p.SSAPkg(rel)
	var out []*ssa.Function
	for _, fn := range p.Funcs {
		root := fn
		for root.Parent() != nil {
			root = root.Parent()
		}
		if root.Pkg == sp {
			out = append(out, fn)
		}
	}
	return out
}

// Nest returns fn and all functions nested in it (closures), in deterministic order.
func Nest(fn *ssa.Function) []*ssa.Function {
	out := []*ssa.Function{fn}
	for _, a := range fn.AnonFuncs {
		out = append(out, Nest(a)...)
	}
	return out
}

// CallGraph returns the call graph (CHA for the quick tier, VTA seeded by CHA when the whole
// program was built).
func (p *Program) CallGraph() (*callgraph.Graph, string) {
	if p.cg != nil {
		return p.cg, p.cgKind
	}
	g := cha.CallGraph(p.SSA)
	kind := "cha"
	if p.Whole {
		g = vta.CallGraph(ssautil.AllFunctions(p.SSA), g)
		kind = "vta(cha)"
	}
	p.cg, p.cgKind = g, kind
	return g, kind
}

// Reach returns the production functions reachable from entries through the call graph,
// including closures created inside reachable functions.
func (p *Program) Reach(entries ...*ssa.Function) map[*ssa.Function]bool {
	g, _ := p.CallGraph()
	seen := map[*ssa.Function]bool{}
	var work []*ssa.Function
	push := func(fn *ssa.Function) {
		if fn == nil || seen[fn] {
			return
		}
		seen[fn] = true
		work = append(work, fn)
	}
	for _, e := range entries {
		push(e)
	}
	for len(work) > 0 {
		fn := work[len(work)-1]
		work = work[:len(work)-1]
		for _, a := range fn.AnonFuncs {
			push(a)
		}
		if n := g.Nodes[fn]; n != nil {
			for _, e := range n.Out {
				push(e.Callee.Func)
			}
		}
	}
	out := map[*ssa.Function]bool{}
	for fn := range seen {
		if p.funcSet[fn] {
			out[fn] = true
		}
	}
	return out
}

// SortedFuncs returns the keys of a function set in deterministic order.
func SortedFuncs(m map[*ssa.Function]bool) []*ssa.Function {
	out := make([]*ssa.Function, 0, len(m))
	for fn := range m {
		out = append(out, fn)
	}
	sort.Slice(out, func(i, j int) bool { return out[i].String() < out[j].String() })
	return out
}

// FileOf returns the syntax file and package containing pos.
func (p *Program) FileOf(pos token.Pos) (*ast.File, *packages.Package) {
	for _, pkg := range p.Prod {
		for _, f := range pkg.Syntax {
			if f.FileStart <= pos && pos <= f.FileEnd {
				return f, pkg
			}
		}
	}
	return nil, nil
}

// NamedType looks a named type up by full package path and name among all loaded packages.
func (p *Program) NamedType(pkgPath, name string) *types.Named {
	pkg := p.ByPath[pkgPath]
	if pkg == nil || pkg.Types == nil {
		return nil
	}
	obj := pkg.Types.Scope().Lookup(name)
	if obj == nil {
		return nil
	}
	n, _ := obj.Type().(*types.Named)
	return n
}
