package core

import (
	"fmt"
	"go/constant"
	"go/token"
	"go/types"
	"sort"
	"strings"

	"golang.org/x/tools/go/ssa"
)

// ---------------------------------------------------------------------------------------------
// callee identification (always through resolved objects, never by text of the source)

// CalleeName returns a stable full name of the statically known callee of a call instruction:
// "path/filepath.Abs", "(*github.com/cockroachdb/pebble.Batch).Commit", "builtin.append",
// "invoke:(iface).Method" for interface calls, "" for dynamic calls through a value.
func CalleeName(c *ssa.CallCommon) string {
	if c.IsInvoke() {
		return "invoke:" + c.Method.FullName()
	}
	switch v := c.Value.(type) {
	case *ssa.Function:
		return FuncFullName(v)
	case *ssa.Builtin:
		return "builtin." + v.Name()
	case *ssa.MakeClosure:
		if fn, ok := v.Fn.(*ssa.Function); ok {
			return FuncFullName(fn)
		}
	}
	return ""
}

// FuncFullName is fn.String() with generic instantiation arguments and $bound/$thunk suffixes removed.
func FuncFullName(fn *ssa.Function) string {
	if fn == nil {
		return ""
	}
	if o := fn.Origin(); o != nil {
		fn = o
	}
	s := fn.String()
	s = strings.TrimSuffix(s, "$bound")
	s = strings.TrimSuffix(s, "$thunk")
	return s
}

// StaticCallee returns the *ssa.Function called (directly or as an immediately applied closure).
func StaticCallee(c *ssa.CallCommon) *ssa.Function {
	if c.IsInvoke() {
		return nil
	}
	switch v := c.Value.(type) {
	case *ssa.Function:
		return v
	case *ssa.MakeClosure:
		if fn, ok := v.Fn.(*ssa.Function); ok {
			return fn
		}
	}
	return nil
}

// CallOf returns the CallCommon of a call-like instruction (Call, Go, Defer).
func CallOf(instr ssa.Instruction) *ssa.CallCommon {
	if ci, ok := instr.(ssa.CallInstruction); ok {
		return ci.Common()
	}
	return nil
}

// IsCallTo reports whether instr is a call whose callee name is one of names.
func IsCallTo(instr ssa.Instruction, names ...string) bool {
	c := CallOf(instr)
	if c == nil {
		return false
	}
	n := CalleeName(c)
	for _, x := range names {
		if n == x {
			return true
		}
	}
	return false
}

// Calls returns all call-like instructions in fn (not descending into closures) whose callee
// name satisfies pred, in block order.
func Calls(fn *ssa.Function, pred func(name string, c *ssa.CallCommon) bool) []ssa.CallInstruction {
	var out []ssa.CallInstruction
	for _, b := range fn.Blocks {
		for _, in := range b.Instrs {
			if ci, ok := in.(ssa.CallInstruction); ok {
				if pred(CalleeName(ci.Common()), ci.Common()) {
					out = append(out, ci)
				}
			}
		}
	}
	return out
}

// CallArgs returns the explicit arguments of a call including the receiver for static method calls
// (go/ssa puts the receiver first in Args for static calls) and the interface value for invokes.
func CallArgs(c *ssa.CallCommon) []ssa.Value {
	if c.IsInvoke() {
		return append([]ssa.Value{c.Value}, c.Args...)
	}
	return c.Args
}

// ---------------------------------------------------------------------------------------------
// types

func Deref(t types.Type) types.Type {
	for {
		p, ok := t.Underlying().(*types.Pointer)
		if !ok {
			return t
		}
		t = p.Elem()
	}
}

// IsNamed reports whether t (after pointer removal) is the named type pkgPath.name.
func IsNamed(t types.Type, pkgPath, name string) bool {
	if t == nil {
		return false
	}
	t = Deref(t)
	n, ok := t.(*types.Named)
	if !ok {
		if a, ok2 := t.(*types.Alias); ok2 {
			return IsNamed(types.Unalias(a), pkgPath, name)
		}
		return false
	}
	obj := n.Obj()
	return obj != nil && obj.Name() == name && obj.Pkg() != nil && obj.Pkg().Path() == pkgPath
}

// TypeName renders pkgname.Type for named types (pointer-stripped), or the type string.
func TypeName(t types.Type) string {
	if t == nil {
		return "<nil>"
	}
	t = Deref(t)
	if n, ok := t.(*types.Named); ok && n.Obj() != nil {
		if n.Obj().Pkg() != nil {
			return n.Obj().Pkg().Name() + "." + n.Obj().Name()
		}
		return n.Obj().Name()
	}
	return types.TypeString(t, func(p *types.Package) string { return p.Name() })
}

// FieldName returns the name of field index idx of the struct type t (pointer-stripped).
func FieldName(t types.Type, idx int) string {
	st, ok := Deref(t).Underlying().(*types.Struct)
	if !ok || idx < 0 || idx >= st.NumFields() {
		return fmt.Sprintf("field#%d", idx)
	}
	return st.Field(idx).Name()
}

// ---------------------------------------------------------------------------------------------
// value resolution

// StoresTo returns the values stored directly to the address a within its function
// (Store instructions whose Addr is a).
func StoresTo(a ssa.Value) []*ssa.Store {
	var out []*ssa.Store
	refs := a.Referrers()
	if refs == nil {
		return nil
	}
	for _, r := range *refs {
		if st, ok := r.(*ssa.Store); ok && st.Addr == a {
			out = append(out, st)
		}
	}
	return out
}

// Unwrap strips value-preserving wrappers: ChangeType, MakeInterface, ChangeInterface, and
// (optionally) Convert.
func Unwrap(v ssa.Value) ssa.Value {
	for {
		switch x := v.(type) {
		case *ssa.ChangeType:
			v = x.X
		case *ssa.MakeInterface:
			v = x.X
		case *ssa.ChangeInterface:
			v = x.X
		default:
			return v
		}
	}
}

// LoadOf resolves a load through a single-store local: for `*alloc` where alloc has exactly one
// store it returns the stored value; otherwise v itself.
func LoadOf(v ssa.Value) ssa.Value {
	for i := 0; i < 8; i++ {
		u, ok := v.(*ssa.UnOp)
		if !ok || u.Op != token.MUL {
			return v
		}
		a, ok := u.X.(*ssa.Alloc)
		if !ok {
			return v
		}
		st := StoresTo(a)
		if len(st) != 1 {
			return v
		}
		v = st[0].Val
	}
	return v
}

// Canon renders an SSA value as a canonical expression over stable roots (parameters by index,
// receiver fields by name, callee names, constants). Two syntactically identical source
// expressions over the same roots render identically, independent of register names.
func Canon(v ssa.Value) string { return canon(v, 0) }

func canon(v ssa.Value, d int) string {
	if v == nil {
		return "<nil>"
	}
	if d > 12 {
		return "…"
	}
	switch x := v.(type) {
	case *ssa.Const:
		if x.Value == nil {
			return "nil"
		}
		if x.Value.Kind() == constant.String {
			return fmt.Sprintf("%q", constant.StringVal(x.Value))
		}
		if x.Value.Kind() == constant.Float {
			f, _ := constant.Float64Val(x.Value)
			return fmt.Sprintf("%g", f)
		}
		return x.Value.ExactString()
	case *ssa.Parameter:
		for i, p := range x.Parent().Params {
			if p == x {
				if i == 0 && x.Parent().Signature.Recv() != nil {
					return "recv"
				}
				return fmt.Sprintf("param%d", i)
			}
		}
		return "param?"
	case *ssa.FreeVar:
		for i, p := range x.Parent().FreeVars {
			if p == x {
				return fmt.Sprintf("freevar%d(%s)", i, x.Name())
			}
		}
		return "freevar?"
	case *ssa.Global:
		return "global:" + x.String()
	case *ssa.Function:
		return "func:" + FuncFullName(x)
	case *ssa.Builtin:
		return "builtin." + x.Name()
	case *ssa.Alloc:
		st := StoresTo(x)
		if len(st) == 1 && !x.Heap {
			return "&(" + canon(st[0].Val, d+1) + ")"
		}
		return "alloc:" + x.Comment
	case *ssa.UnOp:
		if x.Op == token.MUL {
			if a, ok := x.X.(*ssa.Alloc); ok {
				st := StoresTo(a)
				if len(st) == 1 {
					return canon(st[0].Val, d+1)
				}
				return "var:" + a.Comment
			}
			return "*" + canon(x.X, d+1)
		}
		return x.Op.String() + canon(x.X, d+1)
	case *ssa.BinOp:
		return "(" + canon(x.X, d+1) + " " + x.Op.String() + " " + canon(x.Y, d+1) + ")"
	case *ssa.FieldAddr:
		return canon(x.X, d+1) + "." + FieldName(x.X.Type(), x.Field)
	case *ssa.Field:
		return canon(x.X, d+1) + "." + FieldName(x.X.Type(), x.Field)
	case *ssa.IndexAddr:
		return canon(x.X, d+1) + "[" + canon(x.Index, d+1) + "]"
	case *ssa.Index:
		return canon(x.X, d+1) + "[" + canon(x.Index, d+1) + "]"
	case *ssa.Lookup:
		return canon(x.X, d+1) + "[" + canon(x.Index, d+1) + "]"
	case *ssa.Extract:
		return canon(x.Tuple, d+1) + "#" + fmt.Sprint(x.Index)
	case *ssa.Call:
		name := CalleeName(&x.Call)
		if name == "" {
			name = "dyn:" + canon(x.Call.Value, d+1)
		}
		var args []string
		for _, a := range CallArgs(&x.Call) {
			args = append(args, canon(a, d+1))
		}
		return name + "(" + strings.Join(args, ", ") + ")"
	case *ssa.ChangeType:
		return canon(x.X, d+1)
	case *ssa.MakeInterface:
		return canon(x.X, d+1)
	case *ssa.ChangeInterface:
		return canon(x.X, d+1)
	case *ssa.Convert:
		return TypeName(x.Type()) + "(" + canon(x.X, d+1) + ")"
	case *ssa.Slice:
		return canon(x.X, d+1) + "[" + canon(x.Low, d+1) + ":" + canon(x.High, d+1) + "]"
	case *ssa.TypeAssert:
		return canon(x.X, d+1) + ".(" + TypeName(x.AssertedType) + ")"
	case *ssa.Phi:
		var es []string
		for _, e := range x.Edges {
			if e == v {
				es = append(es, "self")
				continue
			}
			es = append(es, canon(e, d+3))
		}
		sort.Strings(es)
		return "phi(" + strings.Join(es, "|") + ")"
	case *ssa.MakeClosure:
		return "closure:" + canon(x.Fn, d+1)
	case *ssa.Next:
		return "next(" + canon(x.Iter, d+1) + ")"
	case *ssa.Range:
		return "range(" + canon(x.X, d+1) + ")"
	case *ssa.MakeSlice:
		return "make(" + TypeName(x.Type()) + ")"
	case *ssa.MakeMap:
		return "make(" + TypeName(x.Type()) + ")"
	}
	return fmt.Sprintf("%T:%s", v, v.Name())
}

// ConstString returns the string value of a constant string value.
func ConstString(v ssa.Value) (string, bool) {
	c, ok := Unwrap(v).(*ssa.Const)
	if !ok || c.Value == nil || c.Value.Kind() != constant.String {
		return "", false
	}
	return constant.StringVal(c.Value), true
}

// ConstInt returns the integer value of a constant.
func ConstInt(v ssa.Value) (int64, bool) {
	c, ok := Unwrap(v).(*ssa.Const)
	if !ok || c.Value == nil || c.Value.Kind() != constant.Int {
		return 0, false
	}
	n, exact := constant.Int64Val(c.Value)
	return n, exact
}

// ConstFloat returns the numeric value of a constant (int or float).
func ConstFloat(v ssa.Value) (float64, bool) {
	c, ok := Unwrap(v).(*ssa.Const)
	if !ok || c.Value == nil {
		return 0, false
	}
	switch c.Value.Kind() {
	case constant.Int, constant.Float:
		f, _ := constant.Float64Val(c.Value)
		return f, true
	}
	return 0, false
}

// ---------------------------------------------------------------------------------------------
// control flow

// Edge identifies successor idx of a block.
type Edge struct {
	From *ssa.BasicBlock
	Idx  int
	// Via, when set, restricts the edge to arrivals at From from this predecessor: an If on a phi of conditions
	// (`a && b` evaluated as a value) takes, for an arrival from the block that computed b, the outcome of b.
	Via *ssa.BasicBlock
}

// deadEdge reports whether successor i of b can never be taken because b ends in an If on a
// boolean constant (e.g. `runtime.GOOS == "linux"` folded for the analysed platform).
func deadEdge(b *ssa.BasicBlock, i int) bool {
	if len(b.Instrs) == 0 {
		return false
	}
	ifi, ok := b.Instrs[len(b.Instrs)-1].(*ssa.If)
	if !ok {
		return false
	}
	c, ok := ifi.Cond.(*ssa.Const)
	if !ok || c.Value == nil {
		return false
	}
	taken := 1
	if constant.BoolVal(c.Value) {
		taken = 0
	}
	return i != taken
}

// viable reports whether successor idx of b can be taken when b was entered from pred (nil =
// unknown): platform-dead edges are excluded, and an If on a phi of boolean constants is threaded
// (entering from the predecessor that supplies `true` can only take the true edge).
func viable(b *ssa.BasicBlock, idx int, pred *ssa.BasicBlock) bool {
	if deadEdge(b, idx) {
		return false
	}
	if pred == nil || len(b.Instrs) == 0 {
		return true
	}
	ifi, ok := b.Instrs[len(b.Instrs)-1].(*ssa.If)
	if !ok {
		return true
	}
	base, neg := StripNot(ifi.Cond)
	ph, ok := base.(*ssa.Phi)
	if !ok || ph.Block() != b {
		return true
	}
	for i, p := range b.Preds {
		if p != pred {
			continue
		}
		c, ok := ph.Edges[i].(*ssa.Const)
		if !ok || c.Value == nil || c.Value.Kind() != constant.Bool {
			return true
		}
		val := constant.BoolVal(c.Value) != neg
		taken := 1
		if val {
			taken = 0
		}
		// another predecessor entry from the same block may carry a different constant
		for k, q := range b.Preds {
			if q == pred && k != i {
				return true
			}
		}
		return idx == taken
	}
	return true
}

type bstate struct {
	b, pred *ssa.BasicBlock
	dec     string // decisions taken on pure conditions along this path: ";canon=T;canon=F"
}

// pureCond reports whether the truth of cond cannot change between two evaluations inside fn:
// it is built from constants, parameters, captured variables and loads of fields of those that
// are never stored to in fn, combined by comparisons, negation and len().
func pureCond(v ssa.Value, d int) bool {
	if d > 6 {
		return false
	}
	switch x := v.(type) {
	case *ssa.Const, *ssa.Parameter, *ssa.FreeVar, *ssa.Global:
		return true
	case *ssa.BinOp:
		return pureCond(x.X, d+1) && pureCond(x.Y, d+1)
	case *ssa.UnOp:
		if x.Op == token.NOT {
			return pureCond(x.X, d+1)
		}
		if x.Op == token.MUL {
			fa, ok := x.X.(*ssa.FieldAddr)
			if !ok || !pureCond(fa.X, d+1) {
				return false
			}
			// no store to this field anywhere in the function
			name := FieldName(fa.X.Type(), fa.Field)
			stored := false
			InstrsOf(x.Parent(), func(in Instruction) {
				if st, ok := in.(*ssa.Store); ok {
					if fa2, ok := st.Addr.(*ssa.FieldAddr); ok && FieldName(fa2.X.Type(), fa2.Field) == name {
						stored = true
					}
				}
			})
			return !stored
		}
	case *ssa.Call:
		if b, ok := x.Call.Value.(*ssa.Builtin); ok && b.Name() == "len" {
			return pureCond(x.Call.Args[0], d+1)
		}
	case *ssa.ChangeType:
		return pureCond(x.X, d+1)
	case *ssa.MakeInterface:
		return pureCond(x.X, d+1)
	}
	return false
}

// decide returns the decision key of b's terminating If when its condition is pure ("" otherwise)
// and whether taking successor idx means the (negation-stripped) condition is true.
func decide(b *ssa.BasicBlock, idx int) (key string, val bool) {
	if len(b.Instrs) == 0 {
		return "", false
	}
	ifi, ok := b.Instrs[len(b.Instrs)-1].(*ssa.If)
	if !ok {
		return "", false
	}
	base, neg := StripNot(ifi.Cond)
	if _, isConst := base.(*ssa.Const); isConst {
		return "", false
	}
	// one and the same SSA value tested twice: if it is computed outside every loop it is computed once, and both
	// tests see the same truth value (a flag such as isUpCounting consulted in several places)
	// a flag kept in a field of a local struct (flags grouped into a small struct): keyed by the variable and the
	// field; step() forgets the decision when a block that stores to the field is passed
	if key, ok := localFieldKey(base); ok {
		u := base.(*ssa.UnOp)
		after := false
		seenLoad := false
		for _, in := range b.Instrs {
			if in == ssa.Instruction(u) {
				seenLoad = true
				continue
			}
			if st, isSt := in.(*ssa.Store); isSt && seenLoad {
				if k2, ok2 := localFieldAddrKey(st.Addr); ok2 && k2 == key {
					after = true
				}
			}
		}
		if u.Block() == b && !after {
			return key, (idx == 0) != neg
		}
		return "", false
	}
	_, isPhi := base.(*ssa.Phi)
	if !isPhi && pureCond(base, 0) {
		return Canon(base), (idx == 0) != neg // the same pure expression, wherever it is written
	}
	if in, ok := base.(ssa.Instruction); ok && in.Block() != nil && onceOnly(in.Block()) {
		return fmt.Sprintf("val@%p", base), (idx == 0) != neg
	}
	return "", false
}

// localFieldKey: v is a load of a field of a local struct variable that is only used through its fields.
func localFieldKey(v ssa.Value) (string, bool) {
	u, ok := v.(*ssa.UnOp)
	if !ok || u.Op != token.MUL {
		return "", false
	}
	return localFieldAddrKey(u.X)
}

func localFieldAddrKey(addr ssa.Value) (string, bool) {
	fa, ok := addr.(*ssa.FieldAddr)
	if !ok {
		return "", false
	}
	al, ok := fa.X.(*ssa.Alloc)
	if !ok || escapesWhole(al) {
		return "", false
	}
	return fmt.Sprintf("fld@%p.%d", al, fa.Field), true
}

var onceOnlyCache = map[*ssa.BasicBlock]bool{}

// onceOnly: the block lies on no cycle of the control-flow graph.
func onceOnly(b *ssa.BasicBlock) bool {
	if v, ok := onceOnlyCache[b]; ok {
		return v
	}
	seen := map[*ssa.BasicBlock]bool{}
	work := append([]*ssa.BasicBlock{}, b.Succs...)
	cyc := false
	for len(work) > 0 && !cyc {
		x := work[len(work)-1]
		work = work[:len(work)-1]
		if x == b {
			cyc = true
			break
		}
		if seen[x] {
			continue
		}
		seen[x] = true
		work = append(work, x.Succs...)
	}
	onceOnlyCache[b] = !cyc
	return !cyc
}

// step returns the state reached by taking successor i of st.b, or ok=false if the edge is cut,
// dead, threaded away, or contradicts an earlier decision on the same pure condition.
func step(st bstate, i int, cut map[Edge]bool) (bstate, bool) {
	if cut[Edge{From: st.b, Idx: i}] || (st.pred != nil && cut[Edge{From: st.b, Idx: i, Via: st.pred}]) || !viable(st.b, i, st.pred) {
		return bstate{}, false
	}
	dec := st.dec
	// stores to a local struct's field in the block being left invalidate what was known about that field
	if strings.Contains(dec, ";fld@") {
		for _, in := range st.b.Instrs {
			if sto, ok := in.(*ssa.Store); ok {
				if k, ok := localFieldAddrKey(sto.Addr); ok {
					dec = strings.ReplaceAll(strings.ReplaceAll(dec, ";"+k+"=T", ""), ";"+k+"=F", "")
				}
			}
		}
	}
	if key, val := decide(st.b, i); key != "" {
		t, f := ";"+key+"=T", ";"+key+"=F"
		if val {
			if strings.Contains(dec, f) {
				return bstate{}, false
			}
			if !strings.Contains(dec, t) && len(dec) < 600 {
				dec += t
			}
		} else {
			if strings.Contains(dec, t) {
				return bstate{}, false
			}
			if !strings.Contains(dec, f) && len(dec) < 600 {
				dec += f
			}
		}
	}
	return bstate{st.b.Succs[i], st.b, dec}, true
}

// ReachAvoiding returns the blocks reachable from start without traversing any edge in cut
// (platform-dead edges are never traversed, Ifs on phis of boolean constants are threaded and
// repeated tests of one pure condition are taken consistently).
func ReachAvoiding(start *ssa.BasicBlock, cut map[Edge]bool) map[*ssa.BasicBlock]bool {
	seen := map[*ssa.BasicBlock]bool{start: true}
	first := bstate{start, nil, ""}
	sseen := map[bstate]bool{first: true}
	work := []bstate{first}
	for len(work) > 0 && len(sseen) < 200000 {
		st := work[len(work)-1]
		work = work[:len(work)-1]
		for i := range st.b.Succs {
			ns, ok := step(st, i, cut)
			if !ok || sseen[ns] {
				continue
			}
			sseen[ns] = true
			seen[ns.b] = true
			work = append(work, ns)
		}
	}
	return seen
}

// PathAvoiding returns one path (block indices) from start to target avoiding cut edges, or nil.
func PathAvoiding(start, target *ssa.BasicBlock, cut map[Edge]bool) []int {
	first := bstate{start, nil, ""}
	prev := map[bstate]bstate{}
	seen := map[bstate]bool{first: true}
	queue := []bstate{first}
	for len(queue) > 0 && len(seen) < 200000 {
		st := queue[0]
		queue = queue[1:]
		if st.b == target {
			var path []int
			for x := st; ; {
				path = append([]int{x.b.Index}, path...)
				if x == first {
					break
				}
				x = prev[x]
			}
			return path
		}
		for i := range st.b.Succs {
			ns, ok := step(st, i, cut)
			if !ok || seen[ns] {
				continue
			}
			seen[ns] = true
			prev[ns] = st
			queue = append(queue, ns)
		}
	}
	return nil
}

// StripNot removes leading logical negations from a condition and reports whether an odd number
// was removed.
func StripNot(v ssa.Value) (ssa.Value, bool) {
	neg := false
	for {
		u, ok := v.(*ssa.UnOp)
		if !ok || u.Op != token.NOT {
			return v, neg
		}
		v = u.X
		neg = !neg
	}
}

// Atom classifies an If condition: matches reports whether the condition is an instance of the
// guard, passOnTrue whether the guarded (protected) continuation is the true successor.
type Atom func(cond ssa.Value) (matches bool, passOnTrue bool)

// GuardEdges returns the pass edges of all Ifs in fn whose condition matches atom.
func GuardEdges(fn *ssa.Function, atom Atom) (pass map[Edge]bool, ifs []*ssa.If) {
	pass = map[Edge]bool{}
	for _, b := range fn.Blocks {
		if len(b.Instrs) == 0 {
			continue
		}
		ifi, ok := b.Instrs[len(b.Instrs)-1].(*ssa.If)
		if !ok {
			continue
		}
		// an If on a phi of conditions: per non-constant incoming condition, the outcome for an arrival from that
		// predecessor is the outcome of that condition
		if base, neg := StripNot(ifi.Cond); true {
			if ph, isPhi := base.(*ssa.Phi); isPhi && ph.Block() == b {
				for k, e := range ph.Edges {
					if _, isC := e.(*ssa.Const); isC || k >= len(b.Preds) {
						continue
					}
					dup := false
					for k2, q := range b.Preds {
						if q == b.Preds[k] && k2 != k {
							dup = true
						}
					}
					if dup {
						continue
					}
					m, onTrue := matchWithVariants(atom, e)
					if m {
						idx := 1
						if onTrue != neg {
							idx = 0
						}
						pass[Edge{From: b, Idx: idx, Via: b.Preds[k]}] = true
						ifs = append(ifs, ifi)
					}
				}
			}
		}
		m, onTrue := atom(ifi.Cond)
		if !m {
			// the same test written the other way round: complemented operator (pass edge exchanged) and/or
			// exchanged operands
			for _, v := range condVariants(ifi.Cond) {
				if m2, onTrue2 := atom(v.cond); m2 {
					m, onTrue = true, onTrue2 != v.complemented
					break
				}
			}
		}
		if m {
			if onTrue {
				pass[Edge{From: b, Idx: 0}] = true
			} else {
				pass[Edge{From: b, Idx: 1}] = true
			}
			ifs = append(ifs, ifi)
		}
	}
	return
}

// matchWithVariants applies atom to cond and, failing that, to its equivalent spellings.
func matchWithVariants(atom Atom, cond ssa.Value) (bool, bool) {
	if m, onTrue := atom(cond); m {
		return true, onTrue
	}
	for _, v := range condVariants(cond) {
		if m2, onTrue2 := atom(v.cond); m2 {
			return true, onTrue2 != v.complemented
		}
	}
	return false, false
}

type condVariant struct {
	cond         ssa.Value
	complemented bool // the variant is true exactly when the original condition is false
}

// condVariants builds equivalent spellings of a comparison as synthetic (unattached) BinOps: x == y / x != y,
// and for operands that are not floating point x < y / x >= y etc., each also with exchanged operands.
// Atoms only look at Op, X and Y of a condition, which is all these carry.
func condVariants(cond ssa.Value) []condVariant {
	base, neg := StripNot(cond)
	b, ok := base.(*ssa.BinOp)
	if !ok {
		return nil
	}
	complement := map[token.Token]token.Token{token.EQL: token.NEQ, token.NEQ: token.EQL, token.LSS: token.GEQ, token.GEQ: token.LSS, token.GTR: token.LEQ, token.LEQ: token.GTR}
	mirror := map[token.Token]token.Token{token.EQL: token.EQL, token.NEQ: token.NEQ, token.LSS: token.GTR, token.GTR: token.LSS, token.LEQ: token.GEQ, token.GEQ: token.LEQ}
	if _, isCmp := complement[b.Op]; !isCmp {
		return nil
	}
	ordered := b.Op != token.EQL && b.Op != token.NEQ
	if ordered {
		if bt, isB := b.X.Type().Underlying().(*types.Basic); !isB || bt.Info()&types.IsFloat != 0 {
			// !(x < y) is not x >= y for NaN: only the operand exchange is offered
			return []condVariant{{&ssa.BinOp{Op: mirror[b.Op], X: b.Y, Y: b.X}, neg}}
		}
	}
	var out []condVariant
	// written without the leading negation
	op := b.Op
	if neg {
		op = complement[op]
		out = append(out, condVariant{&ssa.BinOp{Op: op, X: b.X, Y: b.Y}, false})
	}
	out = append(out,
		condVariant{&ssa.BinOp{Op: mirror[op], X: b.Y, Y: b.X}, false},
		condVariant{&ssa.BinOp{Op: complement[op], X: b.X, Y: b.Y}, true},
		condVariant{&ssa.BinOp{Op: mirror[complement[op]], X: b.Y, Y: b.X}, true},
	)
	return out
}

// MustPass reports whether every path from fn's entry to block sink crosses a pass edge of an If
// matching atom. If not, path is a witness (block indices) that avoids all pass edges.
func MustPass(fn *ssa.Function, sink *ssa.BasicBlock, atom Atom) (ok bool, nGuards int, path []int) {
	pass, ifs := GuardEdges(fn, atom)
	if len(fn.Blocks) == 0 {
		return false, 0, nil
	}
	p := PathAvoiding(fn.Blocks[0], sink, pass)
	return p == nil, len(ifs), p
}

// FmtPath renders a block path.
func FmtPath(path []int) string {
	var s []string
	for _, i := range path {
		s = append(s, fmt.Sprintf("b%d", i))
	}
	return strings.Join(s, "→")
}

// InstrsOf iterates all instructions of fn.
func InstrsOf(fn *ssa.Function, f func(ssa.Instruction)) {
	for _, b := range fn.Blocks {
		for _, in := range b.Instrs {
			f(in)
		}
	}
}

// Ret is a logical return site: the Return instruction with its result values resolved through
// the result spill slots that go/ssa introduces in functions with defer statements
// (`*slot = v; rundefers; t = *slot; return t`).
type Ret struct {
	Instr   *ssa.Return
	Results []ssa.Value
}

func (r Ret) Block() *ssa.BasicBlock { return r.Instr.Block() }
func (r Ret) Pos() token.Pos         { return r.Instr.Pos() }

// Returns lists the logical return sites of fn (the synthetic return of the recover block excluded).
func Returns(fn *ssa.Function) []Ret {
	var out []Ret
	for _, b := range fn.Blocks {
		if len(b.Instrs) == 0 || b == fn.Recover {
			continue
		}
		r, ok := b.Instrs[len(b.Instrs)-1].(*ssa.Return)
		if !ok {
			continue
		}
		lr := Ret{Instr: r}
		for _, res := range r.Results {
			v := res
			if u, isLoad := res.(*ssa.UnOp); isLoad && u.Op == token.MUL && u.Block() == b {
				if a, isAlloc := u.X.(*ssa.Alloc); isAlloc {
					// last store to the slot in this block before the load
					var last ssa.Value
					for _, in := range b.Instrs {
						if in == ssa.Instruction(u) {
							break
						}
						if st, isSt := in.(*ssa.Store); isSt && st.Addr == ssa.Value(a) {
							last = st.Val
						}
					}
					if last != nil {
						v = last
					}
				}
			}
			lr.Results = append(lr.Results, v)
		}
		out = append(out, lr)
	}
	return out
}

// LoopHeaderOf returns the header of the innermost natural loop containing b (nil if none):
// the nearest dominator of b that b can reach again.
func LoopHeaderOf(b *ssa.BasicBlock) *ssa.BasicBlock {
	for d := b; d != nil; d = d.Idom() {
		// can b reach d through a back edge?
		seen := map[*ssa.BasicBlock]bool{}
		work := append([]*ssa.BasicBlock{}, b.Succs...)
		for len(work) > 0 {
			x := work[len(work)-1]
			work = work[:len(work)-1]
			if x == d {
				return d
			}
			if seen[x] || !d.Dominates(x) {
				continue
			}
			seen[x] = true
			work = append(work, x.Succs...)
		}
	}
	return nil
}

// DominatesLive reports whether every live path from the function entry to b passes through d
// (dominance on the CFG with platform-dead edges removed).
func DominatesLive(d, b *ssa.BasicBlock) bool {
	if d == b {
		return true
	}
	fn := d.Parent()
	cut := map[Edge]bool{}
	for _, pr := range d.Preds {
		for i, s := range pr.Succs {
			if s == d {
				cut[Edge{From: pr, Idx: i}] = true
			}
		}
	}
	if fn.Blocks[0] == d {
		return true
	}
	return PathAvoiding(fn.Blocks[0], b, cut) == nil
}

// ForAllGuard checks the "test every element, bail out on the first bad one" idiom: the reject
// edge of test (successor rejectIdx) cannot reach sink, and the loop containing the test cannot be
// bypassed on the way to sink (its header dominates sink).
func ForAllGuard(test *ssa.If, rejectIdx int, sink *ssa.BasicBlock) (ok bool, why string) {
	tb := test.Block()
	if reach := ReachAvoiding(tb.Succs[rejectIdx], nil); reach[sink] {
		return false, "the rejecting edge of the test can still reach the sink"
	}
	h := LoopHeaderOf(tb)
	if h == nil {
		return false, "the test is not inside a loop"
	}
	if !DominatesLive(h, sink) {
		return false, "the checking loop can be bypassed on the way to the sink"
	}
	return true, ""
}

// Precedes reports whether instruction a is executed before b on every path that executes b,
// approximated as: same block and earlier, or a's block strictly dominates b's block.
func Precedes(a, b ssa.Instruction) bool {
	if a.Block() == b.Block() {
		for _, in := range a.Block().Instrs {
			if in == a {
				return true
			}
			if in == b {
				return false
			}
		}
		return false
	}
	return a.Block().Dominates(b.Block())
}

// Origins walks backwards from v through phis, value-preserving wrappers, single-store locals,
// slices of a value and extracts, and returns the root values reached (calls, constants,
// parameters, globals, field loads, ...), de-duplicated.
func Origins(v ssa.Value) []ssa.Value {
	seen := map[ssa.Value]bool{}
	var out []ssa.Value
	var walk func(v ssa.Value, d int)
	walk = func(v ssa.Value, d int) {
		if v == nil || seen[v] || d > 40 {
			return
		}
		seen[v] = true
		switch x := v.(type) {
		case *ssa.Phi:
			for _, e := range x.Edges {
				walk(e, d+1)
			}
		case *ssa.ChangeType:
			walk(x.X, d+1)
		case *ssa.MakeInterface:
			walk(x.X, d+1)
		case *ssa.ChangeInterface:
			walk(x.X, d+1)
		case *ssa.UnOp:
			if x.Op == token.MUL {
				if a, ok := x.X.(*ssa.Alloc); ok {
					sts := StoresTo(a)
					if len(sts) > 0 {
						for _, st := range sts {
							walk(st.Val, d+1)
						}
						return
					}
				}
			}
			out = append(out, v)
		default:
			out = append(out, v)
		}
	}
	walk(v, 0)
	return out
}

// MustPassFrom is MustPass with an explicit start block and additional cut edges (edges that
// end the execution, e.g. into blocks that exit the process).
func MustPassFrom(fn *ssa.Function, start, sink *ssa.BasicBlock, atom Atom, extraCut map[Edge]bool) (ok bool, nGuards int, path []int) {
	pass, ifs := GuardEdges(fn, atom)
	for e := range extraCut {
		pass[e] = true
	}
	p := PathAvoiding(start, sink, pass)
	return p == nil, len(ifs), p
}

// IsNilConst reports whether v is the nil constant.
func IsNilConst(v ssa.Value) bool {
	c, ok := v.(*ssa.Const)
	return ok && c.Value == nil
}

// NilCompare decomposes `x != nil` / `x == nil` (with leading negations folded in):
// it returns x and whether the condition is true exactly when x is non-nil.
func NilCompare(cond ssa.Value) (x ssa.Value, trueWhenNonNil bool, ok bool) {
	base, neg := StripNot(cond)
	b, isBin := base.(*ssa.BinOp)
	if !isBin || (b.Op != token.NEQ && b.Op != token.EQL) {
		return nil, false, false
	}
	switch {
	case IsNilConst(b.Y):
		x = b.X
	case IsNilConst(b.X):
		x = b.Y
	default:
		return nil, false, false
	}
	t := b.Op == token.NEQ
	if neg {
		t = !t
	}
	return x, t, true
}

// NilGuard builds an atom "pred(x) is nil": the pass edge is the one taken when x == nil.
func NilGuard(pred func(x ssa.Value) bool) Atom {
	return func(cond ssa.Value) (bool, bool) {
		x, nonNilOnTrue, ok := NilCompare(cond)
		if !ok || !pred(x) {
			return false, false
		}
		return true, !nonNilOnTrue
	}
}

// BoolGuard builds an atom "v is true" for a boolean value selected by pred (negations folded).
func BoolGuard(pred func(x ssa.Value) bool, wantTrue bool) Atom {
	return func(cond ssa.Value) (bool, bool) {
		base, neg := StripNot(cond)
		if !pred(base) {
			return false, false
		}
		// cond true <=> base == !neg
		return true, wantTrue != neg
	}
}

// Compare decomposes a comparison condition (negations folded into the operator where exact):
// returns op, x, y with op one of EQL NEQ LSS LEQ GTR GEQ. A negated ordered comparison is NOT
// folded (NaN-safety): negated reports it.
func Compare(cond ssa.Value) (op token.Token, x, y ssa.Value, negated bool, ok bool) {
	base, neg := StripNot(cond)
	b, isBin := base.(*ssa.BinOp)
	if !isBin {
		return 0, nil, nil, false, false
	}
	switch b.Op {
	case token.EQL, token.NEQ:
		op = b.Op
		if neg {
			if op == token.EQL {
				op = token.NEQ
			} else {
				op = token.EQL
			}
			neg = false
		}
		return op, b.X, b.Y, neg, true
	case token.LSS, token.LEQ, token.GTR, token.GEQ:
		return b.Op, b.X, b.Y, neg, true
	}
	return 0, nil, nil, false, false
}

// StructLitField resolves the value of field name of a struct value that was built in place
// (composite literal: `local T (complit)` + field stores + load). ok=false if v is not such a value.
func StructLitField(v ssa.Value, name string) (ssa.Value, bool) {
	var al *ssa.Alloc
	switch x := v.(type) {
	case *ssa.UnOp:
		if x.Op != token.MUL {
			return nil, false
		}
		al, _ = x.X.(*ssa.Alloc)
	case *ssa.Alloc:
		al = x
	}
	if al == nil || al.Referrers() == nil {
		return nil, false
	}
	if _, isStruct := Deref(al.Type()).Underlying().(*types.Struct); !isStruct {
		return nil, false
	}
	var found ssa.Value
	n := 0
	for _, r := range *al.Referrers() {
		fa, ok := r.(*ssa.FieldAddr)
		if !ok || FieldName(fa.X.Type(), fa.Field) != name {
			continue
		}
		for _, st := range StoresTo(fa) {
			found = st.Val
			n++
		}
	}
	if n == 1 {
		return found, true
	}
	if n == 0 {
		// whole-struct stores into the alloc
		sts := StoresTo(al)
		if len(sts) == 1 {
			return StructLitField(sts[0].Val, name)
		}
	}
	return nil, false
}

// FieldLoad matches a load of field `name` (FieldAddr+load, or Field) and returns the base.
func FieldLoad(v ssa.Value, name string) (base ssa.Value, ok bool) {
	switch x := v.(type) {
	case *ssa.UnOp:
		if x.Op != token.MUL {
			return nil, false
		}
		if fa, isFA := x.X.(*ssa.FieldAddr); isFA && FieldName(fa.X.Type(), fa.Field) == name {
			return fa.X, true
		}
	case *ssa.Field:
		if FieldName(x.X.Type(), x.Field) == name {
			return x.X, true
		}
	}
	return nil, false
}

// Use describes where a value is consumed: in block At, or — for a phi operand — on the edge
// Via→At (Via != nil).
type Use struct {
	At  *ssa.BasicBlock
	Via *ssa.BasicBlock
}

// MustPassUse is MustPass for a Use: for a phi operand only the edge Via→At may be used to enter At.
func MustPassUse(fn *ssa.Function, u Use, atom Atom) (ok bool, nGuards int, path []int) {
	if u.Via == nil {
		return MustPass(fn, u.At, atom)
	}
	cut := map[Edge]bool{}
	for _, pr := range u.At.Preds {
		if pr == u.Via {
			continue
		}
		for i, s := range pr.Succs {
			if s == u.At {
				cut[Edge{From: pr, Idx: i}] = true
			}
		}
	}
	return MustPassFrom(fn, fn.Blocks[0], u.At, atom, cut)
}

// BindingOf returns the value bound to free variable fv at the (unique) MakeClosure that creates
// fv's function in its parent, or nil.
func BindingOf(fv *ssa.FreeVar) ssa.Value {
	fn := fv.Parent()
	parent := fn.Parent()
	if parent == nil {
		return nil
	}
	idx := -1
	for i, f := range fn.FreeVars {
		if f == fv {
			idx = i
		}
	}
	var found ssa.Value
	n := 0
	InstrsOf(parent, func(in Instruction) {
		if mc, ok := in.(*ssa.MakeClosure); ok && mc.Fn == ssa.Value(fn) && idx >= 0 && idx < len(mc.Bindings) {
			found = mc.Bindings[idx]
			n++
		}
	})
	if n != 1 {
		return nil
	}
	return found
}

// Instruction is an alias so helper signatures read naturally.
type Instruction = ssa.Instruction

// Resolve follows loads of single-assignment variables (locals and captured variables) to the
// value that was assigned: `x := e` … `x` → e. Stops at anything assigned more than once.
func Resolve(v ssa.Value) ssa.Value {
	for i := 0; i < 10; i++ {
		u, ok := v.(*ssa.UnOp)
		if !ok || u.Op != token.MUL {
			return v
		}
		addr := u.X
		if fv, isFV := addr.(*ssa.FreeVar); isFV {
			b := BindingOf(fv)
			if b == nil {
				return v
			}
			addr = b
		}
		// a field of a local struct that is written exactly once (values grouped in a small struct)
		if fa, isFA := addr.(*ssa.FieldAddr); isFA {
			if al, ok := fa.X.(*ssa.Alloc); ok && !escapesWhole(al) {
				var only *ssa.Store
				n := 0
				if refs := al.Referrers(); refs != nil {
					for _, r := range *refs {
						if f2, ok := r.(*ssa.FieldAddr); ok && f2.Field == fa.Field && f2.Referrers() != nil {
							for _, r2 := range *f2.Referrers() {
								if st, ok := r2.(*ssa.Store); ok && st.Addr == ssa.Value(f2) {
									only = st
									n++
								}
							}
						}
					}
				}
				if n == 1 {
					v = only.Val
					continue
				}
			}
			return v
		}
		a, isAlloc := addr.(*ssa.Alloc)
		if !isAlloc {
			return v
		}
		sts := StoresTo(a)
		// stores from closures that capture the variable are not visible here; be conservative
		if len(sts) != 1 || capturedAndStored(a) {
			return v
		}
		v = sts[0].Val
	}
	return v
}

// escapesWhole: the struct variable is used other than through its fields (passed on, stored, captured, copied
// over as a whole), so a field may change behind the analysis' back.
func escapesWhole(a *ssa.Alloc) bool {
	refs := a.Referrers()
	if refs == nil {
		return false
	}
	for _, r := range *refs {
		switch x := r.(type) {
		case *ssa.FieldAddr, *ssa.DebugRef:
		case *ssa.UnOp:
			// a load of the whole value is harmless
		case *ssa.Store:
			if x.Addr == ssa.Value(a) {
				// whole-struct assignment: only the zero value / a composite literal start is fine; be conservative
				if _, isConst := x.Val.(*ssa.Const); !isConst {
					return true
				}
			} else {
				return true
			}
		default:
			return true
		}
	}
	return false
}

// capturedAndStored reports whether alloc a is captured by a closure that stores to it.
func capturedAndStored(a *ssa.Alloc) bool {
	refs := a.Referrers()
	if refs == nil {
		return false
	}
	for _, r := range *refs {
		mc, ok := r.(*ssa.MakeClosure)
		if !ok {
			continue
		}
		fn, _ := mc.Fn.(*ssa.Function)
		if fn == nil {
			continue
		}
		for i, b := range mc.Bindings {
			if b != ssa.Value(a) || i >= len(fn.FreeVars) {
				continue
			}
			if len(StoresTo(fn.FreeVars[i])) > 0 {
				return true
			}
		}
	}
	return false
}

// LocalFieldKey / LocalFieldAddrKey identify a field of a local struct variable that is only used through its fields
// (exported for rules that treat such a field like a local variable).
func LocalFieldKey(v ssa.Value) (string, bool)        { return localFieldKey(v) }
func LocalFieldAddrKey(addr ssa.Value) (string, bool) { return localFieldAddrKey(addr) }
