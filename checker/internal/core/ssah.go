package core

import (
	"fmt"
	"go/constant"
	"go/token"
	"go/types"
	"sort"
	"strings"

	"golang.org/x/tools/go/ssa"
)

// ---------------------------------------------------------------------------------------------
// callee identification (always through resolved objects, never by text of the source)

// CalleeName returns a stable full name of the statically known callee of a call instruction:
// "path/filepath.Abs", "(*github.com/cockroachdb/pebble.Batch).Commit", "builtin.append",
// "invoke:(iface).Method" for interface calls, "" for dynamic calls through a value.
func CalleeName(c *ssa.CallCommon) string {
	if c.IsInvoke() {
		return "invoke:" + c.Method.FullName()
	}
	switch v := c.Value.(type) {
	case *ssa.Function:
		return FuncFullName(v)
	case *ssa.Builtin:
		return "builtin." + v.Name()
	case *ssa.MakeClosure:
		if fn, ok := v.Fn.(*ssa.Function); ok {
			return FuncFullName(fn)
		}
	}
	return ""
}

// FuncFullName is fn.String() with generic instantiation arguments and $bound/$thunk suffixes removed.
func FuncFullName(fn *ssa.Function) string {
	if fn == nil {
		return ""
	}
	if o := fn.Origin(); o != nil {
		fn = o
	}
	s := fn.String()
	s = strings.TrimSuffix(s, "$bound")
	s = strings.TrimSuffix(s, "$thunk")
	return s
}

// StaticCallee returns the *ssa.Function called (directly or as an immediately applied closure).
func StaticCallee(c *ssa.CallCommon) *ssa.Function {
	if c.IsInvoke() {
		return nil
	}
	switch v := c.Value.(type) {
	case *ssa.Function:
		return v
	case *ssa.MakeClosure:
		if fn, ok := v.Fn.(*ssa.Function); ok {
			return fn
		}
	}
	return nil
}

// CallOf returns the CallCommon of a call-like instruction (Call, Go, Defer).
func CallOf(instr ssa.Instruction) *ssa.CallCommon {
	if ci, ok := instr.(ssa.CallInstruction); ok {
		return ci.Common()
	}
	return nil
}

// IsCallTo reports whether instr is a call whose callee name is one of names.
func IsCallTo(instr ssa.Instruction, names ...string) bool {
	c := CallOf(instr)
	if c == nil {
		return false
	}
	n := CalleeName(c)
	for _, x := range names {
		if n == x {
			return true
		}
	}
	return false
}

// Calls returns all call-like instructions in fn (not descending into closures) whose callee
// name satisfies pred, in block order.
func Calls(fn *ssa.Function, pred func(name string, c *ssa.CallCommon) bool) []ssa.CallInstruction {
	var out []ssa.CallInstruction
	for _, b := range fn.Blocks {
		for _, in := range b.Instrs {
			if ci, ok := in.(ssa.CallInstruction); ok {
				if pred(CalleeName(ci.Common()), ci.Common()) {
					out = append(out, ci)
				}
			}
		}
	}
	return out
}

// CallArgs returns the explicit arguments of a call including the receiver for static method calls
// (go/ssa puts the receiver first in Args for static calls) and the interface value for invokes.
func CallArgs(c *ssa.CallCommon) []ssa.Value {
	if c.IsInvoke() {
		return append([]ssa.Value{c.Value}, c.Args...)
	}
	return c.Args
}

// ---------------------------------------------------------------------------------------------
// types

func Deref(t types.Type) types.Type {
	for {
		p, ok := t.Underlying().(*types.Pointer)
		if !ok {
			return t
		}
		t = p.Elem()
	}
}

// IsNamed reports whether t (after pointer removal) is the named type pkgPath.name.
func IsNamed(t types.Type, pkgPath, name string) bool {
	if t == nil {
		return false
	}
	t = Deref(t)
	n, ok := t.(*types.Named)
	if !ok {
		if a, ok2 := t.(*types.Alias); ok2 {
			return IsNamed(types.Unalias(a), pkgPath, name)
		}
		return false
	}
	obj := n.Obj()
	return obj != nil && obj.Name() == name && obj.Pkg() != nil && obj.Pkg().Path() == pkgPath
}

// TypeName renders pkgname.Type for named types (pointer-stripped), or the type string.
func TypeName(t types.Type) string {
	if t == nil {
		return "<nil>"
	}
	t = Deref(t)
	if n, ok := t.(*types.Named); ok && n.Obj() != nil {
		if n.Obj().Pkg() != nil {
			return n.Obj().Pkg().Name() + "." + n.Obj().Name()
		}
		return n.Obj().Name()
	}
	return types.TypeString(t, func(p *types.Package) string { return p.Name() })
}

// FieldName returns the name of field index idx of the struct type t (pointer-stripped).
func FieldName(t types.Type, idx int) string {
	st, ok := Deref(t).Underlying().(*types.Struct)
	if !ok || idx < 0 || idx >= st.NumFields() {
		return fmt.Sprintf("field#%d", idx)
	}
	return st.Field(idx).Name()
}

// ---------------------------------------------------------------------------------------------
// value resolution

// StoresTo returns the values stored directly to the address a within its function
// (Store instructions whose Addr is a).
func StoresTo(a ssa.Value) []*ssa.Store {
	var out []*ssa.Store
	refs := a.Referrers()
	if refs == nil {
		return nil
	}
	for _, r := range *refs {
		if st, ok := r.(*ssa.Store); ok && st.Addr == a {
			out = append(out, st)
		}
	}
	return out
}

// Unwrap strips value-preserving wrappers: ChangeType, MakeInterface, ChangeInterface, and
// (optionally) Convert.
func Unwrap(v ssa.Value) ssa.Value {
	for {
		switch x := v.(type) {
		case *ssa.ChangeType:
			v = x.X
		case *ssa.MakeInterface:
			v = x.X
		case *ssa.ChangeInterface:
			v = x.X
		default:
			return v
		}
	}
}

// LoadOf resolves a load through a single-store local: for `*alloc` where alloc has exactly one
// store it returns the stored value; otherwise v itself.
func LoadOf(v ssa.Value) ssa.Value {
	for i := 0; i < 8; i++ {
		u, ok := v.(*ssa.UnOp)
		if !ok || u.Op != token.MUL {
			return v
		}
		a, ok := u.X.(*ssa.Alloc)
		if !ok {
			return v
		}
		st := StoresTo(a)
		if len(st) != 1 {
			return v
		}
		v = st[0].Val
	}
	return v
}

// Canon renders an SSA value as a canonical expression over stable roots (parameters by index,
// receiver fields by name, callee names, constants). Two syntactically identical source
// expressions over the same roots render identically, independent of register names.
func Canon(v ssa.Value) string { return canon(v, 0) }

func canon(v ssa.Value, d int) string {
	if v == nil {
		return "<nil>"
	}
	if d > 12 {
		return "…"
	}
	switch x := v.(type) {
	case *ssa.Const:
		if x.Value == nil {
			return "nil"
		}
		if x.Value.Kind() == constant.String {
			return fmt.Sprintf("%q", constant.StringVal(x.Value))
		}
		return x.Value.ExactString()
	case *ssa.Parameter:
		for i, p := range x.Parent().Params {
			if p == x {
				if i == 0 && x.Parent().Signature.Recv() != nil {
					return "recv"
				}
				return fmt.Sprintf("param%d", i)
			}
		}
		return "param?"
	case *ssa.FreeVar:
		for i, p := range x.Parent().FreeVars {
			if p == x {
				return fmt.Sprintf("freevar%d(%s)", i, x.Name())
			}
		}
		return "freevar?"
	case *ssa.Global:
		return "global:" + x.String()
	case *ssa.Function:
		return "func:" + FuncFullName(x)
	case *ssa.Builtin:
		return "builtin." + x.Name()
	case *ssa.Alloc:
		st := StoresTo(x)
		if len(st) == 1 && !x.Heap {
			return "&(" + canon(st[0].Val, d+1) + ")"
		}
		return "alloc:" + x.Comment
	case *ssa.UnOp:
		if x.Op == token.MUL {
			if a, ok := x.X.(*ssa.Alloc); ok {
				st := StoresTo(a)
				if len(st) == 1 {
					return canon(st[0].Val, d+1)
				}
				return "var:" + a.Comment
			}
			return "*" + canon(x.X, d+1)
		}
		return x.Op.String() + canon(x.X, d+1)
	case *ssa.BinOp:
		return "(" + canon(x.X, d+1) + " " + x.Op.String() + " " + canon(x.Y, d+1) + ")"
	case *ssa.FieldAddr:
		return canon(x.X, d+1) + "." + FieldName(x.X.Type(), x.Field)
	case *ssa.Field:
		return canon(x.X, d+1) + "." + FieldName(x.X.Type(), x.Field)
	case *ssa.IndexAddr:
		return canon(x.X, d+1) + "[" + canon(x.Index, d+1) + "]"
	case *ssa.Index:
		return canon(x.X, d+1) + "[" + canon(x.Index, d+1) + "]"
	case *ssa.Lookup:
		return canon(x.X, d+1) + "[" + canon(x.Index, d+1) + "]"
	case *ssa.Extract:
		return canon(x.Tuple, d+1) + "#" + fmt.Sprint(x.Index)
	case *ssa.Call:
		name := CalleeName(&x.Call)
		if name == "" {
			name = "dyn:" + canon(x.Call.Value, d+1)
		}
		var args []string
		for _, a := range CallArgs(&x.Call) {
			args = append(args, canon(a, d+1))
		}
		return name + "(" + strings.Join(args, ", ") + ")"
	case *ssa.ChangeType:
		return canon(x.X, d+1)
	case *ssa.MakeInterface:
		return canon(x.X, d+1)
	case *ssa.ChangeInterface:
		return canon(x.X, d+1)
	case *ssa.Convert:
		return TypeName(x.Type()) + "(" + canon(x.X, d+1) + ")"
	case *ssa.Slice:
		return canon(x.X, d+1) + "[" + canon(x.Low, d+1) + ":" + canon(x.High, d+1) + "]"
	case *ssa.TypeAssert:
		return canon(x.X, d+1) + ".(" + TypeName(x.AssertedType) + ")"
	case *ssa.Phi:
		var es []string
		for _, e := range x.Edges {
			if e == v {
				es = append(es, "self")
				continue
			}
			es = append(es, canon(e, d+3))
		}
		sort.Strings(es)
		return "phi(" + strings.Join(es, "|") + ")"
	case *ssa.MakeClosure:
		return "closure:" + canon(x.Fn, d+1)
	case *ssa.Next:
		return "next(" + canon(x.Iter, d+1) + ")"
	case *ssa.Range:
		return "range(" + canon(x.X, d+1) + ")"
	case *ssa.MakeSlice:
		return "make(" + TypeName(x.Type()) + ")"
	case *ssa.MakeMap:
		return "make(" + TypeName(x.Type()) + ")"
	}
	return fmt.Sprintf("%T:%s", v, v.Name())
}

// ConstString returns the string value of a constant string value.
func ConstString(v ssa.Value) (string, bool) {
	c, ok := Unwrap(v).(*ssa.Const)
	if !ok || c.Value == nil || c.Value.Kind() != constant.String {
		return "", false
	}
	return constant.StringVal(c.Value), true
}

// ConstInt returns the integer value of a constant.
func ConstInt(v ssa.Value) (int64, bool) {
	c, ok := Unwrap(v).(*ssa.Const)
	if !ok || c.Value == nil || c.Value.Kind() != constant.Int {
		return 0, false
	}
	n, exact := constant.Int64Val(c.Value)
	return n, exact
}

// ConstFloat returns the numeric value of a constant (int or float).
func ConstFloat(v ssa.Value) (float64, bool) {
	c, ok := Unwrap(v).(*ssa.Const)
	if !ok || c.Value == nil {
		return 0, false
	}
	switch c.Value.Kind() {
	case constant.Int, constant.Float:
		f, _ := constant.Float64Val(c.Value)
		return f, true
	}
	return 0, false
}

// ---------------------------------------------------------------------------------------------
// control flow

// Edge identifies successor idx of a block.
type Edge struct {
	From *ssa.BasicBlock
	Idx  int
}

// ReachAvoiding returns the blocks reachable from start without traversing any edge in cut.
func ReachAvoiding(start *ssa.BasicBlock, cut map[Edge]bool) map[*ssa.BasicBlock]bool {
	seen := map[*ssa.BasicBlock]bool{start: true}
	work := []*ssa.BasicBlock{start}
	for len(work) > 0 {
		b := work[len(work)-1]
		work = work[:len(work)-1]
		for i, s := range b.Succs {
			if cut[Edge{b, i}] || seen[s] {
				continue
			}
			seen[s] = true
			work = append(work, s)
		}
	}
	return seen
}

// PathAvoiding returns one path (block indices) from start to target avoiding cut edges, or nil.
func PathAvoiding(start, target *ssa.BasicBlock, cut map[Edge]bool) []int {
	prev := map[*ssa.BasicBlock]*ssa.BasicBlock{start: nil}
	queue := []*ssa.BasicBlock{start}
	for len(queue) > 0 {
		b := queue[0]
		queue = queue[1:]
		if b == target {
			var path []int
			for x := b; x != nil; x = prev[x] {
				path = append([]int{x.Index}, path...)
			}
			return path
		}
		for i, s := range b.Succs {
			if cut[Edge{b, i}] {
				continue
			}
			if _, ok := prev[s]; ok {
				continue
			}
			prev[s] = b
			queue = append(queue, s)
		}
	}
	return nil
}

// StripNot removes leading logical negations from a condition and reports whether an odd number
// was removed.
func StripNot(v ssa.Value) (ssa.Value, bool) {
	neg := false
	for {
		u, ok := v.(*ssa.UnOp)
		if !ok || u.Op != token.NOT {
			return v, neg
		}
		v = u.X
		neg = !neg
	}
}

// Atom classifies an If condition: matches reports whether the condition is an instance of the
// guard, passOnTrue whether the guarded (protected) continuation is the true successor.
type Atom func(cond ssa.Value) (matches bool, passOnTrue bool)

// GuardEdges returns the pass edges of all Ifs in fn whose condition matches atom.
func GuardEdges(fn *ssa.Function, atom Atom) (pass map[Edge]bool, ifs []*ssa.If) {
	pass = map[Edge]bool{}
	for _, b := range fn.Blocks {
		if len(b.Instrs) == 0 {
			continue
		}
		ifi, ok := b.Instrs[len(b.Instrs)-1].(*ssa.If)
		if !ok {
			continue
		}
		if m, onTrue := atom(ifi.Cond); m {
			if onTrue {
				pass[Edge{b, 0}] = true
			} else {
				pass[Edge{b, 1}] = true
			}
			ifs = append(ifs, ifi)
		}
	}
	return
}

// MustPass reports whether every path from fn's entry to block sink crosses a pass edge of an If
// matching atom. If not, path is a witness (block indices) that avoids all pass edges.
func MustPass(fn *ssa.Function, sink *ssa.BasicBlock, atom Atom) (ok bool, nGuards int, path []int) {
	pass, ifs := GuardEdges(fn, atom)
	if len(fn.Blocks) == 0 {
		return false, 0, nil
	}
	p := PathAvoiding(fn.Blocks[0], sink, pass)
	return p == nil, len(ifs), p
}

// FmtPath renders a block path.
func FmtPath(path []int) string {
	var s []string
	for _, i := range path {
		s = append(s, fmt.Sprintf("b%d", i))
	}
	return strings.Join(s, "→")
}

// InstrsOf iterates all instructions of fn.
func InstrsOf(fn *ssa.Function, f func(ssa.Instruction)) {
	for _, b := range fn.Blocks {
		for _, in := range b.Instrs {
			f(in)
		}
	}
}

// Returns lists the Return instructions of fn.
func Returns(fn *ssa.Function) []*ssa.Return {
	var out []*ssa.Return
	for _, b := range fn.Blocks {
		if len(b.Instrs) == 0 {
			continue
		}
		if r, ok := b.Instrs[len(b.Instrs)-1].(*ssa.Return); ok {
			out = append(out, r)
		}
	}
	return out
}

// Precedes reports whether instruction a is executed before b on every path that executes b,
// approximated as: same block and earlier, or a's block strictly dominates b's block.
func Precedes(a, b ssa.Instruction) bool {
	if a.Block() == b.Block() {
		for _, in := range a.Block().Instrs {
			if in == a {
				return true
			}
			if in == b {
				return false
			}
		}
		return false
	}
	return a.Block().Dominates(b.Block())
}

// Origins walks backwards from v through phis, value-preserving wrappers, single-store locals,
// slices of a value and extracts, and returns the root values reached (calls, constants,
// parameters, globals, field loads, ...), de-duplicated.
func Origins(v ssa.Value) []ssa.Value {
	seen := map[ssa.Value]bool{}
	var out []ssa.Value
	var walk func(v ssa.Value, d int)
	walk = func(v ssa.Value, d int) {
		if v == nil || seen[v] || d > 40 {
			return
		}
		seen[v] = true
		switch x := v.(type) {
		case *ssa.Phi:
			for _, e := range x.Edges {
				walk(e, d+1)
			}
		case *ssa.ChangeType:
			walk(x.X, d+1)
		case *ssa.MakeInterface:
			walk(x.X, d+1)
		case *ssa.ChangeInterface:
			walk(x.X, d+1)
		case *ssa.UnOp:
			if x.Op == token.MUL {
				if a, ok := x.X.(*ssa.Alloc); ok {
					sts := StoresTo(a)
					if len(sts) > 0 {
						for _, st := range sts {
							walk(st.Val, d+1)
						}
						return
					}
				}
			}
			out = append(out, v)
		default:
			out = append(out, v)
		}
	}
	walk(v, 0)
	return out
}
