#!/usr/bin/env python3
"""Thorough tier, evidence only: applies every committed variant of this property (mutants/<ID>-*.patch and
seeded/<ID>-*/patch.diff — changes that are known to break the property while compiling and passing the suite) to a
scratch copy of the CURRENT /repo tree and records whether this property's check reports each of them. The result is
added to evidence/<ID>.json under coverage.teeth; it never changes the exit status (a weak rule is a defect of the
checker, not a violation on the tree under test). Scratch copies live under a fresh mkdtemp directory outside /repo
and /verif and are removed as soon as each child returns."""
import concurrent.futures, glob, json, os, shutil, subprocess, sys, tempfile

here = os.path.dirname(os.path.dirname(os.path.abspath(__file__)))
prop = sys.argv[1]
repo = os.environ.get('SFW_REPO', '/repo')
patches = sorted(glob.glob(os.path.join(here, 'mutants', prop + '-*.patch')) + glob.glob(os.path.join(here, 'seeded', prop + '-*', 'patch.diff')))
env = dict(os.environ, GOFLAGS='-mod=mod', GOPROXY='off')
for k in ('GOWORK', 'GOTOOLCHAIN', 'GOSUMDB'):
    env.pop(k, None)

def one(patch):
    name = os.path.basename(os.path.dirname(patch)) if patch.endswith('patch.diff') else os.path.basename(patch)[:-6]
    tmp = tempfile.mkdtemp(prefix='sfwteeth.')
    try:
        subprocess.run(['rsync', '-a', '--exclude', '.git', repo + '/', tmp + '/repo/'], check=True)
        os.makedirs(tmp + '/verif/evidence')
        shutil.copy(os.path.join(here, 'known_findings.json'), tmp + '/verif/')
        with open(patch) as f:
            r = subprocess.run(['patch', '-p1', '-s', '--no-backup-if-mismatch'], cwd=tmp + '/repo', stdin=f, capture_output=True)
        if r.returncode != 0:
            return name, 'skipped (patch does not apply to this tree)', ''
        r = subprocess.run([os.path.join(here, 'bin', 'sfwverif'), '-repo', tmp + '/repo', '-tier', 'quick', '-verif', tmp + '/verif', prop], capture_output=True, text=True, env=env)
        lines = [l for l in r.stdout.splitlines() if l and not l.startswith(('VIOLATION', 'KNOWN-FINDING')) and 'obligations=' not in l]
        first = lines[0].replace(tmp + '/repo/', '')[:300] if lines else ''
        if r.returncode == 0:
            return name, 'not reported', ''
        if 'load' in r.stdout and 'type' in r.stdout and not lines:
            return name, 'skipped (variant does not type-check on this tree)', ''
        return name, 'reported', first
    finally:
        shutil.rmtree(tmp, ignore_errors=True)

with concurrent.futures.ThreadPoolExecutor(max_workers=int(os.environ.get('TEETH_JOBS', '6'))) as ex:
    results = list(ex.map(one, patches))

ev_path = os.path.join(here, 'evidence', prop + '.json')
ev = json.load(open(ev_path))
teeth = {
    'what': 'committed property-breaking variants (hand-made mutants and independently seeded changes) applied to a scratch copy of the current tree; does this check report them?',
    'variants': len(results),
    'reported': sum(1 for _, s, _ in results if s == 'reported'),
    'not_reported': [n for n, s, _ in results if s == 'not reported'],
    'skipped': [n + ': ' + s for n, s, _ in results if s.startswith('skipped')],
    'details': [{'variant': n, 'status': s, 'first_report': f} for n, s, f in results],
}
ev['coverage']['teeth'] = teeth
json.dump(ev, open(ev_path, 'w'), indent=1, ensure_ascii=False)
print('%s teeth: variants=%d reported=%d not_reported=%d skipped=%d' % (prop, teeth['variants'], teeth['reported'], len(teeth['not_reported']), len(teeth['skipped'])))
