#!/bin/bash
# usage: mkmutant.sh <name>  — saves the difference between /tmp/mw (an edited scratch copy) and
# /repo as /verif/mutants/<name>.patch and resets /tmp/mw.  `mkmutant.sh --init` creates /tmp/mw.
here="$(cd "$(dirname "$0")/.." && pwd)"
if [ "$1" = "--init" ]; then rm -rf /tmp/mw; rsync -a --exclude .git /repo/ /tmp/mw/; exit 0; fi
(cd /tmp && diff -ruN -x .git repo_link_a repo_link_b >/dev/null 2>&1)
rm -f /tmp/a /tmp/b; ln -sfn /repo /tmp/a; ln -sfn /tmp/mw /tmp/b
(cd /tmp && diff -ruN -x .git a/ b/ ) | sed 's#^--- a//*#--- a/#; s#^+++ b//*#+++ b/#; s#^diff -ruN -x .git a//*#diff -ruN a/#' > "$here/mutants/$1.patch"
rm -f /tmp/a /tmp/b
lines=$(grep -c '^[-+][^-+]' "$here/mutants/$1.patch")
echo "saved mutants/$1.patch ($lines changed lines)"
rsync -a --exclude .git /repo/ /tmp/mw/
