#!/usr/bin/env python3
import json,sys,glob,jsonschema
ms=json.load(open('/root/.vp/MANIFEST.schema.json')); es=json.load(open('/root/.vp/EVIDENCE.schema.json'))
m=json.load(open('/verif/MANIFEST.json')); jsonschema.validate(m,ms)
bad=0
for c in m['checks']:
    try:
        e=json.load(open(c['evidence_file'])); jsonschema.validate(e,es)
        assert e['property_id']==c['property_id']
    except Exception as ex:
        bad+=1; print('BAD evidence',c['property_id'],str(ex)[:200])
print('manifest valid; %d checks; %d bad evidence'%(len(m['checks']),bad))
