#!/bin/bash
# usage: mutant.sh <PROP|all> <patch>...   — applies each patch to a scratch copy of /repo, checks
# that it still builds, runs the property's check against the copy and reports whether it fired.
# Scratch copies live under /tmp and are removed immediately.
here="$(cd "$(dirname "$0")/.." && pwd)"
prop="$1"; shift
export GOFLAGS=-mod=mod GOPROXY=off; unset GOWORK
for patch in "$@"; do
  patch=$(readlink -f "$patch")
  name=$(basename "$patch" .patch)
  p="$prop"; [ "$p" = all ] && p="${name%%-*}"
  tmp=$(mktemp -d /tmp/sfwmut.XXXXXX)
  rsync -a --exclude .git "${SFW_REPO:-/repo}/" "$tmp/repo/"
  mkdir -p "$tmp/verif/evidence"; cp "$here/known_findings.json" "$tmp/verif/" 2>/dev/null
  if ! (cd "$tmp/repo" && patch -p1 -s --no-backup-if-mismatch < "$patch" >/dev/null 2>&1); then
    echo "MUTANT $name: SKIPPED (patch does not apply)"; rm -rf "$tmp"; continue
  fi
  if ! (cd "$tmp/repo" && go build ./... >/dev/null 2>"$tmp/build.err"); then
    echo "MUTANT $name: DOES-NOT-COMPILE $(head -2 $tmp/build.err | tr '\n' ' ')"; rm -rf "$tmp"; continue
  fi
  out=$("$here/bin/sfwverif" -repo "$tmp/repo" -tier "${TIER:-quick}" -verif "$tmp/verif" "$p" 2>&1); rc=$?
  if [ $rc -ne 0 ]; then
    echo "MUTANT $name: REPORTED by $p"
    echo "$out" | grep -v '^VIOLATION\|^KNOWN-FINDING\|obligations=' | sed "s#$tmp/repo/##g" | head -${SHOW:-4} | sed 's/^/    /' | cut -c1-400
  else
    echo "MUTANT $name: NOT REPORTED by $p"
  fi
  rm -rf "$tmp"
done
