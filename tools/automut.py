#!/usr/bin/env python3
"""Syntactic single-site mutants (bin/mutgen) of one production file against ALL checks.
usage: automut.py <file relative to /repo> [funcRegexp] [workers]
Writes /tmp/automut/<name>.log with one line per mutant:  <id> <COMPILE-ERR|FIRED=[..]> <description>.
Scratch copies live under /tmp/automut.* and are removed. Nothing here is used by a registered command."""
import sys,os,subprocess,shutil,glob,multiprocessing,tempfile
V=os.path.dirname(os.path.dirname(os.path.abspath(__file__)))
rel=sys.argv[1]; fre=sys.argv[2] if len(sys.argv)>2 else '.*'; W=int(sys.argv[3]) if len(sys.argv)>3 else 6
name=rel.replace('/','_')
md=tempfile.mkdtemp(prefix='automut.gen.',dir='/tmp')
subprocess.check_call([V+'/bin/mutgen','/repo/'+rel,md,fre],stdout=subprocess.DEVNULL)
ids=sorted(os.path.basename(f)[:-3] for f in glob.glob(md+'/*.go'))
def work(chunk):
    k,items=chunk
    tmp=tempfile.mkdtemp(prefix='automut.w%d.'%k,dir='/tmp')
    subprocess.check_call(['rsync','-a','--exclude','.git','/repo/',tmp+'/repo/'])
    os.makedirs(tmp+'/verif/evidence'); shutil.copy(V+'/known_findings.json',tmp+'/verif/')
    env=dict(os.environ,GOFLAGS='-mod=mod',GOPROXY='off'); env.pop('GOWORK',None)
    out=[]
    for i in items:
        shutil.copy(md+'/'+i+'.go',tmp+'/repo/'+rel)
        p=subprocess.run([V+'/bin/sfwverif','-repo',tmp+'/repo','-verif',tmp+'/verif','ALL'],capture_output=True,text=True,env=env)
        desc=open(md+'/'+i+'.txt').read().strip()
        res='?'
        for l in p.stdout.splitlines():
            if l.startswith('FIRED='): res=l
            if l.startswith('LOAD-ERROR'): res='COMPILE-ERR'
        out.append('%s %s %s'%(i,res,desc))
    shutil.rmtree(tmp)
    return out
chunks=[(k,ids[k::W]) for k in range(W)]
with multiprocessing.Pool(W) as pool:
    res=[l for c in pool.map(work,chunks) for l in c]
os.makedirs('/tmp/automut',exist_ok=True)
res.sort()
open('/tmp/automut/%s.log'%name,'w').write('\n'.join(res)+'\n')
shutil.rmtree(md)
n=len(res); ce=sum('COMPILE-ERR' in l for l in res); fired=sum('FIRED=[C' in l for l in res)
print('%s: mutants=%d compile-errors=%d reported=%d silent=%d'%(rel,n,ce,fired,n-ce-fired))
