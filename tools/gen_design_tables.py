#!/usr/bin/env python3
"""Regenerates the generated blocks of DESIGN.md (§11) from evidence/, seeded/ and the last regression logs."""
import json,glob,re,os,sys
V='/verif'
s=open(V+'/DESIGN.md').read()
def block(name,body):
    global s
    a='<!-- BEGIN:%s -->'%name; b='<!-- END:%s -->'%name
    i=s.index(a)+len(a); j=s.index(b)
    s=s[:i]+'\n'+body.rstrip()+'\n'+s[j:]
# rules
out=[]
for f in sorted(glob.glob(V+'/evidence/C*.json')):
    d=json.load(open(f)); c=d['coverage']
    rules=c.get('rules',{})
    rl=', '.join('%s (%d)'%(k, (v if isinstance(v,int) else v.get('obligations',0))) for k,v in sorted(rules.items())) if isinstance(rules,dict) else str(rules)
    out.append('* **%s** — %d obligations, %d discharged, %d known; rules: %s.  \n  %s  \n  *Not decided:* %s'%(d['property_id'],c.get('obligations',0),c.get('discharged',0),len(c.get('known_findings',[]) or []),rl,c.get('explanation','').replace('\n',' '),'; '.join(c.get('undecided_clauses',[]) or [])))
block('RULES','\n'.join(out))
# seeds
rows=['| seed | site and effect (agent\'s words, shortened) | first run | now | reporting rule (first line) |','|---|---|---|---|---|']
log={}
cur=None
if os.path.exists('/tmp/seeds_check.log'):
    for l in open('/tmp/seeds_check.log',errors='replace'):
        m=re.match(r'(C\d\d-[A-Z])/patch.diff: fired=\[(.*)\]',l)
        if m: cur=m.group(1); log[cur]={'fired':m.group(2).split(),'lines':[]}
        elif cur and l.startswith('    ['): log[cur]['lines'].append(l.strip())
for d in sorted(glob.glob(V+'/seeded/C*')):
    n=os.path.basename(d); m=json.load(open(d+'/meta.json'))
    notes=(m.get('needs_to_manifest') or '').replace('\n',' ')
    notes=re.sub(r'\s+',' ',notes)[:230].replace('|','/')
    first=' '.join(m.get('caught_by_checks_when_first_run',[])) or '—'
    now=' '.join(m.get('caught_by_checks',[])) or '**—**'
    rule=''
    for l in log.get(n,{}).get('lines',[]):
        if l.startswith('['+m['breaks_property']+']'):
            mm=re.search(r'(C\d\d\.[A-Za-z.]+): ([^ ]+)',l)
            if mm: rule='`%s` %s'%(mm.group(1),mm.group(2)[:70].replace('|','/'))
            break
    rows.append('| %s | %s | %s | %s | %s |'%(n,notes,first,now,rule))
block('SEEDS','\n'.join(rows))
# refactorings
body=open(V+'/refactors/RESULTS.md').read() if os.path.exists(V+'/refactors/RESULTS.md') else '(no run recorded)'
block('REFAC',body)
open(V+'/DESIGN.md','w').write(s)
print('ok')
