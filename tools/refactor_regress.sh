#!/bin/bash
# Behaviour-preserving refactorings (refactors/*.patch, produced by independent agents, each verified to build and
# pass the suite) must leave every check silent. Prints the patches that make a check fire.
here="$(cd "$(dirname "$0")/.." && pwd)"
ls "$here"/refactors/${1:-}*.patch | xargs -P ${JOBS:-8} -n 2 "$here/tools/patch_check.sh" > /tmp/refactor_regress.log 2>&1
total=$(grep -c 'fired=' /tmp/refactor_regress.log); bad=$(grep -c 'fired=\[..*\]' /tmp/refactor_regress.log)
echo "refactorings=$total alarms=$bad"; grep -A${CTX:-0} 'fired=\[..*\]' /tmp/refactor_regress.log | cut -c1-${WIDTH:-300}
