#!/usr/bin/env python3
"""Generates /verif/MANIFEST.json from the table below (one entry per property).
A property is claimed only if its rule file is registered in the checker (IMPLEMENTED)."""
import json, os, sys

HERE = os.path.dirname(os.path.dirname(os.path.abspath(__file__)))

# id -> (technique, level text, level note, design ref)
CLAIMS = {
 "C15": ("SSA value-provenance + must-pass-through (edge-cut) over the hardening function; who-may-call census of packages.Load / packages.Config.Env",
         "Structural necessary-and-nearly-sufficient conditions of the hardened environment, decided on the SSA of /repo on every run: the function feeding packages.Config.Env returns append(filtered, constants) as its last step, the filtered list receives only unmodified os.Environ() elements and only on the path where every case-insensitive KEY= test fails, filtered keys == override keys, the five required overrides are present, and every packages.Load in production code receives such a config (through wrappers to all callers). This is a whole-input argument (it holds for every ambient environment) that the three sampled environments of the unit test cannot give.",
         "Trusts go/types+go/ssa (x/tools v0.29.0), the documented behaviour of strings.ToUpper/HasPrefix and os.Environ, and that the go command lets the last duplicate win (none survive when the rule holds).",
         "DESIGN.md §4 C15"),
 "C13": ("must-pass-through (edge-cut on SSA CFG, incl. the check-every-element loop form), constant-set extraction for the verdict switch, forward taint of the commit message, who-may-assign census of Verdict fields and of the nonce generator",
         "The audit path is a finite control structure with constant tables, so its fail-closed behaviour is decided for every sequence of provider responses rather than sampled: return 0 only on the MATCH equality edge (other gating constants proven unreachable through the whitelist), all other returns non-zero constants, main maps err/status to a non-zero exit; stored results are constant ERROR, constant MATCH only on the no-high-risk edge, or the provider value only under sentinel-safe ∧ sentinel-ok ∧ provider-ok ∧ validator-ok; whitelist ⊆ {MATCH,SUSPICIOUS,LIE}; sentinel answers false on every error; HTTP success only under status==200 and role test; commit message reaches the payload only via json.Marshal*, truncated, between two delimiters filled from one crypto/rand nonce.",
         "Trusts go/types+go/ssa, encoding/json's string escaping, os.Exit. Does not decide the JSON-extraction regexes' behaviour on hostile text nor anything about the model.",
         "DESIGN.md §4 C13"),
 "C07": ("who-may-call census of durable Pebble writes with argument provenance (pebble.Sync), per-mutation batch discipline (one batch, one commit outside loops, no mixed direct writes), key-prefix provenance in the chunked rebuild, must-pass-through for the schema write, typestate ordering with checked errors for the JSON save",
         "Necessary structural conditions of crash atomicity, decided for every mutation API on every run: all durable writes carry pebble.Sync; each multi-key mutation is exactly one batch committed once; the rebuild never touches signature-record keys; the schema version is written only when absent and writable; the JSON store is replaced via same-directory temp → encode → Sync → Close → Rename with every step checked. These hold for every history and crash point because they are properties of the code's shape; the per-syscall crash behaviour itself and Pebble's WAL are trusted, not decided.",
         "Trusts Pebble's batch atomicity and Sync durability, os.Rename atomicity within a directory, go/ssa.",
         "DESIGN.md §4 C07"),
 "C20": ("who-may-call (pebble.Open), check-every-element must-pass-through for the protected list, interprocedural value provenance (Abs ∧ successful EvalSymlinks on every phi input, followed through helper returns), enumerated boundary-aware containment idioms",
         "Decides on the code's shape, for every path spelling, that the string compared against the protected list is the absolute, symlink-resolved location (path or deepest existing ancestor + remainder), that the comparison respects path-component boundaries, that the confirmed six directories are listed, and that pebble.Open (single production site) and any Stat of the path are reachable only after the whole list failed the test. linux/amd64 only (the GOOS test is folded).",
         "Trusts filepath.Abs/EvalSymlinks/Join semantics; does not decide TOCTOU races or other operating systems.",
         "DESIGN.md §4 C20"),
 "C14": ("constant evaluation of the single sandbox.Spec composite literal (type-checked AST), who-may-store census over the spec's types, Mount-literal census, must-pass-through for the user-mount append and the mount-point creation, sort-provenance of Spec.Mounts",
         "The specification is built at one place from constants, so its lock-down is decided for every requested path set: read-only root, no-new-privileges, empty capability sets, six namespaces incl. network, positive memory/pid limits, GOPROXY=off, --network=none, ro bind mounts for every host source, reserved-path/Abs/EvalSymlinks guards on user mounts, fixed destinations reserved, Spec.Mounts is the stably Destination-sorted slice, escape check before any mount point is created.",
         "Trusts the container runtime to enforce the specification; does not decide paths merely under a reserved path.",
         "DESIGN.md §4 C14"),
 "C08": ("must-pass-through with NaN-safe comparison atoms for every admission of a matcher result, forward use-census of the threshold value (through captured variables), sort-provenance of returned alert slices, sibling comparison of guard shapes between exact and full mode, enumerated bounded shapes for score terms; veto-on-every-path rule for the required-call test; no branch on the already filtered alert collection may skip candidates; sort not followed by appending callbacks",
         "Decides the structural half of 'every alert is justified': missing required call ⇒ constant-0 confidence on every reachable return; every admission in both backends dominated by Confidence >= threshold-field (or a constant >= 0.99 in JSON exact mode) in NaN-safe polarity; the threshold feeds nothing but such comparisons (monotonicity); returned alert slices are the Confidence-descending-sorted ones; exact and full mode guard admission by the same shapes (JSON: only the two stated differences); every score term is one of the enumerated [0,1] shapes and confidence is their mean.",
         "Does not decide numeric equality of confidences across modes nor floating-point corner cases beyond the NaN polarity of the filter.",
         "DESIGN.md §4 C08"),
 "C06": ("coupled-update analysis (record write ⇒ all index writes + stale deletes in the same batch on every path to the commit), argument provenance through key builders, must-pass-through for stale-delete and dedup guards with an only-these-guards census, bound provenance of every IterOptions, prefix census of the rebuild's range deletes, format analysis of composite keys; sibling agreement of rebuild and add path (fields and conditions); dedup-table key stability; fresh decode target per iteration; operations of batch helpers attributed to their caller",
         "Decides the structural mechanism behind 'lookups reflect exactly the current set': every writer of a signature record writes all three index entries from that very signature and deletes the entries computed from the previously stored record (guarded only by 'field changed'), deletion removes every index entry, batch adds process only the last occurrence of an ID, all iterators are prefix-bounded with a nil-checked upper bound, the rebuild clears exactly the index prefixes and re-derives through the same builders, in-place rewrites touch no index-relevant field, composite keys are unambiguous (two known findings: topo:/fuzzy: keys).",
         "Does not decide equality with a brute-force oracle over histories; trusts Pebble.",
         "DESIGN.md §4 C06"),
 "C11": ("receiver provenance of every iterator / record fetch in alert-producing scans (same *pebble.Snapshot, through closures), forward must-lockset analysis per method with derived guarded-field sets, escape analysis of the JSON getters' results; transitive live-handle reads through store helpers; read half of a read-modify-write under the write lock; interprocedural lock level for unexported helpers (fixpoint over call sites); batch applied under one lock acquisition",
         "Decides the structural conditions for consistent concurrent scans: index walk and record fetch share one snapshot in every alert/candidate producer; every access to a mutex-guarded field and every durable write holds the required lock level on every path; JSON getters hand out copies. This covers every interleaving because it is a property of each method's lock/snapshot discipline, which the race-detector stress of the test suite can only sample.",
         "Trusts pebble.Snapshot consistency and sync.RWMutex; races inside Pebble and liveness are not decided.",
         "DESIGN.md §4 C11"),
 "C18": ("coupled-update analysis of the JSON store's slice and ID→slot map, error-discipline rule over the streaming migration (every decoder error ends in an error return, nothing is decoded after an error), static type agreement of gob encode/decode sites, JSON key agreement between writers and the migration, typestate ordering of the atomic save; fresh decode target per iteration for signature decodes in loops",
         "Decides the structural necessary conditions of 'signatures survive migration/export/either backend': slot map updated with every append or rebuilt after replacement; migration propagates every Token/Decode/import error and requires the array and its closing bracket; gob encodes and decodes the same static type; export, JSON store and migration agree on the array key; the save is temp→encode→Sync→Close→Rename.",
         "Field-for-field round-trip equality through gob/JSON is a runtime property and is not decided.",
         "DESIGN.md §4 C18"),
 "C16": ("must-pass-through over the per-file worker's success returns (every error-returning step and the size test), recover-handler effect census in goroutine bodies, edge-cut for strict mode, guard census of the function enumerator, closed-world census of the file collector's decision atoms; package-initialiser closures not skipped; every fingerprint result carries its SSA function",
         "Decides the structural conditions of 'nothing escapes analysis': a file result without an error message only when every step succeeded; panics in per-file goroutines become that file's error and raise the flag (check) or a diagnostic (scan); strict ∧ flag ⇒ no success return; the enumerator covers functions, all methods, closures on every non-skipped path and skips synthetic functions only when they are not range-over-func bodies; the collector's decisions use only the enumerated exclusion atoms; size tests precede bounded reads.",
         "The walk predicate's value on every file name and build-constraint exclusions are not decided.",
         "DESIGN.md §4 C16"),
 "C09": ("must-pass-through and coupled-update rules over the function matcher (mark sets), single-writer census and mirrored-update check of the zipper maps, provenance of summary counters, guard census of the divergence pass",
         "Decides the partition mechanism for every input: every pairing marks both sides, rename pairings only between unused functions, leftovers only from unmarked functions, zipper maps written in lockstep by one function and only for unmapped instructions, summary counters are len() of the lists whose entries carry that status, Added/Removed operation lists are exactly the unmapped (non-virtualised) instructions.",
         "Uniqueness of short names and maximality of the matching are not decided.",
         "DESIGN.md §4 C09"),
 "C19": ("must-pass-through for candidate creation (similarity >= threshold) and for the 'renamed' status (exactly the not-by-name edge), shared one-to-one rules of C09, forbidden-read census (names, positions, Signature.String) and self-reference replacement check on the similarity's inputs; swap-invariance proof of the similarity by structural induction over the SSA value graph (mirrored fields, commutative operators, min/max selectors, |x| of a mirrored difference, recursively proved helpers; MapSimilarity proved as a two-pass sum over the union of keys, assuming non-negative counts); interval evaluation showing the similarity is a weighted mean in [0,1]; exhaustive-candidate-search rule (no early exit from the candidate loops)",
         "Decides the structural half of rename recognition: candidates only at or above the threshold, computed by the structural similarity; pairings one-to-one; 'renamed' stored exactly for pairs not matched by name; the topology that feeds the similarity reads no name of the analysed function (callee names only, self-calls replaced by a name-free token). Symmetry, range and the value 1 of the similarity, and the optimality of greedy pairing are numeric/runtime properties and are listed as not decided.",
         "The range [0,1] of MapSimilarity / typeListSimilarity themselves (numerator bounded by denominator) and the non-negativity of frequency counts are stated assumptions of C19.RANGE / C19.SYM, not decided.",
         "DESIGN.md §4 C19"),
 "C12": ("must-pass-through over the induction-variable classifier and the trip-count derivation (incl. the check-every-predecessor loop form and threading of boolean flags), operator-set extraction; exact-constant rule for the SSA-constant converter; ownership/aliasing rule for the symbolic evaluator (only freshly allocated big.Ints are written, no node hands out its own constant); operator-follows-polarity, step-sign and inclusive dead-shortcut rules for the trip count",
         "Decides the gating of loop summaries for every loop shape: an induction variable is recorded only for integer updates whose every in-loop phi edge is the recognised update, with one start value, an invariant step, ADD/SUB only as basic (SUB negated, phi on the left), and only basic IVs become {start,+,step} in the IR; a computed trip count is stored only for single-exit, top-tested loops whose true edge stays in the loop and whose limit is invariant. The arithmetic of the formulas and wrap-around are runtime matters and not decided.",
         "Trusts go/ssa's dominator tree and natural-loop structure as used by the tool.",
         "DESIGN.md §4 C12"),
 "C17": ("recursion census: strongly connected components of the call graph (CHA; VTA in the thorough tier) each classified by a premise-checking detector (depth+increment, visited set, shrinking argument, structural descent, size-capped trees, memoised expansion); must-pass-through for every work cap; unconditional-memo rule (a memo counts only if filled whenever the value was computed); matcher-never-on-oversized rule; zero-tested divisor rule for big-integer division in the symbolic evaluator; scope by precise reachability",
         "Decides that every recursive component on the analysis paths has a structural bound and that fan-out > 1 is always paired with a memo, visited set, tree descent or constructor-side size cap (a depth bound alone is rejected as exponential) — the rule that found both blow-ups repaired in /repo (shared-subexpression rendering, nested induction substitution) from the code's shape; all work caps dominate their sinks. The polynomial bound as a number and comparison counts are not decided.",
         "Call-graph soundness for the module's own code (no reflection/unsafe in production code).",
         "DESIGN.md §4 C17"),
 "C05": ("producer/consumer agreement census for hash fields (who-may-assign, who-compares, who-probes), format-prefix and byte-layout agreement between index writers and readers, forbidden-read census with self-reference replacement check on the topology path, inclusive-comparison atoms for admission, collection-agreement between indexer and matcher; derivation census of stored string patterns (literal or trimmed literal); key/prefix template agreement independent of Sprintf vs concatenation; independent matching of requirements",
         "Decides the structural conditions under which indexed code is found again: stored and looked-up hashes come from the same two functions; reader prefixes are format-prefixes of writer keys and the packed value is decoded with the layout it was encoded with; nothing on the topology/hash path reads a name of the analysed function (the rule that found the closure-parameter-name and recursive-self-name leaks repaired in /repo); admission is inclusive; indexer and matcher consult the same collections. That the self-match confidence is numerically 1.0 is not decided.",
         "Callee names of other package-level functions are part of the call profile by design and outside this check.",
         "DESIGN.md §4 C05"),
 "C03": ("observed-attribute coverage (read-set) of the renderer's type-switch clauses against the struct definitions of the go/ssa version the target builds against, leaf-rendering ingredient analysis, must-pass-through gating of every normalisation with operator-set and rewrite-table extraction; Underlying() rule for the map/channel purity exclusion; induction-variable gate (the C12 classifier rules) and loop-identity rule for add-recurrences",
         "Injectivity is a runtime property and is NOT decided; decided are its structural necessary conditions: a clause for every instruction kind observing every exported field (+ result type where not operand-determined), typed constants, package-qualified function references, typed free variables, index-preserving sorts (one known finding: select-case sorting), swap/commutativity/hoisting guarded exactly as their soundness arguments require, no source-carrying function skipped. A change that drops an attribute or widens a guard makes every pair of functions differing only there collide — for all such pairs, which no sampled test can show.",
         "Attribute observation ≠ injective rendering; the semantic soundness of each normalisation beyond its gating is not decided.",
         "DESIGN.md §4 C03"),
 "C02": ("forbidden-read census (names, positions, comments, String()) over everything reachable from the canonicaliser, provenance of canonical register/block names, must-pass-through for own-nest exclusion before a function name is read, value-independence of the abstraction branch, ordered-write check for commutative operands, coupled swap state; Underlying()-before-structural-type-test rule for the commutativity and swap predicates; nest-root identity rule for self references; exactness-flag rule for literal values; phi operands rendered after edge sorting; trip-count derivation handles both orientations of the header test",
         "Decides the necessary conditions of cosmetic invariance for every function and refactoring at once (non-interference by read-set: code that never reads X cannot depend on X): no cosmetic attribute is read on the canonicalisation path; names come from counters; a referenced function's own name is read only outside the subject's nest (the rule that found the recursive-function rename defect repaired in /repo); abstracted literals render from their type only; commutative operands are written in string order; operator rewrite and branch exchange are recorded together; results are sorted by name.",
         "That go/ssa produces the same shape for cosmetically different sources is trusted; behavioural equality of the normalised forms is not decided.",
         "DESIGN.md §4 C02"),
 "C04": ("read-set dependency of the Preserved verdict on successor edges, sentinel exclusion before the fingerprint-equality short-circuit, two-sided scalar-attribute coverage of the zipper's comparator derived from the go/ssa struct definitions, must-pass-through for match recording and for the Preserved / 'preserved' stores",
         "Decides the structural necessary conditions of 'never calls a behaviour change preserved': the verdict depends on successor edges (found the exchanged-branches defect), the size-guard marker cannot short-circuit to preserved (found the OVERSIZED defect), every scalar attribute of every instruction kind — incl. invoke mode and method of go/defer — is compared on both sides (found the defer/go defect), matches are recorded only after a full equivalence test, Preserved needs both unmatched lists empty, 'preserved' only under fingerprint equality or that flag. Completeness of the matching itself is not decided.",
         "Inherits C03's structural guarantees for operand rendering; completeness of structural matching is out of reach.",
         "DESIGN.md §4 C04"),
 "C01": ("effect classification of every range-over-map and goroutine body reachable from the fingerprint entry points (interprocedural effect summaries relative to parameters, loop-carried value analysis, taint of collections built in iteration order with discharge by a total sort from a reviewed comparator table), reset-completeness of sync.Pool-managed types, census of package-level state and of nondeterminism sources, purity of sort comparators; path-sensitive reset rule for every field of the pooled canonicaliser; release-once typestate rule for pooled instances (no immediate release next to a deferred one); no early exit from a map range after element-dependent effects",
         "Decides 'no source of nondeterminism reaches a fingerprint' as an exhaustive census: all 16 map ranges on the path have only order-insensitive effects or feed a total sort; every field of the pooled canonicaliser is reset/assigned/reset-before-use on acquire (or covered by a checked premise); no run-time-written package state without lock discipline; no clock/random/env/goroutine/select; positions flow only into position fields. This covers every history of prior analyses, every interleaving and every file location at once.",
         "Determinism of go/packages, go/types, go/ssa is trusted. Effect summaries treat objects reached through local containers as local (stated limitation).",
         "DESIGN.md §4 C01"),
 "C10": ("the same effect-classification engine over everything reachable from the check/diff/scan logic and both scanners, plus goroutine-body classification (slot-addressed writes by a per-iteration copy of the index, constants, commutative integer accumulation — never append in completion order) and stability of the rename-candidate sort",
         "Decides that report order cannot depend on map iteration or scheduling: every range over a map is order-insensitive or sorted before use, goroutines write only to their own slots, and the rename-candidate list is fed and sorted deterministically (the rule that found the diff-order, scan-order and tie-pairing defects repaired in /repo).",
         "encoding/json's byte-identical output for equal values is trusted; time-valued fields are excluded by the property.",
         "DESIGN.md §4 C10"),
}

# technique additions of the round-3 rules (appended to the technique text)
ROUND3 = {
 "C01": "nondeterminism-source census extended to hash/maphash, map-order APIs (maps.Keys, sync.Map.Range, reflect map iteration) and address-to-integer conversions; typestate rule 'no use after sync.Pool.Put' and dominance rule 'exported rendering entry point resets the scratch state first'; C15's hardened-environment rules and a loader-working-directory rule run under C01",
 "C10": "nondeterminism-source census extended to hash/maphash and map-order APIs; qualified-name rule for the sort key of results",
 "C02": "must-ask-the-policy path rule for integer constants of symbolic expressions (every path of the constant node's renderer calls the renamer; the renamer answers from ShouldAbstract with a fixed placeholder); polarity clauses of the trip-count derivation; virtual-successor-view census (block order and second-successor reads), canonical-order provenance of the block list used to collect moved instructions, symbolic path analysis of the literal policy's keep results (through negations, merges and helper calls); renamer-threading census of the symbolic printers (every sub-expression through StringWithRenamer; start before step)",
 "C03": "every-path rule for the loop tag of recurrences; exact-rendering rule for constant values; census of reordered sequences by provenance (operand lists of SSA constructs vs reviewed table)",
 "C04": "all structural conditions of C03 re-run under C04 (fingerprint short-circuit); conjunction analysis of the comparator (with one attribute equality taken as false no return can yield true); the zipper's map discipline (C09.MAPS) run under C04; distinct old/new argument rule; recorded exchange pair is the exchange; conjunction analysis over paired parameters and helper comparisons",
 "C05": "provenance of generated signature IDs (per-iteration value and database-state/content/random value, followed through helper parameters); producer/consumer agreement of the entropy figure; slot/field agreement at every call of the packed-value encoder (followed through helper parameters); case-folding symmetry of string tests; uniqueness of json names within a serialised struct",
 "C08": "guard-edge rule for replacements of the configured threshold (store and phi form): only under a test that found it outside (0,1]; haystack/needle provenance of containment tests in the requirement matchers; guard direction of ratio inversion; pre-filter boundary/fallback shape census",
 "C09": "function-enumeration rules shared with C16; flow rule for the operation lists between collection and report; mark/test index agreement of the used-sets; counter-follows-status path rule; both-indices-advance rule for the positional alignment; agreement of the side a named bound falls on across sites; position/list agreement in the rename pass; comparator conjunction shared with C04",
 "C12": "census of value kinds opened by the summary builder; truncated-division-only rule for big-integer arithmetic in the loop package; exactly-one-exit atom; renamer-threading / start-before-step census (shared with C02)",
 "C14": "every-request-reaches-the-manager path rule over the CLI adapter's mount collector (excuses: empty, unresolvable, exact duplicate); json names of the specification types follow the runtime specification; one named constant per resource limit",
 "C16": "guard-shape census of the member/type/method enumeration (only kind, nil, emptiness and loop tests may keep a member from the enumerator); reader-limit-above-size-limit rule; complete-range rule for the method loop; report attribution from the result's own file/line; failure-exits-non-zero path rule in the entry point; no SkipAll in the collector",
 "C17": "bounded-read rule for every whole-content read in production code; bucket cap on the bucket's own length; recorded node size counts both operands; running byte budget is spent",
 "C18": "error-propagation path rule at every storage call of the commands (no success-capable return reachable from the error edge); success-only-after-record-write and every-batch-element-written path rules in the embedded store; non-empty flush and slot-zero boundary tests",
 "C19": "result-carries-function rule shared with C16; comparator-direction rule for the candidate sort; position/list agreement shared with C09",
 "C06": "packed-value slot/field agreement shared with C05; re-check/iterator interval agreement for range scans; role-aware emptiness test of stale deletes; strict boundary and fallback shape of every entropy pre-filter (shared with C08)",
 "C11": "the one-batch rule of C07 run under C11; one-snapshot-per-scan rule; stale-entry discipline of C06 run under C11",
 "C13": "case-folding agreement between text and phrase list; constant lower bound on the nonce length; bound agreement with the diff stage; the sentinel is handed the builder's payload result",
 "C07": "packed-value slot/field agreement at every writer (shared with C05/C06)",
 "C20": "no lexical cleaning before symlink resolution; the resolver is applied to the opened spelling",
}

PENDING_REASON = "static check for this property is not armed yet in this revision of the machinery (see DESIGN.md §4 for the planned structural clauses); not claimed until its rules run silent on the tree and fire on their mutants"

def main():
    props = [json.loads(l)["id"] for l in open(os.path.join(HERE, "properties.jsonl"))]
    checks, na = [], []
    for pid in props:
        if pid in CLAIMS:
            tech, text, note, ref = CLAIMS[pid]
            checks.append({
                "property_id": pid,
                "quick_cmd": "./check %s quick" % pid,
                "thorough_cmd": "./check %s thorough" % pid,
                "evidence_file": "/verif/evidence/%s.json" % pid,
                "replay_cmd_template": "./check %s quick  # static: re-derives the obligation named in {path} from /repo's current tree" % pid,
                "engine": "sfwverif",
                "level_claimed": {"category": "other", "text": text, "design_ref": ref},
                "level_note": note,
                "technique": "static analysis: " + tech + ("; " + ROUND3[pid] if pid in ROUND3 else ""),
            })
        else:
            na.append({"property_id": pid, "reason": NA.get(pid, PENDING_REASON)})
    m = {
        "version": 1,
        "setup_cmd": "cd /verif/checker && env -u GOWORK -u GOTOOLCHAIN -u GOSUMDB GOFLAGS=-mod=mod GOPROXY=off go build -o ../bin/sfwverif ./cmd/sfwverif",
        "hooks": {
            "guard": "verif",
            "enable": "no hooks: the checks read /repo's source (go/packages + go/ssa); nothing in /repo is built with a tag or executed",
            "baseline_off_cmd": "cd /repo && GOFLAGS=-mod=mod GOPROXY=off go test -json -vet=off -count=1 -timeout 25m ./...",
            "source_commits": [],
            "add_only": True,
        },
        "engines": [{
            "name": "sfwverif",
            "path": "/verif/checker",
            "serves_properties": [c["property_id"] for c in checks],
            "kind_free_text": "repository-specific static analyser (Go, golang.org/x/tools v0.29.0: go/packages, go/ssa, callgraph cha/vta): dataflow, must-pass-through, read-set, effect-classification and who-may-call rules over the type-checked program",
        }],
        "checks": checks,
        "not_applicable": na,
        "notes": NOTES,
    }
    json.dump(m, open(os.path.join(HERE, "MANIFEST.json"), "w"), indent=1)
    print("MANIFEST.json: %d claimed, %d not claimed" % (len(checks), len(na)))

NA = {}
NOTES = ("All claims are at level 'other': structural necessary conditions decided statically from /repo's source on every run; "
         "each evidence file lists the clauses decided and the clauses not decided. Genuine defects found by the rules were repaired "
         "with 'fix:' commits in /repo or are listed in /verif/known_findings.json (see DESIGN.md §5, §6).")

if __name__ == "__main__":
    main()
