// mutgen enumerates single-site syntactic mutants ("slips of the pen") of one Go file and writes each as
// <outdir>/<n>.go together with <outdir>/<n>.txt (operator, function, line, before → after).
// usage: mutgen <file.go> <outdir> [funcNameRegexp]
package main

import (
	"fmt"
	"go/ast"
	"go/parser"
	"go/token"
	"os"
	"path/filepath"
	"regexp"
	"strings"
)

type edit struct {
	from, to int // byte offsets
	repl     string
	op, fn   string
	line     int
}

func main() {
	if len(os.Args) < 3 {
		fmt.Fprintln(os.Stderr, "usage: mutgen file outdir [funcRegexp]")
		os.Exit(2)
	}
	file, out := os.Args[1], os.Args[2]
	re := regexp.MustCompile(".*")
	if len(os.Args) > 3 {
		re = regexp.MustCompile(os.Args[3])
	}
	src, err := os.ReadFile(file)
	if err != nil {
		panic(err)
	}
	fset := token.NewFileSet()
	f, err := parser.ParseFile(fset, file, src, parser.ParseComments)
	if err != nil {
		panic(err)
	}
	off := func(p token.Pos) int { return fset.Position(p).Offset }
	var edits []edit
	ror := map[token.Token]string{token.LSS: "<=", token.LEQ: "<", token.GTR: ">=", token.GEQ: ">", token.EQL: "!=", token.NEQ: "=="}
	for _, d := range f.Decls {
		fd, ok := d.(*ast.FuncDecl)
		if !ok || fd.Body == nil || !re.MatchString(fd.Name.Name) {
			continue
		}
		name := fd.Name.Name
		add := func(from, to token.Pos, repl, op string) {
			edits = append(edits, edit{off(from), off(to), repl, op, name, fset.Position(from).Line})
		}
		exits := func(b *ast.BlockStmt) bool {
			if len(b.List) == 0 {
				return false
			}
			switch s := b.List[len(b.List)-1].(type) {
			case *ast.ReturnStmt:
				return true
			case *ast.BranchStmt:
				return s.Tok == token.CONTINUE || s.Tok == token.BREAK
			}
			return false
		}
		ast.Inspect(fd.Body, func(n ast.Node) bool {
			switch x := n.(type) {
			case *ast.BinaryExpr:
				if r, ok := ror[x.Op]; ok {
					add(x.OpPos, x.OpPos+token.Pos(len(x.Op.String())), r, "ROR")
				}
				if x.Op == token.LAND {
					add(x.OpPos, x.OpPos+2, "||", "LCR")
				}
				if x.Op == token.LOR {
					add(x.OpPos, x.OpPos+2, "&&", "LCR")
				}
			case *ast.IfStmt:
				if x.Else == nil && x.Init == nil && exits(x.Body) {
					add(x.Pos(), x.End(), "", "GRD")
				}
				add(x.Cond.Pos(), x.Cond.End(), "!("+string(src[off(x.Cond.Pos()):off(x.Cond.End())])+")", "NEG")
			case *ast.ExprStmt:
				if _, isCall := x.X.(*ast.CallExpr); isCall {
					add(x.Pos(), x.End(), "", "SDL")
				}
			case *ast.DeferStmt:
				add(x.Pos(), x.End(), "", "SDL")
			case *ast.IncDecStmt:
				add(x.Pos(), x.End(), "", "SDL")
			case *ast.AssignStmt:
				// a plain store through a selector or index (state update) is dropped
				if x.Tok == token.ASSIGN && len(x.Lhs) == 1 {
					switch x.Lhs[0].(type) {
					case *ast.SelectorExpr, *ast.IndexExpr, *ast.StarExpr:
						add(x.Pos(), x.End(), "", "SDL")
					}
				}
			case *ast.SelectorExpr:
				if id, ok := x.X.(*ast.Ident); ok && id.Name == "pebble" && x.Sel.Name == "Sync" {
					add(x.Sel.Pos(), x.Sel.End(), "NoSync", "CONST")
				}
			case *ast.Ident:
				if x.Name == "true" {
					add(x.Pos(), x.End(), "false", "CONST")
				} else if x.Name == "false" {
					add(x.Pos(), x.End(), "true", "CONST")
				}
			case *ast.BasicLit:
				if x.Kind == token.INT && x.Value != "0" && !strings.HasPrefix(x.Value, "0x") && !strings.HasPrefix(x.Value, "0o") {
					add(x.Pos(), x.End(), "("+x.Value+" + 1)", "CONST")
				}
			}
			return true
		})
	}
	os.MkdirAll(out, 0o755)
	for i, e := range edits {
		m := string(src[:e.from]) + e.repl + string(src[e.to:])
		os.WriteFile(filepath.Join(out, fmt.Sprintf("%04d.go", i)), []byte(m), 0o644)
		before := strings.ReplaceAll(string(src[e.from:e.to]), "\n", " ")
		if len(before) > 100 {
			before = before[:100] + "…"
		}
		os.WriteFile(filepath.Join(out, fmt.Sprintf("%04d.txt", i)), []byte(fmt.Sprintf("%s %s:%d %s  [%s] → [%s]\n", e.op, filepath.Base(file), e.line, e.fn, before, e.repl)), 0o644)
	}
	fmt.Printf("%s: %d mutants\n", file, len(edits))
}
