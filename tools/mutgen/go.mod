module mutgen

go 1.24.0
