#!/usr/bin/env python3
"""For the mutants of <file> that no check reported (see automut.py's log), run the tests of the given packages and
list those that the tests do not kill either.  usage: automut_survivors.py <relfile> <funcRegexp> <pkgs...>"""
import sys,os,subprocess,shutil,glob,tempfile,re
V=os.path.dirname(os.path.dirname(os.path.abspath(__file__)))
rel=sys.argv[1]; fre=sys.argv[2]; pkgs=sys.argv[3:]
name=rel.replace('/','_')
silent={}
for l in open('/tmp/automut/%s.log'%name):
    parts=l.split(' ',2)
    if len(parts)>=3 and parts[1]=='FIRED=[]': silent[parts[0]]=parts[2].strip()
md=tempfile.mkdtemp(prefix='automut.gen.',dir='/tmp')
subprocess.check_call([V+'/bin/mutgen','/repo/'+rel,md,fre],stdout=subprocess.DEVNULL)
tmp=tempfile.mkdtemp(prefix='automut.s.',dir='/tmp')
subprocess.check_call(['rsync','-a','--exclude','.git','/repo/',tmp+'/repo/'])
env=dict(os.environ,GOFLAGS='-mod=mod',GOPROXY='off'); env.pop('GOWORK',None)
out=[]
for i,desc in sorted(silent.items()):
    # descriptions must match (same generator, same tree)
    if open(md+'/'+i+'.txt').read().strip()!=desc: continue
    shutil.copy(md+'/'+i+'.go',tmp+'/repo/'+rel)
    p=subprocess.run(['go','test','-vet=off','-count=1','-timeout','120s']+pkgs,cwd=tmp+'/repo',capture_output=True,text=True,env=env)
    if p.returncode==0: out.append('%s %s'%(i,desc))
shutil.copy('/repo/'+rel,tmp+'/repo/'+rel)
shutil.rmtree(tmp); shutil.rmtree(md)
open('/tmp/automut/%s.survivors'%name,'w').write('\n'.join(out)+'\n')
print('%s: silent=%d survivors(tests pass too)=%d'%(rel,len(silent),len(out)))
