#!/bin/bash
# usage: patch_check.sh <patch>...  — applies each patch to a scratch copy of /repo (outside /repo and /verif,
# removed afterwards), builds it and runs EVERY claimed check against the copy.
# Prints one line per patch:  <name>: fired=[C.. C..]  (empty list = all checks silent) and the first lines of each alarm.
here="$(cd "$(dirname "$0")/.." && pwd)"
export GOFLAGS=-mod=mod GOPROXY=off; unset GOWORK
props=$(python3 -c "import json;print(' '.join(c['property_id'] for c in json.load(open('$here/MANIFEST.json'))['checks']))")
for patch in "$@"; do
  patch=$(readlink -f "$patch"); name=$(basename "$(dirname "$patch")")/$(basename "$patch")
  tmp=$(mktemp -d /tmp/sfwpc.XXXXXX)
  rsync -a --exclude .git "${SFW_REPO:-/repo}/" "$tmp/repo/"
  mkdir -p "$tmp/verif/evidence"; cp "$here/known_findings.json" "$tmp/verif/"
  if ! (cd "$tmp/repo" && patch -p1 -s --no-backup-if-mismatch < "$patch" >/dev/null 2>&1); then echo "$name: PATCH DOES NOT APPLY"; rm -rf "$tmp"; continue; fi
  if ! (cd "$tmp/repo" && go build ./... 2>"$tmp/build.err"); then echo "$name: DOES NOT COMPILE"; rm -rf "$tmp"; continue; fi
  fired=""
  for p in $props; do
    o=$("$here/bin/sfwverif" -repo "$tmp/repo" -tier "${TIER:-quick}" -verif "$tmp/verif" "$p" 2>&1); rc=$?
    if [ $rc -ne 0 ]; then fired="$fired $p"; echo "$o" | grep -v '^VIOLATION\|^KNOWN\|obligations=' | head -${SHOW:-3} | sed "s#$tmp/repo/##g; s/^/    [$p] /" | cut -c1-${WIDTH:-330} > "$tmp/f_$p.txt"; fi
  done
  echo "$name: fired=[${fired# }]"
  cat "$tmp"/f_*.txt 2>/dev/null
  rm -rf "$tmp"
done
