#!/bin/bash
# usage: suite.sh <repo-dir> ; runs the pinned suite and compares the pass set with BASELINE.json stable_pass
dir=${1:-/repo}
export GOFLAGS=-mod=mod GOPROXY=off
unset GOWORK
cd "$dir" || exit 2
go test -json -vet=off -count=1 -timeout 25m ./... > /tmp/suite.$$.json 2>/dev/null
python3 - /tmp/suite.$$.json <<'PY'
import json,sys
passed=set(); failed=set()
for l in open(sys.argv[1]):
    try: e=json.loads(l)
    except: continue
    if e.get('Test') and e.get('Action') in('pass','fail'):
        k=e['Package']+'::'+e['Test']
        (passed if e['Action']=='pass' else failed).add(k)
base=set(json.load(open('/root/.vp/BASELINE.json'))['stable_pass'])
missing=sorted(base-passed)
print("passed=%d failed=%d baseline=%d baseline_missing=%d"%(len(passed),len(failed),len(base),len(missing)))
for m in missing: print("  MISSING",m)
for f in sorted(failed): print("  FAILED",f)
sys.exit(1 if missing else 0)
PY
rc=$?
rm -f /tmp/suite.$$.json
exit $rc
