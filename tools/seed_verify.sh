#!/bin/bash
# usage: seed_verify.sh <name e.g. C06-A> [outdir=/tmp/wt/out]
# Confirms a seeded change independently (builds, suite passes, demo fails with / passes without),
# runs every check against it and files it under /verif/seeded/<name>/.
name="$1"; out="${2:-/tmp/wt/out}"; here="$(cd "$(dirname "$0")/.." && pwd)"
prop="${name%%-*}"
patch="$out/$name.patch"; demo="$out/$name.demo_test.go"; meta="$out/$name.meta.txt"
[ -f "$patch" ] && [ -f "$demo" ] || { echo "$name: missing files"; exit 2; }
export GOFLAGS=-mod=mod GOPROXY=off; unset GOWORK
tmp=$(mktemp -d /tmp/sfwseed.XXXXXX)
rsync -a --exclude .git /repo/ "$tmp/repo/"
dir=$(head -1 "$demo" | sed -n 's#^// DIR: *##p' | tr -d ' \r')
[ -n "$dir" ] || { echo "$name: no DIR header"; rm -rf "$tmp"; exit 2; }
tests=$(grep -o '^func Test[A-Za-z0-9_]*' "$demo" | sed 's/func //' | paste -sd'|')
res="applies=?"
if ! (cd "$tmp/repo" && patch -p1 -s --no-backup-if-mismatch < "$patch" >/dev/null 2>&1); then echo "$name: PATCH DOES NOT APPLY"; rm -rf "$tmp"; exit 1; fi
if ! (cd "$tmp/repo" && go build ./... 2>"$tmp/build.err"); then echo "$name: DOES NOT COMPILE"; cat "$tmp/build.err" | head -3; rm -rf "$tmp"; exit 1; fi
suite=$("$here/tools/suite.sh" "$tmp/repo" | head -1)
cp "$demo" "$tmp/repo/$dir/zz_seed_demo_test.go"
(cd "$tmp/repo" && go test -vet=off -count=1 -run "^($tests)\$" "./$dir/" >"$tmp/demo_with.log" 2>&1); with=$?
# checks against the changed tree
mkdir -p "$tmp/verif/evidence"; cp "$here/known_findings.json" "$tmp/verif/"
rm -f "$tmp/repo/$dir/zz_seed_demo_test.go"
caught=""
for p in $(python3 -c "import json;print(' '.join(c['property_id'] for c in json.load(open('$here/MANIFEST.json'))['checks']))"); do
  o=$("$here/bin/sfwverif" -repo "$tmp/repo" -tier quick -verif "$tmp/verif" "$p" 2>&1); rc=$?
  if [ $rc -ne 0 ]; then caught="$caught $p"; echo "$o" | grep -v '^VIOLATION\|^KNOWN\|obligations=' | head -3 | sed "s#$tmp/repo/##g; s/^/    [$p] /" | cut -c1-330 > "$tmp/caught_$p.txt"; fi
done
# unchanged tree
rsync -a --delete --exclude .git /repo/ "$tmp/repo/"
cp "$demo" "$tmp/repo/$dir/zz_seed_demo_test.go"
(cd "$tmp/repo" && go test -vet=off -count=1 -run "^($tests)\$" "./$dir/" >"$tmp/demo_without.log" 2>&1); without=$?
echo "$name: suite[$suite] demo_with_change_exit=$with demo_without_change_exit=$without caught_by=[${caught# }]"
cat "$tmp"/caught_*.txt 2>/dev/null
ok=0; [ $with -ne 0 ] && [ $without -eq 0 ] && echo "$suite" | grep -q "baseline_missing=0" && ok=1
if [ $ok -eq 1 ]; then
  d="$here/seeded/$name"; mkdir -p "$d"; cp "$patch" "$d/patch.diff"; cp "$demo" "$d/demo_test.go"; [ -f "$meta" ] && cp "$meta" "$d/agent_notes.txt"
  python3 - "$name" "$prop" "$dir" "$tests" "$suite" "$with" "$without" "${caught# }" "$d" <<'PY'
import json,sys
name,prop,dir_,tests,suite,w,wo,caught,d=sys.argv[1:]
notes=open(d+'/agent_notes.txt').read() if __import__('os').path.exists(d+'/agent_notes.txt') else ''
json.dump({"name":name,"breaks_property":prop,"demo_dir":dir_,"demo_tests":tests.split('|'),
 "confirmed":{"builds":True,"suite":suite,"demo_with_change_exit":int(w),"demo_without_change_exit":int(wo)},
 "what_i_ran":["patch -p1 < patch.diff on a scratch copy of /repo","go build ./...","tools/suite.sh <copy> (compare with BASELINE stable_pass)","go test -run '^(%s)$' ./%s/ with the change (must fail) and on the unchanged tree (must pass)"%(tests,dir_),"bin/sfwverif -repo <copy> <every claimed property>"],
 "caught_by_checks":caught.split(),"origin":"independent sub-agent given only the property text and a scratch worktree","needs_to_manifest":notes[:1500]},open(d+'/meta.json','w'),indent=1)
PY
else
  echo "$name: NOT CONFIRMED (kept out of /verif/seeded)"; tail -5 "$tmp/demo_with.log" "$tmp/demo_without.log" | cut -c1-200
fi
rm -rf "$tmp"
